From Coq Require Import ZArith NArith List FMapPositive.
Import ListNotations.
Open Scope Z_scope.
Module PM := PositiveMap.
Record arr := { alen : N; adata : PM.t Z }.
Definition key (i : N) : positive := N.succ_pos i.
Definition get (a : arr) (i : N) : option Z := if (i <? alen a)%N then Some (match PM.find (key i) (adata a) with Some v => v | None => 0 end) else None.
Definition set (a : arr) (i : N) (v : Z) : option arr := if (i <? alen a)%N then Some {| alen := alen a; adata := PM.add (key i) v (adata a) |} else None.
Definition make (n : N) : arr := {| alen := n; adata := PM.empty Z |}.
Fixpoint loop (n : nat) (a : arr) (i : N) : arr :=
  match n with O => a | S n =>
    match get a i with
    | Some v => match set a i (v + 1) with Some a' => loop n a' ((i * 7 + 1) mod alen a)%N | None => a end
    | None => a end end.
Definition run (n len : Z) : Z :=
  let a := loop (Z.to_nat n) (make (Z.to_N len)) 0%N in
  PM.fold (fun _ v acc => acc + v) (adata a) 0.
Require Extraction. Require Import ExtrOcamlBasic.
Extraction "a.ml" run.
