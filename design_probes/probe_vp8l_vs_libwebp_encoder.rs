use std::io::Cursor;
fn encode_ll(w: i32, h: i32, rgba: &[u8], q: f32, method: i32, exact: i32) -> Vec<u8> {
    unsafe {
        let mut cfg: libwebp_sys::WebPConfig = std::mem::zeroed();
        libwebp_sys::WebPConfigInitInternal(&mut cfg, libwebp_sys::WebPPreset::WEBP_PRESET_DEFAULT, q, libwebp_sys::WEBP_ENCODER_ABI_VERSION as i32);
        cfg.lossless = 1; cfg.method = method; cfg.exact = exact;
        assert!(libwebp_sys::WebPValidateConfig(&cfg) != 0);
        let mut pic: libwebp_sys::WebPPicture = std::mem::zeroed();
        libwebp_sys::WebPPictureInitInternal(&mut pic, libwebp_sys::WEBP_ENCODER_ABI_VERSION as i32);
        pic.width = w; pic.height = h; pic.use_argb = 1;
        libwebp_sys::WebPPictureImportRGBA(&mut pic, rgba.as_ptr(), w * 4);
        let mut wr: libwebp_sys::WebPMemoryWriter = std::mem::zeroed();
        libwebp_sys::WebPMemoryWriterInit(&mut wr);
        pic.writer = Some(libwebp_sys::WebPMemoryWrite);
        pic.custom_ptr = &mut wr as *mut _ as *mut std::ffi::c_void;
        assert!(libwebp_sys::WebPEncode(&cfg, &mut pic) != 0);
        let f = std::slice::from_raw_parts(wr.mem, wr.size).to_vec();
        libwebp_sys::WebPPictureFree(&mut pic);
        f
    }
}
fn main() {
    let mut st = 4242u64;
    let mut rnd = move |n: u64| { st = st.wrapping_mul(6364136223846793005).wrapping_add(1442695040888963407); (st >> 33) % n };
    let (mut bad, mut tot) = (0, 0);
    for it in 0..2500 {
        let (w, h) = match rnd(5) { 0 => (1 + rnd(4) as i32, 1 + rnd(200) as i32), 1 => (1 + rnd(200) as i32, 1 + rnd(4) as i32), _ => (1 + rnd(90) as i32, 1 + rnd(90) as i32) };
        let n = (w * h) as usize;
        let style = rnd(8); let ncol = [1, 2, 3, 4, 5, 16, 17, 200][rnd(8) as usize];
        let pal: Vec<[u8; 4]> = (0..ncol).map(|_| [rnd(256) as u8, rnd(256) as u8, rnd(256) as u8, if rnd(2) == 0 { 255 } else { rnd(256) as u8 }]).collect();
        let mut rgba = vec![0u8; n * 4];
        for i in 0..n {
            let (x, y) = (i % w as usize, i / w as usize);
            let p: [u8; 4] = match style {
                0 => [rnd(256) as u8, rnd(256) as u8, rnd(256) as u8, rnd(256) as u8],
                1 => pal[rnd(ncol as u64) as usize],
                2 => pal[(x / 3 + y / 2) % ncol],
                3 => [(x * 3) as u8, (y * 5) as u8, (x + y) as u8, 255],
                4 => [(x * 3 + rnd(3) as usize) as u8, (y * 5) as u8, (x ^ y) as u8, (255 - x) as u8],
                5 => if rnd(20) == 0 { pal[rnd(ncol as u64) as usize] } else if i > 0 { [rgba[i * 4 - 4], rgba[i * 4 - 3], rgba[i * 4 - 2], rgba[i * 4 - 1]] } else { pal[0] },
                6 => if y > 0 && rnd(4) != 0 { let j = (i - w as usize) * 4; [rgba[j], rgba[j + 1], rgba[j + 2], rgba[j + 3]] } else { pal[rnd(ncol as u64) as usize] },
                _ => [200, (x % 7 * 30) as u8, 10, 255],
            };
            rgba[i * 4..][..4].copy_from_slice(&p);
        }
        let f = encode_ll(w, h, &rgba, rnd(101) as f32, rnd(7) as i32, 1);
        let (mut ww, mut hh) = (0i32, 0i32);
        let q = unsafe { libwebp_sys::WebPDecodeRGBA(f.as_ptr(), f.len(), &mut ww, &mut hh) };
        let lw = unsafe { std::slice::from_raw_parts(q, (ww * hh * 4) as usize) }.to_vec();
        assert_eq!(lw, rgba);
        tot += 1;
        let ok = match image_webp::WebPDecoder::new(Cursor::new(&f)) {
            Ok(mut d) => { let mut buf = vec![0xa5u8; d.output_buffer_size().unwrap()]; let r = d.read_image(&mut buf);
                r.is_ok() && if d.has_alpha() { buf == rgba } else { buf.chunks(3).zip(rgba.chunks(4)).all(|(a, b)| a == &b[..3]) } }
            Err(_) => false };
        if !ok { bad += 1; if bad < 10 { println!("MISMATCH it={it} {w}x{h} style={style} ncol={ncol} file={} bytes", f.len()); } }
    }
    println!("total {tot} mismatching {bad}");
}
