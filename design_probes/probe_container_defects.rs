// Design-phase probe (not part of the framework): hand-muxed animations for F10, F12, F13, F15 and the
// VP8X-alpha-flag-without-ALPH case (F18) of DESIGN.md §8. Needs only the public API + libwebp-sys.
// Results on the unchanged tree:
//   F10: panic "index out of bounds: the len is 16 but the index is 16" at decoder.rs:799
//   F13: background pixel = [10,20,30,255] for ANIM bytes B=10,G=20,R=30,A=255 (container order is BGRA)
//   F12b: lossy frame after a disposed 4x4 frame: (0,0)=[10,20,30,10] (1,0)=[20,30,10,20] (3,3)=[255,0,0,255]
//   F18: VP8X alpha flag + "VP8 " + no ALPH: ours Err(ChunkMissing) with the buffer partly written; libwebp OK (alpha 255)
use std::io::Cursor;
fn chunk(name: &[u8; 4], data: &[u8]) -> Vec<u8> { let mut v = name.to_vec(); v.extend_from_slice(&(data.len() as u32).to_le_bytes()); v.extend_from_slice(data); if data.len() & 1 == 1 { v.push(0); } v }
fn u24(v: u32) -> [u8; 3] { [v as u8, (v >> 8) as u8, (v >> 16) as u8] }
fn vp8_payload(w: i32, h: i32, seed: u8) -> Vec<u8> {
    let rgb: Vec<u8> = (0..(w * h * 3) as usize).map(|i| (i as u8).wrapping_mul(37).wrapping_add(seed)).collect();
    let mut out: *mut u8 = std::ptr::null_mut();
    let n = unsafe { libwebp_sys::WebPEncodeRGB(rgb.as_ptr(), w, h, w * 3, 50.0, &mut out) };
    let f = unsafe { std::slice::from_raw_parts(out, n) }.to_vec();
    let pos = f.windows(4).position(|x| x == b"VP8 ").unwrap();
    let sz = u32::from_le_bytes(f[pos + 4..pos + 8].try_into().unwrap()) as usize;
    f[pos + 8..pos + 8 + sz].to_vec()
}
fn riff(chunks: &[Vec<u8>]) -> Vec<u8> { let body: Vec<u8> = chunks.concat(); let mut f = b"RIFF".to_vec(); f.extend_from_slice(&((body.len() + 4) as u32).to_le_bytes()); f.extend_from_slice(b"WEBP"); f.extend_from_slice(&body); f }
fn vp8x(flags: u8, w: u32, h: u32) -> Vec<u8> { let mut d = vec![flags, 0, 0, 0]; d.extend_from_slice(&u24(w - 1)); d.extend_from_slice(&u24(h - 1)); chunk(b"VP8X", &d) }
fn anmf(x: u32, y: u32, w: u32, h: u32, dur: u32, flags: u8, sub: &[Vec<u8>]) -> Vec<u8> {
    let mut d = vec![]; d.extend_from_slice(&u24(x / 2)); d.extend_from_slice(&u24(y / 2)); d.extend_from_slice(&u24(w - 1)); d.extend_from_slice(&u24(h - 1)); d.extend_from_slice(&u24(dur)); d.push(flags);
    d.extend_from_slice(&sub.concat()); chunk(b"ANMF", &d)
}
fn vp8l_solid(w: u32, h: u32, rgba: [u8; 4]) -> Vec<u8> {
    let mut out = Vec::new();
    let img: Vec<u8> = (0..w * h).flat_map(|_| rgba).collect();
    image_webp::WebPEncoder::new(&mut out).encode(&img, w, h, image_webp::ColorType::Rgba8).unwrap();
    let pos = out.windows(4).position(|x| x == b"VP8L").unwrap();
    let sz = u32::from_le_bytes(out[pos + 4..pos + 8].try_into().unwrap()) as usize;
    out[pos + 8..pos + 8 + sz].to_vec()
}
fn px(buf: &[u8], w: u32, x: u32, y: u32) -> &[u8] { &buf[((y * w + x) * 4) as usize..][..4] }
fn main() {
    // F10: ALPH + VP8 frame with mismatching size
    {
        let mut alph = vec![0u8]; alph.extend(std::iter::repeat(200u8).take(16));
        let f = riff(&[vp8x(0x12, 8, 8), chunk(b"ANIM", &[0, 0, 0, 0, 0, 0]), anmf(0, 0, 4, 4, 100, 0, &[chunk(b"ALPH", &alph), chunk(b"VP8 ", &vp8_payload(8, 8, 1))])]);
        let r = std::panic::catch_unwind(|| {
            let mut d = image_webp::WebPDecoder::new(Cursor::new(&f)).map_err(|e| e.to_string())?;
            let mut buf = vec![0u8; d.output_buffer_size().unwrap()];
            d.read_frame(&mut buf).map_err(|e| e.to_string())
        });
        println!("F10: {:?}", r.map_err(|_| "PANIC"));
    }
    // F13 + F12 + F15
    {
        let bg = [10u8, 20, 30, 255];
        let f = riff(&[vp8x(0x12, 8, 8), chunk(b"ANIM", &[bg[0], bg[1], bg[2], bg[3], 0, 0]),
            anmf(0, 0, 4, 4, 100, 0b11, &[chunk(b"VP8L", &vp8l_solid(4, 4, [255, 0, 0, 255]))]),
            anmf(4, 4, 2, 2, 100, 0b10, &[chunk(b"VP8L", &vp8l_solid(2, 2, [0, 255, 0, 255]))])]);
        let mut d = image_webp::WebPDecoder::new(Cursor::new(&f)).unwrap();
        let mut b1 = vec![0u8; 256]; let mut b2 = vec![0u8; 256];
        d.read_frame(&mut b1).unwrap(); d.read_frame(&mut b2).unwrap();
        println!("F13 frame1 bg pixel (7,7) = {:?} (container says R=30,G=20,B=10 -> [30,20,10,255])", px(&b1, 8, 7, 7));
        println!("F12 frame2 (0,0) = {:?} (frame1 disposed -> background), (4,4) = {:?}", px(&b2, 8, 0, 0), px(&b2, 8, 4, 4));
        d.reset_animation();
        let mut c1 = vec![0u8; 256]; d.read_frame(&mut c1).unwrap();
        println!("F15 (2 frames are not enough to show it) after reset frame1 == first pass frame1: {}", c1 == b1);
    }
    // F12 variant: lossy (no alpha) second frame after disposed first frame
    {
        let f = riff(&[vp8x(0x12, 16, 16), chunk(b"ANIM", &[10, 20, 30, 255, 0, 0]),
            anmf(0, 0, 4, 4, 100, 0b11, &[chunk(b"VP8L", &vp8l_solid(4, 4, [255, 0, 0, 255]))]),
            anmf(8, 8, 8, 8, 100, 0b10, &[chunk(b"VP8 ", &vp8_payload(8, 8, 3))])]);
        let mut d = image_webp::WebPDecoder::new(Cursor::new(&f)).unwrap();
        let mut b1 = vec![0u8; 1024]; let mut b2 = vec![0u8; 1024];
        d.read_frame(&mut b1).unwrap();
        let r = std::panic::catch_unwind(std::panic::AssertUnwindSafe(|| d.read_frame(&mut b2).map_err(|e| e.to_string())));
        println!("F12b lossy second frame: {:?}; (0,0)={:?} (1,0)={:?} (3,3)={:?} (5,0)={:?}", r.map_err(|_| "PANIC"), px(&b2, 16, 0, 0), px(&b2, 16, 1, 0), px(&b2, 16, 3, 3), px(&b2, 16, 5, 0));
    }
    // F18: VP8X alpha flag, "VP8 " payload, no ALPH
    {
        let p = vp8_payload(6, 5, 3);
        for (name, f) in [("simple", riff(&[chunk(b"VP8 ", &p)])), ("vp8x noalpha", riff(&[vp8x(0, 6, 5), chunk(b"VP8 ", &p)])), ("vp8x alpha-flag no ALPH", riff(&[vp8x(0x10, 6, 5), chunk(b"VP8 ", &p)]))] {
            let (mut w, mut h) = (0i32, 0i32);
            let q = unsafe { libwebp_sys::WebPDecodeRGBA(f.as_ptr(), f.len(), &mut w, &mut h) };
            let mut d = image_webp::WebPDecoder::new(Cursor::new(&f)).unwrap();
            let mut buf = vec![0x11u8; d.output_buffer_size().unwrap()];
            let r = d.read_image(&mut buf);
            println!("{name}: ours has_alpha={} read_image={:?} buf[0..8]={:?} | libwebp ok={}", d.has_alpha(), r.map_err(|e| e.to_string()), &buf[..8], !q.is_null());
        }
    }
}
