import itertools, random
# implementation model (cold path semantics; fast path is equivalent by design - to be proven)
class Impl:
    def __init__(s, data):
        n=len(data); full=n//4
        s.chunks=[data[4*i:4*i+4] for i in range(full)]
        s.final=list(data[4*full:])+[0]*(3-(n-4*full)); s.rem=n-4*full
        s.ci=0; s.value=0; s.range=255; s.bc=-8; s.EOF=-14; s.shifts=0; s.need_log=[]
    def past(s): return s.rem==s.EOF
    def bit(s,p):
        s.need_log.append(s.shifts)
        if s.bc<0:
            if s.ci<len(s.chunks):
                c=s.chunks[s.ci]; v=int.from_bytes(bytes(c),'big'); s.ci+=1; s.value=((s.value<<32)|v)&(2**64-1); s.bc+=32
            else:
                if s.rem>=1:
                    s.rem-=1; b=s.final[0]; s.final=s.final[1:]+s.final[:1]; s.value=((s.value<<8)|b)&(2**64-1); s.bc+=8
                elif s.rem==0:
                    s.rem-=1; s.value=(s.value<<8)&(2**64-1); s.bc+=8
                else:
                    s.rem=s.EOF
                if s.past(): return False
        assert s.bc>=0
        split=1+(((s.range-1)*p)>>8); big=split<<s.bc
        if s.value>=big: s.range-=split; s.value-=big; r=True
        else: s.range=split; r=False
        lz=(32-s.range.bit_length()); shift=max(lz-24,0)
        s.range<<=shift; s.bc-=shift; s.shifts+=shift
        assert s.range>=128
        return r
# RFC 6386 section 7 reference
class Ref:
    def __init__(s,data):
        s.data=data; s.pos=0; s.value=0
        for _ in range(2): s.value=(s.value<<8)|s.nb()
        s.range=255; s.bit_count=0; s.shifts=0
    def nb(s):
        b=s.data[s.pos] if s.pos<len(s.data) else 0; s.pos+=1; return b
    def bit(s,p):
        split=1+(((s.range-1)*p)>>8); SPLIT=split<<8
        if s.value>=SPLIT: r=True; s.range-=split; s.value-=SPLIT
        else: r=False; s.range=split
        while s.range<128:
            s.value<<=1; s.range<<=1; s.shifts+=1; s.bit_count+=1
            if s.bit_count==8: s.bit_count=0; s.value|=s.nb()
        return r
def run(data,probs):
    a=Impl(data); b=Ref(data); outs=[]; 
    for i,p in enumerate(probs):
        S=b.shifts  # shift count before this request (ref side)
        need=(S+7)//8+1  # bytes needed by the request
        x=a.bit(p)
        if a.past():
            # EOF must be exactly when need > len+1 for this or an earlier request
            return ('eof',i,need)
        y=b.bit(p)
        assert a.shifts==b.shifts
        assert need<=len(data)+1, (data,probs,i,need)
        assert x==y,(data,probs,i)
    return ('ok',len(probs),None)
random.seed(1)
cnt=0; eofs=0
for n in range(0,4):
    for data in itertools.product(range(0,256,17 if n==3 else 5),repeat=n):
        for t in range(6):
            probs=[random.choice([1,10,128,128,128,200,250,255]) for _ in range(random.randint(0,60))]
            r=run(list(data),probs); cnt+=1
            if r[0]=='eof':
                eofs+=1; assert r[2]>len(data)+1,(data,probs,r)
for t in range(20000):
    n=random.randint(0,12); data=[random.randrange(256) for _ in range(n)]
    probs=[random.choice([1,3,10,128,128,128,200,250,255,random.randrange(1,256)]) for _ in range(random.randint(0,200))]
    r=run(data,probs); cnt+=1
    if r[0]=='eof': eofs+=1; assert r[2]>len(data)+1,(data,probs,r)
print("cases",cnt,"eofs",eofs,"all consistent")
