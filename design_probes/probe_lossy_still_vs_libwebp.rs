use std::io::Cursor;
fn encode(w: i32, h: i32, seed: u32, q: f32, cfgmod: impl Fn(&mut libwebp_sys::WebPConfig)) -> Vec<u8> {
    unsafe {
        let mut cfg: libwebp_sys::WebPConfig = std::mem::zeroed();
        libwebp_sys::WebPConfigInitInternal(&mut cfg, libwebp_sys::WebPPreset::WEBP_PRESET_DEFAULT, q, libwebp_sys::WEBP_ENCODER_ABI_VERSION as i32);
        cfgmod(&mut cfg);
        assert!(libwebp_sys::WebPValidateConfig(&cfg) != 0);
        let mut pic: libwebp_sys::WebPPicture = std::mem::zeroed();
        libwebp_sys::WebPPictureInitInternal(&mut pic, libwebp_sys::WEBP_ENCODER_ABI_VERSION as i32);
        pic.width = w; pic.height = h;
        let mut s = seed;
        let rgb: Vec<u8> = (0..(w * h * 3) as usize).map(|i| { s = s.wrapping_mul(1664525).wrapping_add(1013904223); let base = ((i / 3) as i32 % w * 255 / w.max(1)) as u32; ((base + (s >> 28)) & 255) as u8 }).collect();
        libwebp_sys::WebPPictureImportRGB(&mut pic, rgb.as_ptr(), w * 3);
        let mut wr: libwebp_sys::WebPMemoryWriter = std::mem::zeroed();
        libwebp_sys::WebPMemoryWriterInit(&mut wr);
        pic.writer = Some(libwebp_sys::WebPMemoryWrite);
        pic.custom_ptr = &mut wr as *mut _ as *mut std::ffi::c_void;
        assert!(libwebp_sys::WebPEncode(&cfg, &mut pic) != 0);
        let f = std::slice::from_raw_parts(wr.mem, wr.size).to_vec();
        libwebp_sys::WebPPictureFree(&mut pic);
        f
    }
}
fn vp8_chunk(f: &[u8]) -> Vec<u8> { let pos = f.windows(4).position(|x| x == b"VP8 ").unwrap(); let sz = u32::from_le_bytes(f[pos + 4..pos + 8].try_into().unwrap()) as usize; f[pos + 8..pos + 8 + sz].to_vec() }
fn ref_yuv(f: &[u8]) -> (Vec<u8>, Vec<u8>, Vec<u8>, i32, i32) {
    unsafe {
        let (mut w, mut h) = (0i32, 0i32); let (mut u, mut v): (*mut u8, *mut u8) = (std::ptr::null_mut(), std::ptr::null_mut()); let (mut st, mut uvst) = (0i32, 0i32);
        let y = libwebp_sys::WebPDecodeYUV(f.as_ptr(), f.len(), &mut w, &mut h, &mut u, &mut v, &mut st, &mut uvst);
        assert!(!y.is_null());
        let (cw, ch) = ((w + 1) / 2, (h + 1) / 2);
        let mut yy = vec![]; for r in 0..h { yy.extend_from_slice(std::slice::from_raw_parts(y.offset((r * st) as isize), w as usize)); }
        let mut uu = vec![]; let mut vv = vec![];
        for r in 0..ch { uu.extend_from_slice(std::slice::from_raw_parts(u.offset((r * uvst) as isize), cw as usize)); vv.extend_from_slice(std::slice::from_raw_parts(v.offset((r * uvst) as isize), cw as usize)); }
        (yy, uu, vv, w, h)
    }
}
fn diffs(a: &[u8], b: &[u8]) -> usize { a.iter().zip(b).filter(|(x, y)| x != y).count() + a.len().abs_diff(b.len()) }
fn encode_rgba(w: i32, h: i32, seed: u32, q: f32, cfgmod: impl Fn(&mut libwebp_sys::WebPConfig)) -> Vec<u8> {
    unsafe {
        let mut cfg: libwebp_sys::WebPConfig = std::mem::zeroed();
        libwebp_sys::WebPConfigInitInternal(&mut cfg, libwebp_sys::WebPPreset::WEBP_PRESET_DEFAULT, q, libwebp_sys::WEBP_ENCODER_ABI_VERSION as i32);
        cfgmod(&mut cfg);
        assert!(libwebp_sys::WebPValidateConfig(&cfg) != 0);
        let mut pic: libwebp_sys::WebPPicture = std::mem::zeroed();
        libwebp_sys::WebPPictureInitInternal(&mut pic, libwebp_sys::WEBP_ENCODER_ABI_VERSION as i32);
        pic.width = w; pic.height = h;
        let mut s = seed;
        let rgba: Vec<u8> = (0..(w * h * 4) as usize).map(|i| { s = s.wrapping_mul(1664525).wrapping_add(1013904223); if i % 4 == 3 { ((i / 4) as u32 * 7 + (s >> 29)) as u8 } else { ((i as u32 / 4 * 3) + (s >> 28)) as u8 } }).collect();
        libwebp_sys::WebPPictureImportRGBA(&mut pic, rgba.as_ptr(), w * 4);
        let mut wr: libwebp_sys::WebPMemoryWriter = std::mem::zeroed();
        libwebp_sys::WebPMemoryWriterInit(&mut wr);
        pic.writer = Some(libwebp_sys::WebPMemoryWrite);
        pic.custom_ptr = &mut wr as *mut _ as *mut std::ffi::c_void;
        assert!(libwebp_sys::WebPEncode(&cfg, &mut pic) != 0);
        let f = std::slice::from_raw_parts(wr.mem, wr.size).to_vec();
        libwebp_sys::WebPPictureFree(&mut pic);
        f
    }
}
fn ref_rgba_nofancy(f: &[u8], alpha: bool) -> Vec<u8> {
    unsafe {
        let mut cfg: libwebp_sys::WebPDecoderConfig = std::mem::zeroed();
        assert!(libwebp_sys::WebPInitDecoderConfigInternal(&mut cfg, libwebp_sys::WEBP_DECODER_ABI_VERSION as i32) != 0);
        cfg.options.no_fancy_upsampling = 1;
        cfg.output.colorspace = if alpha { libwebp_sys::WEBP_CSP_MODE::MODE_RGBA } else { libwebp_sys::WEBP_CSP_MODE::MODE_RGB };
        let st = libwebp_sys::WebPDecode(f.as_ptr(), f.len(), &mut cfg);
        assert!(st == libwebp_sys::VP8StatusCode::VP8_STATUS_OK, "{:?}", st);
        let b = cfg.output.u.RGBA;
        let bpp = if alpha { 4 } else { 3 };
        let mut out = vec![];
        for r in 0..cfg.output.height { out.extend_from_slice(std::slice::from_raw_parts(b.rgba.offset((r * b.stride) as isize), (cfg.output.width * bpp) as usize)); }
        out
    }
}
fn main() {
    let mut st = 777u64;
    let mut rnd = move |n: u64| { st = st.wrapping_mul(6364136223846793005).wrapping_add(1442695040888963407); (st >> 33) % n };
    let (mut bad, mut tot) = (0, 0);
    for it in 0..600 {
        let w = 1 + rnd(40) as i32; let h = 1 + rnd(40) as i32; let q = rnd(101) as f32;
        let alpha = rnd(2) == 1;
        let (af, ac, aq) = (rnd(3) as i32, rnd(2) as i32, rnd(101) as i32);
        let f = if alpha { encode_rgba(w, h, it as u32, q, |c| { c.alpha_filtering = af; c.alpha_compression = ac; c.alpha_quality = aq; }) } else { encode(w, h, it as u32, q, |_| {}) };
        let r = ref_rgba_nofancy(&f, alpha);
        let mut d = image_webp::WebPDecoder::new(Cursor::new(&f)).unwrap();
        let mut buf = vec![0x5au8; d.output_buffer_size().unwrap()];
        let res = d.read_image(&mut buf);
        tot += 1;
        if res.is_err() || d.has_alpha() != alpha || buf != r { bad += 1; if bad < 10 { println!("MISMATCH it={it} {w}x{h} alpha={alpha} af={af} ac={ac} aq={aq} res={:?} has_alpha={} diffs={}", res.map_err(|e| e.to_string()), d.has_alpha(), diffs(&buf, &r)); } }
    }
    println!("total {tot} mismatching {bad}");
}
