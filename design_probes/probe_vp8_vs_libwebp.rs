use std::io::Cursor;
fn encode(w: i32, h: i32, seed: u32, q: f32, cfgmod: impl Fn(&mut libwebp_sys::WebPConfig)) -> Vec<u8> {
    unsafe {
        let mut cfg: libwebp_sys::WebPConfig = std::mem::zeroed();
        libwebp_sys::WebPConfigInitInternal(&mut cfg, libwebp_sys::WebPPreset::WEBP_PRESET_DEFAULT, q, libwebp_sys::WEBP_ENCODER_ABI_VERSION as i32);
        cfgmod(&mut cfg);
        assert!(libwebp_sys::WebPValidateConfig(&cfg) != 0);
        let mut pic: libwebp_sys::WebPPicture = std::mem::zeroed();
        libwebp_sys::WebPPictureInitInternal(&mut pic, libwebp_sys::WEBP_ENCODER_ABI_VERSION as i32);
        pic.width = w; pic.height = h;
        let mut s = seed;
        let rgb: Vec<u8> = (0..(w * h * 3) as usize).map(|i| { s = s.wrapping_mul(1664525).wrapping_add(1013904223); let base = ((i / 3) as i32 % w * 255 / w.max(1)) as u32; ((base + (s >> 28)) & 255) as u8 }).collect();
        libwebp_sys::WebPPictureImportRGB(&mut pic, rgb.as_ptr(), w * 3);
        let mut wr: libwebp_sys::WebPMemoryWriter = std::mem::zeroed();
        libwebp_sys::WebPMemoryWriterInit(&mut wr);
        pic.writer = Some(libwebp_sys::WebPMemoryWrite);
        pic.custom_ptr = &mut wr as *mut _ as *mut std::ffi::c_void;
        assert!(libwebp_sys::WebPEncode(&cfg, &mut pic) != 0);
        let f = std::slice::from_raw_parts(wr.mem, wr.size).to_vec();
        libwebp_sys::WebPPictureFree(&mut pic);
        f
    }
}
fn vp8_chunk(f: &[u8]) -> Vec<u8> { let pos = f.windows(4).position(|x| x == b"VP8 ").unwrap(); let sz = u32::from_le_bytes(f[pos + 4..pos + 8].try_into().unwrap()) as usize; f[pos + 8..pos + 8 + sz].to_vec() }
fn ref_yuv(f: &[u8]) -> (Vec<u8>, Vec<u8>, Vec<u8>, i32, i32) {
    unsafe {
        let (mut w, mut h) = (0i32, 0i32); let (mut u, mut v): (*mut u8, *mut u8) = (std::ptr::null_mut(), std::ptr::null_mut()); let (mut st, mut uvst) = (0i32, 0i32);
        let y = libwebp_sys::WebPDecodeYUV(f.as_ptr(), f.len(), &mut w, &mut h, &mut u, &mut v, &mut st, &mut uvst);
        assert!(!y.is_null());
        let (cw, ch) = ((w + 1) / 2, (h + 1) / 2);
        let mut yy = vec![]; for r in 0..h { yy.extend_from_slice(std::slice::from_raw_parts(y.offset((r * st) as isize), w as usize)); }
        let mut uu = vec![]; let mut vv = vec![];
        for r in 0..ch { uu.extend_from_slice(std::slice::from_raw_parts(u.offset((r * uvst) as isize), cw as usize)); vv.extend_from_slice(std::slice::from_raw_parts(v.offset((r * uvst) as isize), cw as usize)); }
        (yy, uu, vv, w, h)
    }
}
fn diffs(a: &[u8], b: &[u8]) -> usize { a.iter().zip(b).filter(|(x, y)| x != y).count() + a.len().abs_diff(b.len()) }
fn main() {
    let mut st = 12345u64;
    let mut rnd = move |n: u64| { st = st.wrapping_mul(6364136223846793005).wrapping_add(1442695040888963407); (st >> 33) % n };
    let (mut bad, mut tot) = (0, 0);
    for it in 0..1500 {
        let w = 1 + rnd(80) as i32; let h = 1 + rnd(80) as i32; let q = rnd(101) as f32;
        let (fs, sh, ft, seg, part, sns, meth) = (rnd(101) as i32, rnd(8) as i32, rnd(2) as i32, 1 + rnd(4) as i32, rnd(4) as i32, rnd(101) as i32, rnd(7) as i32);
        let f = encode(w, h, it as u32, q, |c| { c.filter_strength = fs; c.filter_sharpness = sh; c.filter_type = ft; c.segments = seg; c.partitions = part; c.sns_strength = sns; c.method = meth; });
        let (ry, ru, rv, _, _) = ref_yuv(&f);
        let fr = image_webp::vp8::Vp8Decoder::decode_frame(Cursor::new(vp8_chunk(&f))).unwrap();
        let d = diffs(&fr.ybuf, &ry) + diffs(&fr.ubuf, &ru) + diffs(&fr.vbuf, &rv);
        tot += 1;
        if d != 0 { bad += 1; if bad < 10 { println!("MISMATCH it={it} {w}x{h} q={q} fs={fs} sh={sh} ft={ft} seg={seg} part={part} sns={sns} m={meth}: {d} diffs"); } }
    }
    println!("total {tot} mismatching {bad}");
}
