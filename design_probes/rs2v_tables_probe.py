#!/usr/bin/env python3
"""Design-phase probe (not the framework): can the constant tables of /repo/src be lifted
mechanically into Gallina?  Usage: rs2v_tables_probe.py <src-dir> > Tables.v"""
import re, sys, pathlib

def strip_comments(s):
    s = re.sub(r'//[^\n]*', '', s)
    return re.sub(r'/\*.*?\*/', '', s, flags=re.S)

def scalar_consts(src):
    env = {}
    for m in re.finditer(r'\b(?:const|static)\s+([A-Z_][A-Z0-9_]*)\s*:\s*(?:u8|u16|u32|u64|usize|i8|i16|i32|i64)\s*=\s*([^;]+);', src):
        env[m.group(1)] = m.group(2).strip()
    return env

def ev(expr, env, depth=0):
    e = expr.strip().replace('_', '') if re.fullmatch(r'[-0-9_xXa-fA-F\s]+', expr.strip()) else expr.strip()
    if re.fullmatch(r'-?\s*\d+', e): return int(e.replace(' ', ''))
    if re.fullmatch(r'0[xX][0-9a-fA-F]+', e): return int(e, 16)
    if e.startswith('-'): return -ev(e[1:], env, depth)
    if e in env and depth < 8: return ev(env[e], env, depth + 1)
    m = re.fullmatch(r'(.+?)\s*\+\s*(.+)', e)
    if m: return ev(m.group(1), env, depth) + ev(m.group(2), env, depth)
    raise ValueError('cannot evaluate %r' % expr)

def parse_array(txt, env):
    """txt starts at '[' ; returns (python nested list, rest)"""
    assert txt[0] == '['
    out, i, cur = [], 1, ''
    def flush():
        nonlocal cur
        c = cur.strip()
        if c:
            m = re.fullmatch(r'(.+);\s*(\w+)', c)          # [v; N]
            if m: out.extend([ev(m.group(1), env)] * ev(m.group(2), env))
            elif c.startswith('('):                        # tuple (a, b)
                out.append([ev(x, env) for x in c.strip('()').split(',')])
            else: out.append(ev(c, env))
        cur = ''
    while True:
        ch = txt[i]
        if ch == '[':
            sub, rest = parse_array(txt[i:], env); out.append(sub); i = len(txt) - len(rest); continue
        if ch == '(':
            j = txt.index(')', i); cur += txt[i:j + 1]; i = j + 1; continue
        if ch == ',': flush()
        elif ch == ']': flush(); return out, txt[i + 1:]
        else: cur += ch
        i += 1

def coq(v):
    if isinstance(v, list): return '[' + '; '.join(coq(x) for x in v) + ']'
    return str(v) if v >= 0 else '(%d)' % v

def main(srcdir):
    print('From Coq Require Import ZArith List. Import ListNotations. Open Scope Z_scope.')
    for f in sorted(pathlib.Path(srcdir).glob('*.rs')):
        src = strip_comments(f.read_text())
        env = scalar_consts(src)
        for name, val in env.items():
            try: print('Definition %s_%s : Z := %s.' % (f.stem, name, coq(ev(val, env))))
            except ValueError: pass
        for m in re.finditer(r'\b(?:const|static)\s+([A-Z_][A-Z0-9_]*)\s*:\s*(\[[^=]*\]|\w+)\s*=\s*\[', src):
            name = m.group(1)
            try:
                arr, _ = parse_array(src[m.end() - 1:], env)
            except (ValueError, AssertionError) as e:
                print('(* skipped %s.%s: %s *)' % (f.stem, name, e)); continue
            print('Definition %s_%s := %s.' % (f.stem, name, coq(arr)))

if __name__ == '__main__':
    main(sys.argv[1])
