use std::io::Cursor;
use image_webp::{ColorType, EncoderParams, WebPEncoder, WebPDecoder};
fn libwebp_rgba(f: &[u8]) -> Option<(Vec<u8>, i32, i32)> { let (mut w, mut h) = (0i32, 0i32); let p = unsafe { libwebp_sys::WebPDecodeRGBA(f.as_ptr(), f.len(), &mut w, &mut h) }; if p.is_null() { None } else { Some((unsafe { std::slice::from_raw_parts(p, (w * h * 4) as usize) }.to_vec(), w, h)) } }
fn expand(ct: ColorType, d: &[u8]) -> Vec<u8> { match ct { ColorType::L8 => d.iter().flat_map(|&p| [p, p, p, 255]).collect(), ColorType::La8 => d.chunks(2).flat_map(|p| [p[0], p[0], p[0], p[1]]).collect(), ColorType::Rgb8 => d.chunks(3).flat_map(|p| [p[0], p[1], p[2], 255]).collect(), ColorType::Rgba8 => d.to_vec() } }
fn main() {
    let mut st = 99u64;
    let mut rnd = move |n: u64| { st = st.wrapping_mul(6364136223846793005).wrapping_add(1442695040888963407); (st >> 33) % n };
    let cts = [ColorType::L8, ColorType::La8, ColorType::Rgb8, ColorType::Rgba8];
    let (mut bad, mut tot) = (0, 0);
    for it in 0..3000 {
        let ct = cts[rnd(4) as usize]; let bpp = [1, 2, 3, 4][cts.iter().position(|c| *c == ct).unwrap()];
        let (w, h) = match rnd(6) { 0 => (1, 1 + rnd(300) as u32), 1 => (1 + rnd(300) as u32, 1), 2 => (1 + rnd(8) as u32, 1 + rnd(8) as u32), _ => (1 + rnd(70) as u32, 1 + rnd(70) as u32) };
        let n = (w * h) as usize;
        let style = rnd(7);
        let mut fib = vec![]; { let (mut a, mut b) = (1u64, 1u64); for _ in 0..24 { fib.push(a); let c = a + b; a = b; b = c; } }
        let tot_f: u64 = fib.iter().sum();
        let mut data = vec![0u8; n * bpp];
        let mut px = vec![0u8; bpp];
        for i in 0..n {
            match style {
                0 => { for b in px.iter_mut() { *b = rnd(256) as u8; } }               // uniform
                1 => { if rnd(50) == 0 { for b in px.iter_mut() { *b = rnd(256) as u8; } } } // long runs
                2 => { for b in px.iter_mut() { *b = 7; } }                               // constant
                3 => { let mut r = rnd(tot_f); let mut k = 0; while r >= fib[23 - k] { r -= fib[23 - k]; k += 1; } for b in px.iter_mut() { *b = (k * 10) as u8; } } // fibonacci-skewed
                4 => { for b in px.iter_mut() { *b = if rnd(2) == 0 { 0 } else { 255 }; } } // two values
                5 => { for (j, b) in px.iter_mut().enumerate() { *b = ((i % w as usize) * (j + 1)) as u8; } } // gradient
                _ => { if rnd(3) == 0 { for b in px.iter_mut() { *b = rnd(4) as u8 * 60; } } }
            }
            data[i * bpp..][..bpp].copy_from_slice(&px);
        }
        let use_pred = rnd(2) == 0;
        let mut out = Vec::new();
        let mut e = WebPEncoder::new(&mut out);
        let mut params = EncoderParams::default(); params.use_predictor_transform = use_pred; e.set_params(params);
        let r = std::panic::catch_unwind(std::panic::AssertUnwindSafe(|| e.encode(&data, w, h, ct)));
        tot += 1;
        let exp = expand(ct, &data);
        let ok = match r {
            Ok(Ok(())) => {
                let lw = libwebp_rgba(&out);
                let mut d = WebPDecoder::new(Cursor::new(&out)).unwrap();
                let mut buf = vec![0u8; d.output_buffer_size().unwrap()];
                let own = d.read_image(&mut buf).is_ok() && (if d.has_alpha() { buf == exp } else { buf.chunks(3).zip(exp.chunks(4)).all(|(a, b)| a == &b[..3]) });
                let riff_ok = u32::from_le_bytes(out[4..8].try_into().unwrap()) as usize == out.len() - 8;
                lw.map(|(p, ww, hh)| p == exp && ww as u32 == w && hh as u32 == h).unwrap_or(false) && own && riff_ok
            }
            _ => false,
        };
        if !ok { bad += 1; if bad < 10 { println!("FAIL it={it} {w}x{h} {:?} style={style} pred={use_pred}", ct); } }
    }
    println!("total {tot} failing {bad}");
}
