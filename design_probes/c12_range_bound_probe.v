From Coq Require Import ZArith Lia List Bool.
Open Scope Z_scope.
(* model of the blend arithmetic (as the translator would emit it, minus wrappers) *)
Definition div255 (v : Z) : Z := Z.shiftr (Z.shiftr (v + 128) 8 + v + 128) 8.
Definition dfa (sa da : Z) := div255 (da * (255 - sa)).
Definition blend_a (sa da : Z) := sa + dfa sa da.
Definition scale (sa da : Z) := 16777216 / blend_a sa da.
Definition chan (sc sa dc da : Z) := Z.shiftr ((sc * sa + dc * dfa sa da) * scale sa da) 24.

(* certificate per (sa,da) *)
Definition cert (sa da : Z) : bool :=
  let b := dfa sa da in let A := blend_a sa da in let s := scale sa da in
  (1 <=? A) && (A <=? 255) && (0 <=? b) && (b <=? 255)
  && (16777216 - A <? s * A) && (s * A <=? 16777216)
  && (Z.abs (255 * b - da * (255 - sa)) <=? 127).
Fixpoint range (n : nat) (a : Z) : list Z := match n with O => nil | S n => a :: range n (a + 1) end.
Definition all_certs : bool :=
  forallb (fun sa => forallb (fun da => cert sa da) (range 256 0)) (range 254 1).
Lemma all_certs_ok : all_certs = true. Proof. vm_compute. reflexivity. Qed.

(* general lemma: range bound from certificate *)
Lemma chan_range sc sa dc da :
  0 <= sc <= 255 -> 0 <= dc <= 255 -> 1 <= sa <= 254 -> 0 <= da <= 255 ->
  cert sa da = true ->
  Z.min sc dc - 1 <= chan sc sa dc da <= Z.max sc dc.
Proof.
  intros Hsc Hdc Hsa Hda Hc. unfold cert in Hc.
  repeat (apply andb_prop in Hc; destruct Hc as [Hc ?]).
  unfold chan. rewrite Z.shiftr_div_pow2 by lia. change (2^24) with 16777216.
  set (b := dfa sa da) in *. set (s := scale sa da) in *.
  assert (HA : blend_a sa da = sa + b) by reflexivity. rewrite HA in *.
  set (A := sa + b) in *.
  set (x := sc * sa + dc * b).
  assert (Hlo : Z.min sc dc * A <= x) by (unfold x, A; nia).
  assert (Hhi : x <= Z.max sc dc * A) by (unfold x, A; nia).
  assert (0 <= x) by (unfold x; nia).
  split.
  - (* lower *)
    apply Z.div_le_lower_bound; [lia|].
    (* 2^24*(m-1) <= x*s ; have s*A > 2^24 - A, x >= m*A *)
    nia.
  - apply Z.div_le_upper_bound; [lia|]. nia.
Qed.
