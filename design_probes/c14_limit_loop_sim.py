import random, sys
def run(depths, L):
    cnt=[0]*(max(max(depths),L)+2)
    c=[0]*16
    for d in depths: c[min(d,L)]+=1
    tot=sum(c[i]<<(L-i) for i in range(1,L+1))
    it=0
    while tot>(1<<L):
        i=L-1
        while c[i]==0:
            i-=1
            if i<0: return 'UNDERFLOW_I'
        if i==0: return 'HIT_ZERO_LEVEL'
        c[i]-=1
        if c[L]==0: return 'UNDERFLOW_L'
        c[L]-=1
        c[i+1]+=2
        tot-=1; it+=1
    assert tot==(1<<L)
    return 'ok'
def rand_tree_depths(n):
    # random full binary tree by splitting random leaves
    leaves=[0]
    while len(leaves)<n:
        k=random.randrange(len(leaves)); d=leaves.pop(k); leaves+= [d+1,d+1]
    return leaves
def skew(n):  # caterpillar
    return list(range(1,n))+[n-1]
random.seed(3); bad={}
for L in range(2,9):
    for n in range(2,(1<<L)+1):
        trees=[skew(n)]+[rand_tree_depths(n) for _ in range(60)]
        # biased deep trees
        for _ in range(60):
            leaves=[0]
            while len(leaves)<n:
                k=max(range(len(leaves)),key=lambda j:(leaves[j]+random.random()*2)); d=leaves.pop(k); leaves+=[d+1,d+1]
            trees.append(leaves)
        for t in trees:
            if max(t)>L:
                r=run(t,L)
                if r!='ok': bad.setdefault(r,[]).append((L,n,sorted(t)))
print({k:(len(v),v[0]) for k,v in bad.items()} or "no underflow in any case")
