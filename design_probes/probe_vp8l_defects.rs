// Design-phase probe (not part of the framework). Hand-built VP8L streams for F2, F3, F4 of DESIGN.md §8,
// decoded by the crate (through a scratch `pub mod verif { pub fn vp8l(bytes,w,h) -> Result<Vec<u8>,String> }`
// wrapper around LosslessDecoder::decode_frame) and by libwebp 1.3.1 (libwebp-sys).
// Results on the unchanged tree:
//   F3 descending simple: ours=[0,200,0,255, 0,100,0,255] libwebp=[0,100,0,255, 0,200,0,255]
//   F2 cache (g=1): ours=[0,1,0,255, 0,0,0,0, 0,1,0,255, 0,1,0,255] libwebp=[0,1,0,255, 0,0,0,0, 0,0,0,0, 0,0,0,0]
//   F4 58-bit pad=2,3: ours=Err(Corrupt bitstream) libwebp ok; other pads equal
use image_webp::verif::*;

struct BW { out: Vec<u8>, acc: u64, n: u32 }
impl BW {
    fn new() -> Self { BW { out: vec![], acc: 0, n: 0 } }
    fn put(&mut self, v: u64, nb: u32) { // LSB-first
        for i in 0..nb { let b = (v >> i) & 1; self.acc |= b << self.n; self.n += 1; if self.n == 8 { self.out.push(self.acc as u8); self.acc = 0; self.n = 0; } }
    }
    fn finish(mut self) -> Vec<u8> { if self.n > 0 { self.out.push(self.acc as u8); } self.out }
}
// canonical codes (MSB-first code values) from lengths
fn canon(lens: &[u32]) -> Vec<u32> {
    let maxl = *lens.iter().max().unwrap();
    let mut codes = vec![0u32; lens.len()];
    let mut code = 0u32;
    for l in 1..=maxl { for (i, &li) in lens.iter().enumerate() { if li == l { codes[i] = code; code += 1; } } code <<= 1; }
    codes
}
fn put_code(w: &mut BW, code: u32, len: u32) { for i in (0..len).rev() { w.put(((code >> i) & 1) as u64, 1); } }
const ORDER: [usize; 19] = [17, 18, 0, 1, 2, 3, 4, 5, 16, 6, 7, 8, 9, 10, 11, 12, 13, 14, 15];
fn put_normal(w: &mut BW, lens: &[u32]) {
    let mut used = [false; 16];
    for &l in lens { used[l as usize] = true; }
    let k = used.iter().filter(|&&u| u).count();
    let mut cl = [0u32; 19];
    let syms: Vec<usize> = (0..16).filter(|&i| used[i]).collect();
    let mut ls = vec![0u32; k];
    if k == 1 { ls[0] = 1; } else {
        let mut d = 0; while (1usize << d) < k { d += 1; }
        let short = (1usize << d) - k;
        for i in 0..k { ls[i] = if i < short { d as u32 - 1 } else { d as u32 }; }
    }
    for (i, &s) in syms.iter().enumerate() { cl[s] = ls[i]; }
    let clcodes = canon(&cl);
    w.put(0, 1); // normal
    w.put(15, 4); // 19 code lengths
    for &o in ORDER.iter() { w.put(cl[o] as u64, 3); }
    w.put(0, 1); // max_symbol = alphabet size
    for &l in lens { if k > 1 { put_code(w, clcodes[l as usize], cl[l as usize]); } }
}
fn put_simple1(w: &mut BW, s: u32) { w.put(1, 1); w.put(0, 1); if s < 2 { w.put(0, 1); w.put(s as u64, 1); } else { w.put(1, 1); w.put(s as u64, 8); } }
fn put_simple2(w: &mut BW, s0: u32, s1: u32) { w.put(1, 1); w.put(1, 1); w.put(1, 1); w.put(s0 as u64, 8); w.put(s1 as u64, 8); }
fn header(w: &mut BW, width: u32, height: u32) { w.put(0x2f, 8); w.put((width - 1) as u64, 14); w.put((height - 1) as u64, 14); w.put(1, 1); w.put(0, 3); }
fn libwebp(bytes: &[u8]) -> Option<Vec<u8>> {
    let mut f = Vec::new();
    let padded = bytes.len() + (bytes.len() & 1);
    f.extend_from_slice(b"RIFF"); f.extend_from_slice(&((4 + 8 + padded) as u32).to_le_bytes()); f.extend_from_slice(b"WEBPVP8L");
    f.extend_from_slice(&(bytes.len() as u32).to_le_bytes()); f.extend_from_slice(bytes); if bytes.len() & 1 == 1 { f.push(0); }
    let (mut w, mut h) = (0i32, 0i32);
    let p = unsafe { libwebp_sys::WebPDecodeRGBA(f.as_ptr(), f.len(), &mut w, &mut h) };
    if p.is_null() { return None; }
    Some(unsafe { std::slice::from_raw_parts(p, (w * h * 4) as usize) }.to_vec())
}
fn report(name: &str, bytes: &[u8], w: u32, h: u32) {
    let ours = std::panic::catch_unwind(|| vp8l(bytes, w, h));
    let lw = libwebp(bytes);
    let same = match (&ours, &lw) { (Ok(Ok(a)), Some(b)) => a == b, _ => false };
    let show = |v: &Vec<u8>| if v.len() <= 32 { format!("{:?}", v) } else { format!("{} bytes", v.len()) };
    println!("{name}: ours={} libwebp={} same={same}",
        match &ours { Ok(Ok(a)) => show(a), Ok(Err(e)) => format!("Err({e})"), Err(_) => "PANIC".into() },
        match &lw { Some(b) => show(b), None => "reject".into() });
}
fn hash(argb: u32, bits: u32) -> u32 { 0x1e35a7bdu32.wrapping_mul(argb) >> (32 - bits) }
fn main() {
    // F3: descending simple code
    {
        let mut w = BW::new(); header(&mut w, 2, 1);
        w.put(0, 1); /* no transform */ w.put(0, 1); /* no cache */ w.put(0, 1); /* no meta */
        put_simple2(&mut w, 200, 100); put_simple1(&mut w, 0); put_simple1(&mut w, 0); put_simple1(&mut w, 255); put_simple1(&mut w, 0);
        w.put(0, 1); w.put(1, 1);
        report("F3 descending simple", &w.finish(), 2, 1);
        let mut w = BW::new(); header(&mut w, 2, 1);
        w.put(0, 1); w.put(0, 1); w.put(0, 1);
        put_simple2(&mut w, 77, 77); put_simple1(&mut w, 0); put_simple1(&mut w, 0); put_simple1(&mut w, 255); put_simple1(&mut w, 0);
        w.put(0, 1); w.put(1, 1);
        report("F3b equal simple", &w.finish(), 2, 1);
    }
    // F2: cache hit on never-written slot, cache bits 1
    {
        let mut g = 1u32; while hash(0xff000000 | (g << 8), 1) != 0 { g += 1; }
        let mut w = BW::new(); header(&mut w, 4, 1);
        w.put(0, 1); w.put(1, 1); w.put(1, 4); w.put(0, 1);
        let mut lens = vec![0u32; 282]; lens[g as usize] = 1; lens[280] = 2; lens[281] = 2;
        let codes = canon(&lens);
        put_normal(&mut w, &lens); put_simple1(&mut w, 0); put_simple1(&mut w, 0); put_simple1(&mut w, 255); put_simple1(&mut w, 0);
        for s in [g as usize, 281, 280, 280] { put_code(&mut w, codes[s], lens[s]); }
        report(&format!("F2 cache (g={g})"), &w.finish(), 4, 1);
    }
    // F4: 58-bit group, 8 alignments
    for pad in 0..8u32 {
        let (width, height) = (16384u32, 40u32);
        let total = (width * height) as usize;
        let mut w = BW::new(); header(&mut w, width, height);
        w.put(0, 1); w.put(0, 1); w.put(0, 1);
        let mut gl = vec![0u32; 280]; gl[5] = 1; gl[279] = 2; for (i, l) in (3..=14).enumerate() { gl[10 + i] = l; } gl[278] = 15; gl[30] = 15;
        let gc = canon(&gl);
        let mut dl = vec![0u32; 40]; dl[1] = 1; dl[2] = 2; for (i, l) in (3..=14).enumerate() { dl[3 + i] = l; } dl[38] = 15; dl[20] = 15;
        let dc = canon(&dl);
        put_normal(&mut w, &gl); put_simple1(&mut w, 0); put_simple1(&mut w, 0); put_simple1(&mut w, 255); put_normal(&mut w, &dl);
        let mut index = 0usize;
        for _ in 0..1 + pad { put_code(&mut w, gc[5], gl[5]); index += 1; }
        let run = |w: &mut BW, index: &mut usize| { put_code(w, gc[279], gl[279]); w.put(1023, 10); put_code(w, dc[1], dl[1]); *index += 4096; };
        while index < 524169 + 10 { run(&mut w, &mut index); }
        // the 58-bit token: length 2049, dist 524169
        put_code(&mut w, gc[278], gl[278]); w.put(0, 10); put_code(&mut w, dc[38], dl[38]); w.put(0, 18); index += 2049;
        while index + 4096 <= total { run(&mut w, &mut index); }
        while index < total { put_code(&mut w, gc[5], gl[5]); index += 1; }
        report(&format!("F4 58-bit pad={pad}"), &w.finish(), width, height);
    }
}
