(* C05 / C11 / C06 glue: Model.ReadImage (read_image, the payload branches of read_frame) on top of Model.Container,
   Model.Lossless, Model.Yuv, Model.Alpha, Model.Anim, with Spec.VP8.decode as the VP8 frame decoder.
     rimg still  <buflen> <fill byte> <hex file>   WebPDecoder::new + read_image on a buffer of <buflen> bytes all <fill>
        -> NEWERR <variant>                                     (new failed)
         | OK <w> <h> <alpha 0|1> <anim 0|1> <pixels>           pixels: hex, or H<fnv1a64> above 16384 pixels
         | ERR <variant> <w> <h> <alpha> <anim> buf=<same|?|pixels>   same: the buffer still holds the fill; ?: not modelled
         | PANIC <kind> | OUTOFFUEL
     rimg frames <n> <fill byte> <hex file>         WebPDecoder::new + n calls of read_frame (buffer of output_buffer_size())
        -> NEWERR <variant> | <w> <h> <alpha> <anim> then per call ` | OK <duration> <pixels>` or ` | ERR <variant>` /
           ` | PANIC <kind>` (the trace stops after the first call that is not OK)
     rimg ops <ops> <fill byte> <hex file>           WebPDecoder::new + the call sequence <ops> over F (read_frame), R (reset_animation),
        I (read_image), S (the caller fills its buffer with <fill>) on one buffer of output_buffer_size() bytes (Model.ReadImageOps.run_ops)
        -> NEWERR <variant> | <w> <h> <alpha> <anim> then per call ` | F OK <duration> <pixels>` / ` | F ERR <variant> <pixels>` /
           ` | I OK <pixels>` / ` | I ERR <variant> <pixels|?>` / ` | R` / ` | S`, <pixels> = the caller's buffer after the call;
           a PANIC / OUTOFFUEL item ends the trace
   A VP8 payload the specification rejects is reported as variant `Vp8Decode`.
   Only parsing and printing happen here; every value printed is computed by extracted Coq code. *)
open Oracle_gen
open Ocommon

let panic_name (p : panic) : string =
  match p with
  | PIndex -> "index" | PSlice -> "slice" | POverflow -> "overflow" | PUnwrap -> "unwrap" | PAssert -> "assert"
  | PUnreachable -> "unreachable" | PCopyLen -> "copy_len" | PDivZero -> "div_zero" | PShift -> "shift"

let err_name (e : err) : string =
  match e with
  | EIo -> "IoError" | ERiffSignatureInvalid -> "RiffSignatureInvalid" | EWebpSignatureInvalid -> "WebpSignatureInvalid"
  | EChunkMissing -> "ChunkMissing" | EChunkHeaderInvalid -> "ChunkHeaderInvalid" | EReservedBitSet -> "ReservedBitSet"
  | EInvalidAlphaPreprocessing -> "InvalidAlphaPreprocessing" | EInvalidCompressionMethod -> "InvalidCompressionMethod"
  | EAlphaChunkSizeMismatch -> "AlphaChunkSizeMismatch" | EImageTooLarge -> "ImageTooLarge"
  | EFrameOutsideImage -> "FrameOutsideImage" | ELosslessSignatureInvalid -> "LosslessSignatureInvalid"
  | EVersionNumberInvalid -> "VersionNumberInvalid" | EInvalidColorCacheBits -> "InvalidColorCacheBits"
  | EHuffmanError -> "HuffmanError" | EBitStreamError -> "BitStreamError" | ETransformError -> "TransformError"
  | EVp8MagicInvalid -> "Vp8MagicInvalid" | ENotEnoughInitData -> "NotEnoughInitData"
  | EColorSpaceInvalid -> "ColorSpaceInvalid" | ELumaPredictionModeInvalid -> "LumaPredictionModeInvalid"
  | EIntraPredictionModeInvalid -> "IntraPredictionModeInvalid" | EChromaPredictionModeInvalid -> "ChromaPredictionModeInvalid"
  | EInconsistentImageSizes -> "InconsistentImageSizes" | EUnsupportedFeature -> "UnsupportedFeature"
  | EInvalidParameter -> "Vp8Decode" | EMemoryLimitExceeded -> "MemoryLimitExceeded" | EInvalidChunkSize -> "InvalidChunkSize"
  | ENoMoreFrames -> "NoMoreFrames" | EInvalidDimensions -> "InvalidDimensions"

let b (x : bool) = if x then "1" else "0"

(* hex, or the FNV-1a 64 hash when the image has more than 16384 pixels (same rule as the other checks) *)
let pixels (w : z) (h : z) (px : z list) : string =
  if int_of_z w * int_of_z h > 16384 then begin
    let hsh = ref 0xcbf29ce484222325L in
    List.iter (fun x -> hsh := Int64.mul (Int64.logxor !hsh (Int64.of_int (int_of_z x))) 0x100000001b3L) px;
    Printf.sprintf "H%016Lx" !hsh
  end else hex_of_zbytes px

let eval (ws : string list) : string option =
  match ws with
  | ["rimg"; "still"; buflen; fill; file] ->
    (match rimg_still (zbytes_of_hex file) (z_of_string buflen) (z_of_string fill) with
     | Err e -> Some ("NEWERR " ^ err_name e)
     | Panic p -> Some ("PANIC new " ^ panic_name p)
     | OutOfFuel -> Some "OUTOFFUEL new"
     | Ok (((((w, h), al), an), (r, after)), buf0) ->
       let head = Printf.sprintf "%s %s %s %s" (zs w) (zs h) (b al) (b an) in
       let bufstate = match after with
         | None -> "?"
         | Some bf -> if bf = buf0 then "same" else pixels w h bf in
       (match r with
        | Ok _ -> (match after with Some bf -> Some (Printf.sprintf "OK %s %s" head (pixels w h bf)) | None -> Some "ORACLE-NO-BUFFER")
        | Err e -> Some (Printf.sprintf "ERR %s %s buf=%s" (err_name e) head bufstate)
        | Panic p -> Some ("PANIC " ^ panic_name p)
        | OutOfFuel -> Some "OUTOFFUEL"))
  | ["rimg"; "frames"; n; fill; file] ->
    (match rimg_frames (zbytes_of_hex file) (z_of_string n) (z_of_string fill) with
     | Err e -> Some ("NEWERR " ^ err_name e)
     | Panic p -> Some ("PANIC new " ^ panic_name p)
     | OutOfFuel -> Some "OUTOFFUEL new"
     | Ok ((((w, h), al), an), trace) ->
       let bf = Buffer.create 65536 in
       Buffer.add_string bf (Printf.sprintf "%s %s %s %s" (zs w) (zs h) (b al) (b an));
       let rec go tr = match tr with
         | [] -> ()
         | (Ok d, px) :: tl -> Buffer.add_string bf (Printf.sprintf " | OK %s %s" (zs d) (pixels w h px)); go tl
         | (Err e, _) :: _ -> Buffer.add_string bf (" | ERR " ^ err_name e)
         | (Panic p, _) :: _ -> Buffer.add_string bf (" | PANIC " ^ panic_name p)
         | (OutOfFuel, _) :: _ -> Buffer.add_string bf " | OUTOFFUEL" in
       go trace;
       Some (Buffer.contents bf))
  | ["rimg"; "ops"; ops; fill; file] ->
    let mops = List.map (fun c -> match c with
        | 'F' -> MFrame | 'R' -> MReset | 'I' -> MImage | 'S' -> MFill (z_of_string fill)
        | _ -> failwith "bad op") (List.init (String.length ops) (String.get ops)) in
    (match rimg_ops (zbytes_of_hex file) mops (z_of_string fill) with
     | Err e -> Some ("NEWERR " ^ err_name e)
     | Panic p -> Some ("PANIC new " ^ panic_name p)
     | OutOfFuel -> Some "OUTOFFUEL new"
     | Ok ((((w, h), al), an), trace) ->
       let bf = Buffer.create 65536 in
       Buffer.add_string bf (Printf.sprintf "%s %s %s %s" (zs w) (zs h) (b al) (b an));
       let res_item tag okf r px = match r with
         | Ok x -> Buffer.add_string bf (Printf.sprintf " | %s OK %s%s" tag (okf x) px); true
         | Err e -> Buffer.add_string bf (Printf.sprintf " | %s ERR %s %s" tag (err_name e) px); true
         | Panic p -> Buffer.add_string bf (Printf.sprintf " | %s PANIC %s" tag (panic_name p)); false
         | OutOfFuel -> Buffer.add_string bf (Printf.sprintf " | %s OUTOFFUEL" tag); false in
       let rec go tr = match tr with
         | [] -> ()
         | (RoFrame r, px) :: tl -> if res_item "F" (fun d -> zs d ^ " ") r (pixels w h px) then go tl
         | (RoImage (r, known), px) :: tl -> if res_item "I" (fun _ -> "") r (if known then pixels w h px else "?") then go tl
         | (RoReset r, _) :: tl -> (match r with Ok _ -> Buffer.add_string bf " | R"; go tl | _ -> ignore (res_item "R" (fun _ -> "") r ""))
         | (RoFill, _) :: tl -> Buffer.add_string bf " | S"; go tl in
       go trace;
       Some (Buffer.contents bf))
  | "rimg" :: _ -> Some "BADCASE"
  | _ -> None
