(* vp8parse: `vp8p <fn> <args> <key>=<values> ...`  ->  Model.Vp8Parse (the Rust-mirroring model of the parsing functions of
   src/vp8.rs) run from the state the keys describe; see harness/src/vp8parse.rs for the format.
   Values: comma-separated decimals, or #hex for byte strings.  Result: `OK s1 | s2 | ...` (sections of space-separated
   numbers, `-` = empty), `ERR <DecodingError variant>`, `PANIC`, `OUTOFFUEL`.
   Only the distinctively named entry points vp8p_run_* and plain pairs / lists are used (flat extracted namespace). *)
open Oracle_gen
open Ocommon

let parse_vals (v : string) : z list =
  if String.length v > 0 && v.[0] = '#' then zbytes_of_hex (String.sub v 1 (String.length v - 1))
  else if v = "" then []
  else List.map z_of_string (String.split_on_char ',' v)

let parse_kv (w : string) : (z * z list) option =
  match String.index_opt w '=' with
  | None -> None
  | Some i ->
    (match int_of_string_opt (String.sub w 0 i) with
     | None -> None
     | Some k -> Some (z_of_int k, parse_vals (String.sub w (i + 1) (String.length w - i - 1))))

let rec kvs_of (ws : string list) : (z * z list) list =
  match ws with
  | [] -> []
  | w :: tl -> (match parse_kv w with Some kv -> kv :: kvs_of tl | None -> kvs_of tl)

let err_name (c : int) : string =
  match c with
  | 1 -> "IoError" | 2 -> "Vp8MagicInvalid" | 3 -> "ColorSpaceInvalid" | 4 -> "LumaPredictionModeInvalid"
  | 5 -> "IntraPredictionModeInvalid" | 6 -> "ChromaPredictionModeInvalid" | 7 -> "BitStreamError"
  | 8 -> "NotEnoughInitData" | 9 -> "UnsupportedFeature" | _ -> "Other"

let sec (l : z list) : string = if l = [] then "-" else words_of_zlist l

let show (r : z * z list list) : string =
  let (c, secs) = r in
  match int_of_z c with
  | 0 -> "OK " ^ String.concat " | " (List.map sec secs)
  | 100 -> "PANIC"
  | 101 -> "OUTOFFUEL"
  | n -> "ERR " ^ err_name n

let eval (ws : string list) : string option =
  match ws with
  | "vp8p" :: "hdr" :: h :: _ when String.length h > 0 && h.[0] = '#' ->
    Some (show (vp8p_run_hdr (zbytes_of_hex (String.sub h 1 (String.length h - 1)))))
  | "vp8p" :: "coef" :: p :: plane :: cx :: dcq :: acq :: block :: rest ->
    Some (show (vp8p_run_coef (kvs_of rest) (parse_vals block) (z_of_string p) (z_of_string plane) (z_of_string cx)
                  (z_of_string dcq) (z_of_string acq)))
  | "vp8p" :: "res" :: mbx :: p :: mb :: rest ->
    Some (show (vp8p_run_res (kvs_of rest) (parse_vals mb) (z_of_string mbx) (z_of_string p)))
  | "vp8p" :: "mbh" :: mbx :: rest -> Some (show (vp8p_run_mbh (kvs_of rest) (z_of_string mbx)))
  | "vp8p" :: "segu" :: rest -> Some (show (vp8p_run_segu (kvs_of rest)))
  | "vp8p" :: "quant" :: rest -> Some (show (vp8p_run_quant (kvs_of rest)))
  | "vp8p" :: "lfadj" :: rest -> Some (show (vp8p_run_lfadj (kvs_of rest)))
  | "vp8p" :: "tokp" :: rest -> Some (show (vp8p_run_tokp (kvs_of rest)))
  | "vp8p" :: "parts" :: n :: rest -> Some (show (vp8p_run_parts (kvs_of rest) (z_of_string n)))
  | "vp8p" :: _ -> Some "BADCASE"
  | _ -> None
