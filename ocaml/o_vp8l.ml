(* C01 spec adequacy / correspondence: the executable VP8L specification (coq/Spec/VP8L.v).
     vp8l <hex payload>                 -> Spec.VP8L.decode_rgba          -> OK <w> <h> <hex RGBA> | ERR
     vp8l_implicit <w> <h> <hex payload> -> Spec.VP8L.decode_implicit_rgba -> OK <w> <h> <hex RGBA> | ERR
     vp8l_implicit_green <w> <h> <hex>  -> the same, printing only the green byte of every pixel (the alpha plane
                                           of an ALPH chunk before unfiltering)
     vp8l_features <hex payload>        -> Spec.VP8L.stream_features (diagnostic): T<transform types in reading
                                           order> C<cache bits> G<number of prefix code groups> | ERR *)
open Oracle_gen
open Ocommon

let eval (ws : string list) : string option =
  match ws with
  | ["vp8l"; payload] ->
    (match vp8l_spec_decode_rgba (zbytes_of_hex payload) with
     | Some ((w, h), px) ->
       (* results above 16384 pixels are reported as the FNV-1a 64 hash of the RGBA bytes (same rule as harness c01) *)
       if int_of_z w * int_of_z h > 16384 then begin
         let hsh = ref 0xcbf29ce484222325L in
         List.iter (fun b -> hsh := Int64.mul (Int64.logxor !hsh (Int64.of_int (int_of_z b))) 0x100000001b3L) px;
         Some (Printf.sprintf "OKH %s %s %016Lx" (zs w) (zs h) !hsh)
       end else Some (Printf.sprintf "OK %s %s %s" (zs w) (zs h) (hex_of_zbytes px))
     | None -> Some "ERR")
  | ["vp8l_implicit"; w; h; payload] ->
    (match vp8l_spec_decode_implicit_rgba (z_of_string w) (z_of_string h) (zbytes_of_hex payload) with
     | Some px -> Some (Printf.sprintf "OK %s %s %s" w h (hex_of_zbytes px))
     | None -> Some "ERR")
  | ["vp8l_implicit_green"; w; h; payload] ->
    (match vp8l_spec_decode_implicit_rgba (z_of_string w) (z_of_string h) (zbytes_of_hex payload) with
     | Some px ->
       let rec greens l acc = match l with _ :: g :: _ :: _ :: tl -> greens tl (g :: acc) | _ -> List.rev acc in
       Some (Printf.sprintf "OK %s %s %s" w h (hex_of_zbytes (greens px [])))
     | None -> Some "ERR")
  | ["vp8l_features"; payload] ->
    (match vp8l_spec_stream_features (zbytes_of_hex payload) with
     | Some ((ts, cbits), groups) ->
       Some (Printf.sprintf "T%s C%s G%s" (String.concat "" (List.map zs ts)) (zs cbits) (zs groups))
     | None -> Some "ERR")
  | ("vp8l" | "vp8l_implicit" | "vp8l_implicit_green" | "vp8l_features") :: _ -> Some "BADCASE"
  | _ -> None
