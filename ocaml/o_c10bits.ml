(* Bit reader of the lossless decoder over a failing reader (coq/Model/BitReaderIO.v, property C10): parsing and printing only.
   brio <sched> <hex data> <ops> <fail_at | ->
     sched: comma-separated items `k` or `kxN` (k repeated N times), `-` = empty (whole remainder on every call)
     ops  : comma-separated; n = fill then read_bits::<u32>(n); f = fill; r<n> = read_bits::<u32>(n); c<n> = consume(n);
            t<n> = peek(n) then consume(n)          (the syntax of m_bitreader in o_losslessmodel.ml)
   -> [values] <OK | BITSTREAM | IOERR | ERR_other> calls=N left=L nbits=B bits=<buffer mod 2^nbits, hex> buffer=<u64, 16 hex digits>
    | PANIC <kind>
   calls = fill_buf calls made (the failing one included); left / nbits / bits / buffer = the state the reader and the BitReader
   are left in, also after an error. *)
open Oracle_gen
open Ocommon

let sched_of_csv (s : string) : z list =
  if s = "-" then [] else
  List.concat_map (fun it ->
    match String.index_opt it 'x' with
    | Some i ->
      let k = z_of_string (String.sub it 0 i) and n = int_of_string (String.sub it (i + 1) (String.length it - i - 1)) in
      let rec mk n acc = if n <= 0 then acc else mk (n - 1) (k :: acc) in mk n []
    | None -> [z_of_string it]) (String.split_on_char ',' s)

let parse_op (w : string) : brop list =
  let n () = z_of_int (int_of_string (String.sub w 1 (String.length w - 1))) in
  match w.[0] with
  | 'f' -> [OFill]
  | 'r' -> [OReadBits (z_of_int 32, n ())]
  | 'c' -> [OConsume (n ())]
  | 't' -> [OTake (n ())]
  | _ -> [OFill; OReadBits (z_of_int 32, z_of_string w)]

(* the low `nb` bits of a non-negative z, as lowercase hex without leading zeros *)
let hex_low_bits (x : z) (nb : int) : string =
  let rec bits p = match p with XH -> [1] | XO q -> 0 :: bits q | XI q -> 1 :: bits q in
  let l = match x with Z0 -> [] | Zpos p -> bits p | Zneg _ -> failwith "negative buffer" in
  let a = Array.make 64 0 in
  List.iteri (fun i b -> if i < 64 then (if i < nb then a.(i) <- b) else if b <> 0 then failwith "buffer above 64 bits") l;
  let s = String.init 16 (fun k -> let i = (15 - k) * 4 in "0123456789abcdef".[a.(i) + 2 * a.(i+1) + 4 * a.(i+2) + 8 * a.(i+3)]) in
  let rec strip i = if i < 15 && s.[i] = '0' then strip (i + 1) else i in
  let i = strip 0 in String.sub s i (16 - i)

(* a u64 as 16 hex digits *)
let hex16 (x : z) : string =
  let s = hex_low_bits x 64 in String.make (16 - String.length s) '0' ^ s

let panic_name (p : panic) : string = match p with
  | PIndex -> "index" | PSlice -> "slice" | POverflow -> "overflow" | PUnwrap -> "unwrap" | PAssert -> "assert"
  | PUnreachable -> "unreachable" | PCopyLen -> "copy_len" | PDivZero -> "divzero" | PShift -> "shift"

let eval (ws : string list) : string option =
  match ws with
  | ["brio"; sched; data; ops; fail] ->
    let ops = List.concat_map parse_op (if ops = "-" then [] else String.split_on_char ',' ops) in
    let fa = if fail = "-" then None else Some (z_of_string fail) in
    let (((vs, out), calls), ((buffer, nbits), left)) = o_brio (zbytes_of_hex data) (sched_of_csv sched) fa ops in
    let vtxt = String.concat "," (List.map zs vs) in
    let state word = Printf.sprintf "[%s] %s calls=%s left=%s nbits=%s bits=%s buffer=%s" vtxt word (zs calls) (zs left) (zs nbits)
                       (hex_low_bits buffer (int_of_z nbits)) (hex16 buffer) in
    Some (match out with
          | Ok _ -> state "OK"
          | Err EBitStreamError -> state "BITSTREAM"
          | Err EIo -> state "IOERR"
          | Err _ -> state "ERR_other"
          | Panic p -> "PANIC " ^ panic_name p
          | OutOfFuel -> "OUTOFFUEL")
  | "brio" :: _ -> Some "BADCASE"
  | _ -> None
