(* Helpers shared by the oracle plug-ins: conversions between OCaml values and the extracted Coq numbers,
   hex parsing/printing.  Hand-written and trusted (parsing and printing only). *)
open Oracle_gen

let rec pos_of_int (n : int) : positive =
  if n = 1 then XH else if n land 1 = 1 then XI (pos_of_int (n lsr 1)) else XO (pos_of_int (n lsr 1))
let z_of_int (n : int) : z = if n = 0 then Z0 else if n > 0 then Zpos (pos_of_int n) else Zneg (pos_of_int (-n))
let rec int_of_pos (p : positive) : int =
  match p with XH -> 1 | XO q -> 2 * int_of_pos q | XI q -> 2 * int_of_pos q + 1
let int_of_z (x : z) : int = match x with Z0 -> 0 | Zpos p -> int_of_pos p | Zneg p -> - (int_of_pos p)
let n_of_int (k : int) : n = if k = 0 then N0 else Npos (pos_of_int k)
let int_of_n (x : n) : int = match x with N0 -> 0 | Npos p -> int_of_pos p
let nat_of_int (n : int) : nat = let rec go k acc = if k <= 0 then acc else go (k - 1) (S acc) in go n O
let int_of_nat (n : nat) : int = let rec go n acc = match n with O -> acc | S m -> go m (acc + 1) in go n 0
let zs (x : z) = string_of_int (int_of_z x)
let z_of_string (w : string) : z = z_of_int (int_of_string w)

let hexval c = match c with
  | '0'..'9' -> Char.code c - 48 | 'a'..'f' -> Char.code c - 87 | 'A'..'F' -> Char.code c - 55
  | _ -> failwith "bad hex"
(* hex string ("-" = empty) to a list of byte values; tail-recursive *)
let ints_of_hex (s : string) : int list =
  if s = "-" then [] else begin
    let n = String.length s / 2 in
    let rec go i acc = if i < 0 then acc else go (i - 1) ((hexval s.[2*i] * 16 + hexval s.[2*i+1]) :: acc) in
    go (n - 1) []
  end
let zbytes_of_hex (s : string) : z list = List.rev (List.rev_map z_of_int (ints_of_hex s))
let nbytes_of_hex (s : string) : n list = List.rev (List.rev_map n_of_int (ints_of_hex s))
let hex_of_ints (l : int list) : string =
  if l = [] then "-" else begin
    let b = Buffer.create 4096 in
    List.iter (fun x -> Buffer.add_string b (Printf.sprintf "%02x" (x land 255))) l;
    Buffer.contents b
  end
let hex_of_zbytes (l : z list) : string = hex_of_ints (List.rev (List.rev_map int_of_z l))
let hex_of_nbytes (l : n list) : string = hex_of_ints (List.rev (List.rev_map int_of_n l))
let zlist_of_words (ws : string list) : z list = List.map z_of_string ws
let words_of_zlist (l : z list) : string = String.concat " " (List.map zs l)
