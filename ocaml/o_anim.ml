(* C06 / C07: animation model.
     anim <canvas_w> <canvas_h> <file_has_alpha 0|1> <bg: 4 bytes hex as stored in ANIM> <ops> <frame>*
        ops   : string over F (read_frame) R (reset_animation) I (read_image) S (caller fills its buffer with 0xee)
        frame : x,y,w,h,duration,blend,dispose,has_alpha,<hex of the decoded payload: RGBA if has_alpha else RGB>
        the caller's buffer starts filled with 0xee
        -> one result per op joined by '|':
             F: OK <duration> <hex>  |  ERR NoMoreFrames <hex of the buffer after the call>  |  ERR other  |  PANIC
             I: OK img <hex>  |  ERR other  |  PANIC        R: RESET        S: FILL
           (the trace is cut after the first PANIC)
     composite <W> <H> <canvas hex> <clear colour: 8 hex digits or -> <frame hex> <fx> <fy> <fw> <fh> <has_alpha> <blend>
               <pw> <ph> <pox> <poy>
        -> <hex canvas>  |  PANIC <slice|copylen|overflow|other>
   Evaluates Model.Anim.run_ops / Model.Anim.composite_frame_list (extracted). *)
open Oracle_gen
open Ocommon

let sentinel = 0xee

let parse_frame (s : string) : mframe =
  match String.split_on_char ',' s with
  | [x; y; w; h; d; bl; di; ha; hx] ->
    let i = int_of_string in
    { mf_xh = z_of_int (i x / 2); mf_yh = z_of_int (i y / 2); mf_wm1 = z_of_int (i w - 1); mf_hm1 = z_of_int (i h - 1);
      mf_duration = z_of_int (i d);
      mf_flags = z_of_int ((if i bl <> 0 then 0 else 2) lor (if i di <> 0 then 1 else 0));
      mf_has_alpha = (i ha <> 0); mf_data = zbytes_of_hex hx }
  | _ -> failwith "bad frame"

let panic_kind (p : panic) : string =
  match p with PSlice | PIndex -> "slice" | PCopyLen -> "copylen" | POverflow -> "overflow" | _ -> "other"

let eval (ws : string list) : string option =
  match ws with
  | "anim" :: w :: h :: alpha :: bg :: ops :: frames ->
    (* a trailing file=<hex> token carries the file itself for replays through the implementation; not used here *)
    let frames = List.filter (fun s -> not (String.length s >= 5 && String.sub s 0 5 = "file=")) frames in
    let file = { m_w = z_of_string w; m_h = z_of_string h; m_alpha = (alpha <> "0"); m_bg_stored = zbytes_of_hex bg;
                 m_frames = List.map parse_frame frames } in
    let bpp = if alpha <> "0" then 4 else 3 in
    let n = int_of_string w * int_of_string h * bpp in
    let buf0 = List.init n (fun _ -> z_of_int sentinel) in
    let mops = List.map (fun c -> match c with
        | 'F' -> MFrame | 'R' -> MReset | 'I' -> MImage | 'S' -> MFill (z_of_int sentinel)
        | _ -> failwith "bad op") (List.init (String.length ops) (String.get ops)) in
    let trace = run_ops file mops fresh_state buf0 in
    let b = Buffer.create 65536 in
    let rec go first tr =
      match tr with
      | [] -> ()
      | (r, buf) :: tl ->
        if not first then Buffer.add_char b '|';
        let cont = (match r with
          | RFrame (Ok d) -> Buffer.add_string b (Printf.sprintf "OK %s %s" (zs d) (hex_of_zbytes buf)); true
          | RFrame (Err ENoMoreFrames) -> Buffer.add_string b (Printf.sprintf "ERR NoMoreFrames %s" (hex_of_zbytes buf)); true
          | RFrame (Err _) -> Buffer.add_string b "ERR other"; true
          | RFrame (Panic _) | RFrame OutOfFuel -> Buffer.add_string b "PANIC"; false
          | RImage (Ok _) -> Buffer.add_string b (Printf.sprintf "OK img %s" (hex_of_zbytes buf)); true
          | RImage (Err _) -> Buffer.add_string b "ERR other"; true
          | RImage (Panic _) | RImage OutOfFuel -> Buffer.add_string b "PANIC"; false
          | RReset -> Buffer.add_string b "RESET"; true
          | RFill -> Buffer.add_string b "FILL"; true) in
        if cont then go false tl in
    go true trace;
    Some (Buffer.contents b)
  | ["composite"; w; h; canvas; clear; frame; fx; fy; fw; fh; ha; bl; pw; ph; pox; poy] ->
    let cc = if clear = "-" then None else
        (match zbytes_of_hex clear with [r; g; b; a] -> Some (((r, g), b), a) | _ -> failwith "bad clear colour") in
    let z = z_of_string in
    (match composite_frame_list (zbytes_of_hex canvas) (z w) (z h) cc (zbytes_of_hex frame) (z fx) (z fy) (z fw) (z fh)
             (ha <> "0") (bl <> "0") (z pw) (z ph) (z pox) (z poy) with
     | Ok l -> Some (hex_of_zbytes l)
     | Panic p -> Some ("PANIC " ^ panic_kind p)
     | Err _ -> Some "ERR"
     | OutOfFuel -> Some "OUTOFFUEL")
  | _ -> None
