(* Driver around the extracted Coq definitions (oracle_gen.ml).  Reads a case file (one case per line, as written
   by the Rust harness), evaluates the extracted Model / Spec entry point named by the first word, and prints one
   canonical result line per case.  Hand-written and trusted (parsing and printing only). *)
open Oracle_gen

(* ---- conversions between OCaml int and the extracted Z / positive / nat ---- *)
let rec pos_of_int (n : int) : positive =
  if n = 1 then XH else if n land 1 = 1 then XI (pos_of_int (n lsr 1)) else XO (pos_of_int (n lsr 1))
let z_of_int (n : int) : z = if n = 0 then Z0 else if n > 0 then Zpos (pos_of_int n) else Zneg (pos_of_int (-n))
let rec int_of_pos (p : positive) : int =
  match p with XH -> 1 | XO q -> 2 * int_of_pos q | XI q -> 2 * int_of_pos q + 1
let int_of_z (x : z) : int = match x with Z0 -> 0 | Zpos p -> int_of_pos p | Zneg p -> - (int_of_pos p)
let rec nat_of_int (n : int) : nat = if n <= 0 then O else S (nat_of_int (n - 1))
let zs (x : z) = string_of_int (int_of_z x)

let hexval c = match c with
  | '0'..'9' -> Char.code c - 48 | 'a'..'f' -> Char.code c - 87 | 'A'..'F' -> Char.code c - 55
  | _ -> failwith "bad hex"
(* hex string ("-" = empty) to list of byte values as Z *)
let bytes_of_hex (s : string) : z list =
  if s = "-" then [] else begin
    let n = String.length s / 2 in
    let rec go i acc = if i < 0 then acc else go (i - 1) (z_of_int (hexval s.[2*i] * 16 + hexval s.[2*i+1]) :: acc) in
    go (n - 1) []
  end
let hex_of_bytes (l : z list) : string =
  if l = [] then "-" else begin
    let b = Buffer.create 64 in
    List.iter (fun x -> Buffer.add_string b (Printf.sprintf "%02x" (int_of_z x))) l;
    Buffer.contents b
  end
let ints_of_words ws = List.map int_of_string ws

(* ---- one line ---- *)
let eval_line (line : string) : string =
  match String.split_on_char ' ' (String.trim line) with
  | "blend" :: rest ->
    (match List.map (fun w -> z_of_int (int_of_string w)) rest with
     | [r; g; b; a; r'; g'; b'; a'] ->
       let s = (((r, g), b), a) and d = (((r', g'), b'), a') in
       if not (do_alpha_blending_ok s d) then "PANIC model: checked arithmetic" else
       let (((ro, go), bo), ao) = do_alpha_blending s d in
       Printf.sprintf "%s %s %s %s" (zs ro) (zs go) (zs bo) (zs ao)
     | _ -> "BADCASE")
  | _ -> "BADCASE"

let () =
  let ic = if Array.length Sys.argv > 1 then open_in Sys.argv.(1) else stdin in
  (try
     while true do
       let line = input_line ic in
       print_string (eval_line line); print_newline ()
     done
   with End_of_file -> ());
  flush stdout
