(* C10 (container layer over an abstract reader): Model.ContainerIO.
   `cio <limit|-> <hex file> <sched>/<fail|->[e] ...`  -> for every run, Model.ContainerIO.cio_eval_kind (a trailing `e`
        on the fault index = the injected failure has kind UnexpectedEof instead of Other):
        `new=OK w h alpha anim lossy frames loop dur nfs=<n> chunks=<cc:s-e,..|-> c=<calls> icc=<hex|none|ERR cls> c=<n>
         exif=.. c=<n> xmp=.. c=<n>` | `new=ERR <cls> c=<n>` | `new=PANIC <kind> c=<n>` | `new=OUTOFFUEL c=<n>`,
        runs joined by " | ".   cls: Io:Eof | Io:Fault | Io:InvalidSeek | <DecodingError variant>
   `ciof <hex file> <sched>/<fail|->/<frame>;<frame>;... ...` with <frame> = `<calls at the start of this read_frame>,<impl
        outcome OK|ERR:cls|PANIC>,<calls at its end>,<next_frame_start after it (hook)>` -> for every run,
        Model.ContainerIO.cio_frames_eval (new, then the ANMF header part of successive read_frame calls; the call counter
        at the start of each is taken from the implementation because payload decoding is not modelled):
        `AGREE` | `DISAGREE <why>`.  The model stops where the payload decoder starts, hence per frame:
          model header ERR cls at c calls  : the implementation must report ERR:cls with exactly c calls
          model header OK at c calls       : the implementation must have made at least c calls, must not report
                                             FrameOutsideImage (only the header can raise it) nor a fault-free Io:Fault,
                                             and next_frame_start must be the model's (the one the loop over skipped
                                             chunks left), plus anmf_size + 8 exactly when read_frame succeeded
   sched: w | c<k> | h<seed> | l<a.b.c>.
   Only parsing, printing and the comparison rule above happen here; every value is computed by extracted Coq code. *)
open Oracle_gen
open Ocommon

let panic_name (p : panic) : string =
  match p with
  | PIndex -> "index" | PSlice -> "slice" | POverflow -> "overflow" | PUnwrap -> "unwrap" | PAssert -> "assert"
  | PUnreachable -> "unreachable" | PCopyLen -> "copy_len" | PDivZero -> "div_zero" | PShift -> "shift"

let err_name (e : err) : string = match e with
  | EIo -> "IoError" | ERiffSignatureInvalid -> "RiffSignatureInvalid" | EWebpSignatureInvalid -> "WebpSignatureInvalid"
  | EChunkMissing -> "ChunkMissing" | EChunkHeaderInvalid -> "ChunkHeaderInvalid" | EReservedBitSet -> "ReservedBitSet"
  | EInvalidAlphaPreprocessing -> "InvalidAlphaPreprocessing" | EInvalidCompressionMethod -> "InvalidCompressionMethod"
  | EAlphaChunkSizeMismatch -> "AlphaChunkSizeMismatch" | EImageTooLarge -> "ImageTooLarge"
  | EFrameOutsideImage -> "FrameOutsideImage" | ELosslessSignatureInvalid -> "LosslessSignatureInvalid"
  | EVersionNumberInvalid -> "VersionNumberInvalid" | EInvalidColorCacheBits -> "InvalidColorCacheBits"
  | EHuffmanError -> "HuffmanError" | EBitStreamError -> "BitStreamError" | ETransformError -> "TransformError"
  | EVp8MagicInvalid -> "Vp8MagicInvalid" | ENotEnoughInitData -> "NotEnoughInitData" | EColorSpaceInvalid -> "ColorSpaceInvalid"
  | ELumaPredictionModeInvalid -> "LumaPredictionModeInvalid" | EIntraPredictionModeInvalid -> "IntraPredictionModeInvalid"
  | EChromaPredictionModeInvalid -> "ChromaPredictionModeInvalid" | EInconsistentImageSizes -> "InconsistentImageSizes"
  | EUnsupportedFeature -> "UnsupportedFeature" | EInvalidParameter -> "InvalidParameter"
  | EMemoryLimitExceeded -> "MemoryLimitExceeded" | EInvalidChunkSize -> "InvalidChunkSize" | ENoMoreFrames -> "NoMoreFrames"
  | EInvalidDimensions -> "InvalidDimensions"

let xerr_name (e : xerr) : string = match e with
  | XEof -> "Io:Eof" | XFault -> "Io:Fault" | XInvalidSeek -> "Io:InvalidSeek" | XDec e -> err_name e

let b (x : bool) = if x then "1" else "0"

(* decimal printing / parsing of a Z of any size (u64 values exceed OCaml's 63-bit int) *)
let rec pos_to_digits (p : positive) : int list =
  let dbl ds add =
    let rec go ds carry = match ds with
      | [] -> if carry = 0 then [] else [carry]
      | d :: tl -> let v = 2 * d + carry in (v mod 10) :: go tl (v / 10) in
    go ds add in
  match p with
  | XH -> [1]
  | XO q -> dbl (pos_to_digits q) 0
  | XI q -> dbl (pos_to_digits q) 1
let zdec (x : z) : string =
  match x with
  | Z0 -> "0"
  | Zpos p -> String.concat "" (List.rev_map string_of_int (pos_to_digits p))
  | Zneg p -> "-" ^ String.concat "" (List.rev_map string_of_int (pos_to_digits p))
let z_of_dec (s : string) : z =
  let rec go i (acc : z) =
    if i >= String.length s then acc
    else go (i + 1) (Z.add (Z.mul acc (z_of_int 10)) (z_of_int (Char.code s.[i] - 48))) in
  go 0 Z0
let zopt (w : string) : z option = if w = "-" then None else Some (z_of_dec w)

let fourcc_hex (k : chunk_kind) : string =
  let s (t : string) = String.concat "" (List.map (fun c -> Printf.sprintf "%02x" (Char.code c)) (List.init 4 (String.get t))) in
  match k with
  | KRIFF -> s "RIFF" | KWEBP -> s "WEBP" | KVP8 -> s "VP8 " | KVP8L -> s "VP8L" | KVP8X -> s "VP8X" | KANIM -> s "ANIM"
  | KANMF -> s "ANMF" | KALPH -> s "ALPH" | KICCP -> s "ICCP" | KEXIF -> s "EXIF" | KXMP -> s "XMP "
  | KUnknown cc -> hex_of_zbytes cc

let sched_of (w : string) : z -> z =
  let t = String.sub w 1 (String.length w - 1) in
  match w.[0] with
  | 'w' -> sched_whole
  | 'c' -> sched_const (z_of_dec t)
  | 'h' -> sched_hash (z_of_dec t)
  | 'l' -> sched_list (List.map z_of_dec (List.filter (fun x -> x <> "") (String.split_on_char '.' t)))
  | _ -> failwith "bad schedule"

(* a metadata payload: hex when short, otherwise `#<length>:<FNV-1a 64>` (printing only) *)
let payload_text (p : z list) : string =
  let n = List.length p in
  if n <= 24 then hex_of_zbytes p
  else begin
    let x = ref 0xcbf29ce484222325L in
    List.iter (fun b -> x := Int64.mul (Int64.logxor !x (Int64.of_int (int_of_z b))) 0x100000001b3L) p;
    Printf.sprintf "#%d:%016Lx" n !x
  end

let meta (r : (z list) option ires) : string =
  match r with
  | IOk None -> "none"
  | IOk (Some p) -> payload_text p
  | IErr e -> "ERR " ^ xerr_name e
  | IPanic p -> "PANIC " ^ panic_name p
  | IOutOfFuel -> "OUTOFFUEL"

let loop_value (lc : loopCount) : z = match lc with Forever -> Z0 | Times n -> n

let is_animated (dec : decoder) : bool =
  match dec.d_kind with Lossy | Lossless -> false | ExtendedKind info -> info.e_animation

let new_text (r : decoder ires) : string =
  match r with
  | IErr e -> "new=ERR " ^ xerr_name e
  | IPanic p -> "new=PANIC " ^ panic_name p
  | IOutOfFuel -> "new=OUTOFFUEL"
  | IOk dec ->
    let entries = List.map (fun (k, (s, e)) -> Printf.sprintf "%s:%s-%s" (fourcc_hex k) (zdec s) (zdec e)) dec.d_chunks in
    let entries = List.sort compare entries in
    Printf.sprintf "new=OK %s %s %s %s %s %s %s %s nfs=%s chunks=%s"
      (zdec dec.d_width) (zdec dec.d_height) (b dec.d_has_alpha) (b (is_animated dec)) (b dec.d_is_lossy)
      (zdec dec.d_num_frames) (zdec (loop_value dec.d_loop_count)) (zdec dec.d_loop_duration)
      (zdec dec.d_next_frame_start) (if entries = [] then "-" else String.concat "," entries)

let run_cio (limit : z option) (bytes : z list) (spec : string) : string =
  match String.split_on_char '/' spec with
  | [sw; fw] ->
    let n = String.length fw in
    let eof = n > 0 && fw.[n - 1] = 'e' in
    let fw = if eof then String.sub fw 0 (n - 1) else fw in
    let ((r, c1), rest) = cio_eval_kind eof (sched_of sw) (zopt fw) limit bytes in
    let head = Printf.sprintf "%s c=%s" (new_text r) (zdec c1) in
    (match rest with
     | None -> head
     | Some (((((ri, c2), re), c3), rx), c4) ->
       Printf.sprintf "%s icc=%s c=%s exif=%s c=%s xmp=%s c=%s" head (meta ri) (zdec c2) (meta re) (zdec c3) (meta rx) (zdec c4))
  | _ -> "BADSPEC"

(* one frame of one run: what the implementation's read_frame did against the model's header result *)
let frame_verdict (fail : z option) (i : int) ((c_start, outcome, impl_calls, impl_nfs) : z * string * z * z)
    ((rf, c_hdr) : frame_header ires * z) : string option =
  let bad fmt = Printf.ksprintf (fun m -> Some (Printf.sprintf "frame %d: %s" i m)) fmt in
  match rf with
  | IErr e ->
    let want = "ERR:" ^ xerr_name e in
    if outcome = want && Z.eqb impl_calls c_hdr then None else bad "model=%s c=%s" want (zdec c_hdr)
  | IPanic p -> if outcome = "PANIC" then None else bad "model=PANIC %s" (panic_name p)
  | IOutOfFuel -> bad "model=OUTOFFUEL"
  | IOk fh ->
    let nfs_want =
      if outcome = "OK" then Z.add (Z.add fh.fh_next_frame_start fh.fh_anmf_size) (z_of_int 8) else fh.fh_next_frame_start in
    if Z.leb c_hdr impl_calls && outcome <> "ERR:FrameOutsideImage" && outcome <> "PANIC"
       && not (outcome = "ERR:Io:Fault" && fail = None) && Z.eqb impl_nfs nfs_want
    then None else bad "model=HDROK c=%s nfs=%s anmf=%s" (zdec c_hdr) (zdec fh.fh_next_frame_start) (zdec fh.fh_anmf_size)

let run_ciof (bytes : z list) (spec : string) : string =
  match String.split_on_char '/' spec with
  | [sw; fw; frames] ->
    let fail = zopt fw in
    let fr = List.map (fun f -> match String.split_on_char ',' f with
        | [a; b; c; d] -> (z_of_dec a, b, z_of_dec c, z_of_dec d)
        | _ -> failwith "bad frame") (String.split_on_char ';' frames) in
    let (c_new, rest) = cio_frames_eval (sched_of sw) fail bytes (List.map (fun (a, _, _, _) -> a) fr) in
    (match rest with
     | None -> "DISAGREE model=new-failed c=" ^ zdec c_new
     | Some ml ->
       (* no I/O happens between `new` and the first read_frame *)
       let first_ok = match fr with (a, _, _, _) :: _ -> Z.eqb a c_new | [] -> true in
       if not first_ok then "DISAGREE model=calls-after-new " ^ zdec c_new
       else begin
         (* the model's list stops at its first header that is not Ok; the implementation's list stops at the first
            read_frame that is not OK: a model error must therefore be the last implementation frame *)
         let rec go i fr ml = match fr, ml with
           | [], _ -> "AGREE"
           | _ :: _, [] -> Printf.sprintf "DISAGREE frame %d: the model stopped before it" i
           | f :: ft, m :: mt ->
             (match frame_verdict fail i f m with
              | Some why -> "DISAGREE " ^ why
              | None -> go (i + 1) ft mt) in
         go 1 fr ml
       end)
  | _ -> "BADSPEC"

let eval (ws : string list) : string option =
  match ws with
  | "cio" :: limit :: h :: specs ->
    let bytes = zbytes_of_hex h in
    let lim = zopt limit in
    Some (String.concat " | " (List.map (run_cio lim bytes) specs))
  | "ciof" :: h :: specs ->
    let bytes = zbytes_of_hex h in
    Some (String.concat " | " (List.map (run_ciof bytes) specs))
  | _ -> None
