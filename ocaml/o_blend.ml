(* C12: `blend r g b a r' g' b' a'`  ->  Model.AlphaBlend.do_alpha_blending *)
open Oracle_gen
open Ocommon

let eval (ws : string list) : string option =
  match ws with
  | "blend" :: rest ->
    (match List.map z_of_string rest with
     | [r; g; b; a; r'; g'; b'; a'] ->
       let s = (((r, g), b), a) and d = (((r', g'), b'), a') in
       if not (do_alpha_blending_ok s d) then Some "PANIC model: checked arithmetic" else
       let (((ro, go), bo), ao) = do_alpha_blending s d in
       Some (Printf.sprintf "%s %s %s %s" (zs ro) (zs go) (zs bo) (zs ao))
     | _ -> Some "BADCASE")
  | _ -> None
