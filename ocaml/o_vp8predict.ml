(* check vp8predict: Model.Vp8Predict on the cases of harness/src/vp8predict.rs.
     vp8i pred <which> <size> <x0> <y0> <stride> <above> <left[w]> <hex ws>      -> OK <hex ws> | PANIC
     vp8i pix <topleft|top|left|edge> <x0> <y0> <stride> <hex ws>                 -> OK <hex pixels> | PANIC
     vp8i res <y0> <x0> <stride> <hex ws> <16 residues, comma separated>          -> OK <hex ws> | PANIC
     vp8i p4x4 <stride> <hex modes> <hex ws> <residues>                           -> OK <hex ws> | PANIC
     vp8i bluma <mbx> <mby> <mbw> <hex top> <hex left> <ignored>                  -> OK <hex ws> | PANIC
     vp8i iluma <mbw> <mbx> <mby> <mode> <hex bpred> <residues> <hex ybuf> <hex top> <hex left> <ignored>
                                                                                  -> OK <ybuf> <top> <left> | PANIC
     vp8i ichroma <mbw> <mbx> <mby> <mode> <residues> <hex ubuf> <hex vbuf> <ignored> -> OK <ubuf> <vbuf> | PANIC *)
open Oracle_gen
open Ocommon

let zi s = z_of_int (int_of_string s)
let csv s = if s = "-" then [] else List.map (fun w -> z_of_int (int_of_string w)) (String.split_on_char ',' s)
let out r = match r with Ok o -> "OK " ^ hex_of_zbytes o | Panic _ -> "PANIC" | _ -> "ERR"

let eval (ws : string list) : string option =
  match ws with
  | "vp8i" :: rest ->
    Some (match rest with
    | ["pred"; which; size; x0; y0; stride; above; left; hb] ->
      let a = zbytes_of_hex hb and size = zi size and x0 = zi x0 and y0 = zi y0 and stride = zi stride in
      let above = (above = "1") and left = (String.length left > 0 && left.[0] = '1') in
      out (match which with
        | "vpred" -> predict_vpred a size x0 y0 stride
        | "hpred" -> predict_hpred a size x0 y0 stride
        | "dcpred" -> predict_dcpred a size stride above left
        | "tmpred" -> predict_tmpred a size x0 y0 stride
        | "bdcpred" -> predict_bdcpred a x0 y0 stride
        | "bvepred" -> predict_bvepred a x0 y0 stride
        | "bhepred" -> predict_bhepred a x0 y0 stride
        | "bldpred" -> predict_bldpred a x0 y0 stride
        | "brdpred" -> predict_brdpred a x0 y0 stride
        | "bvrpred" -> predict_bvrpred a x0 y0 stride
        | "bvlpred" -> predict_bvlpred a x0 y0 stride
        | "bhdpred" -> predict_bhdpred a x0 y0 stride
        | "bhupred" -> predict_bhupred a x0 y0 stride
        | _ -> Err EInvalidParameter)
    | ["pix"; which; x0; y0; stride; hb] ->
      let a = zbytes_of_hex hb and x0 = zi x0 and y0 = zi y0 and stride = zi stride in
      out (match which with
        | "topleft" -> (match topleft_pixel a x0 y0 stride with Ok p -> Ok [p] | Panic p -> Panic p | Err e -> Err e | OutOfFuel -> OutOfFuel)
        | "top" -> (match top_pixels a x0 y0 stride with
            | Ok (((((((a0, a1), a2), a3), a4), a5), a6), a7) -> Ok [a0; a1; a2; a3; a4; a5; a6; a7]
            | Panic p -> Panic p | Err e -> Err e | OutOfFuel -> OutOfFuel)
        | "left" -> (match left_pixels a x0 y0 stride with
            | Ok (((l0, l1), l2), l3) -> Ok [l0; l1; l2; l3]
            | Panic p -> Panic p | Err e -> Err e | OutOfFuel -> OutOfFuel)
        | "edge" -> (match edge_pixels a x0 y0 stride with
            | Ok ((((((((e0, e1), e2), e3), e4), e5), e6), e7), e8) -> Ok [e0; e1; e2; e3; e4; e5; e6; e7; e8]
            | Panic p -> Panic p | Err e -> Err e | OutOfFuel -> OutOfFuel)
        | _ -> Err EInvalidParameter)
    | ["res"; y0; x0; stride; hb; r] ->
      out (add_residue (zbytes_of_hex hb) (csv r) (zi y0) (zi x0) (zi stride))
    | ["p4x4"; stride; hm; hb; r] ->
      out (predict_4x4 (zbytes_of_hex hb) (zi stride) (zbytes_of_hex hm) (csv r))
    | ["bluma"; mbx; mby; mbw; ht; hl; _] ->
      out (create_border_luma (zi mbx) (zi mby) (zi mbw) (zbytes_of_hex ht) (zbytes_of_hex hl))
    | ["iluma"; mbw; mbx; mby; mode; hbp; r; hy; ht; hl; _] ->
      (match intra_predict_luma (zi mbw) (zi mbx) (zi mby) (zi mode) (zbytes_of_hex hbp) (csv r) (zbytes_of_hex hy)
               (zbytes_of_hex ht) (zbytes_of_hex hl) with
       | Ok ((y, t), l) -> "OK " ^ hex_of_zbytes y ^ " " ^ hex_of_zbytes t ^ " " ^ hex_of_zbytes l
       | Panic _ -> "PANIC" | _ -> "ERR")
    | ["ichroma"; mbw; mbx; mby; mode; r; hu; hv; _] ->
      (match intra_predict_chroma (zi mbw) (zi mbx) (zi mby) (zi mode) (csv r) (zbytes_of_hex hu) (zbytes_of_hex hv) with
       | Ok (u, v) -> "OK " ^ hex_of_zbytes u ^ " " ^ hex_of_zbytes v
       | Panic _ -> "PANIC" | _ -> "ERR")
    | _ -> "ERR badcase")
  | _ -> None
