(* C10, read_image of a non-animated file over the FILE reader (coq/Model/ReadImageIO.v): parsing and printing only.
   rio <fill byte> <hex file> <sched> <fail|->,<fail|->,...      fail = index among all calls of the reader (from `new` on)
   -> the runs joined by " | ", each
        new=<calls after new> OK len=<n> h=<h1>-<h2> c=<calls after read_image>
        new=<calls> ERR <class> c=<calls>     class: Io:Eof | Io:Fault | Io:InvalidSeek | <DecodingError variant>
        PANIC | new=<calls> OUTOFFUEL c=<calls> | newfail <class> c=<calls>
   sched: w | c<k> | h<seed> | l<a.b.c>;  h1, h2 = two polynomial hashes of the final pixel buffer
   (h = (h * 257 + byte + 1) mod 1000000007, h = (h * 263 + byte + 1) mod 998244353), computed here with native ints. *)
open Oracle_gen
open Ocommon

let err_name (e : err) : string = match e with
  | EIo -> "IoError" | ERiffSignatureInvalid -> "RiffSignatureInvalid" | EWebpSignatureInvalid -> "WebpSignatureInvalid"
  | EChunkMissing -> "ChunkMissing" | EChunkHeaderInvalid -> "ChunkHeaderInvalid" | EReservedBitSet -> "ReservedBitSet"
  | EInvalidAlphaPreprocessing -> "InvalidAlphaPreprocessing" | EInvalidCompressionMethod -> "InvalidCompressionMethod"
  | EAlphaChunkSizeMismatch -> "AlphaChunkSizeMismatch" | EImageTooLarge -> "ImageTooLarge"
  | EFrameOutsideImage -> "FrameOutsideImage" | ELosslessSignatureInvalid -> "LosslessSignatureInvalid"
  | EVersionNumberInvalid -> "VersionNumberInvalid" | EInvalidColorCacheBits -> "InvalidColorCacheBits"
  | EHuffmanError -> "HuffmanError" | EBitStreamError -> "BitStreamError" | ETransformError -> "TransformError"
  | EVp8MagicInvalid -> "Vp8MagicInvalid" | ENotEnoughInitData -> "NotEnoughInitData" | EColorSpaceInvalid -> "ColorSpaceInvalid"
  | ELumaPredictionModeInvalid -> "LumaPredictionModeInvalid" | EIntraPredictionModeInvalid -> "IntraPredictionModeInvalid"
  | EChromaPredictionModeInvalid -> "ChromaPredictionModeInvalid" | EInconsistentImageSizes -> "InconsistentImageSizes"
  | EUnsupportedFeature -> "UnsupportedFeature" | EInvalidParameter -> "InvalidParameter"
  | EMemoryLimitExceeded -> "MemoryLimitExceeded" | EInvalidChunkSize -> "InvalidChunkSize" | ENoMoreFrames -> "NoMoreFrames"
  | EInvalidDimensions -> "InvalidDimensions"

let xerr_name (e : xerr) : string = match e with
  | XEof -> "Io:Eof" | XFault -> "Io:Fault" | XInvalidSeek -> "Io:InvalidSeek" | XDec e -> err_name e

let rec z_of_dec_from (s : string) (i : int) (acc : z) : z =
  if i >= String.length s then acc
  else z_of_dec_from s (i + 1) (Z.add (Z.mul acc (z_of_int 10)) (z_of_int (Char.code s.[i] - 48)))
let z_of_dec (s : string) : z = z_of_dec_from s 0 Z0

let sched_of (w : string) : z -> z =
  let t = String.sub w 1 (String.length w - 1) in
  match w.[0] with
  | 'w' -> sched_whole
  | 'c' -> sched_const (z_of_dec t)
  | 'h' -> sched_hash (z_of_dec t)
  | 'l' -> sched_list (List.map z_of_dec (List.filter (fun x -> x <> "") (String.split_on_char '.' t)))
  | _ -> failwith "bad schedule"

let pix_hash (l : z list) : string =
  let h1 = ref 0 and h2 = ref 0 and n = ref 0 in
  List.iter (fun x -> let b = int_of_z x in
              h1 := (!h1 * 257 + b + 1) mod 1000000007;
              h2 := (!h2 * 263 + b + 1) mod 998244353;
              incr n) l;
  Printf.sprintf "len=%d h=%d-%d" !n !h1 !h2

let run_text (sched : z -> z) (d : z list) (fill : z) (fail : string) : string =
  let fa = if fail = "-" then None else Some (z_of_dec fail) in
  let ((rnew, cnew), rest) = rio_eval sched fa d fill in
  match rest with
  | None ->
    (match rnew with
     | IErr e -> Printf.sprintf "newfail ERR %s c=%s" (xerr_name e) (zs cnew)
     | IPanic _ -> "PANIC"
     | _ -> "newfail OUTOFFUEL")
  | Some ((ri, ob), cend) ->
    (match ri, ob with
     | IOk _, Some b -> Printf.sprintf "new=%s OK %s c=%s" (zs cnew) (pix_hash b) (zs cend)
     | IOk _, None -> "BADMODEL"
     | IErr e, _ -> Printf.sprintf "new=%s ERR %s c=%s" (zs cnew) (xerr_name e) (zs cend)
     | IPanic _, _ -> "PANIC"
     | IOutOfFuel, _ -> Printf.sprintf "new=%s OUTOFFUEL c=%s" (zs cnew) (zs cend))

let eval (ws : string list) : string option =
  match ws with
  | ["rio"; fill; file; sched; fails] ->
    let d = zbytes_of_hex file and s = sched_of sched and f = z_of_string fill in
    Some (String.concat " | " (List.map (run_text s d f) (String.split_on_char ',' fails)))
  | "rio" :: _ -> Some "BADCASE"
  | _ -> None
