(* check vp8recon: Model.Vp8Recon on the cases of harness/src/vp8recon.rs (case word `vp8r`).
     hdr  = 24 comma-separated numbers: mbwidth,mbheight,width,height,filter_type,filter_level,sharpness,segments_enabled,
            delta_values x4, loopfilter_level x4, ref_delta x4, mode_delta x4
     mb   = 5 comma-separated numbers (luma_mode,chroma_mode,segmentid,coeffs_skipped,non_zero_coeffs) and the 16 sub-block
            modes as 16 hex bytes
     res  = 384 comma-separated residuals, or `z` for 384 zeros
     vp8r frame <hdr> <n> { <mb> <bpred> <res> } x n          -> OK <y> <u> <v> <Y> <U> <V> | PANIC | FUEL
                                                                 (y u v: macroblock-aligned planes before the loop filter;
                                                                  Y U V: the planes of the returned Frame)
     vp8r lfmb <hdr> <mbx> <mby> <mb> <bpred> <y> <u> <v>     -> OK <y> <u> <v> | PANIC      (one Vp8Decoder::loop_filter)
     vp8r lfpass <hdr> <n> { <mb> <bpred> } x n <y> <u> <v>   -> OK <y> <u> <v> | PANIC      (the filter pass of decode_frame_)
     vp8r crop <stride> <width> <height> <plane>              -> OK <plane> | PANIC
     vp8r edge <which> <hev> <interior> <edge> <point> <stride> <pixels> -> OK <pixels> | PANIC *)
open Oracle_gen
open Ocommon

let zi s = z_of_int (int_of_string s)
let csv s = if s = "-" then [] else List.rev (List.rev_map (fun w -> z_of_int (int_of_string w)) (String.split_on_char ',' s))
let zeros384 = List.init 384 (fun _ -> Z0)
let resl s = if s = "z" then zeros384 else csv s
let hx = hex_of_zbytes
let other r = match r with Panic _ -> "PANIC" | OutOfFuel -> "FUEL" | _ -> "ERR"
let out3 r = match r with Ok ((y, u), v) -> "OK " ^ hx y ^ " " ^ hx u ^ " " ^ hx v | r -> other r
let out1 r = match r with Ok p -> "OK " ^ hx p | r -> other r

(* n groups of k words, then the rest *)
let rec groups n k ws acc =
  if n = 0 then (List.rev acc, ws) else
  let rec take k ws g = if k = 0 then (List.rev g, ws) else match ws with [] -> failwith "short case" | w :: tl -> take (k - 1) tl (w :: g) in
  let (g, rest) = take k ws [] in
  groups (n - 1) k rest (g :: acc)

let eval (ws : string list) : string option =
  match ws with
  | "vp8r" :: rest ->
    Some (match rest with
    | "frame" :: hdr :: n :: tl ->
      let (gs, rest) = groups (int_of_string n) 3 tl [] in
      if rest <> [] then "ERR badcase" else
      let mbs = List.map (fun g -> match g with [m; b; r] -> ((csv m, zbytes_of_hex b), resl r) | _ -> failwith "mb") gs in
      (match vp8r_frame (csv hdr) mbs with
       | Ok (((y, u), v), ((fy, fu), fv)) -> "OK " ^ hx y ^ " " ^ hx u ^ " " ^ hx v ^ " " ^ hx fy ^ " " ^ hx fu ^ " " ^ hx fv
       | r -> other r)
    | ["lfmb"; hdr; mbx; mby; m; b; y; u; v] ->
      out3 (vp8r_loop_filter (csv hdr) (zi mbx) (zi mby) (csv m) (zbytes_of_hex b) (zbytes_of_hex y) (zbytes_of_hex u) (zbytes_of_hex v))
    | "lfpass" :: hdr :: n :: tl ->
      let (gs, rest) = groups (int_of_string n) 2 tl [] in
      (match rest with
       | [y; u; v] ->
         let mbs = List.map (fun g -> match g with [m; b] -> (csv m, zbytes_of_hex b) | _ -> failwith "mb") gs in
         out3 (vp8r_filter_frame (csv hdr) mbs (zbytes_of_hex y) (zbytes_of_hex u) (zbytes_of_hex v))
       | _ -> "ERR badcase")
    | ["crop"; stride; w; h; p] -> out1 (vp8r_crop (zbytes_of_hex p) (zi stride) (zi w) (zi h))
    | ["edge"; which; hev; il; el; point; stride; p] ->
      out1 (vp8r_edge (zi which) (zi hev) (zi il) (zi el) (zbytes_of_hex p) (zi point) (zi stride))
    | _ -> "ERR badcase")
  | _ -> None
