(* C02 / C15 Spec side.
   `vp8 <hex payload>`          -> Spec.VP8.decode on the payload of a `VP8 ` chunk:  OK <w> <h> <hexY> <hexU> <hexV> | ERR
   `vp8range <hex payload>`     -> INRANGE 1 | INRANGE 0 | ERR      (Spec.VP8.in_range: 16-bit residual pipeline)
   `vp8hdr <hex payload>`       -> a few header fields (debugging aid)
   `booldec <hex data> <script>`-> Spec.BoolDec.run: space-separated values
   `booldecx <hex data> <script>` -> values | shift count before each request | final shift count | libwebp eof flag
   script = comma-separated requests: b<prob> (read_bool), f (flag), l<n> (literal), s<n> (optional signed: flag,
   then n-bit magnitude and sign), t<tree>:<start>:<p0>.<p1>... (treed_read; tree = seg|ymode|uv|bmode|coef) *)
open Oracle_gen
open Ocommon

let parse_op (w : string) =
  let n = String.length w in
  if n = 0 then failwith "empty op" else
  let arg () = z_of_int (int_of_string (String.sub w 1 (n - 1))) in
  match w.[0] with
  | 'b' -> BdBool (arg ())
  | 'f' -> BdFlag
  | 'l' -> BdLit (arg ())
  | 's' -> BdOptSigned (arg ())
  | 't' ->
    (match String.split_on_char ':' (String.sub w 1 (n - 1)) with
     | [name; start; probs] ->
       let tree = vp8_spec_tree (z_of_int (match name with
         | "seg" -> 0 | "ymode" -> 1 | "uv" -> 2 | "bmode" -> 3 | "coef" -> 4 | _ -> failwith "tree name")) in
       let ps = List.map (fun p -> z_of_int (int_of_string p)) (String.split_on_char '.' probs) in
       BdTree (tree, ps, z_of_int (int_of_string start))
     | _ -> failwith "tree op")
  | _ -> failwith "bad op"

let parse_script (s : string) =
  if s = "-" then [] else List.map parse_op (String.split_on_char ',' s)

let eval (ws : string list) : string option =
  match ws with
  | ["vp8"; payload] ->
    (match vp8_spec_decode (zbytes_of_hex payload) with
     | Some ((((w, h), y), u), v) ->
       Some (Printf.sprintf "OK %s %s %s %s %s" (zs w) (zs h) (hex_of_zbytes y) (hex_of_zbytes u) (hex_of_zbytes v))
     | None -> Some "ERR")
  | ["vp8range"; payload] ->
    (match vp8_spec_in_range (zbytes_of_hex payload) with
     | Some b -> Some (if b then "INRANGE 1" else "INRANGE 0")
     | None -> Some "ERR")
  | ["vp8hdr"; payload] ->
    (match vp8_spec_header_summary (zbytes_of_hex payload) with
     | Some l -> Some ("HDR w,h,seg,map,simple,level,sharp,lfdelta,parts,q,skip,profile = " ^ words_of_zlist l)
     | None -> Some "ERR")
  | ["booldec"; data; script] ->
    Some (words_of_zlist (booldec_run (zbytes_of_hex data) (parse_script script)))
  | ["booldecx"; data; script] ->
    let (((vs, ss), fin), eof) = booldec_run_ext (zbytes_of_hex data) (parse_script script) in
    Some (Printf.sprintf "%s | %s | %s | %d" (words_of_zlist vs) (words_of_zlist ss) (zs fin) (if eof then 1 else 0))
  | ("vp8" | "vp8range" | "vp8hdr" | "booldec" | "booldecx") :: _ -> Some "BADCASE"
  | _ -> None
