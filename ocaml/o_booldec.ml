(* C15: `arith <hex data> <ops>` with ops comma-separated b<prob> | f | l<n> | s<n> | t<k>  (`-` = no ops)
   ->  `M <values> eof=<0|1> | S <spec values> ex=<0|1> k=<first exhausting op or ->`
   M = Model.ArithDec.run vp8_trees (the Rust decoder's mirror), S = Spec.RfcBoolDec.run vp8_trees (RFC 6386 section 7),
   ex = Spec.RfcBoolDec.exhausted (some request needs more than length + 1 bytes), k = index of the first op whose
   requests need more than length + 1 bytes.  The differ compares the M part with the implementation; the check tests
   M against S (theorem arith_refines_rfc evaluated on every case). *)
open Oracle_gen
open Ocommon

let parse_op (w : string) : op =
  let arg () = int_of_string (String.sub w 1 (String.length w - 1)) in
  match w.[0] with
  | 'b' -> OB (z_of_int (arg ()))
  | 'f' -> OF
  | 'l' -> OL (z_of_int (arg ()))
  | 's' -> OS (z_of_int (arg ()))
  | 't' -> OT (nat_of_int (arg ()))
  | _ -> failwith "bad op"

let wl (l : z list) : string = if l = [] then "-" else words_of_zlist l

let eval (ws : string list) : string option =
  match ws with
  | ["arith"; hx; opsw] ->
    let data = zbytes_of_hex hx in
    let ops = if opsw = "-" then [] else List.map parse_op (String.split_on_char ',' opsw) in
    let m = match c15_model_run data ops with
      | Ok (vs, eof) -> Printf.sprintf "M %s eof=%d" (wl vs) (if eof then 1 else 0)
      | Err _ -> "M ERR"
      | Panic _ -> "M PANIC"
      | OutOfFuel -> "M OUTOFFUEL" in
    let sv = c15_spec_run data ops in
    let ex = c15_spec_exhausted data ops in
    let lim = List.length data + 1 in
    let rec first k n = if k >= n then "-" else
        if int_of_z (c15_spec_needed_upto data ops (nat_of_int k)) > lim then string_of_int k else first (k + 1) n in
    let k = if ex then first 0 (List.length ops) else "-" in
    Some (Printf.sprintf "%s | S %s ex=%d k=%s" m (wl sv) (if ex then 1 else 0) k)
  | _ -> None
