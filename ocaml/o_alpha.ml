(* `alpha <w> <filter 0..3> <hex data> <hex rgba buf>` -> Model.Alpha.apply_alpha; result `OK <hex buf>` (+ ` SPECDIFF`
   if the alpha bytes differ from Spec.Alpha.unfilter, which the theorem apply_alpha_spec excludes) or `PANIC`. *)
open Oracle_gen
open Ocommon

let filter_of_int = function 0 -> FNone | 1 -> FHorizontal | 2 -> FVertical | _ -> FGradient

let eval (ws : string list) : string option =
  match ws with
  | ["alpha"; w; f; hd; hb] ->
    let w = nat_of_int (int_of_string w) and f = filter_of_int (int_of_string f) in
    let data = zbytes_of_hex hd and buf = zbytes_of_hex hb in
    (match apply_alpha f w data buf with
     | Ok out ->
       let spec = unfilter f w data in
       let rec alphas l i acc = match l with [] -> List.rev acc | x :: tl -> alphas tl (i + 1) (if i mod 4 = 3 then x :: acc else acc) in
       Some ("OK " ^ hex_of_zbytes out ^ (if alphas out 0 [] = spec then "" else " SPECDIFF"))
     | Panic _ -> Some "PANIC"
     | _ -> Some "ERR")
  | _ -> None
