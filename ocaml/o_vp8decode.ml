(* vp8decode: `vp8d #<payload hex>`  ->  Model.Vp8Decode.vp8d_run (the whole Vp8Decoder::decode_frame: parse_frame, conversion of
   the decoder state into the reconstruction header, decode_frame_planes), see harness/src/vp8decode.rs for the format:
     OK <w> <h> <hexY> <hexU> <hexV> | ERR <variant> | PANIC | OUTOFFUEL
   Only the distinctively named entry point vp8d_run and plain pairs / lists are used (flat extracted namespace). *)
open Oracle_gen
open Ocommon

let vp8d_err_name (c : int) : string =
  match c with
  | 1 -> "IoError" | 2 -> "Vp8MagicInvalid" | 3 -> "ColorSpaceInvalid" | 4 -> "LumaPredictionModeInvalid"
  | 5 -> "IntraPredictionModeInvalid" | 6 -> "ChromaPredictionModeInvalid" | 7 -> "BitStreamError"
  | 8 -> "NotEnoughInitData" | 9 -> "UnsupportedFeature" | _ -> "Other"

let eval (ws : string list) : string option =
  match ws with
  | "vp8d" :: h :: _ when String.length h > 0 && h.[0] = '#' ->
    let ((((code, dims), y), u), v) = vp8d_run (zbytes_of_hex (String.sub h 1 (String.length h - 1))) in
    (match int_of_z code, dims with
     | 0, [w; hh] ->
       Some (Printf.sprintf "OK %d %d %s %s %s" (int_of_z w) (int_of_z hh) (hex_of_zbytes y) (hex_of_zbytes u) (hex_of_zbytes v))
     | 0, _ -> Some "BADRESULT"
     | 100, _ -> Some "PANIC"
     | 101, _ -> Some "OUTOFFUEL"
     | n, _ -> Some ("ERR " ^ vp8d_err_name n))
  | "vp8d" :: _ -> Some "BADCASE"
  | _ -> None
