(* Lossless Model (VP8L decoder, BitReader, Huffman tables, inverse transforms): parsing and printing only.
   m_vp8l <w> <h> <implicit 0|1> <sched: comma-separated ints or -> <prefill byte> <hex payload> -> OK <hex> | ERR | PANIC <kind>
   m_bitreader <sched> <hex data> <ops>   ops: comma-separated; n = fill then read_bits::<u32>(n); f = fill;
                                          r<n> = read_bits::<u32>(n); c<n> = consume(n); t<n> = peek(n) then consume(n)
   m_huff <comma-separated code lengths> <hex bits> <count>
   m_huff2 <zero> <one> <hex bits> <count>
   m_transform pred <w> <h> <size_bits> <hex predictor data> <hex buffer> | predk <k> <start> <end> <w> <hex buffer>
               | color <w> <size_bits> <hex transform data> <hex buffer> | green <hex buffer>
               | index <w> <h> <table_size> <hex table> <hex buffer> *)
open Oracle_gen
open Ocommon

let panic_name (p : panic) : string = match p with
  | PIndex -> "index" | PSlice -> "slice" | POverflow -> "overflow" | PUnwrap -> "unwrap" | PAssert -> "assert"
  | PUnreachable -> "unreachable" | PCopyLen -> "copy_len" | PDivZero -> "divzero" | PShift -> "shift"

(* a u64 as 16 hex digits (OCaml ints have 63 bits) *)
let hex_of_z64 (x : z) : string =
  let rec bits p = match p with XH -> [1] | XO q -> 0 :: bits q | XI q -> 1 :: bits q in
  let l = match x with Z0 -> [] | Zpos p -> bits p | Zneg _ -> failwith "negative u64" in
  let a = Array.make 64 0 in
  List.iteri (fun i b -> if i < 64 then a.(i) <- b else failwith "u64 too large") l;
  String.init 16 (fun k -> let i = (15 - k) * 4 in "0123456789abcdef".[a.(i) + 2 * a.(i+1) + 4 * a.(i+2) + 8 * a.(i+3)])

let zlist_of_csv (s : string) : z list =
  if s = "-" then [] else List.map z_of_string (String.split_on_char ',' s)

(* schedules: items `k` or `kxN` (k repeated N times) *)
let sched_of_csv (s : string) : z list =
  if s = "-" then [] else
  List.concat_map (fun it ->
    match String.index_opt it 'x' with
    | Some i ->
      let k = z_of_string (String.sub it 0 i) and n = int_of_string (String.sub it (i + 1) (String.length it - i - 1)) in
      let rec mk n acc = if n <= 0 then acc else mk (n - 1) (k :: acc) in mk n []
    | None -> [z_of_string it]) (String.split_on_char ',' s)

let status (r : 'a res) (ok : 'a -> string) : string = match r with
  | Ok a -> ok a | Err _ -> "ERR" | Panic p -> "PANIC " ^ panic_name p | OutOfFuel -> "OUTOFFUEL"

let buf_result (r : z list res) : string = status r (fun l -> "OK " ^ hex_of_zbytes l)

let parse_op (w : string) : brop list =
  let n k = z_of_int (int_of_string (String.sub w 1 (String.length w - 1))) in
  match w.[0] with
  | 'f' -> [OFill]
  | 'r' -> [OReadBits (z_of_int 32, n ())]
  | 'c' -> [OConsume (n ())]
  | 't' -> [OTake (n ())]
  | _ -> [OFill; OReadBits (z_of_int 32, z_of_string w)]

let join_z (l : z list) : string = String.concat "," (List.map zs l)

let rec make_list n x acc = if n <= 0 then acc else make_list (n - 1) x (x :: acc)

let eval (ws : string list) : string option =
  match ws with
  | ["m_vp8l"; w; h; imp; sched; prefill; payload] ->
    let wi = int_of_string w and hi = int_of_string h in
    let buf = make_list (wi * hi * 4) (z_of_string prefill) [] in
    Some (buf_result (o_vp8l (zbytes_of_hex payload) (sched_of_csv sched) (z_of_int wi) (z_of_int hi) (imp = "1") buf))
  | ["m_bitreader"; sched; data; ops] ->
    let ops = List.concat_map parse_op (if ops = "-" then [] else String.split_on_char ',' ops) in
    let (vs, r) = o_bitreader (zbytes_of_hex data) (sched_of_csv sched) ops in
    Some (match r with
          | Panic p -> "PANIC " ^ panic_name p
          | _ -> Printf.sprintf "[%s] %s" (join_z vs)
                   (status r (fun ((b, nb), left) -> Printf.sprintf "OK buffer=%s nbits=%s left=%s" (hex_of_z64 b) (zs nb) (zs left))))
  | ["m_huff"; lens; bits; count] ->
    Some (status (o_huff (zlist_of_csv lens) (zbytes_of_hex bits) (z_of_string count))
            (fun (vs, r) -> match r with Panic p -> "PANIC " ^ panic_name p
                            | _ -> Printf.sprintf "BUILT [%s] %s" (join_z vs) (status r (fun () -> "OK"))))
  | ["m_huff2"; zero; one; bits; count] ->
    let (vs, r) = o_huff2 (z_of_string zero) (z_of_string one) (zbytes_of_hex bits) (z_of_string count) in
    Some (match r with Panic p -> "PANIC " ^ panic_name p
          | _ -> Printf.sprintf "BUILT [%s] %s" (join_z vs) (status r (fun () -> "OK")))
  | ["m_transform"; "pred"; w; h; sb; pd; img] ->
    Some (buf_result (o_tr_predictor (z_of_string w) (z_of_string h) (z_of_string sb) (zbytes_of_hex pd) (zbytes_of_hex img)))
  | ["m_transform"; "predk"; k; s; e; w; img] ->
    Some (buf_result (o_tr_predk (z_of_string k) (z_of_string s) (z_of_string e) (z_of_string w) (zbytes_of_hex img)))
  | ["m_transform"; "color"; w; sb; td; img] ->
    Some (buf_result (o_tr_color (z_of_string w) (z_of_string sb) (zbytes_of_hex td) (zbytes_of_hex img)))
  | ["m_transform"; "green"; img] ->
    Some (buf_result (o_tr_green (zbytes_of_hex img)))
  | ["m_transform"; "index"; w; h; ts; tbl; img] ->
    Some (buf_result (o_tr_index (z_of_string w) (z_of_string h) (z_of_string ts) (zbytes_of_hex tbl) (zbytes_of_hex img)))
  | ("m_vp8l" | "m_bitreader" | "m_huff" | "m_huff2" | "m_transform") :: _ -> Some "BADCASE"
  | _ -> None
