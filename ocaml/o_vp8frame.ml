(* vp8frame: `vp8f #<payload hex>`  ->  Model.Vp8Frame.vp8f_run (Vp8Decoder::new, read_frame_header and the parsing side of the
   macroblock loop of decode_frame_), see harness/src/vp8frame.rs for the format:
     <status> | H mbw mbh num_partitions width height | M <30> R <24 blocks> B <15> P <15> T <30> L <30> | ...
   Only the distinctively named entry point vp8f_run and plain pairs / lists are used (flat extracted namespace). *)
open Oracle_gen
open Ocommon

let vp8f_err_name (c : int) : string =
  match c with
  | 1 -> "IoError" | 2 -> "Vp8MagicInvalid" | 3 -> "ColorSpaceInvalid" | 4 -> "LumaPredictionModeInvalid"
  | 5 -> "IntraPredictionModeInvalid" | 6 -> "ChromaPredictionModeInvalid" | 7 -> "BitStreamError"
  | 8 -> "NotEnoughInitData" | 9 -> "UnsupportedFeature" | _ -> "Other"

let vp8f_status (c : int) : string =
  match c with
  | 0 -> "OK"
  | 100 -> "PANIC"
  | 101 -> "OUTOFFUEL"
  | n -> "ERR " ^ vp8f_err_name n

(* 384 residuals -> 24 blocks, `-` for an all-zero block *)
let vp8f_blocks (l : z list) : string =
  let a = Array.of_list (List.map int_of_z l) in
  let n = Array.length a / 16 in
  let block k =
    let zero = ref true in
    for i = 0 to 15 do if a.(16 * k + i) <> 0 then zero := false done;
    if !zero then "-"
    else String.concat "," (List.init 16 (fun i -> string_of_int a.(16 * k + i))) in
  String.concat " " (List.init n block)

let vp8f_record (secs : z list list) : string =
  match secs with
  | [mb; blocks; b; p; top; left] ->
    "M " ^ words_of_zlist mb ^ " R " ^ vp8f_blocks blocks ^ " B " ^ words_of_zlist b ^ " P " ^ words_of_zlist p
    ^ " T " ^ words_of_zlist top ^ " L " ^ words_of_zlist left
  | _ -> "BADRECORD"

let eval (ws : string list) : string option =
  match ws with
  | "vp8f" :: h :: _ when String.length h > 0 && h.[0] = '#' ->
    let ((code, hdr), recs) = vp8f_run (zbytes_of_hex (String.sub h 1 (String.length h - 1))) in
    let parts = [vp8f_status (int_of_z code)]
                @ (if hdr = [] then [] else ["H " ^ words_of_zlist hdr])
                @ List.map vp8f_record recs in
    Some (String.concat " | " parts)
  | "vp8f" :: _ -> Some "BADCASE"
  | _ -> None
