(* C14 / C09 / C04 / C10(encoder): case words `huff`, `huffchk`, `encode`, `encfail`, `frame`.
     huff <limit> <freqs,csv> [<order,csv>]          -> `<flag 0|1> <lens,csv> <codes,csv>` | `PANIC <kind>`
        Model.Encoder.build_huffman_tree; the optional 4th word is the order of the indices produced by the real
        `sort_unstable_by_key` (replayed after Model.Encoder.valid_order has accepted it); without it the sorter is
        Model.EncoderSort.std_sort_unstable_by_key, the exact model of std's unstable sort
     huffstable <limit> <freqs,csv>                  the same with the stable insertion sort as sorter
     sortchk <keys,csv>                              -> order of the indices after std_sort_unstable_by_key
     huffchk <limit> <freqs> <flag> <lens> <codes>   -> `ok` | `bad`     (Spec.PrefixCode.c14_ok, the certified checker)
     encode <ct> <w> <h> <pred> <icc> <exif> <xmp> <pixels>        -> `OK <file hex>` | `ERR <class>` | `PANIC <kind>`
     encfail <k> <ct> <w> <h> <pred> <icc> <exif> <xmp> <pixels>   -> same, sink failing at write call k:
                                                                     `ERR Io <hex accepted before>`
     frame <k> <ct> <w> <h> <pred> <pixels>    encode_frame alone (hook) on a sink failing at call k (k = -1: never) *)
open Oracle_gen
open Ocommon

let csv_z (s : string) : z list = if s = "-" then [] else List.map z_of_string (String.split_on_char ',' s)
let z_csv (l : z list) : string = if l = [] then "-" else String.concat "," (List.map zs l)

let panic_name (p : panic) = match p with
  | PIndex -> "index" | PSlice -> "slice" | POverflow -> "overflow" | PUnwrap -> "unwrap" | PAssert -> "assert"
  | PUnreachable -> "unreachable" | PCopyLen -> "copy_len" | PDivZero -> "div_zero" | PShift -> "shift"
let err_name (e : err) = match e with EIo -> "Io" | EInvalidDimensions -> "InvalidDimensions" | _ -> "other"

let color_of = function "L8" -> L8 | "La8" -> La8 | "Rgb8" -> Rgb8 | "Rgba8" -> Rgba8 | _ -> failwith "bad colour type"

let huff limit freqs sorter =
  match build_huffman_tree sorter freqs limit with
  | Ok ((flag, lens), codes) -> Printf.sprintf "%d %s %s" (if flag then 1 else 0) (z_csv lens) (z_csv codes)
  | Err e -> "ERR " ^ err_name e
  | Panic p -> "PANIC " ^ panic_name p
  | OutOfFuel -> "OUTOFFUEL"

let show_sink_result (s, r) =
  match r with
  | Ok _ -> "OK " ^ hex_of_zbytes (sink_bytes s)
  | Err EIo -> "ERR Io " ^ hex_of_zbytes (sink_bytes s)
  | Err e -> "ERR " ^ err_name e
  | Panic p -> "PANIC " ^ panic_name p
  | OutOfFuel -> "OUTOFFUEL"

let eval (ws : string list) : string option =
  match ws with
  | ["huff"; l; f] -> Some (huff (z_of_string l) (csv_z f) std_sort_unstable_by_key)
  | ["huffstable"; l; f] -> Some (huff (z_of_string l) (csv_z f) stable_sorter)
  | ["sortchk"; f] -> Some (z_csv (List.map fst (std_sort_unstable_by_key (enumerate (csv_z f)))))
  | ["huff"; l; f; o] ->
    let freqs = csv_z f and order = csv_z o in
    if not (valid_order freqs order) then Some "BADCASE order is not a sorted permutation"
    else Some (huff (z_of_string l) freqs (replay_sorter order))
  | ["huffchk"; l; f; flag; lens; codes] ->
    Some (if c14_ok (csv_z f) (z_of_string l) (flag = "1") (csv_z lens) (csv_z codes) then "ok" else "bad")
  | ["encode"; ct; w; h; p; icc; exif; xmp; px] ->
    Some (show_sink_result (run_encode std_sort_unstable_by_key (z_of_int (-1)) (zbytes_of_hex px) (z_of_string w) (z_of_string h) (color_of ct) (p = "1")
                              (zbytes_of_hex icc) (zbytes_of_hex exif) (zbytes_of_hex xmp)))
  | ["encfail"; k; ct; w; h; p; icc; exif; xmp; px] ->
    Some (show_sink_result (run_encode std_sort_unstable_by_key (z_of_string k) (zbytes_of_hex px) (z_of_string w) (z_of_string h) (color_of ct) (p = "1")
                              (zbytes_of_hex icc) (zbytes_of_hex exif) (zbytes_of_hex xmp)))
  | ["frame"; k; ct; w; h; p; px] ->
    Some (show_sink_result (run_encode_frame std_sort_unstable_by_key (z_of_string k) (zbytes_of_hex px) (z_of_string w) (z_of_string h)
                              (color_of ct) (p = "1")))
  | ("huff" | "huffstable" | "sortchk" | "huffchk" | "encode" | "encfail" | "frame") :: _ -> Some "BADCASE"
  | _ -> None
