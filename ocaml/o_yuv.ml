(* C13: `yuv rgb|rgba <w> <h> <hexY> <hexU> <hexV> <hexbuf>` -> Model.Yuv.fill_rgb / fill_rgba on the planes.
   Result: `OK <hex buf>` (or `PANIC`), followed by ` SPEC=same|DIFF` comparing with Spec.YUV.rgb(a)_plane when the call is
   well-formed (the theorem says `same`; the oracle re-evaluates it on every case as a test of the extraction). *)
open Oracle_gen
open Ocommon

let eval (ws : string list) : string option =
  match ws with
  | ["yuv"; kind; w; h; hy; hu; hv; hb] ->
    let w = int_of_string w and h = int_of_string h in
    let yp = zbytes_of_hex hy and up = zbytes_of_hex hu and vp = zbytes_of_hex hv and buf = zbytes_of_hex hb in
    let rgba = (kind = "rgba") in
    let r = if rgba then fill_rgba (nat_of_int w) yp up vp buf else fill_rgb (nat_of_int w) yp up vp buf in
    (match r with
     | Ok out ->
       let spec = if rgba then rgba_plane (nat_of_int w) (nat_of_int h) yp up vp buf
                  else rgb_plane (nat_of_int w) (nat_of_int h) yp up vp in
       Some (Printf.sprintf "OK %s" (hex_of_zbytes out) ^ (if spec = out then "" else " SPECDIFF"))
     | Panic _ -> Some "PANIC"
     | _ -> Some "ERR")
  | _ -> None
