(* The whole lossless decoder over a reader whose fill_buf fails once (coq/Model/LosslessIO.v, property C10): parsing and printing only.
   llio <sched> <fail_at | -> <w> <h> <implicit 0|1> <prefill byte> <hex payload>
     sched: comma-separated items `k` or `kxN` (k repeated N times), `-` = empty (whole remainder on every call)
   -> OK len=<bytes> h=<h1>-<h2> calls=N | ERR <DecodingError variant> calls=N | IOERR calls=N | PANIC <kind> | OUTOFFUEL
   calls = fill_buf calls made (the failing one included); h1, h2 = two polynomial hashes of the final pixel buffer
   (h = (h * 257 + byte + 1) mod 1000000007, h = (h * 263 + byte + 1) mod 998244353), computed here with native ints. *)
open Oracle_gen
open Ocommon

let sched_of_csv (s : string) : z list =
  if s = "-" then [] else
  List.concat_map (fun it ->
    match String.index_opt it 'x' with
    | Some i ->
      let k = z_of_string (String.sub it 0 i) and n = int_of_string (String.sub it (i + 1) (String.length it - i - 1)) in
      let rec mk n acc = if n <= 0 then acc else mk (n - 1) (k :: acc) in mk n []
    | None -> [z_of_string it]) (String.split_on_char ',' s)

let panic_name (p : panic) : string = match p with
  | PIndex -> "index" | PSlice -> "slice" | POverflow -> "overflow" | PUnwrap -> "unwrap" | PAssert -> "assert"
  | PUnreachable -> "unreachable" | PCopyLen -> "copy_len" | PDivZero -> "divzero" | PShift -> "shift"

let err_name (e : err) : string = match e with
  | EIo -> "IOERR"
  | EBitStreamError -> "ERR BitStreamError"
  | EHuffmanError -> "ERR HuffmanError"
  | ETransformError -> "ERR TransformError"
  | ELosslessSignatureInvalid -> "ERR LosslessSignatureInvalid"
  | EVersionNumberInvalid -> "ERR VersionNumberInvalid"
  | EInvalidColorCacheBits -> "ERR InvalidColorCacheBits"
  | EInconsistentImageSizes -> "ERR InconsistentImageSizes"
  | _ -> "ERR other"

let pix_hash (l : z list) : string =
  let h1 = ref 0 and h2 = ref 0 and n = ref 0 in
  List.iter (fun x -> let b = int_of_z x in
              h1 := (!h1 * 257 + b + 1) mod 1000000007;
              h2 := (!h2 * 263 + b + 1) mod 998244353;
              incr n) l;
  Printf.sprintf "len=%d h=%d-%d" !n !h1 !h2

let rec make_list n x acc = if n <= 0 then acc else make_list (n - 1) x (x :: acc)

let eval (ws : string list) : string option =
  match ws with
  | ["llio"; sched; fail; w; h; imp; prefill; payload] ->
    let wi = int_of_string w and hi = int_of_string h in
    let buf = make_list (wi * hi * 4) (z_of_string prefill) [] in
    let fa = if fail = "-" then None else Some (z_of_string fail) in
    let (out, calls) = o_llio (zbytes_of_hex payload) (sched_of_csv sched) fa (z_of_int wi) (z_of_int hi) (imp = "1") buf in
    Some (match out with
          | Ok l -> Printf.sprintf "OK %s calls=%s" (pix_hash l) (zs calls)
          | Err e -> Printf.sprintf "%s calls=%s" (err_name e) (zs calls)
          | Panic p -> "PANIC " ^ panic_name p
          | OutOfFuel -> "OUTOFFUEL")
  | "llio" :: _ -> Some "BADCASE"
  | _ -> None
