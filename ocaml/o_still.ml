(* C05 whole-still specification (Spec.Still: container -> Spec.VP8 -> Spec.YUV / Spec.Alpha / Spec.VP8L):
     `still <hex file>`                 -> `OK <w> <h> <alpha 0|1> <hex pixels>` | `ERR`
     `alpha <w> <h> <hex ALPH payload>` -> `<hex alpha plane>` | `ERR`          (4 words; the 5-word `alpha` case is o_alpha's) *)
open Oracle_gen
open Ocommon

let eval (ws : string list) : string option =
  match ws with
  | ["still"; file] ->
    (match still_spec_decode (zbytes_of_hex file) with
     | Some (((w, h), a), px) -> Some (Printf.sprintf "OK %s %s %d %s" (zs w) (zs h) (if a then 1 else 0) (hex_of_zbytes px))
     | None -> Some "ERR")
  | ["alpha"; w; h; payload] ->
    (match still_spec_alpha_plane (z_of_string w) (z_of_string h) (zbytes_of_hex payload) with
     | Some pl -> Some (hex_of_zbytes pl)
     | None -> Some "ERR")
  | _ -> None
