(* C08 / C03 (container layer).
   `container <memory_limit|-> <hex file> [ignored words]`  ->  Model.Container.container_eval (new + every accessor):
       `OK w h alpha anim lossy frames loop(0=forever) duration icc=<hex|none|ERR variant> exif=.. xmp=.. bufsize=<n|none>`
       | `ERR <DecodingError variant>` | `PANIC <kind>` | `OUTOFFUEL`
   `container_spec <memory_limit|-> <description tokens>`  ->  Spec.Container.container_expected on the structured
       description (the harness generator's twin check):
       `WF <0|1> <hex of Spec.serialize> <expected tuple in the OK format above>`
   Only parsing and printing happen here; every value printed is computed by extracted Coq code. *)
open Oracle_gen
open Ocommon

let panic_name (p : panic) : string =
  match p with
  | PIndex -> "index" | PSlice -> "slice" | POverflow -> "overflow" | PUnwrap -> "unwrap" | PAssert -> "assert"
  | PUnreachable -> "unreachable" | PCopyLen -> "copy_len" | PDivZero -> "div_zero" | PShift -> "shift"
let err_class (e : err) : string = match e with
  | EMemoryLimitExceeded -> "MemoryLimitExceeded" | EIo -> "IoError" | ERiffSignatureInvalid -> "RiffSignatureInvalid"
  | EWebpSignatureInvalid -> "WebpSignatureInvalid" | EChunkMissing -> "ChunkMissing" | EChunkHeaderInvalid -> "ChunkHeaderInvalid"
  | EImageTooLarge -> "ImageTooLarge" | ELosslessSignatureInvalid -> "LosslessSignatureInvalid" | EVersionNumberInvalid -> "VersionNumberInvalid"
  | EVp8MagicInvalid -> "Vp8MagicInvalid" | EInconsistentImageSizes -> "InconsistentImageSizes" | EUnsupportedFeature -> "UnsupportedFeature"
  | EInvalidChunkSize -> "InvalidChunkSize" | _ -> "other"
let b (x : bool) = if x then "1" else "0"

(* arbitrary-size decimal printing of a Z (u64 values exceed OCaml's 63-bit int) *)
let rec pos_to_digits (p : positive) : int list =
  (* little-endian base-10 digits; doubling with carry *)
  let dbl ds add =
    let rec go ds carry = match ds with
      | [] -> if carry = 0 then [] else [carry]
      | d :: tl -> let v = 2 * d + carry in (v mod 10) :: go tl (v / 10) in
    go ds add in
  match p with
  | XH -> [1]
  | XO q -> dbl (pos_to_digits q) 0
  | XI q -> dbl (pos_to_digits q) 1
let zdec (x : z) : string =
  match x with
  | Z0 -> "0"
  | Zpos p -> String.concat "" (List.rev_map string_of_int (pos_to_digits p))
  | Zneg p -> "-" ^ String.concat "" (List.rev_map string_of_int (pos_to_digits p))
(* decimal string to Z (memory limits up to 2^64-1) *)
let z_of_dec (s : string) : z =
  let rec go i (acc : z) =
    if i >= String.length s then acc
    else go (i + 1) (Z.add (Z.mul acc (z_of_int 10)) (z_of_int (Char.code s.[i] - 48))) in
  go 0 Z0
let limit_of (w : string) : z option = if w = "-" then None else Some (z_of_dec w)

let meta (r : (z list) option res) : string =
  match r with
  | Ok None -> "none"
  | Ok (Some p) -> hex_of_zbytes p
  | Err e -> "ERR " ^ err_class e
  | Panic p -> "PANIC " ^ panic_name p
  | OutOfFuel -> "OUTOFFUEL"

let tuple w hh al an lo fr lp du icc exif xmp buf =
  Printf.sprintf "OK %s %s %s %s %s %s %s %s icc=%s exif=%s xmp=%s bufsize=%s"
    (zdec w) (zdec hh) (b al) (b an) (b lo) (zdec fr) (zdec lp) (zdec du) icc exif xmp buf

(* ---- parser of container descriptions (prefix notation, see harness/src/c08.rs `describe`) ---- *)
exception Bad of string
let take (ws : string list ref) : string =
  match !ws with [] -> raise (Bad "truncated description") | w :: tl -> ws := tl; w
let pz ws = z_of_dec (take ws)
let pb ws = (take ws = "1")
let ph ws = zbytes_of_hex (take ws)
let pn ws = int_of_string (take ws)
let rec plist ws n f = if n <= 0 then [] else let x = f ws in x :: plist ws (n - 1) f
let p_vp8 ws = let t = pz ws in let w = pz ws in let hs = pz ws in let h = pz ws in let vs = pz ws in let r = ph ws in
  { v_tag = t; v_width = w; v_hscale = hs; v_height = h; v_vscale = vs; v_rest = r }
let p_vp8l ws = let w1 = pz ws in let h1 = pz ws in let a = pb ws in let r = ph ws in
  { l_w1 = w1; l_h1 = h1; l_alpha = a; l_rest = r }
let p_alph ws = let p = pz ws in let f = pz ws in let c = pz ws in let r = ph ws in
  { a_pre = p; a_filter = f; a_comp = c; a_rest = r }
let p_unk ws = let cc = ph ws in let p = ph ws in { u_cc = cc; u_payload = p }
let p_unks ws = let n = pn ws in plist ws n p_unk
let p_image ws = match take ws with
  | "LY0" -> FLossy (None, p_vp8 ws)
  | "LY1" -> let a = p_alph ws in FLossy (Some a, p_vp8 ws)
  | "LL" -> FLossless (p_vp8l ws)
  | w -> raise (Bad ("image " ^ w))
let p_frame ws =
  let x = pz ws in let y = pz ws in let w1 = pz ws in let h1 = pz ws in let d = pz ws in let rsv = pz ws in
  let nb = pb ws in let di = pb ws in let im = p_image ws in let u = p_unks ws in
  { f_x = x; f_y = y; f_w1 = w1; f_h1 = h1; f_duration = d; f_rsv = rsv; f_noblend = nb; f_dispose = di; f_image = im; f_unknown = u }
let p_chunk ws = match take ws with
  | "ICCP" -> CICCP (ph ws) | "EXIF" -> CEXIF (ph ws) | "XMP" -> CXMP (ph ws)
  | "ANIM" -> let bg = ph ws in CANIM (bg, pz ws)
  | "ANMF" -> CANMF (p_frame ws) | "ALPH" -> CALPH (p_alph ws) | "VP8" -> CVP8 (p_vp8 ws) | "VP8L" -> CVP8L (p_vp8l ws)
  | "UNK" -> CUnknown (p_unk ws)
  | w -> raise (Bad ("chunk " ^ w))
let p_vp8x ws =
  let r1 = pz ws in let i = pb ws in let l = pb ws in let e = pb ws in let x = pb ws in let a = pb ws in let r2 = pz ws in
  let r3 = pz ws in let w1 = pz ws in let h1 = pz ws in
  { x_rsv1 = r1; x_icc = i; x_alpha = l; x_exif = e; x_xmp = x; x_anim = a; x_rsv2 = r2; x_rsv3 = r3; x_w1 = w1; x_h1 = h1 }
let p_container ws = match take ws with
  | "SL" -> let v = p_vp8 ws in SimpleLossy (v, p_unks ws)
  | "SLL" -> let l = p_vp8l ws in SimpleLossless (l, p_unks ws)
  | "EX" -> let x = p_vp8x ws in let n = pn ws in Extended (x, plist ws n p_chunk)
  | w -> raise (Bad ("container " ^ w))

let eval (ws : string list) : string option =
  match ws with
  | "container" :: limit :: h :: _ ->
    (match container_eval (limit_of limit) (zbytes_of_hex h) with
     | Err e -> Some ("ERR " ^ err_class e)
     | Panic p -> Some ("PANIC " ^ panic_name p)
     | OutOfFuel -> Some "OUTOFFUEL"
     | Ok (((((((((((w, hh), al), an), lo), fr), lp), du), icc), exif), xmp), buf) ->
       Some (tuple w hh al an lo fr lp du (meta icc) (meta exif) (meta xmp)
               (match buf with Some n -> zdec n | None -> "none")))
  | "container" :: _ -> Some "BADCASE"
  | "container_spec" :: limit :: rest ->
    (try
       let r = ref rest in
       let c = p_container r in
       if !r <> [] then Some "BADCASE trailing tokens" else begin
         let ((wf, bytes), (((((((((((w, hh), al), an), lo), fr), lp), du), icc), exif), xmp), buf)) = container_expected c in
         let lim = limit_of limit in
         let m (o : z list option) = match o with
           | None -> "none"
           | Some p -> (match lim with
                        | Some l when Z.ltb l (z_of_int (List.length p)) -> "ERR MemoryLimitExceeded"
                        | _ -> hex_of_zbytes p) in
         Some (Printf.sprintf "WF %s %s %s" (b wf) (hex_of_zbytes bytes)
                 (tuple w hh al an lo fr lp du (m icc) (m exif) (m xmp) (zdec buf)))
       end
     with Bad m -> Some ("BADCASE " ^ m))
  | _ -> None
