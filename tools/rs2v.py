#!/usr/bin/env python3
"""rs2v: translate the constant tables and the scalar integer kernels of /repo/src/*.rs to Gallina.

Part of the trusted base (DESIGN.md section 4).  Run on every check:
    rs2v.py <repo-src-dir> <out-dir>          writes <out-dir>/Tables.v and <out-dir>/Kernels.v
Files are rewritten only when their content changes (so `make` recompiles only what depends on them).

Tables:  every `const|static NAME: <int type or array type> = <literal / array literal>` of every source
         file becomes `Definition <file>_<NAME>` of type Z / list Z / nested lists (tuples become
         2-element lists).  Named constants inside are resolved.

Kernels: a whitelisted set of straight-line integer functions is translated from a restricted Rust subset
         (integer `let`, shadowing re-assignment, `if/else` expressions, early `return`, + - * / % >> << & | ^ !,
         comparisons, && ||, `as` casts, `T::from`, `try_into().unwrap()` / `T::try_from(..).unwrap()`,
         min/max/clamp/abs/abs_diff/wrapping_*/saturating_sub/ilog2/leading_zeros, tuple results, array literals with
         literal indices, calls to other translated functions).  For each function `f` two definitions
         are emitted:
           f      : Z -> ... -> Z           value semantics: unbounded Z arithmetic, `as` casts and wrapping_* as
                                            explicit `wrapU n` / `wrapS n`;
           f_ok   : Z -> ... -> bool        true iff no checked operation of a debug build panics on the way
                                            (+ - * unary- in range of their Rust type, shift amount < width,
                                            divisor <> 0, unwrap of try_into in range, debug_assert! holds),
                                            including those of callees.
         Under `f_ok = true`, debug and release builds compute `f`.
         Anything outside the subset makes the translator emit `(* UNTRANSLATED name: reason *)` and record
         the name in <out-dir>/untranslated.txt; the caller falls back to the correspondence tie.
"""
import re, sys, pathlib, json, os
sys.path.insert(0, os.path.dirname(os.path.abspath(__file__)))

# ------------------------------------------------------------------------------------------------
# shared helpers
# ------------------------------------------------------------------------------------------------
INT_TYPES = {'u8': (False, 8), 'u16': (False, 16), 'u32': (False, 32), 'u64': (False, 64), 'usize': (False, 64),
             'i8': (True, 8), 'i16': (True, 16), 'i32': (True, 32), 'i64': (True, 64), 'isize': (True, 64),
             'Prob': (False, 8)}


def strip_comments(s):
    # keep string/char literals out of the way: the sources have no `//` inside literals that matter here
    s = re.sub(r'/\*.*?\*/', lambda m: ' ' * 0 + re.sub(r'[^\n]', ' ', m.group(0)), s, flags=re.S)
    s = re.sub(r'//[^\n]*', '', s)
    return s


def write_if_changed(path, text):
    p = pathlib.Path(path)
    if p.exists() and p.read_text() == text:
        return False
    p.write_text(text)
    return True


def zlit(v):
    return str(v) if v >= 0 else '(%d)' % v


# ------------------------------------------------------------------------------------------------
# tokenizer / parser for the expression subset
# ------------------------------------------------------------------------------------------------
TOK = re.compile(r'''
    (?P<ws>\s+)
  | (?P<num>0[xX][0-9a-fA-F_]+(?:[ui](?:8|16|32|64|size))?|0b[01_]+(?:[ui](?:8|16|32|64|size))?|\d[\d_]*(?:[ui](?:8|16|32|64|size))?)
  | (?P<id>[A-Za-z_][A-Za-z0-9_]*!?)
  | (?P<op>::|->|=>|<<=|>>=|<<|>>|<=|>=|==|!=|&&|\|\||\+=|-=|\*=|/=|%=|&=|\|=|\^=|\.\.=|\.\.|[-+*/%&|^!<>=(){}\[\],;:.#?])
''', re.X)


class Untranslatable(Exception):
    pass


def tokenize(s):
    out, i = [], 0
    while i < len(s):
        m = TOK.match(s, i)
        if not m:
            raise Untranslatable('cannot tokenize at %r' % s[i:i + 20])
        i = m.end()
        if m.lastgroup == 'ws':
            continue
        out.append((m.lastgroup, m.group(m.lastgroup)))
    return out


def parse_num(tok):
    t = tok.replace('_', '')
    m = re.fullmatch(r'(0[xX][0-9a-fA-F]+|0b[01]+|\d+)((?:[ui](?:8|16|32|64|size))?)', t)
    if not m:
        raise Untranslatable('bad number %r' % tok)
    body, suf = m.group(1), m.group(2)
    v = int(body, 16) if body[:2].lower() == '0x' else int(body[2:], 2) if body[:2] == '0b' else int(body)
    return v, (suf or None)


BINPREC = {'||': 1, '&&': 2, '==': 3, '!=': 3, '<': 3, '<=': 3, '>': 3, '>=': 3, '|': 4, '^': 5, '&': 6,
           '<<': 7, '>>': 7, '+': 8, '-': 8, '*': 9, '/': 9, '%': 9}
# `as` binds tighter than any binary operator and looser than unary


class Parser:
    def __init__(self, toks):
        self.t, self.i = toks, 0

    def peek(self, k=0):
        return self.t[self.i + k] if self.i + k < len(self.t) else ('eof', '')

    def next(self):
        tok = self.peek()
        self.i += 1
        return tok

    def accept(self, val):
        if self.peek()[1] == val:
            self.i += 1
            return True
        return False

    def expect(self, val):
        if not self.accept(val):
            raise Untranslatable('expected %r, found %r' % (val, self.peek()[1]))

    # ---- types
    def parse_type(self):
        k, v = self.next()
        if k == 'id' and (v in INT_TYPES or v == 'bool'):
            return v
        if v == '(':
            ts = []
            while not self.accept(')'):
                ts.append(self.parse_type())
                self.accept(',')
            return ('tuple', ts)
        if v == '[':
            el = self.parse_type()
            self.expect(';')
            n = self.parse_expr()
            self.expect(']')
            return ('array', el, n)
        raise Untranslatable('unsupported type %r' % v)

    # ---- blocks and statements
    def parse_block(self):
        """'{' stmts [expr] '}'  ->  ('block', [stmts], final_expr or None)"""
        self.expect('{')
        stmts, final = [], None
        while True:
            if self.accept('}'):
                break
            k, v = self.peek()
            if v == '#':  # inner attribute  #![allow(..)]  or  #[..]
                self.next()
                self.accept('!')
                self.expect('[')
                depth = 1
                while depth:
                    kk, vv = self.next()
                    depth += (vv == '[') - (vv == ']')
                continue
            if v in ('let', 'const'):
                self.next()
                self.accept('mut')
                if self.peek()[1] == '(':  # tuple pattern
                    self.next()
                    names = []
                    while not self.accept(')'):
                        self.accept('mut')
                        names.append(self.next()[1])
                        self.accept(',')
                    pat = ('tuple', names)
                else:
                    pat = self.next()[1]
                ty = None
                if self.accept(':'):
                    ty = self.parse_type()
                self.expect('=')
                e = self.parse_expr()
                self.expect(';')
                stmts.append(('let', pat, ty, e))
                continue
            if v in ('debug_assert!', 'assert!'):
                self.next()
                self.expect('(')
                e = self.parse_expr()
                # optional message
                depth = 1
                while depth:
                    kk, vv = self.next()
                    depth += (vv == '(') - (vv == ')')
                self.accept(';')
                stmts.append(('assert', v, e))
                continue
            if v == 'return':
                self.next()
                e = self.parse_expr()
                self.accept(';')
                stmts.append(('return', e))
                continue
            # indexed assignment `x[i] = e;`
            if k == 'id' and self.peek(1)[1] == '[':
                save = self.i
                name = self.next()[1]
                self.next()
                try:
                    idx = self.parse_expr()
                    self.expect(']')
                    if self.peek()[1] == '=':
                        self.next()
                        e = self.parse_expr()
                        self.expect(';')
                        stmts.append(('assign_index', name, idx, e))
                        continue
                except Untranslatable:
                    pass
                self.i = save
            # assignment `x = e;` / `x op= e;` or expression
            if k == 'id' and self.peek(1)[1] in ('=', '+=', '-=', '*=', '>>=', '<<=', '&=', '|=', '^=', '/=', '%='):
                name = self.next()[1]
                op = self.next()[1]
                e = self.parse_expr()
                self.expect(';')
                if op != '=':
                    e = ('bin', op[:-1], ('var', name), e)
                stmts.append(('assign', name, e))
                continue
            e = self.parse_expr()
            if self.accept(';'):
                stmts.append(('expr', e))
                continue
            if e[0] == 'if' and self.peek()[1] != '}':
                stmts.append(('expr', e))   # statement-position if without ';'
                continue
            self.expect('}')
            final = e
            break
        return ('block', stmts, final)

    # ---- expressions
    def parse_expr(self, minprec=0):
        lhs = self.parse_unary()
        while True:
            k, v = self.peek()
            if v == 'as':
                self.next()
                ty = self.parse_type()
                lhs = ('cast', lhs, ty)
                continue
            if v in BINPREC and BINPREC[v] > minprec:
                # comparison operators are non-associative; fine
                self.next()
                rhs = self.parse_expr(BINPREC[v])
                lhs = ('bin', v, lhs, rhs)
                continue
            break
        return lhs

    def parse_unary(self):
        k, v = self.peek()
        if v == '-':
            self.next()
            return ('neg', self.parse_unary_cast())
        if v == '!':
            self.next()
            return ('not', self.parse_unary_cast())
        if v == '&':
            self.next()
            self.accept('mut')
            return self.parse_unary()
        if v == '*':
            self.next()
            return self.parse_unary()
        return self.parse_postfix()

    def parse_unary_cast(self):
        # operand of a unary operator: unary binds tighter than `as`
        return self.parse_unary()

    def parse_args(self):
        args = []
        self.expect('(')
        while not self.accept(')'):
            args.append(self.parse_expr())
            self.accept(',')
        return args

    def parse_postfix(self):
        e = self.parse_primary()
        while True:
            k, v = self.peek()
            if v == '.':
                self.next()
                kk, name = self.next()
                if kk == 'num':           # tuple field  t.0
                    e = ('field', e, int(name))
                    continue
                if self.peek()[1] == '(':
                    args = self.parse_args()
                    e = ('method', name, e, args)
                else:
                    e = ('fieldname', e, name)
                continue
            if v == '[':
                self.next()
                idx = self.parse_expr()
                self.expect(']')
                e = ('index', e, idx)
                continue
            if v == '?':
                raise Untranslatable('? operator')
            break
        return e

    def parse_primary(self):
        k, v = self.next()
        if k == 'num':
            val, suf = parse_num(v)
            return ('lit', val, suf)
        if v == '(':
            items = []
            trailing = False
            while not self.accept(')'):
                items.append(self.parse_expr())
                trailing = self.accept(',')
            if len(items) == 1 and not trailing:
                return items[0]
            return ('tuple', items)
        if v == '[':
            items = []
            while not self.accept(']'):
                items.append(self.parse_expr())
                if self.accept(';'):
                    n = self.parse_expr()
                    self.expect(']')
                    return ('repeat', items[0], n)
                self.accept(',')
            return ('array', items)
        if v == 'if':
            cond = self.parse_expr()
            then = self.parse_block()
            els = None
            if self.accept('else'):
                if self.peek()[1] == 'if':
                    els = ('block', [], self.parse_primary())
                else:
                    els = self.parse_block()
            return ('if', cond, then, els)
        if v == '{':
            self.i -= 1
            return self.parse_block()
        if v in ('true', 'false'):
            return ('bool', v == 'true')
        if k == 'id':
            path = [v]
            while self.peek()[1] == '::':
                self.next()
                path.append(self.next()[1])
            if self.peek()[1] == '(':
                args = self.parse_args()
                return ('call', path, args)
            if len(path) == 1:
                return ('var', v)
            return ('path', path)
        raise Untranslatable('unexpected token %r' % v)


# ------------------------------------------------------------------------------------------------
# translation of expressions to Gallina, with Rust types
# ------------------------------------------------------------------------------------------------
def trange(ty):
    s, n = INT_TYPES[ty]
    return (-(1 << (n - 1)), (1 << (n - 1)) - 1) if s else (0, (1 << n) - 1)


def wrap(ty, e):
    s, n = INT_TYPES[ty]
    return '(%s %d %s)' % ('wrapS' if s else 'wrapU', n, e)


def inrange(ty, e):
    lo, hi = trange(ty)
    return '(inr %s %s %s)' % (zlit(lo), zlit(hi), e)


class Ctx:
    """translation context for one function"""

    def __init__(self, fns, consts, self_type=None):
        self.fns = fns          # name -> (param types, return type)  of already translated functions
        self.consts = consts    # NAME -> (int value, type or None)
        self.checks = []        # list of Gallina bool expressions valid in the current let-scope
        self.counter = 0

    def fresh(self, base):
        self.counter += 1
        return '%s_%d' % (re.sub(r'\W+', '_', base).strip('_'), self.counter)


def unify(a, b):
    if a is None:
        return b
    if b is None:
        return a
    if a == b:
        return a
    # Prob == u8
    if {a, b} == {'u8', 'Prob'}:
        return 'u8'
    raise Untranslatable('type mismatch %s vs %s' % (a, b))


class Tr:
    """Translates a function body to a Gallina term in 'let-normal' style.
    Result: term string for the value, term string for the ok-condition."""

    def __init__(self, ctx, env, ret_type):
        self.ctx, self.ret_type = ctx, ret_type

    # expression -> (gallina, type, [checks])
    def expr(self, e, env, want=None):
        k = e[0]
        if k == 'lit':
            ty = e[2] or want
            return zlit(e[1]), ty, []
        if k == 'bool':
            return ('true' if e[1] else 'false'), 'bool', []
        if k == 'var':
            name = e[1]
            if name in env:
                return env[name][0], env[name][1], []
            if name in self.ctx.consts:
                v, ty = self.ctx.consts[name]
                return zlit(v), ty or want, []
            raise Untranslatable('unknown variable %s' % name)
        if k == 'path':
            p = e[1]
            if len(p) == 2 and p[0] in INT_TYPES and p[1] in ('MAX', 'MIN'):
                lo, hi = trange(p[0])
                return zlit(hi if p[1] == 'MAX' else lo), p[0], []
            if p[-1] in self.ctx.consts:
                v, ty = self.ctx.consts[p[-1]]
                return zlit(v), ty or want, []
            raise Untranslatable('unknown path %s' % '::'.join(p))
        if k == 'neg':
            if e[1][0] == 'lit':
                return zlit(-e[1][1]), (e[1][2] or want), []
            g, ty, c = self.expr(e[1], env, want)
            if ty is None:
                if e[1][0] == 'lit':
                    return zlit(-e[1][1]), None, []
                return '(- %s)' % g, None, c
            if ty == 'bool':
                raise Untranslatable('neg of bool')
            r = '(- %s)' % g
            return r, ty, c + [inrange(ty, r)]
        if k == 'not':
            g, ty, c = self.expr(e[1], env, want)
            if ty == 'bool':
                return '(negb %s)' % g, 'bool', c
            if ty is None:
                raise Untranslatable('! on untyped integer')
            s, n = INT_TYPES[ty]
            if s:
                return '(- %s - 1)' % g, ty, c
            return '(%d - %s)' % ((1 << n) - 1, g), ty, c
        if k == 'cast':
            tgt = e[2]
            if tgt not in INT_TYPES:
                raise Untranslatable('cast to %s' % (tgt,))
            g, ty, c = self.expr(e[1], env, None)
            if ty == 'bool':
                return '(if %s then 1 else 0)' % g, tgt, c
            if ty is None:
                # untyped literal cast: value must fit (rustc would reject otherwise for literals)
                return wrap(tgt, g), tgt, c
            lo, hi = trange(ty)
            tlo, thi = trange(tgt)
            if tlo <= lo and hi <= thi:
                return g, tgt, c
            return wrap(tgt, g), tgt, c
        if k == 'bin':
            return self.binop(e, env, want)
        if k == 'call':
            return self.call(e, env, want)
        if k == 'method':
            return self.method(e, env, want)
        if k == 'if':
            return self.ifexpr(e, env, want)
        if k == 'block':
            return self.block(e, env, want)
        if k == 'tuple':
            parts = [self.expr(x, env, None) for x in e[1]]
            return '(%s)' % ', '.join(p[0] for p in parts), ('tuple', [p[1] for p in parts]), sum((p[2] for p in parts), [])
        if k == 'array':
            parts = [self.expr(x, env, None) for x in e[1]]
            ty = None
            for p in parts:
                ty = unify(ty, p[1])
            return ('arr', [p[0] for p in parts]), ('array', ty, len(parts)), sum((p[2] for p in parts), [])
        if k == 'index' and e[1][0] == 'var' and ('%s@' % e[1][1]) in env:
            idx = self.const_int(e[2], env)
            key = '%s@%d' % (e[1][1], idx)
            if key not in env:
                raise Untranslatable('index %d of %s out of the declared range' % (idx, e[1][1]))
            return env[key][0], env[key][1], []
        if k == 'index':
            base, bty, c = self.expr(e[1], env, None)
            if isinstance(base, tuple) and base[0] == 'arr':
                idx = self.const_int(e[2], env)
                if not (0 <= idx < len(base[1])):
                    raise Untranslatable('literal index out of range')
                return base[1][idx], bty[1], c
            raise Untranslatable('index into non-literal array')
        if k == 'field':
            base, bty, c = self.expr(e[1], env, None)
            if isinstance(bty, tuple) and bty[0] == 'tuple':
                n = len(bty[1])
                g = base
                # right-nested projections for Coq tuples ((a,b),c)
                i = e[2]
                for _ in range(n - 1 - i):
                    g = '(fst %s)' % g
                if i > 0:
                    g = '(snd %s)' % g
                return g, bty[1][i], c
            raise Untranslatable('field of non-tuple')
        raise Untranslatable('unsupported expression %s' % k)

    def const_int(self, e, env):
        if e[0] == 'lit':
            return e[1]
        if e[0] == 'var' and e[1] in self.ctx.consts:
            return self.ctx.consts[e[1]][0]
        raise Untranslatable('index is not a literal')

    def binop(self, e, env, want):
        op = e[1]
        if op in ('&&', '||'):
            a, ta, ca = self.expr(e[2], env, 'bool')
            b, tb, cb = self.expr(e[3], env, 'bool')
            if ta != 'bool' or tb != 'bool':
                raise Untranslatable('&& on non-bool')
            # short circuit: checks of the right operand matter only when it is evaluated
            guard = a if op == '&&' else '(negb %s)' % a
            cb = ['(implb %s %s)' % (guard, x) for x in cb]
            return '(%s %s %s)' % (a, '&&' if op == '&&' else '||', b), 'bool', ca + cb
        if op in ('==', '!=', '<', '<=', '>', '>='):
            a, ta, ca = self.expr(e[2], env, None)
            b, tb, cb = self.expr(e[3], env, ta)
            if ta is None and tb is not None:
                a, ta, ca = self.expr(e[2], env, tb)
            unify(ta, tb)
            if ta == 'bool':
                if op == '==':
                    return '(Bool.eqb %s %s)' % (a, b), 'bool', ca + cb
                if op == '!=':
                    return '(negb (Bool.eqb %s %s))' % (a, b), 'bool', ca + cb
                raise Untranslatable('ordering on bool')
            g = {'==': '(%s =? %s)', '!=': '(negb (%s =? %s))', '<': '(%s <? %s)', '<=': '(%s <=? %s)',
                 '>': '(%s >? %s)', '>=': '(%s >=? %s)'}[op] % (a, b)
            return g, 'bool', ca + cb
        if op in ('<<', '>>'):
            a, ta, ca = self.expr(e[2], env, want)
            b, tb, cb = self.expr(e[3], env, None)
            if ta is None:
                raise Untranslatable('shift of untyped integer')
            s, n = INT_TYPES[ta]
            if re.fullmatch(r'\d+', b) and 0 <= int(b) < n:
                chk = ca + cb
            else:
                chk = ca + cb + ['((0 <=? %s) && (%s <? %d))' % (b, b, n)]
            if op == '>>':
                return '(Z.shiftr %s %s)' % (a, b), ta, chk
            return wrap(ta, '(Z.shiftl %s %s)' % (a, b)), ta, chk
        # arithmetic / bitwise
        a, ta, ca = self.expr(e[2], env, want)
        b, tb, cb = self.expr(e[3], env, ta or want)
        if ta is None and tb is not None:
            a, ta, ca = self.expr(e[2], env, tb)
        ty = unify(ta, tb)
        if ty == 'bool':
            if op == '&':
                return '(%s && %s)' % (a, b), 'bool', ca + cb
            if op == '|':
                return '(%s || %s)' % (a, b), 'bool', ca + cb
            if op == '^':
                return '(xorb %s %s)' % (a, b), 'bool', ca + cb
            raise Untranslatable('arithmetic on bool')
        chk = ca + cb
        if op in ('+', '-', '*'):
            g = '(%s %s %s)' % (a, op, b)
            if ty is not None:
                chk = chk + [inrange(ty, g)]
            return g, ty, chk
        if op == '/':
            g = '(Z.quot %s %s)' % (a, b)
            if not (re.fullmatch(r'\d+', b) and int(b) != 0):
                chk = chk + ['(negb (%s =? 0))' % b]
            if ty is not None and INT_TYPES[ty][0]:
                chk = chk + [inrange(ty, g)]
            return g, ty, chk
        if op == '%':
            if re.fullmatch(r'\d+', b) and int(b) != 0:
                return '(Z.rem %s %s)' % (a, b), ty, chk
            return '(Z.rem %s %s)' % (a, b), ty, chk + ['(negb (%s =? 0))' % b]
        if op == '&':
            return '(Z.land %s %s)' % (a, b), ty, chk
        if op == '|':
            return '(Z.lor %s %s)' % (a, b), ty, chk
        if op == '^':
            return '(Z.lxor %s %s)' % (a, b), ty, chk
        raise Untranslatable('operator %s' % op)

    def call(self, e, env, want):
        path, args = e[1], e[2]
        # T::from(x), T::try_from(x) handled in method (unwrap) below
        if len(path) == 2 and path[0] in INT_TYPES and path[1] == 'from':
            g, ty, c = self.expr(args[0], env, None)
            if ty == 'bool':
                return '(if %s then 1 else 0)' % g, path[0], c
            if ty is None:
                return g, path[0], c
            lo, hi = trange(ty)
            tlo, thi = trange(path[0])
            if not (tlo <= lo and hi <= thi):
                raise Untranslatable('lossy From')
            return g, path[0], c
        if len(path) == 2 and path[0] in INT_TYPES and path[1] == 'try_from':
            g, ty, c = self.expr(args[0], env, None)
            return ('tryfrom', path[0], g), ('result', path[0]), c
        name = path[-1]
        if name in self.ctx.fns:
            gname, ptys, rty = self.ctx.fns[name]
            if len(ptys) != len(args):
                raise Untranslatable('arity of %s' % name)
            gs, cs = [], []
            for a, pt in zip(args, ptys):
                g, ty, c = self.expr(a, env, pt)
                if isinstance(g, tuple):
                    raise Untranslatable('array argument')
                unify(ty, pt)
                gs.append(g)
                cs += c
            app = '(%s %s)' % (gname, ' '.join(gs))
            cs.append('(%s_ok %s)' % (gname, ' '.join(gs)))
            return app, rty, cs
        raise Untranslatable('call to untranslated function %s' % '::'.join(path))

    def method(self, e, env, want):
        name, recv, args = e[1], e[2], e[3]
        if name == 'unwrap':
            g, ty, c = self.expr(recv, env, want)
            if isinstance(g, tuple) and g[0] == 'tryfrom':
                return g[2], g[1], c + [inrange(g[1], g[2])]
            raise Untranslatable('unwrap of non-try_into')
        if name == 'try_into':
            g, ty, c = self.expr(recv, env, None)
            if want is None or want not in INT_TYPES:
                raise Untranslatable('try_into without known target type')
            return ('tryfrom', want, g), ('result', want), c
        if name == 'into':
            g, ty, c = self.expr(recv, env, None)
            if want is None:
                raise Untranslatable('into without target type')
            return g, want, c
        g, ty, c = self.expr(recv, env, want)
        if isinstance(g, tuple):
            raise Untranslatable('method %s on array' % name)
        if name in ('max', 'min'):
            b, tb, cb = self.expr(args[0], env, ty)
            ty = unify(ty, tb)
            return '(Z.%s %s %s)' % (name, g, b), ty, c + cb
        if name == 'clamp':
            lo, tl, cl = self.expr(args[0], env, ty)
            hi, th, ch = self.expr(args[1], env, ty)
            extra = [] if (re.fullmatch(r'\(?-?\d+\)?', lo) and re.fullmatch(r'\(?-?\d+\)?', hi) and int(lo.strip('()')) <= int(hi.strip('()'))) else ['(%s <=? %s)' % (lo, hi)]
            return '(Z.min (Z.max %s %s) %s)' % (g, lo, hi), ty, c + cl + ch + extra
        if ty is None:
            raise Untranslatable('method %s on untyped integer' % name)
        if name in ('wrapping_add', 'wrapping_sub', 'wrapping_mul'):
            b, tb, cb = self.expr(args[0], env, ty)
            op = {'wrapping_add': '+', 'wrapping_sub': '-', 'wrapping_mul': '*'}[name]
            return wrap(ty, '(%s %s %s)' % (g, op, b)), ty, c + cb
        if name == 'wrapping_neg':
            return wrap(ty, '(- %s)' % g), ty, c
        if name == 'saturating_sub':
            b, tb, cb = self.expr(args[0], env, ty)
            lo, hi = trange(ty)
            return '(Z.min (Z.max (%s - %s) %s) %s)' % (g, b, zlit(lo), zlit(hi)), ty, c + cb
        if name == 'saturating_add':
            b, tb, cb = self.expr(args[0], env, ty)
            lo, hi = trange(ty)
            return '(Z.min (Z.max (%s + %s) %s) %s)' % (g, b, zlit(lo), zlit(hi)), ty, c + cb
        if name == 'abs':
            r = '(Z.abs %s)' % g
            return r, ty, c + [inrange(ty, r)]
        if name == 'abs_diff':
            b, tb, cb = self.expr(args[0], env, ty)
            s, n = INT_TYPES[ty]
            uty = {8: 'u8', 16: 'u16', 32: 'u32', 64: 'u64'}[n]
            return '(Z.abs (%s - %s))' % (g, b), uty, c + cb
        if name == 'unsigned_abs':
            s, n = INT_TYPES[ty]
            return '(Z.abs %s)' % g, {8: 'u8', 16: 'u16', 32: 'u32', 64: 'u64'}[n], c
        if name == 'ilog2':
            return '(Z.log2 %s)' % g, 'u32', c + ['(0 <? %s)' % g]
        if name == 'leading_zeros':
            s, n = INT_TYPES[ty]
            if s:
                raise Untranslatable('leading_zeros on signed')
            return '(if %s =? 0 then %d else %d - Z.log2 %s)' % (g, n, n - 1, g), 'u32', c
        if name == 'trailing_zeros' or name == 'count_ones' or name == 'reverse_bits':
            raise Untranslatable('method %s' % name)
        if name in ('checked_shr',):
            raise Untranslatable('checked_shr')
        raise Untranslatable('method %s' % name)

    def ifexpr(self, e, env, want):
        cond, tc, cc = self.expr(e[1], env, 'bool')
        if tc != 'bool':
            raise Untranslatable('if condition not bool')
        if e[3] is None:
            raise Untranslatable('if without else in value position')
        a, ta, ca = self.block(e[2], env, want)
        b, tb, cb = self.block(e[3], env, want or ta)
        if ta is None and tb is not None:
            a, ta, ca = self.block(e[2], env, tb)
        ty = ta if ta == tb else unify(ta, tb) if not isinstance(ta, tuple) else ta
        if isinstance(a, tuple) or isinstance(b, tuple):
            raise Untranslatable('array-valued if')
        chk = cc
        if ca:
            chk = chk + ['(if %s then %s else true)' % (cond, ' && '.join(ca))]
        if cb:
            chk = chk + ['(if %s then true else %s)' % (cond, ' && '.join(cb))]
        return '(if %s then %s else %s)' % (cond, a, b), ty, chk

    def block(self, blk, env, want):
        """Translate a block used as an expression.  Lets are emitted as Gallina lets; checks inside the
        scope of a let are wrapped in the same let."""
        assert blk[0] == 'block'
        stmts, final = blk[1], blk[2]
        env = dict(env)
        binds = []   # (gallina name, term)
        checks = []  # each already closed w.r.t. binds that precede it -> we wrap at the end
        pending = []  # list of (n_binds_at_time, check)
        ret = None
        for idx, st in enumerate(stmts):
            if st[0] == 'let' or st[0] == 'assign':
                if st[0] == 'let':
                    pat, ty, ex = st[1], st[2], st[3]
                else:
                    pat, ty, ex = st[1], (env[st[1]][1] if st[1] in env else None), st[2]
                    if st[1] not in env:
                        raise Untranslatable('assignment to unknown %s' % st[1])
                if isinstance(ty, tuple):
                    ty_want = None
                else:
                    ty_want = ty
                g, gty, c = self.expr(ex, env, ty_want)
                pending += [(len(binds), x) for x in c]
                if isinstance(pat, tuple):
                    if not (isinstance(gty, tuple) and gty[0] == 'tuple' and len(gty[1]) == len(pat[1])):
                        raise Untranslatable('tuple pattern mismatch')
                    names = [self.ctx.fresh(n) for n in pat[1]]
                    binds.append(("'(%s)" % ', '.join(names), g))
                    for n, gn, t in zip(pat[1], names, gty[1]):
                        env[n] = (gn, t)
                    continue
                if isinstance(g, tuple) and g[0] == 'arr':
                    # bind each element
                    names = []
                    for j, el in enumerate(g[1]):
                        gn = self.ctx.fresh('%s%d' % (pat, j))
                        binds.append((gn, el))
                        names.append(gn)
                    env[pat] = (('arr', names), gty)
                    continue
                if isinstance(g, tuple):
                    raise Untranslatable('binding of unresolved try_into')
                if ty_want is not None and gty is not None:
                    unify(ty_want, gty)
                gn = self.ctx.fresh(pat)
                binds.append((gn, g))
                env[pat] = (gn, ty_want or gty)
                continue
            if st[0] == 'assign_index':
                name, idx, ex = st[1], self.const_int(st[2], env), st[3]
                outs = env.get('@out')
                if outs is None or name != outs[0]:
                    raise Untranslatable('indexed assignment to %s' % name)
                g, gty, c = self.expr(ex, env, outs[1])
                pending += [(len(binds), x) for x in c]
                gn = self.ctx.fresh('%s%d' % (name, idx))
                binds.append((gn, g))
                outs[2][idx] = gn
                # later reads of name[idx] see the new value
                env['%s@%d' % (name, idx)] = (gn, outs[1])
                continue
            if st[0] == 'assert':
                g, gty, c = self.expr(st[2], env, 'bool')
                pending += [(len(binds), x) for x in c + [g]]
                continue
            if st[0] == 'return':
                # early return at top level of block: only supported as `if c { return e; }` (see below) or last stmt
                if idx != len(stmts) - 1 or final is not None:
                    raise Untranslatable('return in the middle of a block')
                final = st[1]
                continue
            if st[0] == 'expr':
                ex = st[1]
                # pattern: if cond { return e; }   => if cond then e else <rest>
                if ex[0] == 'if' and ex[3] is None and len(ex[2][1]) == 1 and ex[2][1][0][0] == 'return' and ex[2][2] is None:
                    cond, tc, cc = self.expr(ex[1], env, 'bool')
                    pending += [(len(binds), x) for x in cc]
                    rv, rty, rc = self.expr(ex[2][1][0][1], env, want or self.ret_type)
                    rest = ('block', stmts[idx + 1:], final)
                    rg, rgty, rgc = self.block(rest, env, want or self.ret_type)
                    chk = []
                    if rc:
                        chk.append('(if %s then %s else true)' % (cond, ' && '.join(rc)))
                    if rgc:
                        chk.append('(if %s then true else %s)' % (cond, ' && '.join(rgc)))
                    pending += [(len(binds), x) for x in chk]
                    term = '(if %s then %s else %s)' % (cond, rv, rg)
                    return self.close(binds, term, pending, rty or rgty)
                if ex[0] == 'method' and ex[1] == 'copy_from_slice' and ex[2][0] == 'var' and env.get('@out') and env['@out'][0] == ex[2][1]:
                    g, gty, c = self.expr(ex[3][0], env, None)
                    pending += [(len(binds), x) for x in c]
                    if not (isinstance(g, tuple) and g[0] == 'arr'):
                        raise Untranslatable('copy_from_slice of non-literal array')
                    for j, el in enumerate(g[1]):
                        env['@out'][2][j] = el
                    continue
                raise Untranslatable('expression statement')
            raise Untranslatable('statement %s' % st[0])
        if final is None and env.get('@out') is not None:
            outs = env['@out'][2]
            if sorted(outs) != list(range(len(outs))) or not outs:
                raise Untranslatable('fragment outputs are not a dense range')
            return self.close(binds, '[%s]' % '; '.join(outs[i] for i in range(len(outs))), pending, ('array', env['@out'][1], len(outs)))
        if final is None:
            raise Untranslatable('block without value')
        g, gty, c = self.expr(final, env, want)
        if isinstance(g, tuple) and g[0] == 'tryfrom':
            raise Untranslatable('unresolved try_into as block value')
        if isinstance(g, tuple) and g[0] == 'arr':
            g = '[%s]' % '; '.join(g[1])
        pending += [(len(binds), x) for x in c]
        return self.close(binds, g, pending, gty)

    def close(self, binds, term, pending, ty):
        def wrap_lets(n, body):
            for name, val in reversed(binds[:n]):
                body = '(let %s := %s in %s)' % (name, val, body)
            return body
        value = wrap_lets(len(binds), term)
        body = [c for n, c in pending if n == len(binds)]
        for i in range(len(binds) - 1, -1, -1):
            here = [c for n, c in pending if n == i]
            if body:
                name, val = binds[i]
                body = here + ['(let %s := %s in %s)' % (name, val, ' && '.join(body))]
            else:
                body = here
        return value, ty, body


# ------------------------------------------------------------------------------------------------
# locating items in a source file
# ------------------------------------------------------------------------------------------------
def find_fn(src, name):
    """returns (params text, return type text, body text incl. braces) of `fn name` (first match)"""
    m = re.search(r'\bfn\s+%s\s*(?:<[^>]*>)?\s*\(' % re.escape(name), src)
    if not m:
        return None
    i = m.end()
    depth = 1
    while depth:
        ch = src[i]
        depth += (ch == '(') - (ch == ')')
        i += 1
    params = src[m.end():i - 1]
    j = src.index('{', i)
    ret = src[i:j].strip()
    if ret.startswith('->'):
        ret = ret[2:].strip()
    k = j + 1
    depth = 1
    while depth:
        ch = src[k]
        depth += (ch == '{') - (ch == '}')
        k += 1
    return params, ret, src[j:k]


def translate_fn(src, name, ctx, out_name=None):
    found = find_fn(src, name)
    if not found:
        raise Untranslatable('function not found')
    params, ret, body = found
    out_name = out_name or name
    ptoks = Parser(tokenize(params))
    plist = []
    while ptoks.peek()[0] != 'eof':
        if ptoks.peek()[1] in ('&', 'mut'):
            ptoks.next()
            continue
        if ptoks.peek()[1] == 'self':
            raise Untranslatable('method with self')
        pname = ptoks.next()[1]
        ptoks.expect(':')
        pty = ptoks.parse_type()
        if isinstance(pty, tuple):
            raise Untranslatable('non-scalar parameter')
        plist.append((pname, pty))
        ptoks.accept(',')
    rty = Parser(tokenize(ret)).parse_type() if ret else None
    blk = Parser(tokenize(body)).parse_block()
    env = {p: (p, t) for p, t in plist}
    tr = Tr(ctx, env, rty if not isinstance(rty, tuple) else None)
    val, vty, checks = tr.block(blk, env, rty if not isinstance(rty, tuple) else None)
    if not isinstance(rty, tuple) and rty is not None and vty is not None:
        unify(rty, vty)
    coqret = 'Z'
    if rty == 'bool':
        coqret = 'bool'
    elif isinstance(rty, tuple) and rty[0] == 'tuple':
        coqret = '(%s)' % ' * '.join('bool' if t == 'bool' else 'Z' for t in rty[1])
    elif isinstance(rty, tuple) and rty[0] == 'array':
        coqret = 'list Z'
    args = ' '.join('(%s : %s)' % (p, 'bool' if t == 'bool' else 'Z') for p, t in plist)
    ok = ' &&\n    '.join(checks) if checks else 'true'
    text = 'Definition %s %s : %s :=\n  %s.\n' % (out_name, args, coqret, val)
    text += 'Definition %s_ok %s : bool :=\n    %s.\n' % (out_name, args, ok)
    pre = ' && '.join(inrange(t, p) for p, t in plist if t != 'bool') or 'true'
    text += 'Definition %s_pre %s : bool := %s.\n' % (out_name, args, pre)
    ctx.fns[name] = (out_name, [t for _, t in plist], rty)
    return text


def enclosing_block(src, pos):
    """text of the innermost `{...}` block containing position pos"""
    depth, i = 0, pos
    while i >= 0:
        ch = src[i]
        if ch == '}':
            depth += 1
        elif ch == '{':
            if depth == 0:
                break
            depth -= 1
        i -= 1
    if i < 0:
        raise Untranslatable('no enclosing block')
    k, depth = i + 1, 1
    while depth:
        depth += (src[k] == '{') - (src[k] == '}')
        k += 1
    return src[i:k]


def translate_fragment(src, fn_name, marker, occurrence, ctx, out_name, params, out_var, out_ty):
    """Translate the innermost block of `fn_name` that contains the `occurrence`-th occurrence of `marker`.
    params: list of (name, type) or (name, ('arrayin', elem type, n)); the block's result is the list of values
    assigned to `out_var[0..]` (by `out_var[i] = e;` statements or `out_var.copy_from_slice(&[..])`)."""
    found = find_fn(src, fn_name)
    if not found:
        raise Untranslatable('function not found')
    body = found[2]
    pos = -1
    for _ in range(occurrence):
        pos = body.find(marker, pos + 1)
        if pos < 0:
            raise Untranslatable('marker %r occurrence %d not found' % (marker, occurrence))
    blk_src = enclosing_block(body, pos)
    blk = Parser(tokenize(blk_src)).parse_block()
    env, args, pre = {}, [], []
    for pname, pty in params:
        if isinstance(pty, tuple) and pty[0] == 'arrayin':
            env['%s@' % pname] = True
            for j in range(pty[2]):
                a = '%s_%d' % (pname, j)
                env['%s@%d' % (pname, j)] = (a, pty[1])
                args.append(a)
                pre.append(inrange(pty[1], a))
        else:
            env[pname] = (pname, pty)
            args.append(pname)
            pre.append(inrange(pty, pname))
    env['@out'] = (out_var, out_ty, {})
    tr = Tr(ctx, env, None)
    val, vty, checks = tr.block(blk, env, None)
    a = ' '.join('(%s : Z)' % x for x in args)
    ok = ' &&\n    '.join(checks) if checks else 'true'
    text = 'Definition %s %s : list Z :=\n  %s.\n' % (out_name, a, val)
    text += 'Definition %s_ok %s : bool :=\n    %s.\n' % (out_name, a, ok)
    text += 'Definition %s_pre %s : bool := %s.\n' % (out_name, a, ' && '.join(pre) or 'true')
    return text


# ------------------------------------------------------------------------------------------------
# tables
# ------------------------------------------------------------------------------------------------
def scalar_consts(src):
    env = {}
    for m in re.finditer(r'\b(?:const|static)\s+([A-Z_][A-Z0-9_]*)\s*:\s*(u8|u16|u32|u64|usize|i8|i16|i32|i64|Prob)\s*=\s*([^;]+);', src):
        env[m.group(1)] = (m.group(3).strip(), m.group(2))
    return env


def ev(expr, env, depth=0):
    """evaluate a constant integer expression (literals, named constants, + - * << unary -)"""
    p = Parser(tokenize(expr))
    e = p.parse_expr()
    if p.peek()[0] != 'eof':
        raise ValueError('trailing tokens in %r' % expr)
    return ev_ast(e, env, depth)


def ev_ast(e, env, depth=0):
    k = e[0]
    if k == 'lit':
        return e[1]
    if k == 'neg':
        return -ev_ast(e[1], env, depth)
    if k == 'var':
        if e[1] in env and depth < 10:
            return ev(env[e[1]][0], env, depth + 1)
        raise ValueError('unknown constant %s' % e[1])
    if k == 'cast':
        return ev_ast(e[1], env, depth)
    if k == 'bin':
        a, b = ev_ast(e[2], env, depth), ev_ast(e[3], env, depth)
        return {'+': a + b, '-': a - b, '*': a * b, '<<': a << b if b >= 0 else 0, '>>': a >> b if b >= 0 else 0,
                '/': int(a / b) if b else 0, '|': a | b, '&': a & b}[e[1]]
    raise ValueError('unsupported constant expression %s' % k)


def ev_table(e, env):
    k = e[0]
    if k == 'array':
        return [ev_table(x, env) for x in e[1]]
    if k == 'repeat':
        return [ev_table(e[1], env)] * ev_ast(e[2], env)
    if k == 'tuple':
        return [ev_table(x, env) for x in e[1]]
    return ev_ast(e, env)


def coq_table(v):
    if isinstance(v, list):
        return '[' + '; '.join(coq_table(x) for x in v) + ']'
    return zlit(v)


def table_type(v):
    return 'list (%s)' % table_type(v[0]) if isinstance(v, list) and v else 'Z' if not isinstance(v, list) else 'list Z'


def gen_tables(srcdir):
    out = ['(* GENERATED by tools/rs2v.py from %s/*.rs -- do not edit *)' % srcdir,
           'From Coq Require Import ZArith List.', 'Import ListNotations.', 'Open Scope Z_scope.', '']
    names = []
    allconsts = {}
    for f in sorted(pathlib.Path(srcdir).glob('*.rs')):
        src = strip_comments(f.read_text())
        src = re.split(r'#\[cfg\(test\)\]\s*mod\s+\w+', src)[0]
        env = scalar_consts(src)
        out.append('(* ---- %s ---- *)' % f.name)
        for name, (val, ty) in env.items():
            try:
                v = ev(val, env)
            except (ValueError, Untranslatable, KeyError):
                out.append('(* skipped scalar %s.%s *)' % (f.stem, name))
                continue
            out.append('Definition %s_%s : Z := %s.' % (f.stem, name, zlit(v)))
            names.append('%s_%s' % (f.stem, name))
            allconsts.setdefault(f.stem, {})[name] = (v, ty)
        for m in re.finditer(r'\b(?:const|static)\s+([A-Z_][A-Z0-9_]*)\s*:\s*(\[[^=]*\]|[A-Z][A-Za-z0-9]*)\s*=\s*\[', src):
            name = m.group(1)
            # find the end of the array literal
            i = m.end() - 1
            depth, k = 0, i
            while True:
                ch = src[k]
                depth += (ch == '[') - (ch == ']')
                k += 1
                if depth == 0:
                    break
            try:
                p = Parser(tokenize(src[i:k]))
                arr = ev_table(p.parse_expr(), env)
            except (ValueError, Untranslatable, KeyError) as ex:
                out.append('(* skipped table %s.%s: %s *)' % (f.stem, name, ex))
                continue
            out.append('Definition %s_%s : %s := %s.' % (f.stem, name, table_type(arr), coq_table(arr)))
            names.append('%s_%s' % (f.stem, name))
    out.append('')
    return '\n'.join(out), names, allconsts


# ------------------------------------------------------------------------------------------------
# kernel whitelist:  (source file, rust fn name, gallina name)
# ------------------------------------------------------------------------------------------------
KERNELS = [
    ('alpha_blending.rs', 'channel_shift', 'channel_shift'),
    ('alpha_blending.rs', 'div_by_255', 'div_by_255'),
    ('alpha_blending.rs', 'blend_channel_nonpremult', 'blend_channel_nonpremult'),
    ('alpha_blending.rs', 'blend_pixel_nonpremult', 'blend_pixel_nonpremult'),
    ('vp8.rs', 'mulhi', 'mulhi'),
    ('vp8.rs', 'clip', 'clip'),
    ('vp8.rs', 'avg3', 'avg3'),
    ('vp8.rs', 'avg2', 'avg2'),
    ('vp8.rs', 'prepare_branch', 'prepare_branch'),
    ('vp8.rs', 'value_from_branch', 'value_from_branch'),
    ('loop_filter.rs', 'c', 'lf_c'),
    ('loop_filter.rs', 'u2s', 'lf_u2s'),
    ('loop_filter.rs', 's2u', 'lf_s2u'),
    ('loop_filter.rs', 'diff', 'lf_diff'),
    ('lossless_transform.rs', 'average2', 'average2'),
    ('lossless_transform.rs', 'clamp_add_subtract_full', 'clamp_add_subtract_full'),
    ('lossless_transform.rs', 'clamp_add_subtract_half', 'clamp_add_subtract_half'),
    ('lossless_transform.rs', 'color_transform_delta', 'color_transform_delta'),
    ('lossless.rs', 'subsample_size', 'subsample_size'),
    ('encoder.rs', 'length_to_symbol', 'length_to_symbol'),
    ('encoder.rs', 'chunk_size', 'chunk_size'),
]

# fragments: (file, fn, marker, occurrence, gallina name, params, output variable, output element type)
U8x2 = ('arrayin', 'u8', 2)
FRAGMENTS = [
    ('vp8.rs', 'fill_rgb_row', 'let coeffs', 1, 'rgb_pair', [('y', U8x2), ('u', 'u8'), ('v', 'u8')], 'rgb', 'u8'),
    ('vp8.rs', 'fill_rgb_row', 'let coeffs', 2, 'rgb_tail', [('y', 'u8'), ('u', 'u8'), ('v', 'u8')], 'remainder', 'u8'),
    ('vp8.rs', 'fill_rgba_row', 'let coeffs', 1, 'rgba_pair', [('y', U8x2), ('u', 'u8'), ('v', 'u8'), ('rgb', ('arrayin', 'u8', 8))], 'rgb', 'u8'),
    ('vp8.rs', 'fill_rgba_row', 'let coeffs', 2, 'rgba_tail', [('y', 'u8'), ('u', 'u8'), ('v', 'u8')], 'remainder', 'u8'),
]

PRELUDE = '''(* GENERATED by tools/rs2v.py from %s/*.rs -- do not edit *)
From Coq Require Import ZArith List Bool.
From WebP Require Import Gen.Tables.
Import ListNotations.
Open Scope Z_scope.
Open Scope bool_scope.

(* casts: `x as uN` and `x as iN` *)
Definition wrapU (n : Z) (x : Z) : Z := x mod 2 ^ n.
Definition wrapS (n : Z) (x : Z) : Z := (x + 2 ^ (n - 1)) mod 2 ^ n - 2 ^ (n - 1).
Definition inr (lo hi x : Z) : bool := (lo <=? x) && (x <=? hi).

'''


def gen_kernels(srcdir, allconsts):
    out = [PRELUDE % srcdir]
    fns_by_file = {}
    untranslated = []
    translated = []
    for fname, rname, gname in KERNELS:
        fns = fns_by_file.setdefault(fname, {})
        path = pathlib.Path(srcdir) / fname
        if not path.exists():
            untranslated.append((gname, 'file %s missing' % fname))
            out.append('(* UNTRANSLATED %s: file missing *)\n' % gname)
            continue
        src = strip_comments(path.read_text())
        consts = dict(allconsts.get(path.stem, {}))
        ctx = Ctx(fns, consts)
        try:
            text = translate_fn(src, rname, ctx, gname)
        except Untranslatable as ex:
            untranslated.append((gname, str(ex)))
            out.append('(* UNTRANSLATED %s: %s *)\n' % (gname, ex))
            continue
        except (IndexError, ValueError, KeyError, AssertionError) as ex:
            untranslated.append((gname, 'parse failure: %r' % (ex,)))
            out.append('(* UNTRANSLATED %s: parse failure *)\n' % gname)
            continue
        out.append('(* %s :: %s *)\n%s' % (fname, rname, text))
        translated.append(gname)
    for fname, fn, marker, occ, gname, params, outv, outty in FRAGMENTS:
        path = pathlib.Path(srcdir) / fname
        fns = fns_by_file.setdefault(fname, {})
        try:
            src = strip_comments(path.read_text())
            ctx = Ctx(fns, dict(allconsts.get(path.stem, {})))
            text = translate_fragment(src, fn, marker, occ, ctx, gname, params, outv, outty)
        except Untranslatable as ex:
            untranslated.append((gname, str(ex)))
            out.append('(* UNTRANSLATED %s: %s *)\n' % (gname, ex))
            continue
        except (IndexError, ValueError, KeyError, AssertionError, OSError) as ex:
            untranslated.append((gname, 'parse failure: %r' % (ex,)))
            out.append('(* UNTRANSLATED %s: parse failure *)\n' % gname)
            continue
        out.append('(* %s :: %s, block containing occurrence %d of `%s` *)\n%s' % (fname, fn, occ, marker, text))
        translated.append(gname)
    # imperative array kernels (tools/rs2v_imp.py)
    import rs2v_imp
    imp_kernels_by_file = {}
    for kd in rs2v_imp.IMP_KERNELS:
        fname, gname = kd['file'], kd['gname']
        path = pathlib.Path(srcdir) / fname
        fns = fns_by_file.setdefault(fname, {})
        kernels = imp_kernels_by_file.setdefault(fname, {})
        try:
            src = strip_comments(path.read_text())
            ctx = Ctx(fns, dict(allconsts.get(path.stem, {})))
            text = rs2v_imp.translate_imp(src, kd, ctx, kernels)
        except Exception as ex:      # includes rs2v_imp's own Untranslatable (a different class object when run as __main__)
            untranslated.append((gname, '%s: %s' % (type(ex).__name__, ex)))
            out.append('(* UNTRANSLATED %s: %s: %s *)\n' % (gname, type(ex).__name__, str(ex).replace('*)', '* )')))
            continue
        out.append('(* %s :: %s (imperative kernel: array cells as parameters, final cells as result) *)\n%s' % (fname, kd['fn'], text))
        translated.append(gname)
    for kd in rs2v_imp.IMP_FRAGMENTS:
        fname, gname = kd['file'], kd['gname']
        path = pathlib.Path(srcdir) / fname
        fns = fns_by_file.setdefault(fname, {})
        kernels = imp_kernels_by_file.setdefault(fname, {})
        try:
            src = strip_comments(path.read_text())
            ctx = Ctx(fns, dict(allconsts.get(path.stem, {})))
            text = rs2v_imp.translate_fragment_imp(src, kd, ctx, kernels)
        except Exception as ex:
            untranslated.append((gname, '%s: %s' % (type(ex).__name__, ex)))
            out.append('(* UNTRANSLATED %s: %s: %s *)\n' % (gname, type(ex).__name__, str(ex).replace('*)', '* )')))
            continue
        out.append('(* %s :: %s, block containing `%s` (places read = parameters, places written = result list) *)\n%s' % (fname, kd['fn'], kd['marker'], text))
        translated.append(gname)
    return '\n'.join(out), translated, untranslated


def main():
    srcdir, outdir = sys.argv[1], sys.argv[2]
    pathlib.Path(outdir).mkdir(parents=True, exist_ok=True)
    tables, names, allconsts = gen_tables(srcdir)
    kernels, translated, untranslated = gen_kernels(srcdir, allconsts)
    ch1 = write_if_changed(pathlib.Path(outdir) / 'Tables.v', tables)
    ch2 = write_if_changed(pathlib.Path(outdir) / 'Kernels.v', kernels)
    info = {'tables': names, 'kernels': translated, 'untranslated': untranslated,
            'changed': {'Tables.v': ch1, 'Kernels.v': ch2}}
    write_if_changed(pathlib.Path(outdir) / 'rs2v_report.json', json.dumps({k: info[k] for k in ('tables', 'kernels', 'untranslated')}, indent=1))
    print(json.dumps(info['changed']), 'tables=%d kernels=%d untranslated=%s' % (len(names), len(translated), [u[0] for u in untranslated]))


if __name__ == '__main__':
    main()
