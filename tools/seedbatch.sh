#!/bin/bash
# usage: tools/seedbatch.sh <root dir e.g. /tmp/mut2> <Cxx> [extra checks...]  -- confirm + run both seeds of a property
root=$1; p=$2; shift; shift
for n in 1 2; do
  s=$root/$p/seed$n
  [ -f $s/patch.diff ] || continue
  /verif/tools/seedconfirm.sh $s 2>&1 | tail -1
  /verif/tools/seedrun.sh $s $p "$@" 2>&1 | grep SEED
done
