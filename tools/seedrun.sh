#!/bin/bash
# usage: tools/seedrun.sh <seed dir> <check ids...>   -- applies the seeded change to /repo, runs the checks, reverts.
d=$1; shift
cd /verif
git -C /repo diff --quiet || { echo "/repo not clean"; exit 2; }
git -C /repo apply $d/patch.diff || { echo "patch does not apply"; exit 2; }
for c in "$@"; do
  s=$(date +%s)
  out=$(./vf check $c --tier quick 2>&1); rc=$?
  echo "SEED $(basename $(dirname $d))/$(basename $d) check=$c rc=$rc $(( $(date +%s) - s ))s :: $(echo "$out" | grep -E '^VIOLATION' | head -2 | tr '\n' ' ')"
done
git -C /repo checkout -- .
python3 tools/rs2v.py /repo/src coq/Gen >/dev/null
rm -rf /verif/replays.seed; mv /verif/replays /verif/replays.seed 2>/dev/null
git -C /verif checkout -- evidence 2>/dev/null
