#!/bin/bash
# usage: tools/mkmut.sh <round dir, e.g. /tmp/mut3> <property ids...>
# prepares <round dir>/<id>/{repo (scratch worktree of /repo HEAD), PROMPT.txt} for an independent mutation sub-agent.
# The prompt contains only the property text and the titles of the changes earlier rounds produced (nothing else from /verif).
R=$1; shift
for id in "$@"; do
  d=$R/$id; mkdir -p $d
  [ -d $d/repo ] || git -C /repo worktree add --detach $d/repo HEAD >/dev/null 2>&1
  python3 - "$id" "$d" <<'PY'
import json, sys, glob
pid, d = sys.argv[1], sys.argv[2]
prop = [json.loads(l) for l in open('/verif/properties.jsonl') if l.strip()]
p = [x for x in prop if x['id'] == pid][0]
tried = []
for m in sorted(glob.glob('/verif/seeded/%s_*/meta.json' % pid)):
    try: tried.append(json.load(open(m)).get('title', ''))
    except Exception: pass
text = open('/tmp/mut2/PROMPT.txt').read() if False else None
tmpl = open('/verif/tools/mut_prompt.txt').read()
quant = p['quantifier']['text']
body = '%s: %s\n\n%s\n\nQuantified over: %s\n' % (pid, p.get('title', ''), p.get('statement', p.get('description', '')), quant)
tr = ''.join('  - %s\n' % t for t in tried if t) or '  (none)\n'
open(d + '/PROMPT.txt', 'w').write(tmpl.replace('@DIR@', d).replace('@ID@', pid).replace('@PROPERTY@', body).replace('@TRIED@', tr))
PY
done
