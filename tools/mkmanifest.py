#!/usr/bin/env python3
"""Regenerates MANIFEST.json from the table below (keeps it valid at all times)."""
import json, pathlib, subprocess
ROOT = pathlib.Path(__file__).resolve().parent.parent

CLAIMED = {
 'C12': dict(
   text='Coq theorems over the blend kernel that tools/rs2v.py regenerates from alpha_blending.rs on every run: exact for source alpha 0, '
        'alpha within 1 and channels within 2 weighted code values / within [min-1,max+1] for 0<alpha<255 (all 2^32 inputs, by a 65k-case '
        'vm_compute certificate on div_by_255 plus algebra), no u32 overflow / failed debug_assert; the alpha-255 clause is refuted (known finding F14) '
        'and the exact behaviour on that class is proved so any other deviation is still reported.',
   note='Trusted: Coq kernel, rs2v translator, the 6-line hand model of the [u8;4]<->u32 wrapper (correspondence-checked through hook verif::blend '
        'and extracted with ExtrOcamlBasic), harness native decision of the property used only for the search / replay.',
   technique='Coq proof over source-regenerated kernel (translator) + correspondence check + exhaustive search on failure',
   ref='DESIGN.md section 6 C12'),
 'C13': dict(
   text='Coq theorems: the YUV->RGB kernels that tools/rs2v.py regenerates from vp8.rs on every run (mulhi, clip, and the per-pixel blocks of '
        'fill_rgb_row / fill_rgba_row: pair, odd tail, RGB and RGBA) equal libwebp yuv.h (Spec/YUV.v) for all integer inputs in byte range, proved '
        'algebraically (no enumeration); row theorems by induction two pixels at a time cover even/odd/tail positions and the untouched alpha byte; '
        'plane theorems cover chroma row y/2 for every width >= 1 and height.',
   note='Trusted: Coq kernel, rs2v translator, hand model of the zip/chunks_exact row and plane loops (Model/Yuv.v, correspondence-checked through hooks '
        'verif::fill_rgb/fill_rgba and exact only on the call pattern len(buf)=bpp*len(y), chroma rows long enough), transcription of yuv.h into Spec/YUV.v.',
   technique='Coq proof over source-regenerated kernels (translator) + row/plane induction + correspondence check + exhaustive 2^24 search on failure',
   ref='DESIGN.md section 6 C13'),
 'C05': dict(
   text='Coq theorems RIC.read_image_lossy_closed / RIC.read_image_equals_still_spec_closed (FULL up to the side conditions of C02 and C01): for every well-formed lossy still (simple or VP8X, every ALPH '
        'variant: raw / lossless, filters 0..3, alpha flag without ALPH) whose key frame the reference decodes, the model of read_image (Model/ReadImage.v with the frame decoder instantiated by Model.Vp8Decode) '
        'returns exactly the pixels of the composed specification Spec.Still.decode_still: libwebp no-fancy BT.601 conversion of the reference planes, woven with the un-filtered alpha plane (lossless ALPH by the C01 '
        'theorems), for every prior buffer content; wrong buffer lengths and frame/canvas mismatches rejected untouched. Layers: conversion kernels regenerated from vp8.rs (C13), plane loops, alpha loop, glue.',
   note='Trusted: Coq kernel, rs2v translator, hand models Model/Yuv.v and Model/Alpha.v (correspondence-checked through hooks fill_rgb/fill_rgba/apply_alpha), '
        'Spec/YUV.v (transcription of libwebp yuv.h) and Spec/Alpha.v (container spec text).',
   technique='Coq proof (read_image model = composed executable specification; translated kernels, loop induction, C01/C02 refinements) + correspondence checks',
   ref='DESIGN.md section 6 C05'),
 'C11': dict(
   text='PARTIAL proof + direct decision. Proved: the modelled write paths of read_image determine every output byte from the file alone (lossy RGB; lossy RGBA colour bytes; '
        'every alpha byte by the alpha loop, independent of prior buffer contents), and RGB output = RGBA output with alpha dropped (copy loop). Decided directly on the '
        'implementation every run: size formula, wrong lengths rejected with the buffer untouched, pre-fill independence, idempotence, five wrappings of each payload agree.',
   note='Trusted as for C05/C13; the wrong-length / size theorems and the lossless in-place decode independence are proved at model level only when the container / lossless '
        'models are present (evidence lists the theorems actually checked).',
   technique='Coq proof over hand model + translated kernels, correspondence check, direct API decision',
   ref='DESIGN.md section 6 C11'),
 'C10': dict(
   text='Coq theorems, model level: (1) the WHOLE lossless decoder (Model/LosslessIO.v = the decoder model over a reader whose fill_buf fails once; tied by the c10lossless correspondence incl. call counts): '
        'LLIO.lossless_fault_surfaces -- for every data, schedule, dimensions, buffer and k, a fault at a call the fault-free run makes yields exactly the I/O error after k+1 calls (never Ok, never a panic, never another error), '
        'a fault beyond changes nothing; LLIO.lossless_fault_never_partial -- on a spec-valid stream the result is the I/O error or exactly the specification pixels; RC.frame_schedule_independent -- same result for any two fill_buf '
        'schedules; BR / BRIO -- the bit reader at script level. (2) the container layer (Model/ContainerIO.v, call counts exact): CIO.container_io_refines_pure, CIO.container_fault_surfaces (any failure kind but UnexpectedEof: '
        'known finding F19, refuted for that kind with a replayed witness), getters likewise. (3) the encoder sink: same bytes for every split, a fault at a reached write gives an error with a prefix written. '
        '(4) std read_exact / write_all contracts. (5) read_image of stills over the file reader (Model/ReadImageIO.v: range_reader, the VP8 decoder reads through Take incl. std read_to_end probing, lossless fill_buf through Take, read_alpha_chunk; call counts exact, c10glue correspondence): GIO.read_image_fault_surfaces / GIO.open_and_read_fault_surfaces; for lossy stills without ALPH also GIO2.glue_lossy_no_fault (= the pure glue model) and GIO2.glue_lossy_error_or_spec_pixels (any single fault: the I/O error or exactly the specification pixels). Decided on the implementation every run (not modelled over failing readers): read_frame payload reads -- 8 schedule classes x corpus, one injected fault at every I/O call index with comparison to the fault-free baseline.',
   note='Trusted: Coq kernel; Lib/IO.v is a model of std default methods (read_exact, write_all), not of the OS; Model/BitReader.v is a hand model tied by correspondence (scripts under whole / constant / random schedules through a hook); propagation of faults through every `?` of the crate is decided on the implementation, not proved.',
   technique='Coq proof (fault law by induction over the decoder model, schedule independence through the specification, I/O-call-exact container model) + correspondence incl. call counts + fault/schedule enumeration on the implementation',
   ref='DESIGN.md section 6 C10'),
 'C03': dict(
   text='Coq safety theorems (no Panic outcome of the model = no panic / checked-arithmetic overflow / out-of-range index / failed assert of the Rust code it mirrors; no fuel exhaustion = termination) '
        'for EVERY byte string on every decode path: container layer (container_new_safe), the whole lossless decoder (RS.frame_safe, also Err on everything the specification rejects), the whole VP8 key-frame decoder '
        '(VS.vp8_decode_never_panics: header, partitions, token reading for any token sequence, inverse transforms, prediction, loop filter at every level, crop, zero-sized frames), the read_image / read_frame glue with the real '
        'decoders plugged in (VS.read_image_never_panics, VS.read_frame_payload_never_panics), the boolean decoder, blend, YUV, alpha loop and all translated kernels. The direct search on the implementation '
        '(structured mutation of valid files: prefixes, every header/size/dimension field, chunk surgery, cross-frame disagreements, VP8L field sabotage; full API call sequence, checked build, watchdog) runs every time.',
   note='Trusted: Coq kernel, translator, hand models (correspondence-checked). The search is exploration, not proof; the evidence lists which functions are under a theorem.',
   technique='Coq safety proofs (state invariants by induction over the parse / reconstruction loops, all inputs) for every modelled decode path + structured mutation search on the implementation',
   ref='DESIGN.md section 6 C03'),
 'C06': dict(
   text='Coq theorems over the hand model of composite_frame / read_frame (Model/Anim.v, repaired tree): for every valid animation the k-th frame delivered equals the '
        'rendering of the container-spec canvas fold (background in B,G,R,A order; dispose exactly the previous rectangle; overwrite or blend) and its duration '
        '(read_frame_spec, play_is_shown); pixel-wise characterisation of every loop nest of composite_frame; non-blended pixels replace exactly, transparent blended pixels '
        'leave the canvas unchanged, blend within the C12 bounds; the opaque-blended clause is refuted (known finding F14) with the exact behaviour on that class proved.',
   note='Trusted: Coq kernel; hand model tied by correspondence (public API on generated animations + hook verif::composite_frame); frame payload decoding and byte-level ANMF '
        'chunk parsing are abstracted (frames are given decoded; C01/C02/C05/C08 speak about those); canvas bound w*h*4 < 2^32 (F11).',
   technique='Coq proof (fold refinement over hand model) + correspondence check + independent canvas-model search',
   ref='DESIGN.md section 6 C06'),
 'C07': dict(
   text='Coq theorem history_independent: for every valid animation and every sequence over {read_frame, reset_animation, read_image, caller buffer fill} the trace of the '
        'AnimationState machine equals the trace of a playback cursor over what a fresh decoder shows; the three clauses of the property are corollaries '
        '(frames after reset, read_image = first frame and position unchanged, NoMoreFrames leaves the buffer alone). Modules H / HC: the same for the decoder working on the file bytes '
        '(Model/ReadImageOps.v run_ops: read_frame with the ANMF location loop, reset_animation, read_image save / rewind / restore) for every well-formed animated container whose frames decode.',
   note='Trusted: Coq kernel; hand model of the state machine (Model/Anim.v, repaired tree: F15) tied by correspondence on random call sequences through the public API; '
        'payload decoding abstracted as in C06.',
   technique='Coq proof (state-machine invariant by induction over call sequences) + correspondence check on op sequences',
   ref='DESIGN.md section 6 C07'),
 'C02': dict(
   text='Coq theorem D.decode_frame_is_spec (FULL up to four stated, decidable side conditions): for every payload the reference decodes (Spec.VP8.decode_frame, executable transcription of libwebp validated '
        'against the compiled libwebp each run), with the reserved colour-space bit clear, no partition starting with byte 0xFF (the C15 hypothesis) and per-segment loop-filter base level in 0..63 (the documented '
        'clamp difference between libwebp and the RFC reference; necessity machine-checked), the Model of Vp8Decoder::decode_frame returns exactly the reference frame: same size, same Y, U, V samples. '
        'Proved in layers, each restated in Properties/C02.v: all tables = normative; scalar and imperative kernels (loop filters, IDCT, WHT, filter parameters, dequantisation) translated from the source every run = reference; '
        'parsing functions (module P), frame-level parsing incl. read_frame_header in every field and the commuting interleaving of partitions (module F), intra prediction (module I), '
        'frame-level reconstruction, loop-filter pass and crop (module X), final composition incl. "the reference is one byte stricter on truncated partitions" (module D).',
   note='Trusted: Coq kernel, rs2v translator, Spec/VP8.v + Spec/VP8Tables.v (hand transcription of libwebp 1.3.1; RFC 6386 text unavailable offline) validated by c02spec, extraction, '
        'the key-frame writer of the harness. Excluded from valid: filter levels leaving [0,63] before deltas, reserved colour-space bit, coefficients outside the 16-bit reference range.',
   technique='Coq proof (refinement of the Rust-mirroring frame decoder model to the executable reference, kernels and tables regenerated from the source) + component and whole-frame correspondence',
   ref='DESIGN.md section 6 C02'),
 'C01': dict(
   text='Coq theorem R.frame_matches_spec (FULL up to two stated, decidable format conditions): for every stream the specification (Spec.VP8L, executable transcription validated against libwebp '
        'each run) decodes, every fill_buf schedule and every prior buffer contents, the Rust-mirroring model of LosslessDecoder::decode_frame returns exactly the specification\'s pixels '
        '(explicit and implicit dimensions), provided no SIMPLE prefix code names a symbol outside its alphabet (codes_in_format; libwebp drops such a symbol, the crate rejects: necessity machine-checked) '
        'and predictor blocks use the 14 defined modes (in_format; the crate\'s behaviour outside is characterised exactly). R.frame_sound: whatever the decoder accepts is what the specification defines. '
        'Proved layer by layer (bit stream, Kraft acceptance, canonical tables, code descriptions, pixel loop with colour cache / copy_within / F2 / F4, entropy images with meta codes, four inverse transforms, '
        'transform list and header), 30 proof files. Tables and scalar kernels are regenerated from the source every run and proved equal to the specification\'s.',
   note='Trusted: Coq kernel, rs2v translator, Spec/VP8L.v (hand transcription of the specification), hand model Model/{BitReader,Huffman,LosslessTransform,Lossless}.v (correspondence-checked component by component and on whole payloads under fill_buf schedules), extraction, the legal-stream generator of the harness (checked: libwebp accepts every stream).',
   technique='Coq proof (refinement of the Rust-mirroring decoder model to the executable specification, all schedules and buffers quantified) + component and whole-stream correspondence',
   ref='DESIGN.md section 6 C01'),
 'C15': dict(
   text='Coq theorem arith_refines_rfc: for every byte string whose first byte is not 0xFF and every sequence of requests (bits with any probability, flags, literals <= 8 bits, optional '
        'signed values, tree reads on all 111 VP8 trees) the model of the Rust decoder (fast speculative path + cold path) returns the values of the RFC 6386 section 7 reference decoder, and '
        'reports exhaustion exactly when a request needs more than len+1 bytes; fast path = cold path for every read; no panic for every byte string (incl. 0xFF-leading). The first-byte-0xFF '
        'class is excluded with a machine-checked counterexample (the reference itself is width-dependent there).',
   note='Trusted: Coq kernel; hand model Model/ArithDec.v of vp8_arithmetic_decoder.rs tied by correspondence on op scripts through hook verif::arith_script (exhaustive for strings of length 0..2, '
        'dense for 3, random 4..64); Spec/RfcBoolDec.v transcribes RFC 6386 section 7.3 (RFC text not available offline; cross-checked against libwebp-derived Spec/BoolDec.v on scripts); '
        'prepare_branch/value_from_branch come from the translator.',
   technique='Coq proof (refinement of two decoders to one ideal arithmetic-decoder state) + correspondence check on op scripts',
   ref='DESIGN.md section 6 C15'),
 'C08': dict(
   text='Coq theorem accessors_spec: for every well-formed container c (simple lossy, simple lossless, extended still, animated; any chunk order, unknown chunks, odd payloads with padding, '
        'duplicate metadata, 0..n frames) the model of WebPDecoder::new on serialize c succeeds and dimensions, has_alpha, is_animated, is_lossy, num_frames, loop_count, loop_duration, '
        'ICC/EXIF/XMP (first payload or None) and output_buffer_size equal the values the record defines; for every memory limit each metadata getter returns the payload or MemoryLimitExceeded, '
        'decided by the size test before any seek/allocation/read. wf requires ICC/EXIF/XMP flag = chunk presence and zero ALPH reserved bits.',
   note='Trusted: Coq kernel; hand model Model/Container.v of read_data/read_chunk/accessors (reader = byte list + position; HashMap = association list, first wins) tied by correspondence on '
        'generated well-formed and malformed files through the public API (error variant names compared); Spec/Container.v transcribes the container specification; libwebp WebPGetFeatures/WebPDemux as adequacy check.',
   technique='Coq proof (parse . serialize = id by induction over the chunk list) + correspondence check on generated containers',
   ref='DESIGN.md section 6 C08'),
 'C14': dict(
   text='Coq theorem huffman_ok (full, no remaining hypothesis): for every histogram with >= 2 used symbols, total < 2^32, alphabet <= 2^L, 1 <= L <= 15 and EVERY tie-break of the unstable sort '
        '(any permutation that sorts), the model of build_huffman_tree returns Ok (no overflow, no index panic, no underflow in the length-limiting loop, final assert holds) with: used symbols '
        '1..L, unused 0, Kraft equality, codes = bit-reversed canonical codes; huffman_few for < 2 used symbols; depth fits u8 for any alphabet (Fibonacci weight bound); '
        'a certified checker c14_ok (proved equivalent to the property) decides the property on the implementation\'s actual output on every case.',
   note='Trusted: Coq kernel; hand model Model/Encoder.v + exact models of std BinaryHeap and of Rust 1.95 sort_unstable_by_key (EncoderHeap/EncoderSort, validated by `sortchk` cases), '
        'tied by correspondence through hook verif::build_huffman_tree (exhaustive small alphabets, adversarial families on 16/256/280 symbols).',
   technique='Coq proof (heap/tree/Kraft/length-limiting invariants, all tie-breaks quantified) + certified checker on implementation output + correspondence check',
   ref='DESIGN.md section 6 C14'),
 'C09': dict(
   text='Coq theorem encode_wellformed / encode_layout: whenever the frame encodes, WebPEncoder::encode writes exactly Spec.WebPFile.lossless_file: RIFF size = length - 8, even-padded chunks '
        'in the order VP8X, ICCP, VP8L, EXIF, XMP, VP8X flags and canvas size from the image and the metadata present (empty payload = absent); simple layout without metadata. '
        'Read-back of metadata by this crate\'s decoder, by libwebp\'s demuxer, determinism, failing / splitting sinks are decided on every case by the harness.',
   note='Trusted: Coq kernel; hand model Model/Encoder.v tied by byte-exact correspondence of the output on generated images (4 colour types x both params x 8 metadata subsets x payload lengths); '
        'Spec/WebPFile.v transcribes the container specification; the VP8L payload is opaque here (C04).',
   technique='Coq proof (container layout of the encoder model) + byte-exact correspondence + independent strict RIFF parser / libwebp demux in the harness',
   ref='DESIGN.md section 6 C09'),
 'C04': dict(
   text='Coq theorems encode_roundtrip / encode_roundtrip_argb / encode_file_roundtrip (full, no remaining hypothesis): for every image of 1..16384 x 1..16384 pixels, every colour type, '
        'both predictor settings and EVERY tie-break of the unstable sort, the model of encode_frame succeeds (no panic, no error) and Spec.VP8L (executable transcription of the lossless specification) '
        'decodes the payload to exactly the input pixels (grey expanded, missing alpha 255) with the same dimensions; payload <= 85 bits/pixel + 9007, so with up to 10^9 bytes of metadata '
        'WebPEncoder::encode succeeds and writes Spec.WebPFile.lossless_file around that payload; dimensions 0 or > 16384 give InvalidDimensions with nothing written. Six layers '
        '(bits, prefix symbols, code descriptions, tokens/LZ77 runs, inverse transforms, header + composition) proved separately. libwebp agreement and the own decoder are decided per case by the harness.',
   note='Trusted: Coq kernel; hand model Model/Encoder.v (+ exact models of std BinaryHeap / sort_unstable) tied by byte-exact correspondence of the encoder output on generated images '
        '(every statistics-dependent branch: constant, two-colour, runs >= 4096/4097, Fibonacci tails forcing the 15-bit limit, single symbols, 1xN / Nx1 / 16384-wide); Spec/VP8L.v validated against libwebp each run (c01spec).',
   technique='Coq proof (round trip of the encoder model through the specification decoder, all tie-breaks quantified) + byte-exact correspondence + round-trip decision through two decoders',
   ref='DESIGN.md section 6 C04'),
}
PENDING = {}

def main():
    props = [json.loads(l) for l in (ROOT / 'properties.jsonl').read_text().split('\n') if l.strip()]
    try:
        src_commits = subprocess.run(['git', '-C', '/repo', 'log', '--format=%H %s'], capture_output=True, text=True).stdout.split('\n')
        hooks = [l.split(' ')[0] for l in src_commits if 'verif hooks' in l]
    except Exception:
        hooks = []
    checks = []
    for p in props:
        pid = p['id']
        if pid not in CLAIMED:
            continue
        c = CLAIMED[pid]
        checks.append({
            'property_id': pid,
            'quick_cmd': './vf check %s --tier quick' % pid,
            'thorough_cmd': './vf check %s --tier thorough' % pid,
            'evidence_file': 'evidence/%s.json' % pid,
            'replay_cmd_template': './vf check %s --replay {path}' % pid,
            'engine': 'coq-model-correspondence',
            'level_claimed': {'category': 'proof', 'text': c['text'], 'design_ref': c['ref']},
            'level_note': c['note'],
            'technique': c['technique'],
        })
    na = [{'property_id': p['id'], 'reason': PENDING.get(p['id'], 'check not built yet in this session (machine-checked proof is applicable; see DESIGN.md section 6); not claimed until its check runs clean')}
          for p in props if p['id'] not in CLAIMED]
    m = {
        'version': 1,
        'setup_cmd': './vf setup',
        'hooks': {'guard': 'image_webp_verif', 'enable': 'RUSTFLAGS="--cfg image_webp_verif"',
                  'baseline_off_cmd': 'cd /repo && cargo test --workspace --no-fail-fast --offline',
                  'source_commits': hooks, 'add_only': True},
        'engines': [{'name': 'coq-model-correspondence', 'path': 'vf',
                     'serves_properties': [c['property_id'] for c in checks],
                     'kind_free_text': 'Coq 8.16.1 theorems over a Gallina model (partly regenerated from the Rust source by tools/rs2v.py, partly hand-written and tied by an extracted-OCaml-oracle vs Rust-harness correspondence check)'}],
        'checks': checks,
        'not_applicable': na,
        'notes': 'See DESIGN.md. Driver: ./vf. Known findings: known_findings.txt.',
    }
    (ROOT / 'MANIFEST.json').write_text(json.dumps(m, indent=1) + '\n')

if __name__ == '__main__':
    main()
