#!/usr/bin/env python3
"""Regenerates MANIFEST.json from the table below (keeps it valid at all times)."""
import json, pathlib, subprocess
ROOT = pathlib.Path(__file__).resolve().parent.parent

CLAIMED = {
 'C12': dict(
   text='Coq theorems over the blend kernel that tools/rs2v.py regenerates from alpha_blending.rs on every run: exact for source alpha 0, '
        'alpha within 1 and channels within 2 weighted code values / within [min-1,max+1] for 0<alpha<255 (all 2^32 inputs, by a 65k-case '
        'vm_compute certificate on div_by_255 plus algebra), no u32 overflow / failed debug_assert; the alpha-255 clause is refuted (known finding F14) '
        'and the exact behaviour on that class is proved so any other deviation is still reported.',
   note='Trusted: Coq kernel, rs2v translator, the 6-line hand model of the [u8;4]<->u32 wrapper (correspondence-checked through hook verif::blend '
        'and extracted with ExtrOcamlBasic), harness native decision of the property used only for the search / replay.',
   technique='Coq proof over source-regenerated kernel (translator) + correspondence check + exhaustive search on failure',
   ref='DESIGN.md section 6 C12'),
 'C13': dict(
   text='Coq theorems: the YUV->RGB kernels that tools/rs2v.py regenerates from vp8.rs on every run (mulhi, clip, and the per-pixel blocks of '
        'fill_rgb_row / fill_rgba_row: pair, odd tail, RGB and RGBA) equal libwebp yuv.h (Spec/YUV.v) for all integer inputs in byte range, proved '
        'algebraically (no enumeration); row theorems by induction two pixels at a time cover even/odd/tail positions and the untouched alpha byte; '
        'plane theorems cover chroma row y/2 for every width >= 1 and height.',
   note='Trusted: Coq kernel, rs2v translator, hand model of the zip/chunks_exact row and plane loops (Model/Yuv.v, correspondence-checked through hooks '
        'verif::fill_rgb/fill_rgba and exact only on the call pattern len(buf)=bpp*len(y), chroma rows long enough), transcription of yuv.h into Spec/YUV.v.',
   technique='Coq proof over source-regenerated kernels (translator) + row/plane induction + correspondence check + exhaustive 2^24 search on failure',
   ref='DESIGN.md section 6 C13'),
}
PENDING = {}

def main():
    props = [json.loads(l) for l in (ROOT / 'properties.jsonl').read_text().split('\n') if l.strip()]
    try:
        src_commits = subprocess.run(['git', '-C', '/repo', 'log', '--format=%H %s'], capture_output=True, text=True).stdout.split('\n')
        hooks = [l.split(' ')[0] for l in src_commits if 'verif hooks' in l]
    except Exception:
        hooks = []
    checks = []
    for p in props:
        pid = p['id']
        if pid not in CLAIMED:
            continue
        c = CLAIMED[pid]
        checks.append({
            'property_id': pid,
            'quick_cmd': './vf check %s --tier quick' % pid,
            'thorough_cmd': './vf check %s --tier thorough' % pid,
            'evidence_file': 'evidence/%s.json' % pid,
            'replay_cmd_template': './vf check %s --replay {path}' % pid,
            'engine': 'coq-model-correspondence',
            'level_claimed': {'category': 'proof', 'text': c['text'], 'design_ref': c['ref']},
            'level_note': c['note'],
            'technique': c['technique'],
        })
    na = [{'property_id': p['id'], 'reason': PENDING.get(p['id'], 'check not built yet in this session (machine-checked proof is applicable; see DESIGN.md section 6); not claimed until its check runs clean')}
          for p in props if p['id'] not in CLAIMED]
    m = {
        'version': 1,
        'setup_cmd': './vf setup',
        'hooks': {'guard': 'image_webp_verif', 'enable': 'RUSTFLAGS="--cfg image_webp_verif"',
                  'baseline_off_cmd': 'cd /repo && cargo test --workspace --no-fail-fast --offline',
                  'source_commits': hooks, 'add_only': True},
        'engines': [{'name': 'coq-model-correspondence', 'path': 'vf',
                     'serves_properties': [c['property_id'] for c in checks],
                     'kind_free_text': 'Coq 8.16.1 theorems over a Gallina model (partly regenerated from the Rust source by tools/rs2v.py, partly hand-written and tied by an extracted-OCaml-oracle vs Rust-harness correspondence check)'}],
        'checks': checks,
        'not_applicable': na,
        'notes': 'See DESIGN.md. Driver: ./vf. Known findings: known_findings.txt.',
    }
    (ROOT / 'MANIFEST.json').write_text(json.dumps(m, indent=1) + '\n')

if __name__ == '__main__':
    main()
