#!/bin/bash
# usage: tools/seedconfirm.sh <seed dir with patch.diff demo.rs>   -- confirms in the scratch worktree /tmp/seedcheck that
#  (1) the patch applies, (2) the 41 existing tests pass with it, (3) demo fails with it, (4) demo passes without it.
d=$1; w=/tmp/seedcheck
[ -d $w ] || git -C /repo worktree add --detach $w HEAD >/dev/null 2>&1   # scratch worktree (remove with: git -C /repo worktree remove --force /tmp/seedcheck)
cd $w && git checkout -q --detach $(git -C /repo rev-parse HEAD) && git checkout -- . && git clean -fdq tests
git apply $d/patch.diff || { echo "CONFIRM $d: patch does not apply"; exit 1; }
t=$(cargo test --offline 2>&1 | grep "test result" | awk '{p+=$4; f+=$6} END {print p" passed "f" failed"}')
cp $d/demo.rs tests/demo_seed.rs
cargo test --offline --test demo_seed >/tmp/seedcheck_with.log 2>&1; with=$?
git checkout -- src
cargo test --offline --test demo_seed >/tmp/seedcheck_without.log 2>&1; without=$?
rm -f tests/demo_seed.rs
echo "CONFIRM $d: existing tests: $t; demo with change rc=$with (want !=0); demo without change rc=$without (want 0)"
[ "$with" != "0" ] && [ "$without" = "0" ]
