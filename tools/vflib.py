"""Shared machinery of the `vf` driver: translator run, Coq build, assumption audit, extraction + OCaml oracle,
Rust harness build, correspondence diff, evidence, VIOLATION / KNOWN-FINDING protocol.  See DESIGN.md section 2.4."""
import fcntl, hashlib, json, os, pathlib, re, shutil, subprocess, sys, time

ROOT = pathlib.Path(__file__).resolve().parent.parent
BUILD = ROOT / 'build'
COQ = ROOT / 'coq'
REPO = pathlib.Path(os.environ.get('VERIF_REPO') or '/repo')
GUARD = 'image_webp_verif'
JOBS = str(os.cpu_count() or 8)

# axioms of the Coq standard library that may appear under Print Assumptions (DESIGN.md section 4); the
# development is intended to be axiom-free, so this list is what is tolerated, by exact name.
AXIOM_ALLOW = {
    'Coq.Logic.FunctionalExtensionality.functional_extensionality_dep',
    'functional_extensionality_dep',
}
FORBIDDEN = re.compile(r'\b(Admitted|admit|Axiom|Axioms|Parameter|Parameters|Conjecture|Hypothesis|Hypotheses|Variable|Variables|Context|Abort All)\b'
                       r'|Unset\s+Guard|bypass_check|type-in-type|impredicative-set|Admit\s+Obligations|Unset\s+Universe Checking|Unset\s+Positivity')


def sh(cmd, timeout=None, cwd=None, env=None, stdin=None):
    e = dict(os.environ)
    e.update({'CARGO_NET_OFFLINE': 'true'})
    if env:
        e.update(env)
    try:
        p = subprocess.run(cmd, shell=isinstance(cmd, str), cwd=cwd, env=e, timeout=timeout, input=stdin,
                           stdout=subprocess.PIPE, stderr=subprocess.STDOUT, text=True, errors='replace')
        return p.returncode, p.stdout
    except subprocess.TimeoutExpired as ex:
        out = ex.stdout if isinstance(ex.stdout, str) else (ex.stdout or b'').decode(errors='replace')
        return 124, (out or '') + '\n[timeout after %ss]' % timeout


class Lock:
    """serialise the build steps of concurrent `vf` invocations"""
    def __init__(self, name='build'):
        BUILD.mkdir(parents=True, exist_ok=True)
        self.f = open(BUILD / ('.%s.lock' % name), 'w')
    def __enter__(self):
        fcntl.flock(self.f, fcntl.LOCK_EX)
        return self
    def __exit__(self, *a):
        fcntl.flock(self.f, fcntl.LOCK_UN)
        self.f.close()


# ------------------------------------------------------------------------------------------------
# translator
# ------------------------------------------------------------------------------------------------
def run_translator():
    rc, out = sh([sys.executable, str(ROOT / 'tools' / 'rs2v.py'), str(REPO / 'src'), str(COQ / 'Gen')], timeout=120)
    rep = {}
    try:
        rep = json.loads((COQ / 'Gen' / 'rs2v_report.json').read_text())
    except Exception:
        pass
    return rc == 0, out.strip(), rep


# ------------------------------------------------------------------------------------------------
# Coq build
# ------------------------------------------------------------------------------------------------
def coq_files():
    fs = []
    for d in ('Lib', 'Gen', 'Spec', 'Model', 'Proofs', 'Properties'):
        fs += sorted(str(p.relative_to(COQ)) for p in (COQ / d).glob('*.v'))
    return fs


def coq_prepare():
    head = (COQ / '_CoqProject.head').read_text()
    proj = head + '\n'.join(coq_files()) + '\n'
    p = COQ / '_CoqProject'
    if not p.exists() or p.read_text() != proj or not (COQ / 'Makefile').exists():
        p.write_text(proj)
        rc, out = sh('coq_makefile -f _CoqProject -o Makefile', cwd=COQ, timeout=120)
        if rc != 0:
            raise RuntimeError('coq_makefile failed: ' + out)


def coq_make(targets, timeout=1500):
    """full .vo build of the given targets (never -vos).  Returns (ok, log)."""
    coq_prepare()
    # address-space cap per coqc: a runaway tactic must fail the obligation, not take the machine down
    cmd = 'ulimit -v 24000000; exec make -j %s -k %s' % (JOBS, ' '.join(targets))
    rc, out = sh(['bash', '-c', cmd], cwd=COQ, timeout=timeout)
    return rc == 0, out


def coq_failed_files(log):
    return sorted(set(re.findall(r'File "\./([^"]+)", line (\d+)', log)))


def theorems_of(prop):
    """names declared in Properties/<prop>.v (Theorem / Corollary / Example), qualified by the enclosing `Module X.` if any"""
    txt = (COQ / 'Properties' / (prop + '.v')).read_text()
    thms, exs, mods = [], [], []
    for line in txt.split('\n'):
        m = re.match(r'^\s*Module\s+([A-Za-z0-9_]+)\s*\.', line)
        if m:
            mods.append(m.group(1))
            continue
        m = re.match(r'^\s*End\s+([A-Za-z0-9_]+)\s*\.', line)
        if m and mods and mods[-1] == m.group(1):
            mods.pop()
            continue
        m = re.match(r'^\s*(Theorem|Corollary|Example)\s+([A-Za-z0-9_\']+)', line)
        if m:
            (exs if m.group(1) == 'Example' else thms).append('.'.join(mods + [m.group(2)]))
    return thms, exs


def audit_assumptions(prop):
    """Print Assumptions for every theorem of Properties/<prop>.v; returns (ok, {thm: [axioms]}, log)"""
    thms, exs = theorems_of(prop)
    d = BUILD / 'assum'
    d.mkdir(parents=True, exist_ok=True)
    src = ['From WebP Require Import Properties.%s.' % prop]
    for t in thms + exs:
        src.append('Print Assumptions %s.' % t)
    f = d / ('%s_assum.v' % prop)
    f.write_text('\n'.join(src) + '\n')
    rc, out = sh(['coqc', '-Q', str(COQ), 'WebP', str(f)], timeout=600, cwd=d)
    if rc != 0:
        return False, {}, out
    # split output per theorem: each Print Assumptions prints either "Closed under the global context" or "Axioms:\n..."
    blocks = re.split(r'(?=Closed under the global context|Axioms:)', out)
    blocks = [b for b in blocks if b.strip()]
    res, ok = {}, True
    names = thms + exs
    if len(blocks) != len(names):
        return False, {}, 'could not parse Print Assumptions output:\n' + out
    for n, b in zip(names, blocks):
        if b.startswith('Closed under the global context'):
            res[n] = []
        else:
            ax = re.findall(r'^([A-Za-z0-9_\.\']+)\s*:', b, flags=re.M)
            res[n] = ax
            for a in ax:
                if a not in AXIOM_ALLOW:
                    ok = False
    return ok, res, out


def lint_sources():
    """no Admitted / admit / Axiom / Parameter / ... anywhere in the development; Variable / Hypothesis only inside a Section"""
    bad = []
    for f in coq_files():
        txt = (COQ / f).read_text()
        txt = re.sub(r'\(\*.*?\*\)', lambda m: re.sub(r'[^\n]', ' ', m.group(0)), txt, flags=re.S)
        depth = 0
        for i, line in enumerate(txt.split('\n'), 1):
            if re.match(r'\s*Section\s+\w+\s*\.', line):
                depth += 1
            m = FORBIDDEN.search(line)
            if m:
                if m.group(0) in ('Variable', 'Hypothesis', 'Variables', 'Hypotheses', 'Context') and depth > 0:
                    pass
                else:
                    bad.append('%s:%d: %s' % (f, i, m.group(0)))
            if re.match(r'\s*End\s+\w+\s*\.', line) and depth > 0:
                depth -= 1
    return bad


def pins_ok(prop):
    """the property file must be the one whose hash is pinned (statements cannot be quietly weakened)"""
    pins = json.loads((ROOT / 'checks' / 'pins.json').read_text())
    h = hashlib.sha256((COQ / 'Properties' / (prop + '.v')).read_bytes()).hexdigest()
    return pins.get(prop) == h, h


# ------------------------------------------------------------------------------------------------
# oracle (extraction + ocaml) and harness (cargo)
# ------------------------------------------------------------------------------------------------
def _hash_files(paths):
    h = hashlib.sha256()
    for p in sorted(paths):
        h.update(str(p).encode())
        h.update(pathlib.Path(p).read_bytes())
    return h.hexdigest()


def extract_parts():
    imports, names = [], []
    for f in sorted((COQ / 'Extract' / 'parts').glob('*.part')):
        for line in f.read_text().split('\n'):
            w = line.split()
            if len(w) == 2 and w[0] == 'IMPORT' and w[1] not in imports:
                imports.append(w[1])
            if len(w) == 2 and w[0] == 'NAME' and w[1] not in names:
                names.append(w[1])
    return imports, names


def model_targets():
    """the .vo files the extraction needs: everything the Extract parts import"""
    imports, _ = extract_parts()
    return sorted(set(m.replace('.', '/') + '.vo' for m in imports))


def build_oracle(timeout=1200):
    d = BUILD / 'ocaml'
    d.mkdir(parents=True, exist_ok=True)
    plugins = sorted((ROOT / 'ocaml').glob('o_*.ml'))
    srcs = [COQ / f for f in coq_files() if not f.startswith(('Proofs/', 'Properties/'))] + \
           sorted((COQ / 'Extract' / 'parts').glob('*.part')) + [ROOT / 'ocaml' / 'oracle.ml', ROOT / 'ocaml' / 'ocommon.ml'] + plugins
    stamp = d / 'stamp'
    # the extraction reads compiled .vo files: bring them up to date first (same lock as the caller), and key the stamp on the
    # *compiled* files as well as on the sources, so that an oracle extracted from a stale .vo can never be taken for current
    okm, logm = coq_make(model_targets())
    if not okm:
        return False, 'model does not build:\n' + logm[-3000:]
    vos = sorted(p for sub in ('Lib', 'Gen', 'Spec', 'Model') for p in (COQ / sub).glob('*.vo'))
    h = _hash_files(srcs + vos)
    if stamp.exists() and stamp.read_text() == h and (d / 'oracle').exists():
        return True, 'oracle up to date'
    imports, names = extract_parts()
    ev = ['(* GENERATED by tools/vflib.py from coq/Extract/parts/*.part *)',
          'From Coq Require Import ZArith NArith List Extraction ExtrOcamlBasic.',
          'From WebP Require Import %s.' % ' '.join(imports),
          'Extraction Language OCaml.',
          'Extraction "oracle_gen.ml"\n  %s.' % '\n  '.join(names)]
    (d / 'Extract.v').write_text('\n'.join(ev) + '\n')
    rc, out = sh(['coqc', '-Q', str(COQ), 'WebP', 'Extract.v'], cwd=d, timeout=timeout)
    if rc != 0:
        return False, 'extraction failed:\n' + out
    shutil.copy(ROOT / 'ocaml' / 'ocommon.ml', d / 'ocommon.ml')
    mods = []
    for p in plugins:
        shutil.copy(p, d / p.name)
        mods.append(p.stem[0].upper() + p.stem[1:])
    main = (ROOT / 'ocaml' / 'oracle.ml').read_text().replace('(*HANDLERS*)', '; '.join('%s.eval' % m for m in mods))
    (d / 'oracle.ml').write_text(main)
    rc, out2 = sh('ocamlfind ocamlopt -w -a -package unix -linkpkg oracle_gen.mli oracle_gen.ml ocommon.ml %s oracle.ml -o oracle'
                  % ' '.join(p.name for p in plugins), cwd=d, timeout=timeout)
    if rc != 0 or not (d / 'oracle').exists():
        return False, 'ocaml build failed:\n' + out2
    stamp.write_text(h)
    return True, out + out2


def run_oracle(casefile, outfile, timeout=3600):
    cmd = 'ulimit -s unlimited 2>/dev/null; exec %s %s > %s' % (BUILD / 'ocaml' / 'oracle', casefile, outfile)
    rc, out = sh(['bash', '-c', cmd], timeout=timeout)
    return rc == 0, out


def run_oracle_sharded(casefile, outfile, shards=16, timeout=3600):
    """split the case file into contiguous shards, run them in parallel, concatenate in order"""
    lines = pathlib.Path(casefile).read_text().split('\n')
    if lines and lines[-1] == '':
        lines.pop()
    n = len(lines)
    if n < 64 or shards <= 1:
        return run_oracle(casefile, outfile, timeout)
    shards = min(shards, n)
    # round-robin split: case files are usually ordered by kind / size, contiguous shards would put all the heavy cases in one
    procs = []
    for i in range(shards):
        part = lines[i::shards]
        if not part:
            continue
        cf = '%s.%d' % (casefile, i)
        pathlib.Path(cf).write_text('\n'.join(part) + '\n')
        cmd = 'ulimit -s unlimited 2>/dev/null; exec %s %s > %s.%d' % (BUILD / 'ocaml' / 'oracle', cf, outfile, i)
        procs.append((i, cf, subprocess.Popen(['bash', '-c', cmd], stdout=subprocess.PIPE, stderr=subprocess.STDOUT, start_new_session=True)))
    ok, log = True, ''
    t0 = time.time()
    for i, cf, p in procs:
        try:
            o, _ = p.communicate(timeout=max(1, timeout - (time.time() - t0)))
        except subprocess.TimeoutExpired:
            try:
                os.killpg(p.pid, 9)
            except OSError:
                p.kill()
            ok = False
            log += 'oracle shard %d timed out\n' % i
            continue
        if p.returncode != 0:
            ok = False
            log += 'oracle shard %d failed: %s\n' % (i, (o or b'').decode(errors='replace')[-2000:])
    outs = {}
    for i, cf, p in procs:
        part = pathlib.Path('%s.%d' % (outfile, i))
        if part.exists():
            pl = part.read_text().split('\n')
            if pl and pl[-1] == '':
                pl.pop()
            outs[i] = pl
            part.unlink()
        pathlib.Path(cf).unlink()
    with open(outfile, 'w') as f:
        for j in range(n):
            pl = outs.get(j % shards, [])
            k = j // shards
            f.write((pl[k] if k < len(pl) else 'MISSING') + '\n')
    return ok, log


def build_harness(release=False, timeout=3000):
    env = {'RUSTFLAGS': '--cfg %s' % GUARD, 'CARGO_TARGET_DIR': str(BUILD / 'cargo-target')}
    hdir = ROOT / 'harness'
    # the lock file of the repository pins the dependency versions available offline
    if not (hdir / 'Cargo.lock').exists() and (REPO / 'Cargo.lock').exists():
        shutil.copy(REPO / 'Cargo.lock', hdir / 'Cargo.lock')
    # the dependency path follows VERIF_REPO (default /repo); Cargo.toml is rewritten only when it differs
    ct = hdir / 'Cargo.toml'
    txt = ct.read_text()
    new = re.sub(r'image-webp = \{ path = "[^"]*" \}', 'image-webp = { path = "%s" }' % REPO, txt)
    if new != txt:
        ct.write_text(new)
    cmd = ['cargo', 'build', '--offline'] + (['--release'] if release else [])
    rc, out = sh(cmd, cwd=hdir, env=env, timeout=timeout)
    return rc == 0, out


def harness_bin(release=False):
    return str(BUILD / 'cargo-target' / ('release' if release else 'debug') / 'harness')


def run_harness(check, tier, seed, outdir, extra=(), release=False, timeout=3600):
    pathlib.Path(outdir).mkdir(parents=True, exist_ok=True)
    rc, out = sh([harness_bin(release), check, tier, str(seed), str(outdir)] + list(extra), timeout=timeout)
    stats = {}
    try:
        stats = json.loads((pathlib.Path(outdir) / 'stats.json').read_text())
    except Exception as ex:
        if rc == 0:
            rc, out = 1, out + '\n[stats.json unreadable: %s]' % ex
    return rc == 0, out, stats


def diff_results(outdir, normalise=None, impl='impl.txt', model='model.txt'):
    """line-by-line comparison implementation <-> model; returns (n, [ (index, case, impl, model) ... ])"""
    d = pathlib.Path(outdir)
    cases = (d / 'cases.txt').read_text().split('\n')
    a = (d / impl).read_text().split('\n')
    b = (d / model).read_text().split('\n')
    for l in (cases, a, b):
        if l and l[-1] == '':
            l.pop()
    diffs = []
    n = len(cases)
    if len(a) != n or len(b) != n:
        diffs.append((-1, 'line counts differ', 'impl=%d' % len(a), 'model=%d cases=%d' % (len(b), n)))
        n = min(n, len(a), len(b))
    for i in range(n):
        x, y = a[i], b[i]
        if normalise:
            x, y = normalise(x), normalise(y)
        if x != y:
            diffs.append((i, cases[i], a[i], b[i]))
    return n, diffs


# ------------------------------------------------------------------------------------------------
# known findings
# ------------------------------------------------------------------------------------------------
def known_findings(prop):
    """entries `known: property=<prop> id=<id> class=<class> <text>` of known_findings.txt"""
    res = {}
    p = ROOT / 'known_findings.txt'
    if not p.exists():
        return res
    for line in p.read_text().split('\n'):
        m = re.match(r'known:\s+property=(\S+)\s+id=(\S+)\s+class=(\S+)\s+(.*)', line.strip())
        if m and m.group(1) == prop:
            res[m.group(3)] = (m.group(2), m.group(4))
    return res


# ------------------------------------------------------------------------------------------------
# one check run
# ------------------------------------------------------------------------------------------------
class Run:
    def __init__(self, prop, tier, seed):
        self.prop, self.tier, self.seed = prop, tier, seed
        self.t0 = time.time()
        self.violations = []     # (replay path, no_input flag)
        self.known_lines = []
        self.notes = []
        self.obligations = []    # (name, discharged bool, detail)
        self.coverage = {}
        self.assumptions = []
        self.rundir = BUILD / 'run' / prop
        if self.rundir.exists():
            shutil.rmtree(self.rundir, ignore_errors=True)
        self.rundir.mkdir(parents=True, exist_ok=True)

    def log(self, msg):
        print('[%s %6.1fs] %s' % (self.prop, time.time() - self.t0, msg), flush=True)

    def oblige(self, name, ok, detail=''):
        self.obligations.append((name, bool(ok), detail))
        if not ok:
            self.log('OBLIGATION FAILED: %s %s' % (name, detail[:2000]))

    def violation(self, name, payload, no_input=False):
        d = ROOT / 'replays' / self.prop
        d.mkdir(parents=True, exist_ok=True)
        h = hashlib.sha256(json.dumps(payload, sort_keys=True, default=str).encode()).hexdigest()[:12]
        path = d / ('%s_%s.json' % (name, h))
        payload = dict(payload)
        payload.update({'property': self.prop, 'tier': self.tier, 'seed': self.seed, 'kind': name,
                        'replay_cmd': './vf check %s --replay %s' % (self.prop, path.relative_to(ROOT))})
        path.write_text(json.dumps(payload, indent=1, default=str))
        self.violations.append((str(path.relative_to(ROOT)), no_input))

    def known(self, text):
        self.known_lines.append(text)

    # ---- the standard proof part ----
    def proof_stage(self, extra_targets=()):
        """translator, Coq build of Properties/<prop>.vo, lint, pins, Print Assumptions.
        Returns True iff every proof obligation is discharged."""
        with Lock():
            ok, out, rep = run_translator()
            self.translator_report = rep
            self.oblige('translator', ok, out)
            self.log('translator: ' + out)
            okm, logm = coq_make(model_targets())
            self.oblige('model_builds', okm, logm[-3000:])
            okp, logp = coq_make(['Properties/%s.vo' % self.prop] + list(extra_targets))
            self.proof_log = logp
            self.oblige('theorems_check(Properties/%s.vo)' % self.prop, okp, logp[-3000:])
            bad = lint_sources()
            self.oblige('no_admitted_axiom_parameter', not bad, '; '.join(bad))
            pin, h = pins_ok(self.prop)
            self.oblige('statements_pinned', pin, 'sha256 of Properties/%s.v = %s' % (self.prop, h))
            self.theorem_axioms = {}
            if okp:
                oka, res, outa = audit_assumptions(self.prop)
                self.theorem_axioms = res
                self.oblige('print_assumptions_allowlist', oka, outa[-3000:] if not oka else '')
                if self.tier == 'thorough':
                    self.coqchk_stage()
        return all(o[1] for o in self.obligations)

    def coqchk_stage(self):
        """thorough tier: independent re-check of the compiled property file and everything it depends on"""
        rc, out = sh(['coqchk', '-o', '-silent', '-Q', str(COQ), 'WebP', 'WebP.Properties.%s' % self.prop], cwd=COQ, timeout=3000)
        m = re.search(r'\* Axioms:(.*?)\n\s*\n\* Constants/Inductives relying on type-in-type:(.*?)\n\s*\n\* Constants/Inductives relying on unsafe \(co\)fixpoints:(.*?)\n\s*\n\* Inductives whose positivity is assumed:(.*?)\n', out, flags=re.S)
        summary = [x.strip() for x in m.groups()] if m else None
        ok = rc == 0 and summary is not None and all(x == '<none>' or all(a.strip() in AXIOM_ALLOW for a in x.split('\n') if a.strip()) for x in summary[:1]) \
            and all(x == '<none>' for x in summary[1:])
        self.coqchk = {'rc': rc, 'axioms': summary[0] if summary else None, 'type_in_type': summary[1] if summary else None,
                       'unsafe_fixpoints': summary[2] if summary else None, 'assumed_positivity': summary[3] if summary else None}
        self.oblige('coqchk(independent checker; axioms / type-in-type / unsafe fixpoints / assumed positivity all <none>)', ok, out[-1500:] if not ok else '')
        return ok

    def tools_stage(self, release=False):
        with Lock():
            oko, logo = build_oracle()
            if not oko:
                self.oblige('oracle_builds', False, logo[-3000:])
            okh, logh = build_harness(False)
            if not okh:
                self.oblige('harness_builds_against_repo', False, logh[-3000:])
            if release and okh:
                okr, logr = build_harness(True)
                if not okr:
                    self.oblige('harness_builds_against_repo(release)', False, logr[-3000:])
        self.oracle_ok, self.harness_ok = oko, okh
        # the search on the implementation needs only the harness; without the oracle the model side is skipped
        return okh

    def finish(self, samples, rule, evaluations, distinct, extra_cov=None, assumptions=None):
        thms, exs = theorems_of(self.prop)
        cov = {
            'obligations': len(self.obligations),
            'discharged': sum(1 for o in self.obligations if o[1]),
            'checker_cmd': 'coqc (Coq 8.16.1) via `make -C coq Properties/%s.vo`; Print Assumptions per theorem; '
                           './vf check %s --tier %s' % (self.prop, self.prop, self.tier),
            'trusted_base': TRUSTED_BASE,
            'obligation_list': [{'name': n, 'discharged': ok, 'detail': (d[:300] if not ok else '')} for n, ok, d in self.obligations],
            'theorems': [{'name': t, 'axioms': self.theorem_axioms.get(t, None)} for t in thms],
            'nonvacuity_examples': exs,
            'translator': getattr(self, 'translator_report', {}).get('untranslated', []),
            'evaluations': int(evaluations),
            'distinct_nontrivial': int(distinct),
            'rule': rule,
            'samples': samples[:12] if samples else ['(none)'],
            'coqchk': getattr(self, 'coqchk', 'not run in the quick tier (thorough tier runs `coqchk -o -silent` on the property closure)'),
            'known_findings_reported': self.known_lines,
            'notes': self.notes,
        }
        if extra_cov:
            cov.update(extra_cov)
        ev = {
            'property_id': self.prop, 'tier': self.tier, 'seed': int(self.seed), 'level': 'proof',
            'coverage': cov,
            'assumptions': assumptions or [],
            'wall_s': round(time.time() - self.t0, 2),
            'violations': len(self.violations),
        }
        (ROOT / 'evidence').mkdir(exist_ok=True)
        (ROOT / 'evidence' / ('%s.json' % self.prop)).write_text(json.dumps(ev, indent=1, default=str))
        for k in self.known_lines:
            print('KNOWN-FINDING: property=%s %s' % (self.prop, k))
        for path, no_input in self.violations:
            print('VIOLATION property=%s replay=%s%s' % (self.prop, path, ' no-failing-input-found' if no_input else ''))
        sys.stdout.flush()
        return 1 if self.violations else 0


TRUSTED_BASE = [
    'Coq 8.16.1 kernel (coqc); vm_compute used for finite sweeps and witnesses; native_compute not used',
    'axioms: none declared; Print Assumptions of every property theorem must be "Closed under the global context" '
    '(allow-list: functional_extensionality_dep only, and only if reported)',
    'tools/rs2v.py: translator Rust tables + scalar integer kernels -> coq/Gen/*.v, regenerated on every run',
    'extraction: ExtrOcamlBasic only (bool/option/unit/list/prod/sumbool/sumor and andb/orb/negb/fst/snd inlined); '
    'no Extract Constant of our own; Z/N/positive/nat stay Coq inductives; OCaml 4.13.1 ocamlopt; ocaml/oracle.ml driver',
    'correspondence check (Rust harness + differ): differential testing implementation <-> Model on the cases run',
    'hand model of everything outside coq/Gen (Rust semantics of loops, buffers, std) is modelled, not verified',
]
