#!/usr/bin/env python3
"""re-pin the property statement files (run after a deliberate edit of coq/Properties/*.v)"""
import hashlib, json, pathlib
root = pathlib.Path(__file__).resolve().parent.parent
pins = {p.stem: hashlib.sha256(p.read_bytes()).hexdigest() for p in sorted((root / 'coq' / 'Properties').glob('*.v'))}
(root / 'checks' / 'pins.json').write_text(json.dumps(pins, indent=1))
print(len(pins), 'pinned')
