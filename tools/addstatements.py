#!/usr/bin/env python3
"""usage: addstatements.py <Check output file> <Properties file> <Module name> <imports (one string)> <requires (one string)> <json: {thm: [origin file, comment]}> <header comment>
Appends `Module <name>. Import ... Theorem t : <statement printed by Coq>. Proof. exact <origin>.t. Qed. ... End <name>.` to a Properties file.
The statements are Coq's own `Check` output (Set Printing Width 140), so they are exactly the proved ones; the build re-checks that they parse back."""
import re, sys, json
out = open(sys.argv[1]).read()
prop, mod, imports, requires, spec, header = sys.argv[2], sys.argv[3], sys.argv[4], sys.argv[5], json.loads(sys.argv[6]), sys.argv[7]
blocks = re.split(r'\n(?=[A-Za-z_0-9\']+\n     : )', '\n' + out)
thms = {}
for b in blocks:
    b = b.strip('\n')
    if not b:
        continue
    name, rest = b.split('\n', 1)
    thms[name.strip()] = rest.strip()[2:]
lines = ['', '(* ---------------- %s ---------------- *)' % header, 'Module %s.' % mod, '  Import %s.' % imports, '']
for n, (origin, comment) in spec.items():
    ty = '\n'.join('    ' + l for l in thms[n].split('\n'))
    lines.append('  (* %s *)' % comment)
    lines.append('  Theorem %s :\n%s.\n  Proof. exact %s.%s. Qed.\n' % (n, ty, origin, n))
lines.append('End %s.' % mod)
s = open(prop).read()
if ('Module %s.' % mod) in s:
    s = s[:s.index('\n(* ---------------- %s' % header)]
if requires and requires not in s:
    # after the last top-level "From ... Require" block
    idx = s.index('Import ListNotations.')
    s = s[:idx] + 'From WebP Require %s.\n' % requires + s[idx:]
s = s.rstrip() + '\n' + '\n'.join(lines) + '\n'
open(prop, 'w').write(s)
print('added', list(spec))
