"""rs2v_imp: translation of straight-line *imperative* kernels over small arrays (loop-filter taps, 4x4 blocks) to Gallina.

Extends tools/rs2v.py (same trusted base, same value / `_ok` convention).  A kernel is a Rust function whose array
parameters are accessed only at indices that are, after unrolling the literal-bound `for` loops,
  * `taps` arrays:  point + k*stride   (k a literal in a declared range)  -> one Gallina parameter per tap;
  * `fixed` arrays: a literal index below a declared length                 -> one Gallina parameter per cell.
Writes create new bindings (SSA); statement-level `if` merges the written cells with a tuple-valued Gallina `if`;
calls to other translated kernels on the same array (same point/stride) thread the taps through.
Result of the Gallina function: the Rust return value (if any) and/or the final contents of the mutated array.
"""
import re
from rs2v import (Parser, Tr, Ctx, Untranslatable, tokenize, find_fn, strip_comments, inrange, zlit, INT_TYPES, unify)


def tapname(arr, k):
    return '%s_%s%d' % (arr, 'm' if k < 0 else 'p', abs(k))


class Arr:
    def __init__(self, kind, elem, cells, syms=None, offset=0, keys=None):
        self.kind, self.elem, self.cells, self.syms, self.offset, self.keys = kind, elem, cells, syms, offset, keys

    def view(self, offset):
        return Arr(self.kind, self.elem, self.cells, self.syms, self.offset + offset, self.keys)


class ImpParser(Parser):
    """adds `for` loops, nested fn items and statement-level calls to the statement grammar"""

    def parse_block(self):
        self.expect('{')
        stmts, final = [], None
        while True:
            if self.accept('}'):
                break
            k, v = self.peek()
            if v == 'for':
                self.next()
                var = self.next()[1]
                self.expect('in')
                start = self.parse_expr()
                if self.accept('..'):
                    end = self.parse_expr()
                    body = self.parse_block()
                    stmts.append(('for_range', var, start, end, body))
                else:
                    body = self.parse_block()
                    stmts.append(('for_iter', var, start, body))
                continue
            if v == 'fn':
                self.next()
                name = self.next()[1]
                self.expect('(')
                params = []
                depth = 1
                cur = []
                while depth:
                    kk, vv = self.next()
                    if vv == '(':
                        depth += 1
                    elif vv == ')':
                        depth -= 1
                        if depth == 0:
                            break
                    cur.append(vv)
                # parameter names: identifiers directly before ':'
                for i, t in enumerate(cur):
                    if t == ':' and i > 0:
                        params.append(cur[i - 1])
                if self.accept('->'):
                    self.parse_type()
                body = self.parse_block()
                stmts.append(('fn', name, params, body))
                continue
            # everything else: reuse the base grammar for ONE statement by delegating on a sub-parser trick
            st, fin = self.parse_one()
            if st is not None:
                stmts.append(st)
                continue
            final = fin
            break
        return ('block', stmts, final)

    def parse_one(self):
        """parse a single base-grammar statement; returns (stmt, None) or (None, final_expr) when the block ends"""
        k, v = self.peek()
        if v == '#':
            self.next()
            self.accept('!')
            self.expect('[')
            depth = 1
            while depth:
                kk, vv = self.next()
                depth += (vv == '[') - (vv == ']')
            return ('nop',), None
        if v in ('let', 'const'):
            self.next()
            self.accept('mut')
            if self.peek()[1] == '(':
                self.next()
                names = []
                while not self.accept(')'):
                    self.accept('mut')
                    names.append(self.next()[1])
                    self.accept(',')
                pat = ('tuple', names)
            else:
                pat = self.next()[1]
            ty = None
            if self.accept(':'):
                ty = self.parse_type()
            self.expect('=')
            e = self.parse_expr()
            self.expect(';')
            return ('let', pat, ty, e), None
        if v in ('debug_assert!', 'assert!', 'debug_assert_eq!', 'assert_eq!'):
            self.next()
            self.expect('(')
            e = self.parse_expr()
            if v.endswith('_eq!'):
                self.expect(',')
                e2 = self.parse_expr()
                e = ('bin', '==', e, e2)
            depth = 1
            while depth:
                kk, vv = self.next()
                depth += (vv == '(') - (vv == ')')
            self.accept(';')
            return ('assert', v, e), None
        if v == 'return':
            self.next()
            e = self.parse_expr()
            self.accept(';')
            return ('return', e), None
        if v == 'if':
            e = self.parse_primary_if()
            if self.accept(';'):
                return ('expr', e), None
            if self.peek()[1] == '}':
                self.expect('}')
                return None, e
            return ('expr', e), None
        if k == 'id' and self.peek(1)[1] == '[':
            save = self.i
            name = self.next()[1]
            self.next()
            try:
                idx = self.parse_expr()
                self.expect(']')
                if self.peek()[1] in ('=', '+=', '-='):
                    op = self.next()[1]
                    e = self.parse_expr()
                    self.expect(';')
                    if op != '=':
                        e = ('bin', op[:-1], ('index', ('var', name), idx), e)
                    return ('assign_index', name, idx, e), None
            except Untranslatable:
                pass
            self.i = save
        if k == 'id' and self.peek(1)[1] in ('=', '+=', '-=', '*=', '>>=', '<<=', '&=', '|=', '^=', '/=', '%='):
            name = self.next()[1]
            op = self.next()[1]
            e = self.parse_expr()
            self.expect(';')
            if op != '=':
                e = ('bin', op[:-1], ('var', name), e)
            return ('assign', name, e), None
        e = self.parse_expr()
        if self.peek()[1] == '=' and e[0] in ('fieldname', 'index'):
            self.next()
            rhs = self.parse_expr()
            self.expect(';')
            return ('assign_path', e, rhs), None
        if self.accept(';'):
            return ('expr', e), None
        self.expect('}')
        return None, e

    def parse_primary_if(self):
        self.expect('if')
        cond = self.parse_expr()
        then = self.parse_block()
        els = None
        if self.accept('else'):
            if self.peek()[1] == 'if':
                els = ('block', [], self.parse_primary_if())
            else:
                els = self.parse_block()
        return ('if', cond, then, els)

    def parse_primary(self):
        # make nested blocks / ifs inside expressions use this parser too
        k, v = self.peek()
        if v == 'if':
            return self.parse_primary_if()
        return Parser.parse_primary(self)


class ImpTr(Tr):
    def __init__(self, ctx, ret_type, kernels, inl):
        Tr.__init__(self, ctx, {}, ret_type)
        self.kernels = kernels      # rust fn name -> kernel description (already translated, same file)
        self.inl = inl              # nested fns to inline: name -> (params, body expr AST)

    # ---- linear index forms ----
    def lin(self, e, env):
        """AST -> (dict symbol->coef, const); symbols are rust variable names bound to ('sym',)"""
        k = e[0]
        if k == 'lit':
            return {}, e[1]
        if k == 'var':
            n = e[1]
            if n in env and env[n] == ('sym',):
                return {n: 1}, 0
            if n in self.ctx.consts:
                return {}, self.ctx.consts[n][0]
            raise Untranslatable('index uses non-constant %s' % n)
        if k == 'cast':
            return self.lin(e[1], env)
        if k == 'neg':
            d, c = self.lin(e[1], env)
            return {s: -v for s, v in d.items()}, -c
        if k == 'bin' and e[1] in ('+', '-'):
            d1, c1 = self.lin(e[2], env)
            d2, c2 = self.lin(e[3], env)
            sg = 1 if e[1] == '+' else -1
            d = dict(d1)
            for s, v in d2.items():
                d[s] = d.get(s, 0) + sg * v
            return d, c1 + sg * c2
        if k == 'bin' and e[1] == '*':
            d1, c1 = self.lin(e[2], env)
            d2, c2 = self.lin(e[3], env)
            if not d1:
                return {s: v * c1 for s, v in d2.items()}, c1 * c2
            if not d2:
                return {s: v * c2 for s, v in d1.items()}, c1 * c2
            raise Untranslatable('non-linear index')
        raise Untranslatable('unsupported index expression %s' % k)

    def cell_key(self, arr, idx_ast, env):
        d, c = self.lin(idx_ast, env)
        d = {s: v for s, v in d.items() if v != 0}
        if arr.kind == 'taps':
            point, stride = arr.syms
            if d.get(point, 0) != 1 or c != 0 or set(d) - {point, stride}:
                raise Untranslatable('tap index is not point + k*stride')
            key = d.get(stride, 0) + arr.offset
        else:
            if d:
                raise Untranslatable('index of fixed array is not constant')
            key = c + arr.offset
        if key not in arr.cells:
            raise Untranslatable('index %s outside the declared range' % key)
        return key

    # ---- expressions ----
    def path_of(self, e):
        """dotted rendering of field / index / path expressions, e.g. self.frame.filter_level, self.ref_delta[0], LumaMode::B"""
        k = e[0]
        if k == 'var':
            return e[1]
        if k == 'path':
            return '::'.join(e[1])
        if k == 'fieldname':
            b = self.path_of(e[1])
            return None if b is None else '%s.%s' % (b, e[2])
        if k == 'index':
            b = self.path_of(e[1])
            if b is None:
                return None
            if e[2][0] == 'lit':
                return '%s[%d]' % (b, e[2][1])
            if e[2][0] == 'var':
                return '%s[%s]' % (b, e[2][1])
            return None
        return None

    def expr(self, e, env, want=None):
        k = e[0]
        if k in ('fieldname', 'index', 'path'):
            pth = self.path_of(e)
            if pth is not None and ('@path:' + pth) in env:
                v = env['@path:' + pth]
                return v[0], v[1], []
        if k == 'index' and e[1][0] == 'var' and e[1][1] in getattr(self, 'tables', {}):
            gname, ety, n = self.tables[e[1][1]]
            g, ty, c = self.expr(e[2], env, 'usize')
            return '(nth (Z.to_nat %s) %s 0)' % (g, gname), ety, c + ['((0 <=? %s) && (%s <? %d))' % (g, g, n)]
        if k in ('fieldname', 'index', 'path') and getattr(self, 'fields', None):
            pth = self.path_of(e)
            if pth in self.fields:
                f = self.fields[pth]
                if f[0] == 'const':
                    return zlit(f[1]), f[2], []
                return f[0], f[1], []
        if k == 'index' and e[1][0] == 'var' and isinstance(env.get(e[1][1]), Arr):
            arr = env[e[1][1]]
            key = self.cell_key(arr, e[2], env)
            return arr.cells[key], arr.elem, []
        if k == 'method' and e[1] == 'len' and e[2][0] == 'var' and isinstance(env.get(e[2][1]), Arr):
            arr = env[e[2][1]]
            if arr.kind != 'fixed':
                raise Untranslatable('len of a tap array')
            return zlit(len(arr.cells) - arr.offset), 'usize', []
        if k == 'call' and len(e[1]) == 1 and e[1][0] in self.inl:
            params, body = self.inl[e[1][0]]
            if len(params) != len(e[2]):
                raise Untranslatable('arity of nested fn')
            return self.expr(subst(body, dict(zip(params, e[2]))), env, want)
        if k == 'call' and len(e[1]) == 1 and e[1][0] in self.kernels:
            g, ty, c, _ = self.kernel_call(e, env, want, allow_mut=False)
            return g, ty, c
        return Tr.expr(self, e, env, want)

    def kernel_call(self, e, env, want, allow_mut):
        """call of a previously translated array kernel.  Returns (gallina, type, checks, (arr, mutated?))"""
        kd = self.kernels[e[1][0]]
        args = e[2]
        if len(args) != len(kd['params']):
            raise Untranslatable('arity of %s' % e[1][0])
        gs, cs, the_arr = [], [], None
        for a, (pname, pkind, pty) in zip(args, kd['params']):
            if pkind == 'scalar':
                g, ty, c = self.expr(a, env, pty)
                if isinstance(g, tuple):
                    raise Untranslatable('array literal argument')
                unify(ty, pty)
                gs.append(g)
                cs += c
            elif pkind == 'array':
                a2 = a
                if a2[0] != 'var' or not isinstance(env.get(a2[1]), Arr):
                    raise Untranslatable('array argument is not an array variable')
                the_arr = env[a2[1]]
            elif pkind == 'sym':
                # must be the caller's own symbol (same point / stride)
                if a[0] != 'var' or env.get(a[1]) != ('sym',):
                    raise Untranslatable('index symbol argument is not a plain symbol')
        if kd['keys'] is not None:
            if the_arr is None:
                raise Untranslatable('kernel call without array')
            for key in kd['keys']:
                k2 = key + the_arr.offset
                if k2 not in the_arr.cells:
                    raise Untranslatable('callee cell %s not available' % k2)
                gs.append(the_arr.cells[k2])
        app = '(%s %s)' % (kd['gname'], ' '.join(gs))
        cs.append('(%s_ok %s)' % (kd['gname'], ' '.join(gs)))
        if kd['mutates'] and not allow_mut:
            raise Untranslatable('mutating kernel called in expression position')
        return app, kd['ret'], cs, the_arr

    # ---- statement execution (symbolic, SSA) ----
    def exec_block(self, blk, env, binds, pending):
        """executes statements, extending binds/pending in place; returns (final value gallina or None, type)"""
        stmts, final = blk[1], blk[2]
        for st in stmts:
            k = st[0]
            if k == 'nop':
                continue
            if k == 'fn':
                body = st[3]
                if body[1] or body[2] is None:
                    raise Untranslatable('nested fn %s is not a single expression' % st[1])
                self.inl[st[1]] = (st[2], body[2])
                continue
            if k == 'let':
                pat, ty, ex = st[1], st[2], st[3]
                if isinstance(pat, tuple):
                    raise Untranslatable('tuple let in imperative kernel')
                if ex[0] == 'repeat':     # let mut a = [0i32; 8];
                    g0, t0, _ = self.expr(ex[1], env, None)
                    n = self.lin(ex[2], env)[1]
                    elem = t0 or (ty[1] if isinstance(ty, tuple) else None)
                    env[pat] = Arr('fixed', elem, {i: g0 for i in range(n)}, None, 0, list(range(n)))
                    continue
                ty_want = None if isinstance(ty, tuple) else ty
                ex = self.hoist(ex, env, binds, pending)
                g, gty, c = self.expr(ex, env, ty_want)
                pending += [(len(binds), x) for x in c]
                if isinstance(g, tuple):
                    raise Untranslatable('array literal binding')
                if ty_want is not None and gty is not None:
                    unify(ty_want, gty)
                gn = self.ctx.fresh(pat)
                binds.append((gn, g))
                env[pat] = (gn, ty_want or gty)
                continue
            if k == 'assign':
                name, ex = st[1], st[2]
                if name not in env or isinstance(env[name], Arr):
                    raise Untranslatable('assignment to unknown %s' % name)
                ex = self.hoist(ex, env, binds, pending)
                g, gty, c = self.expr(ex, env, env[name][1])
                pending += [(len(binds), x) for x in c]
                gn = self.ctx.fresh(name)
                binds.append((gn, g))
                env[name] = (gn, env[name][1])
                continue
            if k == 'assign_index':
                name, idx, ex = st[1], st[2], st[3]
                arr = env.get(name)
                if not isinstance(arr, Arr):
                    raise Untranslatable('indexed assignment to non-array %s' % name)
                key = self.cell_key(arr, idx, env)
                g, gty, c = self.expr(ex, env, arr.elem)
                pending += [(len(binds), x) for x in c]
                if arr.elem is None:
                    arr.elem = gty
                gn = self.ctx.fresh('%s%s' % (name, str(key).replace('-', 'm')))
                binds.append((gn, g))
                arr.cells[key] = gn
                continue
            if k == 'assign_path':
                pth = self.path_of(st[1])
                outs = getattr(self, 'outputs', {})
                if pth is None or pth not in outs:
                    raise Untranslatable('assignment to undeclared place %s' % pth)
                ex = self.hoist(st[2], env, binds, pending)
                g, gty, c = self.expr(ex, env, outs[pth])
                pending += [(len(binds), x) for x in c]
                gn = self.ctx.fresh(re.sub(r'\W+', '_', pth).strip('_'))
                binds.append((gn, g))
                env['@path:' + pth] = (gn, outs[pth])
                continue
            if k == 'assert':
                g, gty, c = self.expr(st[2], env, 'bool')
                pending += [(len(binds), x) for x in c]
                if g != 'true':
                    pending.append((len(binds), g))
                continue
            if k == 'for_range':
                lo = self.lin(st[2], env)[1]
                hi = self.lin(st[3], env)[1]
                if hi - lo > 64:
                    raise Untranslatable('loop too long to unroll')
                for i in range(lo, hi):
                    saved = self.ctx.consts.get(st[1])
                    self.ctx.consts[st[1]] = (i, 'usize')
                    v, _ = self.exec_block(st[4], env, binds, pending)
                    if saved is None:
                        del self.ctx.consts[st[1]]
                    else:
                        self.ctx.consts[st[1]] = saved
                continue
            if k == 'for_iter':
                it = st[2]
                if not (it[0] == 'method' and it[1] in ('chunks_exact_mut', 'chunks_exact') and it[2][0] == 'var'
                        and isinstance(env.get(it[2][1]), Arr)):
                    raise Untranslatable('unsupported iterator')
                arr = env[it[2][1]]
                kk = self.lin(it[3][0], env)[1]
                n = (len(arr.cells) - arr.offset) // kk
                outer = env.get(st[1])
                for j in range(n):
                    env[st[1]] = arr.view(kk * j)
                    self.exec_block(st[3], env, binds, pending)
                if outer is None:
                    del env[st[1]]
                else:
                    env[st[1]] = outer
                continue
            if k == 'expr':
                ex = st[1]
                if ex[0] == 'if':
                    self.exec_if(ex, env, binds, pending)
                    continue
                if ex[0] == 'call' and len(ex[1]) == 1 and ex[1][0] in self.kernels:
                    self.exec_call(ex, env, binds, pending, None)
                    continue
                raise Untranslatable('expression statement')
            if k == 'return':
                raise Untranslatable('return in imperative kernel')
            raise Untranslatable('statement %s' % k)
        if final is None:
            return None, None
        if final[0] == 'call' and len(final[1]) == 1 and final[1][0] in self.kernels and self.kernels[final[1][0]]['mutates']:
            return self.exec_call(final, env, binds, pending, True)
        if final[0] == 'if' and (final[3] is None or self.ret_type is None):
            self.exec_if(final, env, binds, pending)
            return None, None
        g, gty, c = self.expr(final, env, self.ret_type)
        pending += [(len(binds), x) for x in c]
        return g, gty

    def hoist(self, ast, env, binds, pending):
        """evaluate mutating kernel calls nested inside an expression first (left to right), replacing each by a variable"""
        if isinstance(ast, tuple):
            if ast and ast[0] == 'call' and len(ast[1]) == 1 and ast[1][0] in self.kernels and self.kernels[ast[1][0]]['mutates']:
                rv, rty = self.exec_call(ast, env, binds, pending, True)
                tmp = '__hoisted_%d' % len(binds)
                env[tmp] = (rv, rty)
                return ('var', tmp)
            if ast and ast[0] in ('if', 'block'):
                return ast
            return tuple(self.hoist(x, env, binds, pending) for x in ast)
        if isinstance(ast, list):
            return [self.hoist(x, env, binds, pending) for x in ast]
        return ast

    def exec_call(self, ex, env, binds, pending, want_value):
        app, rty, cs, arr = self.kernel_call(ex, env, None, allow_mut=True)
        kd = self.kernels[ex[1][0]]
        pending += [(len(binds), x) for x in cs]
        if not kd['mutates']:
            return app, rty
        names = [self.ctx.fresh('%s%s' % ('t', str(k).replace('-', 'm'))) for k in kd['keys']]
        listpat = list_pattern(names)
        if kd['ret'] is not None:
            rv = self.ctx.fresh('r')
            binds.append(("'(%s, %s)" % (rv, listpat), app))
        else:
            rv = None
            binds.append(("'%s" % listpat, app))
        for key, gn in zip(kd['keys'], names):
            arr.cells[key + arr.offset] = gn
        return rv, rty

    def snapshot(self, env):
        snap = {}
        for n, v in env.items():
            if isinstance(v, Arr):
                snap[n] = ('arr', id(v.cells), dict(v.cells))
            else:
                snap[n] = v
        return snap

    def exec_if(self, ex, env, binds, pending):
        cond, tc, cc = self.expr(ex[1], env, 'bool')
        if tc != 'bool':
            raise Untranslatable('if condition not bool')
        pending += [(len(binds), x) for x in cc]
        base = self.snapshot(env)

        def run(branch):
            # restore base state
            for n, v in base.items():
                if isinstance(env.get(n), Arr):
                    env[n].cells.clear()
                    env[n].cells.update(v[2])
                else:
                    env[n] = v
            b, p = [], []
            if branch is not None:
                self.exec_block(branch, env, b, p)
            return b, p, self.snapshot(env)

        tb, tp, tsnap = run(ex[2])
        eb, ep, esnap = run(ex[3])
        # cells / scalars that differ from base in either branch
        changed = []
        for n, v in base.items():
            if isinstance(v, tuple) and v and v[0] == 'arr':
                for key in v[2]:
                    if tsnap[n][2][key] != v[2][key] or esnap[n][2][key] != v[2][key]:
                        changed.append((n, key))
            else:
                if tsnap.get(n) != v or esnap.get(n) != v:
                    changed.append((n, None))

        def val(snap, n, key):
            return snap[n][2][key] if key is not None else snap[n][0]

        # restore base, then bind the merged values
        for n, v in base.items():
            if isinstance(env.get(n), Arr):
                env[n].cells.clear()
                env[n].cells.update(v[2])
            else:
                env[n] = v
        # drop variables declared inside the branches
        for n in list(env):
            if n not in base:
                del env[n]
        if changed:
            tvals = '[%s]' % '; '.join(val(tsnap, n, k) for n, k in changed)
            evals = '[%s]' % '; '.join(val(esnap, n, k) for n, k in changed)
            tterm = self.close_simple(tb, tvals)
            eterm = self.close_simple(eb, evals)
            names = [self.ctx.fresh('%s%s' % (n, '' if k is None else str(k).replace('-', 'm'))) for n, k in changed]
            binds.append(("'%s" % list_pattern(names), '(if %s then %s else %s)' % (cond, tterm, eterm)))
            for (n, k), gn in zip(changed, names):
                if k is None:
                    env[n] = (gn, env[n][1])
                else:
                    env[n].cells[k] = gn
        tok = self.close_checks(tb, tp)
        eok = self.close_checks(eb, ep)
        if tok != 'true' or eok != 'true':
            pending.append((len(binds) - (1 if changed else 0), '(if %s then %s else %s)' % (cond, tok, eok)))

    def close_simple(self, binds, term):
        for name, val in reversed(binds):
            term = '(let %s := %s in %s)' % (name, val, term)
        return term

    def close_checks(self, binds, pending):
        if not pending:
            return 'true'
        body = [c for n, c in pending if n == len(binds)]
        for i in range(len(binds) - 1, -1, -1):
            here = [c for n, c in pending if n == i]
            if body:
                name, val = binds[i]
                body = here + ['(let %s := %s in %s)' % (name, val, ' && '.join(body))]
            else:
                body = here
        return '(%s)' % ' && '.join(body) if body else 'true'


def list_pattern(names):
    """irrefutable-looking pattern for a list of known length is not available in Gallina: we bind through nth"""
    return 'LISTPAT(%s)' % ','.join(names)


def expand_listpats(term):
    """rewrite  let 'LISTPAT(a,b,c) := E in B   as   let l := E in let a := nth 0 l 0 in ... B
       and      let '(r, LISTPAT(a,b)) := E in B  as  let p := E in let r := fst p in let l := snd p in ..."""
    counter = [0]

    def repl_pair(m):
        counter[0] += 1
        p = 'p__%d' % counter[0]
        l = 'l__%d' % counter[0]
        names = m.group(2).split(',')
        s = 'let %s := ' % p
        tail = ' in (let %s := fst %s in (let %s := snd %s in %s' % (m.group(1), p, l, p,
                                                                      ''.join('(let %s := nth %d %s 0 in ' % (n, i, l) for i, n in enumerate(names)))
        return ('PAIR', s, tail, len(names) + 2)

    # simple iterative textual rewriting: find "let 'LISTPAT(" occurrences, matching "in" belongs to same let: since our
    # lets are fully parenthesised "(let X := V in B)", we transform X and wrap B's closing parenthesis count.
    out = term
    while True:
        m = re.search(r"\(let '\((\w+), LISTPAT\(([\w,]*)\)\) := ", out)
        m2 = re.search(r"\(let 'LISTPAT\(([\w,]*)\) := ", out)
        if not m and not m2:
            break
        if m and (not m2 or m.start() < m2.start()):
            start, names, rv = m.start(), m.group(2).split(','), m.group(1)
            head_end = m.end()
        else:
            start, names, rv = m2.start(), m2.group(1).split(','), None
            head_end = m2.end()
        # find the matching ' in ' of this let: scan from head_end at depth 0 for " in "
        depth, i = 0, head_end
        while True:
            ch = out[i]
            if ch == '(':
                depth += 1
            elif ch == ')':
                depth -= 1
            elif depth == 0 and out.startswith(' in ', i):
                break
            i += 1
        val = out[head_end:i]
        body_start = i + 4
        # matching close paren of the whole "(let ... )"
        depth, j = 1, start + 1
        while depth:
            ch = out[j]
            depth += (ch == '(') - (ch == ')')
            j += 1
        body = out[body_start:j - 1]
        counter[0] += 1
        l = 'l__%d' % counter[0]
        names = [n for n in names if n]
        inner = body
        for idx in range(len(names) - 1, -1, -1):
            inner = '(let %s := nth %d %s 0 in %s)' % (names[idx], idx, l, inner)
        if rv is not None:
            p = 'p__%d' % counter[0]
            new = '(let %s := %s in (let %s := fst %s in (let %s := snd %s in %s)))' % (p, val, rv, p, l, p, inner)
        else:
            new = '(let %s := %s in %s)' % (l, val, inner)
        out = out[:start] + new + out[j:]
    return out


def subst(ast, m):
    if isinstance(ast, tuple):
        if ast and ast[0] == 'var' and ast[1] in m:
            return m[ast[1]]
        return tuple(subst(x, m) for x in ast)
    if isinstance(ast, list):
        return [subst(x, m) for x in ast]
    return ast


def translate_imp(src, kd, ctx, kernels):
    """kd: dict(fn, gname, arrays={name: ('taps', elem, point, stride, lo, hi) | ('fixed', elem, n)}, mutates)"""
    found = find_fn(src, kd['fn'])
    if not found:
        raise Untranslatable('function not found')
    params_src, ret_src, body_src = found
    # parameters
    ptoks = Parser(tokenize(params_src))
    plist = []   # (name, kind, type)
    syms = set()
    for a in kd['arrays'].values():
        if a[0] == 'taps':
            syms |= {a[2], a[3]}
    while ptoks.peek()[0] != 'eof':
        pname = ptoks.next()[1]
        if pname == '&':
            continue
        if pname == 'self':
            ptoks.accept(',')
            continue
        if pname == 'mut':
            pname = ptoks.next()[1]
        ptoks.expect(':')
        if pname in kd.get('struct_params', ()):
            depth = 0
            while ptoks.peek()[0] != 'eof' and not (depth == 0 and ptoks.peek()[1] == ','):
                v = ptoks.next()[1]
                depth += (v in '[(<') - (v in '])>')
            ptoks.accept(',')
            continue
        if pname in kd['arrays']:
            # skip the type tokens up to the next top-level comma
            depth = 0
            while ptoks.peek()[0] != 'eof' and not (depth == 0 and ptoks.peek()[1] == ','):
                v = ptoks.next()[1]
                depth += (v in '[(<') - (v in '])>')
            plist.append((pname, 'array', None))
        else:
            pty = ptoks.parse_type()
            if isinstance(pty, tuple):
                raise Untranslatable('non-scalar parameter %s' % pname)
            plist.append((pname, 'sym' if pname in syms else 'scalar', pty))
        ptoks.accept(',')
    rty = Parser(tokenize(ret_src)).parse_type() if ret_src else None
    tuple_ret = None
    if isinstance(rty, tuple):
        if rty[0] != 'tuple' or kd.get('mutates'):
            raise Untranslatable('unsupported return type')
        tuple_ret, rty = rty[1], None
    blk = ImpParser(tokenize(body_src)).parse_block()
    if kd.get('skip_lets'):
        blk = ('block', [st for st in blk[1] if not (st[0] == 'let' and st[1] in kd['skip_lets'])], blk[2])
    env, args, pre, keys, arrname = {}, [], [], None, None
    for pname, pkind, pty in plist:
        if pkind == 'scalar':
            env[pname] = (pname, pty)
            args.append((pname, pty))
            if pty != 'bool':
                pre.append(inrange(pty, pname))
        elif pkind == 'sym':
            env[pname] = ('sym',)
    for pname, pkind, pty in plist:
        if pkind == 'array':
            a = kd['arrays'][pname]
            if a[0] == 'taps':
                keys = list(range(a[4], a[5] + 1))
                cells = {k: tapname(pname, k) for k in keys}
                env[pname] = Arr('taps', a[1], cells, (a[2], a[3]), 0, keys)
            else:
                keys = list(range(a[2]))
                cells = {k: '%s_%d' % (pname, k) for k in keys}
                env[pname] = Arr('fixed', a[1], cells, None, 0, keys)
            arrname = pname
            for k in keys:
                args.append((cells[k], a[1]))
                pre.append(inrange(a[1], cells[k]))
    tr = ImpTr(ctx, rty, kernels, {})
    tr.fields = {}
    for pth, (gn, ty) in kd.get('fields', {}).items():
        if gn == 'const':
            tr.fields[pth] = ('const', ty[0], ty[1])
        else:
            tr.fields[pth] = (gn, ty)
            args.append((gn, ty))
            if ty != 'bool':
                pre.append(inrange(ty, gn))
    binds, pending = [], []
    init_cells = dict(env[arrname].cells) if arrname else {}
    if tuple_ret is not None:
        # the final expression is a tuple of scalars: evaluate the statements, then each component
        final = blk[2]
        if final is None or final[0] != 'tuple' or len(final[1]) != len(tuple_ret):
            raise Untranslatable('tuple-returning kernel must end in a tuple expression')
        tr.exec_block(('block', blk[1], None), env, binds, pending)
        comps = []
        for ce, cty in zip(final[1], tuple_ret):
            g, gty, c = tr.expr(ce, env, cty)
            pending += [(len(binds), x) for x in c]
            comps.append(g)
        val, vty = None, None
    else:
        val, vty = tr.exec_block(blk, env, binds, pending)
    if rty is not None and val is None:
        raise Untranslatable('no return value found')
    outs = None
    if kd['mutates']:
        outs = '[%s]' % '; '.join(env[arrname].cells[k] for k in keys)
    if tuple_ret is not None:
        term, coqret = '[%s]' % '; '.join(comps), 'list Z'
    elif rty is not None and outs is not None:
        term, coqret = '(%s, %s)' % (val, outs), '(%s * list Z)' % ('bool' if rty == 'bool' else 'Z')
    elif outs is not None:
        term, coqret = outs, 'list Z'
    else:
        term, coqret = val, ('bool' if rty == 'bool' else 'Z')
    value = expand_listpats(tr.close_simple(binds, term))
    ok = expand_listpats(tr.close_checks(binds, pending))
    a = ' '.join('(%s : %s)' % (n, 'bool' if t == 'bool' else 'Z') for n, t in args)
    gname = kd['gname']
    text = 'Definition %s %s : %s :=\n  %s.\n' % (gname, a, coqret, value)
    text += 'Definition %s_ok %s : bool :=\n    %s.\n' % (gname, a, ok)
    text += 'Definition %s_pre %s : bool := %s.\n' % (gname, a, ' && '.join(pre) or 'true')
    kernels[kd['fn']] = {'gname': gname, 'params': plist, 'keys': keys, 'mutates': kd['mutates'], 'ret': rty}
    return text


def collect_nested_fns(blk, acc):
    for st in blk[1]:
        if st[0] == 'fn':
            body = st[3]
            if not body[1] and body[2] is not None:
                acc[st[1]] = (st[2], body[2])
    return acc


def translate_fragment_imp(src, kd, ctx, kernels):
    """kd: dict(fn, marker, gname, params=[(name, type)], fields={path: (gname, type)|('const',(v,ty))}, outputs=[(path, type)],
                 tables={RUSTNAME: (gallina name, elem type, length)})
    translates the innermost block of `fn` containing `marker`; result = list of the final values of the output places"""
    from rs2v import enclosing_block
    found = find_fn(src, kd['fn'])
    if not found:
        raise Untranslatable('function not found')
    body_src = found[2]
    pos = body_src.find(kd['marker'])
    if pos < 0:
        raise Untranslatable('marker not found')
    blk_src = enclosing_block(body_src, pos)
    inl = {}
    try:
        collect_nested_fns(ImpParser(tokenize(body_src)).parse_block(), inl)
    except Untranslatable:
        # the surrounding function need not be in the subset; nested single-expression fns are found textually
        for m in re.finditer(r'\bfn\s+(\w+)\s*\(([^)]*)\)\s*(?:->\s*[\w:<>]+)?\s*\{', body_src):
            name = m.group(1)
            if name == kd['fn']:
                continue
            k, depth = m.end(), 1
            while depth:
                depth += (body_src[k] == '{') - (body_src[k] == '}')
                k += 1
            fb = ImpParser(tokenize(body_src[m.end() - 1:k])).parse_block()
            if not fb[1] and fb[2] is not None:
                params = [x.split(':')[0].strip().replace('mut ', '') for x in m.group(2).split(',') if x.strip()]
                inl[name] = (params, fb[2])
    blk = ImpParser(tokenize(blk_src)).parse_block()
    env, args, pre = {}, [], []
    for pname, pty in kd.get('params', []):
        env[pname] = (pname, pty)
        args.append((pname, pty))
        if pty != 'bool':
            pre.append(inrange(pty, pname))
    tr = ImpTr(ctx, None, kernels, inl)
    tr.fields, tr.tables, tr.outputs = {}, kd.get('tables', {}), dict(kd['outputs'])
    for pth, (gn, ty) in kd.get('fields', {}).items():
        if gn == 'const':
            tr.fields[pth] = ('const', ty[0], ty[1])
        else:
            tr.fields[pth] = (gn, ty)
            args.append((gn, ty))
            if ty != 'bool':
                pre.append(inrange(ty, gn))
    binds, pending = [], []
    tr.exec_block(('block', blk[1], None) if blk[2] is None else blk, env, binds, pending)
    outs = []
    for pth, ty in kd['outputs']:
        if ('@path:' + pth) not in env:
            raise Untranslatable('output place %s is never assigned' % pth)
        outs.append(env['@path:' + pth][0])
    value = expand_listpats(tr.close_simple(binds, '[%s]' % '; '.join(outs)))
    ok = expand_listpats(tr.close_checks(binds, pending))
    a = ' '.join('(%s : %s)' % (n, 'bool' if t == 'bool' else 'Z') for n, t in args)
    gname = kd['gname']
    text = 'Definition %s %s : list Z :=\n  %s.\n' % (gname, a, value)
    text += 'Definition %s_ok %s : bool :=\n    %s.\n' % (gname, a, ok)
    text += 'Definition %s_pre %s : bool := %s.\n' % (gname, a, ' && '.join(pre) or 'true')
    return text


IMP_FRAGMENTS = [
    # per-segment dequantisation factors: the body of the `for i in 0usize..n` loop of read_quantization_indices
    dict(file='vp8.rs', fn='read_quantization_indices', marker='self.segment[i].ydc = dc_quant', gname='segment_quantizers',
         params=[('yac_abs', 'u8'), ('ydc_delta', 'i32'), ('y2dc_delta', 'i32'), ('y2ac_delta', 'i32'), ('uvdc_delta', 'i32'), ('uvac_delta', 'i32')],
         fields={'self.segments_enabled': ('segments_enabled', 'bool'),
                 'self.segment[i].delta_values': ('segment_delta_values', 'bool'),
                 'self.segment[i].quantizer_level': ('segment_quantizer_level', 'i8')},
         outputs=[('self.segment[i].ydc', 'i16'), ('self.segment[i].yac', 'i16'), ('self.segment[i].y2dc', 'i16'),
                  ('self.segment[i].y2ac', 'i16'), ('self.segment[i].uvdc', 'i16'), ('self.segment[i].uvac', 'i16')],
         tables={'DC_QUANT': ('vp8_DC_QUANT', 'i16', 128), 'AC_QUANT': ('vp8_AC_QUANT', 'i16', 128)}),
]

TAPS8 = {'pixels': ('taps', 'u8', 'point', 'stride', -4, 3)}
IMP_KERNELS = [
    dict(file='loop_filter.rs', fn='common_adjust', gname='lf_common_adjust', arrays=TAPS8, mutates=True),
    dict(file='loop_filter.rs', fn='simple_threshold', gname='lf_simple_threshold', arrays=TAPS8, mutates=False),
    dict(file='loop_filter.rs', fn='should_filter', gname='lf_should_filter', arrays=TAPS8, mutates=False),
    dict(file='loop_filter.rs', fn='high_edge_variance', gname='lf_high_edge_variance', arrays=TAPS8, mutates=False),
    dict(file='loop_filter.rs', fn='simple_segment', gname='lf_simple_segment', arrays=TAPS8, mutates=True),
    dict(file='loop_filter.rs', fn='subblock_filter', gname='lf_subblock_filter', arrays=TAPS8, mutates=True),
    dict(file='loop_filter.rs', fn='macroblock_filter', gname='lf_macroblock_filter', arrays=TAPS8, mutates=True),
    dict(file='transform.rs', fn='idct4x4', gname='idct4x4', arrays={'block': ('fixed', 'i32', 16)}, mutates=True),
    dict(file='transform.rs', fn='iwht4x4', gname='iwht4x4', arrays={'block': ('fixed', 'i32', 16)}, mutates=True),
    # per-macroblock loop-filter parameters: struct fields become parameters; result [filter_level; interior_limit; hev_threshold]
    dict(file='vp8.rs', fn='calculate_filter_parameters', gname='calculate_filter_parameters', arrays={}, mutates=False,
         struct_params=['macroblock'], skip_lets=['segment'],
         fields={'self.frame.filter_level': ('frame_filter_level', 'u8'),
                 'self.segments_enabled': ('segments_enabled', 'bool'),
                 'segment.delta_values': ('segment_delta_values', 'bool'),
                 'segment.loopfilter_level': ('segment_loopfilter_level', 'i8'),
                 'self.ref_delta[0]': ('ref_delta_0', 'i32'),
                 'self.mode_delta[0]': ('mode_delta_0', 'i32'),
                 'macroblock.luma_mode': ('luma_mode', 'i8'),
                 'LumaMode::B': ('const', (4, 'i8')),
                 'self.frame.sharpness_level': ('sharpness_level', 'u8'),
                 'self.frame.keyframe': ('keyframe', 'bool')}),
]
