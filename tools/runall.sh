#!/bin/bash
# run every claimed check (quick tier by default) on the current tree; prints rc per property
cd "$(dirname "$0")/.."
tier=${1:-quick}
for c in $(python3 -c "import json; print(' '.join(x['property_id'] for x in json.load(open('MANIFEST.json'))['checks']))"); do
  s=$(date +%s)
  out=$(./vf check $c --tier $tier 2>&1); rc=$?
  echo "$c rc=$rc $(( $(date +%s) - s ))s $(echo "$out" | grep -E 'VIOLATION|KNOWN-FINDING|OBLIGATION FAILED' | head -3 | cut -c1-200)"
done
