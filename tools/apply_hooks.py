#!/usr/bin/env python3
"""apply an agent's hooks.patch to /repo: hunks for src/verif.rs are appended at the end of the file (every agent appends
there, so the contexts conflict); all other files go through `git apply`."""
import re, subprocess, sys
patch = open(sys.argv[1]).read()
repo = sys.argv[2] if len(sys.argv) > 2 else '/repo'
parts = re.split(r'(?m)^(?=diff --git )', patch)
others = []
for part in parts:
    if not part.strip():
        continue
    m = re.match(r'diff --git a/(\S+) b/(\S+)', part)
    if not m:
        continue
    if m.group(2) == 'src/verif.rs':
        added = []
        for line in part.split('\n'):
            if line.startswith('+') and not line.startswith('+++'):
                added.append(line[1:])
        with open(repo + '/src/verif.rs', 'a') as f:
            f.write('\n'.join(added).rstrip('\n') + '\n')
        print('appended %d lines to src/verif.rs' % len(added))
    else:
        others.append(part)
if others:
    p = subprocess.run(['git', '-C', repo, 'apply', '-'], input=''.join(others), text=True, capture_output=True)
    print('git apply others:', p.returncode, p.stderr[:2000])
    sys.exit(p.returncode)
