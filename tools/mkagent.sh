#!/bin/bash
# usage: tools/mkagent.sh <name>   -- creates /tmp/agents/<name>/{verif,repo} for a builder sub-agent
set -e
n=$1
mkdir -p /tmp/agents/$n
rm -rf /tmp/agents/$n/verif
rsync -a --exclude build --exclude .git --exclude '*.vo' --exclude '*.glob' --exclude '*.vok' --exclude '*.vos' --exclude '.*.aux' /verif/ /tmp/agents/$n/verif/
if [ ! -d /tmp/agents/$n/repo ]; then
  git -C /repo worktree add --detach /tmp/agents/$n/repo HEAD >/dev/null 2>&1
fi
sed -i "s|path = \"/repo\"|path = \"/tmp/agents/$n/repo\"|" /tmp/agents/$n/verif/harness/Cargo.toml
echo "/tmp/agents/$n ready"
