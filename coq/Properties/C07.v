(* C07 -- Animation playback is independent of the call history.
   (modules H / HC at the end: the same for the decoder working on the FILE BYTES -- Model/ReadImageOps.v run_ops over the record of WebPDecoder::new:
   read_frame with the ANMF location loop, reset_animation, read_image with its save / rewind / restore -- tied by the readimage correspondence.)
   (modules H / HC at the end: the same for the decoder working on the FILE BYTES -- Model/ReadImageOps.v run_ops over WebPDecoder::new's record,
   read_frame with the ANMF location loop, reset_animation, read_image with its save / rewind / restore -- tied by the readimage correspondence)
   Property theorems only.  Objects: Model.Anim.run_ops (the AnimationState machine of decoder.rs under read_frame,
   reset_animation and read_image, on the REPAIRED tree: fix_F15 resets the whole state), Spec.Anim.cursor_run (a playback
   cursor over the list of frames a fresh decoder shows), Model.Anim.play (a fresh decoder reading all frames). *)
From Coq Require Import ZArith List Bool.
From WebP Require Import Lib.Res Lib.Arr Model.AlphaBlend Model.Anim Spec.Anim
  Proofs.Anim_play Proofs.Anim_history Properties.C06.
From WebP Require Spec.Container Spec.Anim Model.AlphaBlend Model.Anim Model.ReadImage Model.ReadImageOps Model.Vp8Decode
  Proofs.Container_bytes Proofs.Anim_play Proofs.Anim_history Proofs.ReadImage_anim Proofs.ReadImage_ops
  Proofs.VP8_decode_readimage Proofs.ReadImage_ops_closed Proofs.Container_fits Proofs.Anim_history_safe Proofs.ReadImage_ops_safe.
Import ListNotations.
Open Scope Z_scope.

(* For every valid animation and every sequence of calls, the trace (result of each call, caller's buffer after it) is
   the trace of the cursor machine: read_frame delivers frame number `cursor` of a fresh decoder and advances, or reports
   NoMoreFrames leaving the buffer alone; reset_animation sets the cursor to 0; read_image delivers frame 0 and leaves the
   cursor alone. *)
Theorem history_independent : forall f ops buf, valid_file f -> Z.of_nat (length buf) = output_buffer_size f ->
  run_ops f ops fresh_state buf = trace_of (cursor_run (kshown f) (map op_of ops) 0 buf).
Proof. exact history_independent_lemma. Qed.

(* clause 1: the read_frame issued when j frames have been consumed since the last reset (or since the start) delivers
   exactly what the (j+1)-th read_frame of a fresh decoder delivers *)
Theorem frames_after_reset : forall f ops buf i j, valid_file f -> Z.of_nat (length buf) = output_buffer_size f ->
  nth_error ops i = Some MFrame -> position f (firstn i ops) = j -> (j < length (m_frames f))%nat ->
  nth_error (run_ops f ops fresh_state buf) i = nth_error (map (fun rb => (RFrame (fst rb), snd rb)) (play f buf)) j.
Proof. exact frames_after_reset_lemma. Qed.

Theorem position_after_reset : forall f ops, position f (ops ++ [MReset]) = O.
Proof. exact position_reset_lemma. Qed.

(* clause 2: read_image always returns the first frame and does not move the playback position *)
Theorem read_image_first_frame : forall f ops buf i, valid_file f -> Z.of_nat (length buf) = output_buffer_size f ->
  nth_error ops i = Some MImage ->
  nth_error (run_ops f ops fresh_state buf) i =
    Some (RImage (Ok tt), render (m_alpha f) (m_w f) (m_h f) (frames_upto do_alpha_blending (anim_of f) 0))
  /\ position f (firstn (S i) ops) = position f (firstn i ops).
Proof. exact read_image_first_frame_lemma. Qed.

(* read_image calls, and whatever the caller writes into its buffer between calls, can be deleted from a call sequence
   without changing the playback position *)
Theorem position_ignores_read_image : forall f ops,
  position f (filter (fun o => match o with MImage | MFill _ => false | _ => true end) ops) = position f ops.
Proof. exact position_ignores_read_image_lemma. Qed.

(* clause 3: once all frames are consumed read_frame returns NoMoreFrames without modifying the buffer (until a reset
   brings the position back to 0: position_after_reset) *)
Theorem exhausted_no_more_frames : forall f ops buf i, valid_file f -> Z.of_nat (length buf) = output_buffer_size f ->
  nth_error ops i = Some MFrame -> position f (firstn i ops) = length (m_frames f) ->
  nth_error (run_ops f ops fresh_state buf) i =
    Some (RFrame (Err ENoMoreFrames), buffer_before (run_ops f ops fresh_state buf) i buf).
Proof. exact exhausted_lemma. Qed.

(* no call of any call sequence on a valid animation panics, exhausts fuel, or fails with anything but NoMoreFrames: a call's outcome class
   does not depend on the calls made before it (the C03 face of this property; call_clean accepts exactly RFrame (Ok _),
   RFrame (Err ENoMoreFrames), RImage (Ok _), RReset and RFill) *)
Theorem calls_never_fail : forall f ops buf, valid_file f -> Z.of_nat (length buf) = output_buffer_size f ->
  Forall (fun rb => Anim_history_safe.call_clean (fst rb)) (run_ops f ops fresh_state buf).
Proof. exact Anim_history_safe.ops_clean_lemma. Qed.

(* non-vacuity on the 3-frame animation of C06 (first frame does not cover the canvas, frames leave pixels behind):
   F I F F <caller fills the buffer with 238> F R F -- read_image shows frame 1 without moving on, the fourth read_frame
   reports NoMoreFrames and the buffer still holds the caller's bytes, and the second pass starts from the background again *)
Example history_instance :
  let f1 := [200;100;50;255; 1;2;3;4; 30;20;10;200;   30;20;10;200; 30;20;10;200; 30;20;10;200] in
  let f2 := [30;20;10;200; 30;20;10;200; 63;53;43;228;   30;20;10;200; 30;20;10;200; 30;20;10;200] in
  let f3 := [11;22;33;255; 30;20;10;200; 63;53;43;228;   44;55;66;255; 30;20;10;200; 30;20;10;200] in
  let sentinel := repeat 238 24 in
  valid_file example_file /\
  run_ops example_file [MFrame; MImage; MFrame; MFrame; MFill 238; MFrame; MReset; MFrame] fresh_state (repeat 0 24) =
  [ (RFrame (Ok 70), f1); (RImage (Ok tt), f1); (RFrame (Ok 80), f2); (RFrame (Ok 90), f3); (RFill, sentinel);
    (RFrame (Err ENoMoreFrames), sentinel); (RReset, sentinel); (RFrame (Ok 70), f1) ].
Proof. split; [exact (proj1 read_frame_spec_instance)|]. vm_compute. reflexivity. Qed.


(* ---------------- C07 for the decoder working on the FILE BYTES (frames decoded from the file, not given decoded) ---------------- *)
Module H.
  Import Spec.Container Model.ReadImage Model.ReadImageOps Proofs.ReadImage_anim Proofs.ReadImage_ops.

  (* for every well-formed animated container (chunks of any kind before, between and after the ANMF chunks) whose frame payloads decode,
     every call sequence over {read_frame, reset_animation, read_image, buffer refill} and every buffer of the right size: the trace of the
     public calls on WebPDecoder::new(file bytes) is the trace of Model.Anim.run_ops on the file with frames given decoded (a valid_file) *)
  Theorem run_ops_from_file :
    forall (vp8 : list Z -> res (Z * Z * list Z * list Z * list Z)) (c : container) (ms : list Model.Anim.mframe),
      wf c = true -> anim c = true -> Forall2 (frame_decodes vp8 (fst (dims c)) (snd (dims c))) (frames c) ms ->
      Anim_play.valid_file (anim_file c ms) /\
      exists dec, Container_bytes.M.new (serialize c) = Ok dec /\
        forall ops buf, len buf = buffer_size c ->
          ReadImageOps.run_ops vp8 dec ops (initial_fstate dec) buf
          = map conv (Model.Anim.run_ops (anim_file c ms) ops Model.Anim.fresh_state buf).
  Proof. intros vp8 c ms Hwf Ha HF. exact (ReadImage_ops.run_ops_from_file vp8 c ms Hwf Ha HF (Container_fits.wf_canvas_fits c Hwf)). Qed.

  (* history_independent from the file bytes: the trace is that of the playback cursor over what a fresh decoder shows *)
  Theorem history_independent_from_file :
    forall (vp8 : list Z -> res (Z * Z * list Z * list Z * list Z)) (c : container) (ms : list Model.Anim.mframe),
      wf c = true -> anim c = true -> Forall2 (frame_decodes vp8 (fst (dims c)) (snd (dims c))) (frames c) ms ->
      exists dec, Container_bytes.M.new (serialize c) = Ok dec /\
        forall ops buf, len buf = buffer_size c ->
          ReadImageOps.run_ops vp8 dec ops (initial_fstate dec) buf
          = map conv (Anim_history.trace_of
                        (Spec.Anim.cursor_run (Anim_history.kshown (anim_file c ms)) (map Anim_history.op_of ops) 0 buf)).
  Proof. intros vp8 c ms Hwf Ha HF. exact (ReadImage_ops.history_independent_from_file vp8 c ms Hwf Ha HF (Container_fits.wf_canvas_fits c Hwf)). Qed.

  (* the three clauses (frames after reset = a fresh playback; read_image = first frame, position unchanged; exhausted = NoMoreFrames, buffer untouched) *)
  Theorem clauses_from_file :
    forall (vp8 : list Z -> res (Z * Z * list Z * list Z * list Z)) (c : container) (ms : list Model.Anim.mframe),
      wf c = true -> anim c = true -> Forall2 (frame_decodes vp8 (fst (dims c)) (snd (dims c))) (frames c) ms ->
      exists dec, Container_bytes.M.new (serialize c) = Ok dec /\
        forall ops buf i, len buf = buffer_size c ->
          let F := anim_file c ms in
          let tr := ReadImageOps.run_ops vp8 dec ops (initial_fstate dec) buf in
          (forall j, nth_error ops i = Some Model.Anim.MFrame -> Anim_history.position F (firstn i ops) = j -> (j < length ms)%nat ->
             nth_error tr i = option_map (fun rb => (RoFrame (fst rb), snd rb)) (nth_error (play vp8 dec (length ms) buf) j))
          /\ (nth_error ops i = Some Model.Anim.MImage ->
              nth_error tr i = Some (RoImage (Ok tt) true,
                                     Spec.Anim.render (alpha c) (fst (dims c)) (snd (dims c))
                                       (Spec.Anim.frames_upto Model.AlphaBlend.do_alpha_blending (Anim_play.anim_of F) 0))
              /\ Anim_history.position F (firstn (S i) ops) = Anim_history.position F (firstn i ops))
          /\ (nth_error ops i = Some Model.Anim.MFrame -> Anim_history.position F (firstn i ops) = length ms ->
              exists b, nth_error tr i = Some (RoFrame (Err ENoMoreFrames), b)
                        /\ b = Anim_history.buffer_before (Model.Anim.run_ops F ops Model.Anim.fresh_state buf) i buf).
  Proof. intros vp8 c ms Hwf Ha HF. exact (ReadImage_ops.clauses_from_file vp8 c ms Hwf Ha HF (Container_fits.wf_canvas_fits c Hwf)). Qed.
End H.

(* ---------------- the same with the frame decoder closed (C02): vp8 := Model.Vp8Decode.decode_frame ---------------- *)
Module HC.
  Import Spec.Container Model.ReadImage Model.ReadImageOps Proofs.ReadImage_anim Proofs.ReadImage_ops Proofs.VP8_decode_readimage.

  Theorem run_ops_from_file_closed :
    forall (c : container) (ms : list Model.Anim.mframe),
      wf c = true -> anim c = true -> Forall2 (frame_decodes_spec (fst (dims c)) (snd (dims c))) (frames c) ms ->
      Anim_play.valid_file (anim_file c ms) /\
      exists dec, Container_bytes.M.new (serialize c) = Ok dec /\
        forall ops buf, len buf = buffer_size c ->
          ReadImageOps.run_ops Model.Vp8Decode.decode_frame dec ops (initial_fstate dec) buf
          = map conv (Model.Anim.run_ops (anim_file c ms) ops Model.Anim.fresh_state buf).
  Proof. intros c ms Hwf Ha HF. exact (ReadImage_ops_closed.run_ops_from_file_closed c ms Hwf Ha HF (Container_fits.wf_canvas_fits c Hwf)). Qed.

  Theorem history_independent_from_file_closed :
    forall (c : container) (ms : list Model.Anim.mframe),
      wf c = true -> anim c = true -> Forall2 (frame_decodes_spec (fst (dims c)) (snd (dims c))) (frames c) ms ->
      exists dec, Container_bytes.M.new (serialize c) = Ok dec /\
        forall ops buf, len buf = buffer_size c ->
          ReadImageOps.run_ops Model.Vp8Decode.decode_frame dec ops (initial_fstate dec) buf
          = map conv (Anim_history.trace_of
                        (Spec.Anim.cursor_run (Anim_history.kshown (anim_file c ms)) (map Anim_history.op_of ops) 0 buf)).
  Proof. intros c ms Hwf Ha HF. exact (ReadImage_ops_closed.history_independent_from_file_closed c ms Hwf Ha HF (Container_fits.wf_canvas_fits c Hwf)). Qed.

  Theorem clauses_from_file_closed :
    forall (c : container) (ms : list Model.Anim.mframe),
      wf c = true -> anim c = true -> Forall2 (frame_decodes_spec (fst (dims c)) (snd (dims c))) (frames c) ms ->
      exists dec, Container_bytes.M.new (serialize c) = Ok dec /\
        forall ops buf i, len buf = buffer_size c ->
          let F := anim_file c ms in
          let tr := ReadImageOps.run_ops Model.Vp8Decode.decode_frame dec ops (initial_fstate dec) buf in
          (forall j, nth_error ops i = Some Model.Anim.MFrame -> Anim_history.position F (firstn i ops) = j -> (j < length ms)%nat ->
             nth_error tr i = option_map (fun rb => (RoFrame (fst rb), snd rb)) (nth_error (play Model.Vp8Decode.decode_frame dec (length ms) buf) j))
          /\ (nth_error ops i = Some Model.Anim.MImage ->
              nth_error tr i = Some (RoImage (Ok tt) true,
                                     Spec.Anim.render (alpha c) (fst (dims c)) (snd (dims c))
                                       (Spec.Anim.frames_upto Model.AlphaBlend.do_alpha_blending (Anim_play.anim_of F) 0))
              /\ Anim_history.position F (firstn (S i) ops) = Anim_history.position F (firstn i ops))
          /\ (nth_error ops i = Some Model.Anim.MFrame -> Anim_history.position F (firstn i ops) = length ms ->
              exists b, nth_error tr i = Some (RoFrame (Err ENoMoreFrames), b)
                        /\ b = Anim_history.buffer_before (Model.Anim.run_ops F ops Model.Anim.fresh_state buf) i buf).
  Proof. intros c ms Hwf Ha HF. exact (ReadImage_ops_closed.clauses_from_file_closed c ms Hwf Ha HF (Container_fits.wf_canvas_fits c Hwf)). Qed.
  (* from the file bytes, frame decoder instantiated: no call of any call sequence panics, exhausts fuel, or fails with anything but NoMoreFrames
     (ocall_clean accepts exactly RoFrame (Ok _), RoFrame (Err ENoMoreFrames), RoImage (Ok _) _, RoReset (Ok _), RoFill) *)
  Theorem calls_never_fail_from_file_closed :
    forall (c : container) (ms : list Model.Anim.mframe),
      wf c = true -> anim c = true -> Forall2 (frame_decodes_spec (fst (dims c)) (snd (dims c))) (frames c) ms ->
      exists dec, Container_bytes.M.new (serialize c) = Ok dec /\
        forall ops buf, len buf = buffer_size c ->
          Forall (fun rb => ReadImage_ops_safe.ocall_clean (fst rb))
                 (ReadImageOps.run_ops Model.Vp8Decode.decode_frame dec ops (initial_fstate dec) buf).
  Proof. exact ReadImage_ops_safe.calls_never_fail_from_file_closed. Qed.
End HC.
