(* C07 -- Animation playback is independent of the call history.
   Property theorems only.  Objects: Model.Anim.run_ops (the AnimationState machine of decoder.rs under read_frame,
   reset_animation and read_image, on the REPAIRED tree: fix_F15 resets the whole state), Spec.Anim.cursor_run (a playback
   cursor over the list of frames a fresh decoder shows), Model.Anim.play (a fresh decoder reading all frames). *)
From Coq Require Import ZArith List Bool.
From WebP Require Import Lib.Res Lib.Arr Model.AlphaBlend Model.Anim Spec.Anim
  Proofs.Anim_play Proofs.Anim_history Properties.C06.
Import ListNotations.
Open Scope Z_scope.

(* For every valid animation and every sequence of calls, the trace (result of each call, caller's buffer after it) is
   the trace of the cursor machine: read_frame delivers frame number `cursor` of a fresh decoder and advances, or reports
   NoMoreFrames leaving the buffer alone; reset_animation sets the cursor to 0; read_image delivers frame 0 and leaves the
   cursor alone. *)
Theorem history_independent : forall f ops buf, valid_file f -> Z.of_nat (length buf) = output_buffer_size f ->
  run_ops f ops fresh_state buf = trace_of (cursor_run (kshown f) (map op_of ops) 0 buf).
Proof. exact history_independent_lemma. Qed.

(* clause 1: the read_frame issued when j frames have been consumed since the last reset (or since the start) delivers
   exactly what the (j+1)-th read_frame of a fresh decoder delivers *)
Theorem frames_after_reset : forall f ops buf i j, valid_file f -> Z.of_nat (length buf) = output_buffer_size f ->
  nth_error ops i = Some MFrame -> position f (firstn i ops) = j -> (j < length (m_frames f))%nat ->
  nth_error (run_ops f ops fresh_state buf) i = nth_error (map (fun rb => (RFrame (fst rb), snd rb)) (play f buf)) j.
Proof. exact frames_after_reset_lemma. Qed.

Theorem position_after_reset : forall f ops, position f (ops ++ [MReset]) = O.
Proof. exact position_reset_lemma. Qed.

(* clause 2: read_image always returns the first frame and does not move the playback position *)
Theorem read_image_first_frame : forall f ops buf i, valid_file f -> Z.of_nat (length buf) = output_buffer_size f ->
  nth_error ops i = Some MImage ->
  nth_error (run_ops f ops fresh_state buf) i =
    Some (RImage (Ok tt), render (m_alpha f) (m_w f) (m_h f) (frames_upto do_alpha_blending (anim_of f) 0))
  /\ position f (firstn (S i) ops) = position f (firstn i ops).
Proof. exact read_image_first_frame_lemma. Qed.

(* read_image calls, and whatever the caller writes into its buffer between calls, can be deleted from a call sequence
   without changing the playback position *)
Theorem position_ignores_read_image : forall f ops,
  position f (filter (fun o => match o with MImage | MFill _ => false | _ => true end) ops) = position f ops.
Proof. exact position_ignores_read_image_lemma. Qed.

(* clause 3: once all frames are consumed read_frame returns NoMoreFrames without modifying the buffer (until a reset
   brings the position back to 0: position_after_reset) *)
Theorem exhausted_no_more_frames : forall f ops buf i, valid_file f -> Z.of_nat (length buf) = output_buffer_size f ->
  nth_error ops i = Some MFrame -> position f (firstn i ops) = length (m_frames f) ->
  nth_error (run_ops f ops fresh_state buf) i =
    Some (RFrame (Err ENoMoreFrames), buffer_before (run_ops f ops fresh_state buf) i buf).
Proof. exact exhausted_lemma. Qed.

(* non-vacuity on the 3-frame animation of C06 (first frame does not cover the canvas, frames leave pixels behind):
   F I F F <caller fills the buffer with 238> F R F -- read_image shows frame 1 without moving on, the fourth read_frame
   reports NoMoreFrames and the buffer still holds the caller's bytes, and the second pass starts from the background again *)
Example history_instance :
  let f1 := [200;100;50;255; 1;2;3;4; 30;20;10;200;   30;20;10;200; 30;20;10;200; 30;20;10;200] in
  let f2 := [30;20;10;200; 30;20;10;200; 63;53;43;228;   30;20;10;200; 30;20;10;200; 30;20;10;200] in
  let f3 := [11;22;33;255; 30;20;10;200; 63;53;43;228;   44;55;66;255; 30;20;10;200; 30;20;10;200] in
  let sentinel := repeat 238 24 in
  valid_file example_file /\
  run_ops example_file [MFrame; MImage; MFrame; MFrame; MFill 238; MFrame; MReset; MFrame] fresh_state (repeat 0 24) =
  [ (RFrame (Ok 70), f1); (RImage (Ok tt), f1); (RFrame (Ok 80), f2); (RFrame (Ok 90), f3); (RFill, sentinel);
    (RFrame (Err ENoMoreFrames), sentinel); (RReset, sentinel); (RFrame (Ok 70), f1) ].
Proof. split; [exact (proj1 read_frame_spec_instance)|]. vm_compute. reflexivity. Qed.
