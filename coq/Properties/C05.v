(* C05 -- Lossy stills: RGB(A) conversion and the alpha plane are exact.        (PARTIAL: see below)
   Proved here, for all inputs:
     * conversion: the RGB / RGBA writers of a lossy frame produce, for pixel (x, y), libwebp's no-fancy-upsampling
       BT.601 conversion of (Y[x,y], U[x/2,y/2], V[x/2,y/2]), every width >= 1 and every height, both parities
       (Spec.YUV.rgb_plane / rgba_plane; kernels regenerated from vp8.rs on every run -- see Properties/C13.v);
     * alpha: the in-place alpha application loop of decoder.rs equals the container specification's un-filtering for
       all four filters, including first row / first column, and leaves colour bytes alone.
   Not proved here (inherited links): that the planes fed to the conversion are the RFC 6386 reconstruction (property
   C02) and that a compressed ALPH payload decodes to the stream the specification defines (property C01).  The composed
   specification Spec.Still.decode_still (container -> Spec.VP8.decode -> Spec.YUV -> Spec.Alpha, Spec.VP8L for compressed
   alpha) is executable; on every run the whole-still correspondence read_image(file) = Spec.Still.decode_still(file) is
   checked on generated stills with every ALPH variant (harness c05), next to the native comparison with libwebp. *)
From Coq Require Import ZArith List.
From WebP Require Import Gen.Kernels Lib.ZBits Lib.Res Spec.YUV Model.Yuv Spec.Alpha Model.Alpha Proofs.C13_yuv Proofs.Alpha_unfilter.
Import ListNotations.
Open Scope Z_scope.

Theorem lossy_rgb_conversion : forall w h yp up vp buf, (1 <= w)%nat -> length yp = (w * h)%nat ->
  length up = (((w + 1) / 2) * ((h + 1) / 2))%nat -> length vp = (((w + 1) / 2) * ((h + 1) / 2))%nat ->
  Forall byte yp -> Forall byte up -> Forall byte vp -> length buf = (w * h * 3)%nat ->
  fill_rgb w yp up vp buf = Ok (rgb_plane w h yp up vp).
Proof. exact fill_rgb_spec_lemma. Qed.

Theorem lossy_rgba_conversion : forall w h yp up vp buf, (1 <= w)%nat -> length yp = (w * h)%nat ->
  length up = (((w + 1) / 2) * ((h + 1) / 2))%nat -> length vp = (((w + 1) / 2) * ((h + 1) / 2))%nat ->
  Forall byte yp -> Forall byte up -> Forall byte vp -> length buf = (w * h * 4)%nat ->
  fill_rgba w yp up vp buf = Ok (rgba_plane w h yp up vp buf).
Proof. exact fill_rgba_spec_lemma. Qed.

Theorem alpha_unfilter : forall f w data buf, (1 <= w)%nat -> length buf = (4 * length data)%nat ->
  exists buf', apply_alpha f w data buf = Ok buf' /\ length buf' = length buf
    /\ (forall j, (j < length data)%nat -> nth (j * 4 + 3) buf' 0 = nth j (unfilter f w data) 0)
    /\ (forall j, (j mod 4 <> 3)%nat -> nth j buf' 0 = nth j buf 0).
Proof. exact apply_alpha_spec_lemma. Qed.

(* non-vacuity: a 3x2 gradient-filtered plane; first row / first column rules visible in the expected values *)
Example alpha_instance :
  unfilter FGradient 3 [10; 5; 250; 1; 2; 3] = [10; 15; 9; 11; 18; 15]
  /\ apply_alpha FGradient 3 [10; 5; 250; 1; 2; 3] (repeat 7 24)
     = Ok [7; 7; 7; 10; 7; 7; 7; 15; 7; 7; 7; 9; 7; 7; 7; 11; 7; 7; 7; 18; 7; 7; 7; 15].
Proof. split; vm_compute; reflexivity. Qed.
