(* C05 -- Lossy stills: RGB(A) conversion and the alpha plane are exact.
   (FULL up to the side conditions of C02 and C01: module RIC at the end -- read_image = Spec.Still.decode_still with NO hypothesis about the frame decoder)
   Proved here, for all inputs:
     * conversion: the RGB / RGBA writers of a lossy frame produce, for pixel (x, y), libwebp's no-fancy-upsampling
       BT.601 conversion of (Y[x,y], U[x/2,y/2], V[x/2,y/2]), every width >= 1 and every height, both parities
       (Spec.YUV.rgb_plane / rgba_plane; kernels regenerated from vp8.rs on every run -- see Properties/C13.v);
     * alpha: the in-place alpha application loop of decoder.rs equals the container specification's un-filtering for
       all four filters, including first row / first column, and leaves colour bytes alone.
   and (module RI) the read_image glue of decoder.rs, modelled in Model/ReadImage.v and tied by the readimage correspondence on the
   public API: for every well-formed lossy still the output is the conversion of the key-frame planes woven with the un-filtered
   alpha plane (raw or lossless: by the C01 theorems), = the composed specification Spec.Still.decode_still, for every prior buffer.
   Remaining hypothesis (inherited link): that the planes are the RFC 6386 reconstruction (property C02; `vp8 payload = Ok planes`).  The composed
   specification Spec.Still.decode_still (container -> Spec.VP8.decode -> Spec.YUV -> Spec.Alpha, Spec.VP8L for compressed
   alpha) is executable; on every run the whole-still correspondence read_image(file) = Spec.Still.decode_still(file) is
   checked on generated stills with every ALPH variant (harness c05), next to the native comparison with libwebp. *)
From Coq Require Import ZArith List.
From WebP Require Import Gen.Kernels Lib.ZBits Lib.Res Spec.YUV Model.Yuv Spec.Alpha Model.Alpha Proofs.C13_yuv Proofs.Alpha_unfilter.
From WebP Require Spec.Container Model.ReadImage Proofs.Container_bytes Proofs.C01_top Proofs.ReadImage_base Proofs.ReadImage_container Proofs.ReadImage_vp8l Proofs.ReadImage_lossless Proofs.ReadImage_lossy Proofs.ReadImage_stillspec Proofs.ReadImage_wrap Proofs.ReadImage_safe Proofs.ReadImage_frame Proofs.ReadImage_anim.
From WebP Require Spec.VP8 Model.Vp8Decode Proofs.VP8_decode_main Proofs.VP8_decode_planes Proofs.VP8_decode_readimage.
From WebP Require Spec.Container Spec.YUV Spec.VP8 Spec.Anim Model.AlphaBlend Model.Anim Model.ReadImage Model.Vp8Decode Proofs.C15_model Proofs.Container_bytes Proofs.C01_top Proofs.Anim_play
  Proofs.ReadImage_base Proofs.ReadImage_container Proofs.ReadImage_lossy Proofs.ReadImage_wrap Proofs.ReadImage_safe Proofs.ReadImage_frame Proofs.ReadImage_anim
  Proofs.VP8_decode_main Proofs.VP8_decode_planes Proofs.VP8_decode_readimage.
Import ListNotations.
Open Scope Z_scope.

Theorem lossy_rgb_conversion : forall w h yp up vp buf, (1 <= w)%nat -> length yp = (w * h)%nat ->
  length up = (((w + 1) / 2) * ((h + 1) / 2))%nat -> length vp = (((w + 1) / 2) * ((h + 1) / 2))%nat ->
  Forall byte yp -> Forall byte up -> Forall byte vp -> length buf = (w * h * 3)%nat ->
  fill_rgb w yp up vp buf = Ok (rgb_plane w h yp up vp).
Proof. exact fill_rgb_spec_lemma. Qed.

Theorem lossy_rgba_conversion : forall w h yp up vp buf, (1 <= w)%nat -> length yp = (w * h)%nat ->
  length up = (((w + 1) / 2) * ((h + 1) / 2))%nat -> length vp = (((w + 1) / 2) * ((h + 1) / 2))%nat ->
  Forall byte yp -> Forall byte up -> Forall byte vp -> length buf = (w * h * 4)%nat ->
  fill_rgba w yp up vp buf = Ok (rgba_plane w h yp up vp buf).
Proof. exact fill_rgba_spec_lemma. Qed.

Theorem alpha_unfilter : forall f w data buf, (1 <= w)%nat -> length buf = (4 * length data)%nat ->
  exists buf', apply_alpha f w data buf = Ok buf' /\ length buf' = length buf
    /\ (forall j, (j < length data)%nat -> nth (j * 4 + 3) buf' 0 = nth j (unfilter f w data) 0)
    /\ (forall j, (j mod 4 <> 3)%nat -> nth j buf' 0 = nth j buf 0).
Proof. exact apply_alpha_spec_lemma. Qed.

(* non-vacuity: a 3x2 gradient-filtered plane; first row / first column rules visible in the expected values *)
Example alpha_instance :
  unfilter FGradient 3 [10; 5; 250; 1; 2; 3] = [10; 15; 9; 11; 18; 15]
  /\ apply_alpha FGradient 3 [10; 5; 250; 1; 2; 3] (repeat 7 24)
     = Ok [7; 7; 7; 10; 7; 7; 7; 15; 7; 7; 7; 9; 7; 7; 7; 11; 7; 7; 7; 18; 7; 7; 7; 15].
Proof. split; vm_compute; reflexivity. Qed.

(* ---------------- read_image glue of decoder.rs (Model/ReadImage.v, tied by the readimage correspondence on the public API): lossy stills ---------------- *)
Module RI.
  Import Lib.Res Lib.ZBits Spec.Container Spec.YUV Model.ReadImage Proofs.ReadImage_base Proofs.ReadImage_container Proofs.ReadImage_vp8l Proofs.ReadImage_lossless Proofs.ReadImage_lossy Proofs.ReadImage_stillspec Proofs.ReadImage_wrap Proofs.ReadImage_safe Proofs.ReadImage_frame Proofs.ReadImage_anim.

  (* read_image on a well-formed lossy still (simple or VP8X, with / without ALPH, alpha flag with no ALPH): given the planes of the key frame (vp8 payload = Ok planes: the C02 link, an explicit hypothesis), the output is the no-fancy BT.601 conversion of the planes, woven with the un-filtered alpha plane (raw or lossless ALPH by the C01 theorems), or with 255 when the flag is set without ALPH -- for EVERY prior buffer content; a buffer of any other length is rejected untouched *)
  Theorem read_image_lossy :
    forall (vp8 : list Z -> res (Z * Z * list Z * list Z * list Z)) (c : container) (payload : list Z) (w h : Z) (yp up vp px : list Z),
           wf c = true ->
           anim c = false ->
           image_vp8 c = Some payload ->
           dims c = (w, h) ->
           vp8 payload = Ok (w, h, yp, up, vp) ->
           planes_ok w h yp up vp ->
           lossy_pixels c w h yp up vp = Some px ->
           alph_ok_for c w h ->
           exists dec : Container_bytes.M.decoder,
             Container_bytes.M.new (serialize c) = Ok dec /\
             (forall buf : list Z, len buf = buffer_size c -> read_image vp8 dec buf = (Ok tt, Some px)) /\
             (forall buf : list Z, len buf <> buffer_size c -> read_image vp8 dec buf = (Err EImageTooLarge, Some buf)).
  Proof. exact ReadImage_lossy.read_image_lossy. Qed.

  (* ... and that is what the composed executable specification Spec.Still.decode_still computes from Spec.VP8.decode on the same file *)
  Theorem read_image_equals_still_spec :
    forall (vp8 : list Z -> res (Z * Z * list Z * list Z * list Z)) (c : container) (payload : list Z) (w h : Z) 
             (yp up vp : list Z) (w' h' : Z) (a : bool) (px : list Z),
           wf c = true ->
           anim c = false ->
           image_vp8 c = Some payload ->
           dims c = (w, h) ->
           VP8.decode payload = Some (w, h, yp, up, vp) ->
           vp8 payload = Ok (w, h, yp, up, vp) ->
           planes_ok w h yp up vp ->
           alph_ok_for c w h ->
           SS.decode_still (serialize c) = Some (w', h', a, px) ->
           (w', h', a) = (w, h, alpha c) /\
           (exists dec : Container_bytes.M.decoder,
              Container_bytes.M.new (serialize c) = Ok dec /\
              Container_bytes.M.dimensions dec = (w', h') /\
              Container_bytes.M.has_alpha dec = a /\
              (forall buf : list Z, len buf = buffer_size c -> read_image vp8 dec buf = (Ok tt, Some px)) /\
              (forall buf : list Z, len buf <> buffer_size c -> read_image vp8 dec buf = (Err EImageTooLarge, Some buf))).
  Proof. exact ReadImage_wrap.read_image_equals_still_spec. Qed.

  (* a key frame whose size differs from the canvas is rejected with the buffer untouched *)
  Theorem canvas_mismatch_rejected :
    forall (vp8 : list Z -> res (Z * Z * list Z * list Z * list Z)) (c : container) (dec : Container_bytes.M.decoder) 
             (payload : list Z) (w h : Z) (yp up vp buf : list Z),
           still_view c dec ->
           image_vp8 c = Some payload ->
           image_vp8l c = None ->
           vp8 payload = Ok (w, h, yp, up, vp) ->
           dims c <> (w, h) -> len buf = buffer_size c -> read_image vp8 dec buf = (Err EInconsistentImageSizes, Some buf).
  Proof. exact ReadImage_lossy.canvas_mismatch_rejected. Qed.

End RI.

(* ---------------- lossy stills with the frame decoder instantiated: vp8 := Model.Vp8Decode.decode_frame (C05 / C11) ---------------- *)
Module RIC.
  Import Spec.Container Spec.YUV Model.ReadImage Proofs.ReadImage_base Proofs.ReadImage_container Proofs.ReadImage_lossy Proofs.ReadImage_wrap
    Proofs.VP8_decode_main Proofs.VP8_decode_readimage.

  (* no hypothesis about the frame decoder is left: the file is a well-formed lossy still whose key frame the reference decodes under the four
     decidable side conditions of decode_hyps_b *)
  Theorem read_image_lossy_closed :
    forall (c : container) (payload : list Z) (w h : Z) (yp up vp px : list Z),
           wf c = true -> anim c = false -> image_vp8 c = Some payload -> dims c = (w, h) ->
           VP8.decode payload = Some (w, h, yp, up, vp) -> decode_hyps_b payload = true ->
           lossy_pixels c w h yp up vp = Some px -> alph_ok_for c w h ->
           exists dec : Container_bytes.M.decoder,
             Container_bytes.M.new (serialize c) = Ok dec /\
             (forall buf : list Z, len buf = buffer_size c -> read_image Vp8Decode.decode_frame dec buf = (Ok tt, Some px)) /\
             (forall buf : list Z, len buf <> buffer_size c -> read_image Vp8Decode.decode_frame dec buf = (Err EImageTooLarge, Some buf)).
  Proof. exact VP8_decode_readimage.read_image_lossy_closed. Qed.

  (* C05 at file level: read_image returns exactly the pixels of Spec.Still.decode_still *)
  Theorem read_image_equals_still_spec_closed :
    forall (c : container) (payload : list Z) (w h : Z) (yp up vp : list Z) (w' h' : Z) (a : bool) (px : list Z),
           wf c = true -> anim c = false -> image_vp8 c = Some payload -> dims c = (w, h) ->
           VP8.decode payload = Some (w, h, yp, up, vp) -> decode_hyps_b payload = true ->
           alph_ok_for c w h ->
           SS.decode_still (serialize c) = Some (w', h', a, px) ->
           (w', h', a) = (w, h, alpha c) /\
           (exists dec : Container_bytes.M.decoder,
              Container_bytes.M.new (serialize c) = Ok dec /\
              Container_bytes.M.dimensions dec = (w', h') /\
              Container_bytes.M.has_alpha dec = a /\
              (forall buf : list Z, len buf = buffer_size c -> read_image Vp8Decode.decode_frame dec buf = (Ok tt, Some px)) /\
              (forall buf : list Z, len buf <> buffer_size c -> read_image Vp8Decode.decode_frame dec buf = (Err EImageTooLarge, Some buf))).
  Proof. exact VP8_decode_readimage.read_image_equals_still_spec_closed. Qed.

  (* every container around the same key frame shows the same colours *)
  Theorem lossy_wrappings_agree_closed :
    forall (payload : list Z) (w h : Z) (yp up vp : list Z),
           VP8.decode payload = Some (w, h, yp, up, vp) -> decode_hyps_b payload = true ->
           forall (c : container) (px : list Z), wf c = true -> anim c = false -> image_vp8 c = Some payload -> dims c = (w, h) ->
           lossy_pixels c w h yp up vp = Some px -> alph_ok_for c w h ->
           (if alpha c then Still.drop_alpha px else px) = rgb_plane (Z.to_nat w) (Z.to_nat h) yp up vp /\
           (exists dec : Container_bytes.M.decoder,
              Container_bytes.M.new (serialize c) = Ok dec /\
              (forall buf : list Z, len buf = buffer_size c -> read_image Vp8Decode.decode_frame dec buf = (Ok tt, Some px))).
  Proof. exact VP8_decode_readimage.lossy_wrappings_agree_closed. Qed.

  (* the frame decoder on a valid key frame: Ok and well-formed planes (the clause of vp8_safe for that payload) *)
  Theorem vp8dec_safe_on_valid :
    forall (payload : list Z) (w h : Z) (yp up vp : list Z),
           Forall byte payload -> C15_model.len payload < 2 ^ 63 ->
           VP8.decode payload = Some (w, h, yp, up, vp) -> decode_hyps_b payload = true ->
           match Vp8Decode.decode_frame payload with
           | Ok (w', h', yp', up', vp') => planes_ok w' h' yp' up' vp'
           | Err _ => True
           | Panic _ | OutOfFuel => False
           end.
  Proof. exact VP8_decode_readimage.vp8dec_safe_on_valid. Qed.
End RIC.
