(* C09 -- The encoder's output is a well-formed RIFF/WEBP container carrying the metadata (Model level).
   Object: Model.Encoder.encode / write_chunk / Gen.Kernels.chunk_size (regenerated from encoder.rs every run), tied to the
   code by exact comparison of the output bytes on every case of checks c09 and c04.
   Spec.WebPFile.lossless_file is the layout the container specification prescribes (RIFF size = length - 8, chunk order
   VP8X, ICCP, VP8L, EXIF, XMP, even padding with a zero byte, VP8X flags and canvas). *)
From Coq Require Import ZArith List.
From WebP Require Import Lib.Res Model.EncoderHeap Model.Encoder Spec.WebPFile Proofs.Encoder_container.
Open Scope Z_scope.

Theorem encode_wellformed : forall sorter data w h ct p icc exif xmp fs,
  1 <= w <= 16384 -> 1 <= h <= 16384 ->
  run_encode_frame sorter (-1) data w h ct p = (fs, Ok tt) ->
  flen (sink_bytes fs) + flen icc + flen exif + flen xmp + 100 < 2 ^ 32 ->
  exists s, run_encode sorter (-1) data w h ct p icc exif xmp = (s, Ok tt)
            /\ sink_bytes s = lossless_file (is_alpha ct) w h (sink_bytes fs) icc exif xmp.
Proof. exact encode_layout. Qed.

(* facts about the prescribed layout itself *)
Theorem riff_size_is_length_minus_8 : forall body, webp_file body = RIFF ++ le32 (flen (webp_file body) - 8) ++ WEBP ++ body.
Proof. exact webp_file_size. Qed.
Theorem chunks_even_padded : forall fourcc payload, flen fourcc = 4 -> Z.even (flen (chunk fourcc payload)) = true.
Proof. exact chunk_even. Qed.
