(* C10 -- Results independent of reader chunking; I/O faults surface as errors.            (PARTIAL, grows with the models)
   Proved here: the std::io contracts every non-bit-level read and every write of the crate go through, modelled with
   an explicit delivery schedule (Lib/IO.v):
     * read_exact delivers the same bytes and ends at the same position for every schedule of partial reads, and is
       UnexpectedEof for every schedule when the data is short;
     * write_all puts the same bytes into the sink however the sink splits writes; when the sink fails at any call the
       result is an error and what reached the sink is a prefix of the intended bytes.
   The bit reader of the lossless decoder -- the only place where the decoder looks at how much fill_buf exposes (fast path: 8
   bytes visible; slow path: byte by byte) -- is modelled in Model/BitReader.v with the fill_buf schedule explicit and tied to
   lossless.rs on every run by the c01model correspondence (scripts of fill / read_bits / consume / peek through a hook, under
   whole / constant 1,2,3,7,8,9 / random schedules):
     * bit_reader_schedule_independent: for EVERY byte string, EVERY pair of schedules and EVERY script of reader operations the
       delivered values, the outcome and the observable final state (bits buffered, bytes left, buffered bits) are equal;
     * both refill paths reach the same state (bit_reader_refill_paths_agree).
   Propagation of injected faults through every
   `?` of the decoder and encoder is decided on the implementation by the harness (c10: every schedule class, a fault at
   every I/O call index). *)
From Coq Require Import ZArith List Arith.
From WebP Require Import Lib.IO.
From WebP Require Lib.ZBits Lib.Res Model.BitReader Proofs.Lossless_BitReader.
Import ListNotations.

Theorem read_exact_any_schedule : forall s1 s2 r want, want <= length (remaining r) ->
  fst (read_exact want s1 r want []) = fst (read_exact want s2 r want [])
  /\ rpos (snd (read_exact want s1 r want [])) = rpos (snd (read_exact want s2 r want [])).
Proof. exact read_exact_schedule_independent. Qed.

Theorem read_exact_short_data : forall sched fuel r want acc, want <= fuel -> length (remaining r) < want ->
  fst (read_exact fuel sched r want acc) = None.
Proof. exact read_exact_eof. Qed.

Theorem write_all_any_split : forall wsched fuel w buf, length buf <= fuel ->
  fst (write_all fuel wsched None w buf) = true /\ wout (snd (write_all fuel wsched None w buf)) = wout w ++ buf.
Proof. exact write_all_no_fault. Qed.

Theorem write_all_fault_prefix : forall wsched fail_at fuel w buf, length buf <= fuel ->
  let '(ok, w') := write_all fuel wsched fail_at w buf in
  exists k, k <= length buf /\ wout w' = wout w ++ firstn k buf /\ (ok = true -> k = length buf).
Proof. exact write_all_prefix. Qed.

Example c10_instance :
  let r := {| rdata := [1; 2; 3; 4; 5; 6; 7]%Z; rpos := 1; rcalls := 0 |} in
  fst (read_exact 5 (fun _ => 0) r 5 []) = Some [2; 3; 4; 5; 6]%Z
  /\ fst (read_exact 5 (fun k => k) r 5 []) = Some [2; 3; 4; 5; 6]%Z
  /\ fst (read_exact 7 (fun _ => 2) r 7 []) = None
  /\ wout (snd (write_all 4 (fun _ => 0) (Some 2) {| wout := []; wcalls := 0 |} [9; 8; 7; 6]%Z)) = [9; 8]%Z.
Proof. repeat split; reflexivity. Qed.

(* ---------------- lossless.rs BitReader under fill_buf schedules ---------------- *)
Module BR.
  Import Lib.ZBits Lib.Res Model.BitReader Proofs.Lossless_BitReader.
  Local Open Scope Z_scope.

  Theorem bit_reader_schedule_independent : forall (d s1 s2 : list Z) (ops : list brop),
    Forall byte d -> run d s1 ops = run d s2 ops.
  Proof. exact fill_schedule_independent. Qed.

  Theorem bit_reader_refill_paths_agree : forall s r1 r2 r1' r2',
    R s r1 -> R s r2 -> nbits r1 = nbits r2 -> data r1 = data r2 -> fill r1 = Ok r1' -> fill r2 = Ok r2' ->
    nbits r1' = nbits r2' /\ data r1' = data r2' /\ (buffer r1') mod 2 ^ (nbits r1') = (buffer r2') mod 2 ^ (nbits r2')
    /\ R s r1' /\ R s r2'.
  Proof. exact fill_paths_agree. Qed.

  (* the crate's own unit test of the reader, through three different schedules *)
  Example bit_reader_example :
    run [156; 65; 225] [] [OReadBits 8 3; OReadBits 8 2; OReadBits 8 6; OReadBits 16 10; OReadBits 8 3] = ([4; 3; 12; 40; 7], Ok (0, [], 0))
    /\ run [156; 65; 225] [1; 1; 1] [OReadBits 8 3; OReadBits 8 2; OReadBits 8 6; OReadBits 16 10; OReadBits 8 3] = ([4; 3; 12; 40; 7], Ok (0, [], 0)).
  Proof. split; vm_compute; reflexivity. Qed.
End BR.
