(* C10 -- Results independent of reader chunking; I/O faults surface as errors.            (PARTIAL, grows with the models)
   Proved here: the std::io contracts every non-bit-level read and every write of the crate go through, modelled with
   an explicit delivery schedule (Lib/IO.v):
     * read_exact delivers the same bytes and ends at the same position for every schedule of partial reads, and is
       UnexpectedEof for every schedule when the data is short;
     * write_all puts the same bytes into the sink however the sink splits writes; when the sink fails at any call the
       result is an error and what reached the sink is a prefix of the intended bytes.
   The bit reader's two refill paths (the only place where the decoder looks at how much fill_buf exposes) are covered by
   the lossless model's theorems when present (see evidence: theorem list); propagation of injected faults through every
   `?` of the decoder and encoder is decided on the implementation by the harness (c10: every schedule class, a fault at
   every I/O call index). *)
From Coq Require Import ZArith List Arith.
From WebP Require Import Lib.IO.
Import ListNotations.

Theorem read_exact_any_schedule : forall s1 s2 r want, want <= length (remaining r) ->
  fst (read_exact want s1 r want []) = fst (read_exact want s2 r want [])
  /\ rpos (snd (read_exact want s1 r want [])) = rpos (snd (read_exact want s2 r want [])).
Proof. exact read_exact_schedule_independent. Qed.

Theorem read_exact_short_data : forall sched fuel r want acc, want <= fuel -> length (remaining r) < want ->
  fst (read_exact fuel sched r want acc) = None.
Proof. exact read_exact_eof. Qed.

Theorem write_all_any_split : forall wsched fuel w buf, length buf <= fuel ->
  fst (write_all fuel wsched None w buf) = true /\ wout (snd (write_all fuel wsched None w buf)) = wout w ++ buf.
Proof. exact write_all_no_fault. Qed.

Theorem write_all_fault_prefix : forall wsched fail_at fuel w buf, length buf <= fuel ->
  let '(ok, w') := write_all fuel wsched fail_at w buf in
  exists k, k <= length buf /\ wout w' = wout w ++ firstn k buf /\ (ok = true -> k = length buf).
Proof. exact write_all_prefix. Qed.

Example c10_instance :
  let r := {| rdata := [1; 2; 3; 4; 5; 6; 7]%Z; rpos := 1; rcalls := 0 |} in
  fst (read_exact 5 (fun _ => 0) r 5 []) = Some [2; 3; 4; 5; 6]%Z
  /\ fst (read_exact 5 (fun k => k) r 5 []) = Some [2; 3; 4; 5; 6]%Z
  /\ fst (read_exact 7 (fun _ => 2) r 7 []) = None
  /\ wout (snd (write_all 4 (fun _ => 0) (Some 2) {| wout := []; wcalls := 0 |} [9; 8; 7; 6]%Z)) = [9; 8]%Z.
Proof. repeat split; reflexivity. Qed.
