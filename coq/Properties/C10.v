(* C10 -- Results independent of reader chunking; I/O faults surface as errors.
   (FULL at model level for: the container layer (CIO), the whole lossless decoder (LLIO, RC), read_image of stills over the file reader incl. the VP8 decoder's reads (GIO: fault surfacing;
   its equality with the fault-free pure model is proved for the Take-limited reads and init_partitions and otherwise tied by correspondence), the encoder's sink (CIO), the bit reader (BR, BRIO);
   read_frame's payload reads over a failing reader are decided on the implementation only.)
   Proved here: the std::io contracts every non-bit-level read and every write of the crate go through, modelled with
   an explicit delivery schedule (Lib/IO.v):
     * read_exact delivers the same bytes and ends at the same position for every schedule of partial reads, and is
       UnexpectedEof for every schedule when the data is short;
     * write_all puts the same bytes into the sink however the sink splits writes; when the sink fails at any call the
       result is an error and what reached the sink is a prefix of the intended bytes.
   The bit reader of the lossless decoder -- the only place where the decoder looks at how much fill_buf exposes (fast path: 8
   bytes visible; slow path: byte by byte) -- is modelled in Model/BitReader.v with the fill_buf schedule explicit and tied to
   lossless.rs on every run by the c01model correspondence (scripts of fill / read_bits / consume / peek through a hook, under
   whole / constant 1,2,3,7,8,9 / random schedules):
     * bit_reader_schedule_independent: for EVERY byte string, EVERY pair of schedules and EVERY script of reader operations the
       delivered values, the outcome and the observable final state (bits buffered, bytes left, buffered bits) are equal;
     * both refill paths reach the same state (bit_reader_refill_paths_agree);
     * symbol_decoding_schedule_independent: the same for scripts that also decode prefix-code symbols (read_symbol / peek_symbol
       on any tree the decoder can build), provided every bare symbol read happens with >= 15 bits buffered or at the end of the
       data -- which `fill(); read_symbol()` (SSym, what every call site of the decoder does; F4 repaired) guarantees by itself.
   Propagation of injected faults through every
   `?` of the decoder and encoder is decided on the implementation by the harness (c10: every schedule class, a fault at
   every I/O call index). *)
From Coq Require Import ZArith List Arith.
From WebP Require Import Lib.IO.
From WebP Require Spec.Container Model.Container Model.ContainerIO Proofs.ContainerIO_prims Proofs.ContainerIO_refine
  Proofs.ContainerIO_main Proofs.ContainerIO_examples Proofs.ContainerIO_sink Model.Encoder.
From WebP Require Lib.ZBits Lib.Res Model.BitReader Model.Huffman Proofs.Lossless_BitReader Proofs.Lossless_SymSchedule.
From WebP Require Lib.Arr Spec.PrefixCode Model.LosslessLib Model.Lossless Proofs.Lossless_HuffmanSafe Proofs.Lossless_PixelSafe Proofs.C04_bits
  Proofs.C01_stream Proofs.C01_symbols Proofs.C01_codes Proofs.C01_pixlib Proofs.C01_pixels Proofs.C01_groups Proofs.C01_gspec Proofs.C01_final Proofs.C01_top.
From WebP Require Model.BitReaderIO Proofs.BitReaderIO_laws Proofs.BitReaderIO_main.
From WebP Require Model.LosslessIO Proofs.LosslessIO_laws Proofs.LosslessIO_refine Proofs.LosslessIO_main.
From WebP Require Model.ReadImageIO Proofs.ReadImageIO_laws Proofs.ReadImageIO_refine Proofs.ReadImageIO_main.
From WebP Require Spec.VP8 Model.Vp8Decode Model.ReadImage Proofs.ReadImage_container Proofs.ReadImage_lossy Proofs.VP8_decode_main
  Proofs.VP8_decode_readimage Proofs.ReadImageIO_refine2 Proofs.ReadImageIO_closed.
Import ListNotations.

Theorem read_exact_any_schedule : forall s1 s2 r want, want <= length (remaining r) ->
  fst (read_exact want s1 r want []) = fst (read_exact want s2 r want [])
  /\ rpos (snd (read_exact want s1 r want [])) = rpos (snd (read_exact want s2 r want [])).
Proof. exact read_exact_schedule_independent. Qed.

Theorem read_exact_short_data : forall sched fuel r want acc, want <= fuel -> length (remaining r) < want ->
  fst (read_exact fuel sched r want acc) = None.
Proof. exact read_exact_eof. Qed.

Theorem write_all_any_split : forall wsched fuel w buf, length buf <= fuel ->
  fst (write_all fuel wsched None w buf) = true /\ wout (snd (write_all fuel wsched None w buf)) = wout w ++ buf.
Proof. exact write_all_no_fault. Qed.

Theorem write_all_fault_prefix : forall wsched fail_at fuel w buf, length buf <= fuel ->
  let '(ok, w') := write_all fuel wsched fail_at w buf in
  exists k, k <= length buf /\ wout w' = wout w ++ firstn k buf /\ (ok = true -> k = length buf).
Proof. exact write_all_prefix. Qed.

Example c10_instance :
  let r := {| rdata := [1; 2; 3; 4; 5; 6; 7]%Z; rpos := 1; rcalls := 0 |} in
  fst (read_exact 5 (fun _ => 0) r 5 []) = Some [2; 3; 4; 5; 6]%Z
  /\ fst (read_exact 5 (fun k => k) r 5 []) = Some [2; 3; 4; 5; 6]%Z
  /\ fst (read_exact 7 (fun _ => 2) r 7 []) = None
  /\ wout (snd (write_all 4 (fun _ => 0) (Some 2) {| wout := []; wcalls := 0 |} [9; 8; 7; 6]%Z)) = [9; 8]%Z.
Proof. repeat split; reflexivity. Qed.

(* ---------------- lossless.rs BitReader under fill_buf schedules ---------------- *)
Module BR.
  Import Lib.ZBits Lib.Res Model.BitReader Model.Huffman Proofs.Lossless_BitReader Proofs.Lossless_SymSchedule.
  Local Open Scope Z_scope.

  Theorem bit_reader_schedule_independent : forall (d s1 s2 : list Z) (ops : list brop),
    Forall byte d -> run d s1 ops = run d s2 ops.
  Proof. exact fill_schedule_independent. Qed.

  Theorem bit_reader_refill_paths_agree : forall s r1 r2 r1' r2',
    R s r1 -> R s r2 -> nbits r1 = nbits r2 -> data r1 = data r2 -> fill r1 = Ok r1' -> fill r2 = Ok r2' ->
    nbits r1' = nbits r2' /\ data r1' = data r2' /\ (buffer r1') mod 2 ^ (nbits r1') = (buffer r2') mod 2 ^ (nbits r2')
    /\ R s r1' /\ R s r2'.
  Proof. exact fill_paths_agree. Qed.

  Theorem symbol_decoding_schedule_independent : forall d s1 s2 ops, Forall byte d -> Forall sop_ok ops ->
    fst (fst (srun d s1 ops)) = true -> srun d s1 ops = srun d s2 ops.
  Proof. exact sym_schedule_independent. Qed.

  Theorem fill_then_symbol_schedule_independent : forall d s1 s2 ops, Forall byte d -> Forall sop_ok ops ->
    forallb always_disc ops = true -> srun d s1 ops = srun d s2 ops.
  Proof. exact fill_sym_schedule_independent. Qed.

  (* the crate's own unit test of the reader, through three different schedules *)
  Example bit_reader_example :
    run [156; 65; 225] [] [OReadBits 8 3; OReadBits 8 2; OReadBits 8 6; OReadBits 16 10; OReadBits 8 3] = ([4; 3; 12; 40; 7], Ok (0, [], 0))
    /\ run [156; 65; 225] [1; 1; 1] [OReadBits 8 3; OReadBits 8 2; OReadBits 8 6; OReadBits 16 10; OReadBits 8 3] = ([4; 3; 12; 40; 7], Ok (0, [], 0)).
  Proof. split; vm_compute; reflexivity. Qed.
End BR.

(* ---------------- container layer (WebPDecoder::new, metadata getters) over an abstract BufRead + Seek reader ---------------- *)
(* Model/ContainerIO.v restates Model/Container.v over a reader state {data, position, I/O call counter, schedule, index and kind of
   one injected failure}; every primitive counts calls as std does (read_exact = default loop over read, stream_position = a seek, ...).
   Tied to decoder.rs on every run by the c10io correspondence (outcome, chunk table, metadata, and the NUMBER of I/O calls, for
   every fault index under the whole-buffer schedule and samples under seven others). *)
Module CIO.
  Import Lib.Res Spec.Container Model.Container Model.ContainerIO
    Proofs.ContainerIO_prims Proofs.ContainerIO_refine Proofs.ContainerIO_main Proofs.ContainerIO_examples.
  Local Open Scope Z_scope.

  (* no fault armed: for every schedule the I/O-level `new` is the pure-cursor `new` of C03 / C08 *)
  Theorem container_io_refines_pure : forall (sched : Z -> Z) (d : list Z),
    all_bytes d = true -> MC.len d <= isize_max ->
    erase (fst (ContainerIO.new (init sched None d))) = MC.new d.
  Proof. exact io_refines_pure. Qed.

  Theorem container_schedule_independent : forall (s1 s2 : Z -> Z) (d : list Z),
    fst (ContainerIO.new (init s1 None d)) = fst (ContainerIO.new (init s2 None d)).
  Proof. exact schedule_independent. Qed.

  Theorem container_getters_refine_pure : forall (d : list Z) (dec : decoder) (s : rstate) (limit : Z),
    all_bytes d = true -> MC.len d <= isize_max -> MC.new d = Ok dec ->
    r_data s = d -> quiet s -> 0 <= r_pos s ->
    let dec' := set_memory_limit dec limit in
    erase (fst (ContainerIO.icc_profile dec' s)) = MC.icc_profile dec'
    /\ erase (fst (ContainerIO.exif_metadata dec' s)) = MC.exif_metadata dec'
    /\ erase (fst (ContainerIO.xmp_metadata dec' s)) = MC.xmp_metadata dec'
    /\ erase (fst (ContainerIO.icc_profile dec s)) = MC.icc_profile dec
    /\ erase (fst (ContainerIO.exif_metadata dec s)) = MC.exif_metadata dec
    /\ erase (fst (ContainerIO.xmp_metadata dec s)) = MC.xmp_metadata dec.
  Proof. exact io_refines_pure_accessors. Qed.

  (* one injected failure (kind other than UnexpectedEof) at I/O call k *)
  Theorem container_fault_surfaces : forall (sched : Z -> Z) (d : list Z) (k : Z),
    let free := ContainerIO.new (init sched None d) in
    let faulty := ContainerIO.new (init sched (Some k) d) in
    (0 <= k < r_calls (snd free) -> fst faulty = IErr XFault /\ r_calls (snd faulty) = k + 1)
    /\ (k < 0 \/ r_calls (snd free) <= k -> fst faulty = fst free /\ r_calls (snd faulty) = r_calls (snd free)).
  Proof. exact fault_surfaces. Qed.

  Theorem container_getter_fault_surfaces : forall (dec : decoder) (chunk : chunk_kind) (max_size : Z) (s : rstate) (k : Z),
    r_fail_at s = None -> r_fail_eof s = false ->
    let free := ContainerIO.read_chunk dec chunk max_size s in
    let faulty := ContainerIO.read_chunk dec chunk max_size (set_fail s (Some k)) in
    (r_calls s <= k < r_calls (snd free) -> fst faulty = IErr XFault /\ r_calls (snd faulty) = k + 1)
    /\ (k < r_calls s \/ r_calls (snd free) <= k -> fst faulty = fst free /\ r_calls (snd faulty) = r_calls (snd free)).
  Proof. exact fault_surfaces_read_chunk. Qed.

  Theorem container_getter_state_independent : forall (dec : decoder) (chunk : chunk_kind) (max_size : Z) (s1 s2 : rstate),
    r_data s1 = r_data s2 -> quiet s1 -> quiet s2 ->
    fst (ContainerIO.read_chunk dec chunk max_size s1) = fst (ContainerIO.read_chunk dec chunk max_size s2).
  Proof. exact accessors_schedule_independent. Qed.

  (* the restriction on the failure kind is necessary (known behaviour of decoder.rs, replayed on the crate by c10io) *)
  Theorem container_eof_kind_fault_is_swallowed :
    ~ (forall (sched : Z -> Z) (d : list Z) (k : Z),
         0 <= k < r_calls (snd (ContainerIO.new (init sched None d))) ->
         exists e, fst (ContainerIO.new (init_kind true sched (Some k) d)) = IErr e).
  Proof. exact fault_surfaces_eof_kind_refuted. Qed.

  Example container_io_instance :
    all_bytes anim_bytes = true /\ MC.len anim_bytes <= isize_max /\ (exists dec, MC.new anim_bytes = Ok dec).
  Proof. exact (proj2 (proj2 (proj2 hypotheses_satisfiable))). Qed.

  (* the encoder's container writer over a splitting / failing sink: same bytes for every split; a failure at a reached write call
     gives an error with a prefix written *)
  Theorem encoder_sink_split_independent : forall sorter data width height ct pred icc exif xmp (s : Model.Encoder.sink),
    Model.Encoder.run_encode sorter (-1)%Z data width height ct pred icc exif xmp = (s, Ok tt) ->
    forall wsched,
      fst (ContainerIO_sink.write_seq wsched None ContainerIO_sink.fresh (ContainerIO_sink.encoder_buffers s)) = true
      /\ Lib.IO.wout (snd (ContainerIO_sink.write_seq wsched None ContainerIO_sink.fresh (ContainerIO_sink.encoder_buffers s)))
         = Model.Encoder.sink_bytes s.
  Proof. exact ContainerIO_sink.encoder_sink_any_split. Qed.

  Theorem encoder_sink_fault_surfaces : forall sorter data width height ct pred icc exif xmp (s : Model.Encoder.sink),
    Model.Encoder.run_encode sorter (-1)%Z data width height ct pred icc exif xmp = (s, Ok tt) ->
    forall wsched k,
      let free := ContainerIO_sink.write_seq wsched None ContainerIO_sink.fresh (ContainerIO_sink.encoder_buffers s) in
      let faulty := ContainerIO_sink.write_seq wsched (Some k) ContainerIO_sink.fresh (ContainerIO_sink.encoder_buffers s) in
      (k < Lib.IO.wcalls (snd free) -> fst faulty = false)%nat
      /\ (Lib.IO.wcalls (snd free) <= k -> faulty = free)%nat
      /\ exists j, Lib.IO.wout (snd faulty) = firstn j (Model.Encoder.sink_bytes s).
  Proof. exact ContainerIO_sink.encoder_sink_fault. Qed.
End CIO.

(* ---------------- the whole lossless decoder under fill_buf schedules ---------------- *)
(* the model of decode_image_stream / decode_frame (every call site's fill() discipline included) gives the same verdict, the same
   pixels and the same final stream position for any two schedules of the bytes exposed by successive fill_buf calls *)
Module RC.
  Import Lib.Res Lib.Arr Lib.ZBits Spec.PrefixCode Model.LosslessLib Model.BitReader Model.Huffman Model.Lossless
    Proofs.Lossless_BitReader Proofs.Lossless_HuffmanSafe Proofs.Lossless_PixelSafe Proofs.C04_bits
    Proofs.C01_stream Proofs.C01_symbols Proofs.C01_codes Proofs.C01_pixlib Proofs.C01_pixels Proofs.C01_groups
    Proofs.C01_gspec Proofs.C01_final Proofs.C01_top.
  Local Open Scope Z_scope.
  Theorem entropy_decoder_schedule_independent : forall d sched1 sched2 xs ys (argb : bool) data,
    Forall byte d -> 1 <= xs <= 16384 -> 1 <= ys <= 16384 -> zlen data = 4 * (xs * ys) ->
    match decode_image_stream STREAM_LEVELS (BitReader.init d sched1) xs ys argb data,
          decode_image_stream STREAM_LEVELS (BitReader.init d sched2) xs ys argb data with
    | Ok (r1, b1), Ok (r2, b2) => zlen b1 = zlen b2 /\ (forall k, 0 <= k < zlen b1 -> az b1 k = az b2 k) /\
                                  exists s', Rel s' r1 /\ Rel s' r2
    | Err _, Err _ => True
    | _, _ => False
    end.
  Proof. exact decode_image_stream_schedule_independent. Qed.

  Theorem frame_schedule_independent : forall data sched1 sched2 W h buf, Forall byte data -> Z.of_nat (length buf) = 4 * (W * h) ->
    (forall s0, V.read_header (V.Stream [] data) = Some (W, h, s0) -> in_format W h s0) ->
    match decode_frame data sched1 W h false buf, decode_frame data sched2 W h false buf with
    | Ok p1, Ok p2 => p1 = p2
    | Err _, Err _ => True
    | _, _ => False
    end.
  Proof. exact decode_frame_schedule_independent. Qed.
End RC.

(* ---------------- the lossless bit reader over a reader whose fill_buf FAILS once (Model/BitReaderIO.v, tied by the c10bits correspondence:
   values, outcome class, number of fill_buf calls, bytes left, final state, for a fault at every call index) ---------------- *)
Module BRIO.
  Import Lib.ZBits Lib.Res Model.BitReader Model.BitReaderIO Proofs.Lossless_BitReader Proofs.BitReaderIO_main.
  Local Open Scope Z_scope.

  (* no fault armed: the I/O-level script machine is the one of module BR (values, outcome, observable final state) *)
  Theorem bit_reader_io_refines_pure : forall (d s : list Z) (ops : list brop),
    fst (run_io d s None ops) = run d s ops.
  Proof. exact fill_io_no_fault. Qed.

  (* one injected failure at fill_buf call k; snd (run_io ..) = number of fill_buf calls made *)
  Theorem bit_reader_fault_surfaces : forall (d s : list Z) (ops : list brop) (k : Z),
    (0 <= k < snd (run_io d s None ops) ->
       exists (j : nat) (vj : list Z) (obsj : Z * list Z * Z) (cj : Z),
         (j < length ops)%nat /\
         run_io d s None (firstn j ops) = (vj, Ok obsj, cj) /\
         cj <= k < snd (run_io d s None (firstn (S j) ops)) /\
         run_io d s (Some k) ops = (vj, Err EIoFault, k + 1) /\
         exists rest, fst (fst (run_io d s None ops)) = vj ++ rest)
    /\ (k < 0 \/ snd (run_io d s None ops) <= k -> run_io d s (Some k) ops = run_io d s None ops).
  Proof. exact BitReaderIO_main.bit_reader_fault_surfaces. Qed.

  Theorem bit_reader_fault_outcome : forall (d s : list Z) (ops : list brop) (k : Z),
    0 <= k < snd (run_io d s None ops) ->
    exists m : nat, run_io d s (Some k) ops = (firstn m (fst (run d s ops)), Err EIoFault, k + 1).
  Proof. exact BitReaderIO_main.bit_reader_fault_outcome. Qed.

  Theorem bit_reader_fault_beyond : forall (d s : list Z) (ops : list brop) (k : Z),
    k < 0 \/ snd (run_io d s None ops) <= k -> fst (run_io d s (Some k) ops) = run d s ops.
  Proof. exact BitReaderIO_main.bit_reader_fault_beyond. Qed.

  (* the I/O error is not one of the decoder's own verdicts *)
  Theorem io_fault_is_not_bitstream_error : EIoFault <> EBitStreamError.
  Proof. discriminate. Qed.

  Theorem bit_reader_io_schedule_independent : forall (d s1 s2 : list Z) (ops : list brop),
    Forall byte d -> fst (run_io d s1 None ops) = fst (run_io d s2 None ops).
  Proof. exact run_io_schedule_independent. Qed.

  (* ... but the number of fill_buf calls is not: WHICH operation a fault at index k interrupts depends on the schedule *)
  Theorem bit_reader_call_count_depends_on_schedule :
    ~ (forall (d s1 s2 : list Z) (ops : list brop), Forall byte d -> snd (run_io d s1 None ops) = snd (run_io d s2 None ops)).
  Proof. exact call_count_not_schedule_independent. Qed.

  (* 12 bytes in windows of 3: 16 calls; a fault at call 9 (in the explicit fill) and at call 15 (made by the read_bits that ends in
     BitStreamError on the fault-free run: the I/O error wins); through a Cursor the same script makes 9 calls *)
  Example bit_reader_fault_example :
    run_io ex_data ex_sched None ex_ops = ([4; 796723; 36147215; 403704529], Err EBitStreamError, 16)
    /\ run_io ex_data ex_sched (Some 9) ex_ops = ([4; 796723], Err EIoFault, 10)
    /\ run_io ex_data ex_sched (Some 15) ex_ops = ([4; 796723; 36147215; 403704529], Err EIoFault, 16)
    /\ run_io ex_data ex_sched (Some 16) ex_ops = run_io ex_data ex_sched None ex_ops
    /\ run_io ex_data [] None ex_ops = ([4; 796723; 36147215; 403704529], Err EBitStreamError, 9)
    /\ run_io ex_data [] (Some 1) ex_ops = ([4; 796723], Err EIoFault, 2).
  Proof. repeat split; vm_compute; reflexivity. Qed.
End BRIO.

(* ---------------- the WHOLE lossless decoder over a reader whose fill_buf fails once (Model/LosslessIO.v = Model/Lossless.v with fill_io,
   tied by the c10lossless correspondence through vp8l_decode_reader: outcome incl. exact error variant, number of fill_buf calls) ---------------- *)
Module LLIO.
  Import Lib.ZBits Lib.Res Model.Lossless Model.BitReaderIO Model.LosslessIO Proofs.C04_bits Proofs.C01_top Proofs.LosslessIO_main.
  Local Open Scope Z_scope.

  (* decode_frame_io data sched fail_at W h implicit buf = (final buffer | failure, number of fill_buf calls made) *)

  (* no fault armed: the I/O-level decoder is the decoder of C01 / C03 / module RC, for every input, schedule and buffer *)
  Theorem lossless_decoder_io_refines_pure : forall data sched W h implicit buf,
    fst (decode_frame_io data sched None W h implicit buf) = decode_frame data sched W h implicit buf.
  Proof. exact decode_frame_io_no_fault. Qed.

  (* one injected failure at fill_buf call k; no hypothesis on the data: runs that end in a decoding error are covered *)
  Theorem lossless_fault_surfaces : forall data sched W h implicit buf k,
    (0 <= k < snd (decode_frame_io data sched None W h implicit buf) ->
       decode_frame_io data sched (Some k) W h implicit buf = (Err EIoFault, k + 1))
    /\ (k < 0 \/ snd (decode_frame_io data sched None W h implicit buf) <= k ->
       decode_frame_io data sched (Some k) W h implicit buf = decode_frame_io data sched None W h implicit buf).
  Proof. exact Proofs.LosslessIO_main.lossless_fault_surfaces. Qed.

  Theorem lossless_fault_no_new_outcome : forall data sched fa W h implicit buf,
    fst (decode_frame_io data sched fa W h implicit buf) = Err EIoFault
    \/ fst (decode_frame_io data sched fa W h implicit buf) = decode_frame data sched W h implicit buf.
  Proof. exact Proofs.LosslessIO_main.lossless_fault_no_new_outcome. Qed.

  Theorem lossless_call_count_nonneg : forall data sched W h implicit buf,
    0 <= snd (decode_frame_io data sched None W h implicit buf).
  Proof. exact decode_frame_io_calls_nonneg. Qed.

  (* never success with partially decoded data: the hypotheses are those of C01's R.frame_matches_spec *)
  Theorem lossless_fault_never_partial : forall data sched W h buf pixels k,
    Forall byte data -> Z.of_nat (length buf) = 4 * (W * h) ->
    V.decode_rgba data = Some (W, h, pixels) -> codes_in_format data ->
    (forall s0, V.read_header (V.Stream [] data) = Some (W, h, s0) -> in_format W h s0) ->
    let n := snd (decode_frame_io data sched None W h false buf) in
    decode_frame_io data sched None W h false buf = (Ok pixels, n)
    /\ (0 <= k < n -> decode_frame_io data sched (Some k) W h false buf = (Err EIoFault, k + 1))
    /\ (k < 0 \/ n <= k -> decode_frame_io data sched (Some k) W h false buf = (Ok pixels, n)).
  Proof. exact Proofs.LosslessIO_main.lossless_fault_never_partial. Qed.

  Theorem lossless_fault_never_partial_implicit : forall data sched W h buf pixels k,
    Forall byte data -> Z.of_nat (length buf) = 4 * (W * h) ->
    V.decode_implicit_rgba W h data = Some pixels -> codes_in_format_implicit W h data -> in_format W h (V.Stream [] data) ->
    let n := snd (decode_frame_io data sched None W h true buf) in
    decode_frame_io data sched None W h true buf = (Ok pixels, n)
    /\ (0 <= k < n -> decode_frame_io data sched (Some k) W h true buf = (Err EIoFault, k + 1))
    /\ (k < 0 \/ n <= k -> decode_frame_io data sched (Some k) W h true buf = (Ok pixels, n)).
  Proof. exact Proofs.LosslessIO_main.lossless_fault_never_partial_implicit. Qed.

  Theorem lossless_io_error_or_spec_pixels : forall data sched fa W h buf pixels,
    Forall byte data -> Z.of_nat (length buf) = 4 * (W * h) ->
    V.decode_rgba data = Some (W, h, pixels) -> codes_in_format data ->
    (forall s0, V.read_header (V.Stream [] data) = Some (W, h, s0) -> in_format W h s0) ->
    fst (decode_frame_io data sched fa W h false buf) = Err EIoFault \/ fst (decode_frame_io data sched fa W h false buf) = Ok pixels.
  Proof. exact Proofs.LosslessIO_main.lossless_io_error_or_spec_pixels. Qed.

  (* the F3 witness of C01 (2x1 image, 11 bytes) in windows of 1, 2, 1 bytes and then the rest: 17 fill_buf calls, a fault at each of them
     surfaces after k + 1 calls, beyond them nothing changes; through a Cursor 10 calls; the hypotheses of never_partial hold for it *)
  Example lossless_fault_example :
    decode_frame_io ex_data [1; 2; 1] None 2 1 false (repeat 7 8) = (Ok ex_px, 17)
    /\ forallb (fun k => match decode_frame_io ex_data [1; 2; 1] (Some k) 2 1 false (repeat 7 8) with
                         | (Err EIo, c) => c =? k + 1 | _ => false end)
               [0; 1; 2; 3; 4; 5; 6; 7; 8; 9; 10; 11; 12; 13; 14; 15; 16] = true
    /\ decode_frame_io ex_data [1; 2; 1] (Some 17) 2 1 false (repeat 7 8) = (Ok ex_px, 17)
    /\ decode_frame_io ex_data [] None 2 1 false (repeat 7 8) = (Ok ex_px, 10)
    /\ decode_frame_io ex_data [] (Some 9) 2 1 false (repeat 7 8) = (Err EIoFault, 10).
  Proof. exact Proofs.LosslessIO_main.lossless_fault_example. Qed.

  Example lossless_fault_hypotheses_satisfiable :
    Forall byte ex_data /\ Z.of_nat (length (repeat 7 8)) = 4 * (2 * 1)
    /\ V.decode_rgba ex_data = Some (2, 1, ex_px) /\ codes_in_format ex_data
    /\ (forall s0, V.read_header (V.Stream [] ex_data) = Some (2, 1, s0) -> in_format 2 1 s0).
  Proof. exact Proofs.LosslessIO_main.lossless_fault_hypotheses_satisfiable. Qed.
End LLIO.

(* ---------------- read_image (stills) over the FILE reader with every I/O call counted and one injected failure (Model/ReadImageIO.v: range_reader,
   the VP8 decoder's reads through Take incl. std's read_to_end probing, the lossless decoder's fill_buf calls through Take, read_alpha_chunk; tied by the
   c10glue correspondence on the public API: outcome incl. error variant, pixels, call counts) ---------------- *)
Module GIO.
  Import Lib.Res Model.Container Model.ContainerIO Proofs.ContainerIO_prims Proofs.ContainerIO_laws Proofs.ContainerIO_refine
    Model.ReadImageIO Proofs.ReadImageIO_laws Proofs.ReadImageIO_refine Proofs.ReadImageIO_main.
  Local Open Scope Z_scope.

  Theorem glue_fault_law : forall (dec : decoder) (buf : list Z), FaultLaw (read_image_m dec buf).
  Proof. exact FaultLaw_read_image_m. Qed.

  Theorem glue_fault_surfaces : forall (dec : decoder) (buf : list Z) (s : rstate) (k : Z),
    r_fail_at s = None -> r_fail_eof s = false ->
    let free := read_image_io dec buf s in
    let faulty := read_image_io dec buf (set_fail s (Some k)) in
    (r_calls s <= k < r_calls (snd free) -> fst faulty = (IErr XFault, None) /\ r_calls (snd faulty) = k + 1)
    /\ (k < r_calls s \/ r_calls (snd free) <= k -> fst faulty = fst free /\ r_calls (snd faulty) = r_calls (snd free)).
  Proof. exact read_image_fault_surfaces. Qed.

  Theorem glue_fault_never_ok_nor_panic : forall dec buf s k, r_fail_at s = None -> r_fail_eof s = false ->
    r_calls s <= k < r_calls (snd (read_image_io dec buf s)) ->
    forall b p, fst (fst (read_image_io dec buf (set_fail s (Some k)))) <> IOk b
                /\ fst (fst (read_image_io dec buf (set_fail s (Some k)))) <> IPanic p.
  Proof. exact read_image_fault_never_ok_nor_panic. Qed.

  Theorem open_and_read_fault_surfaces : forall (sched : Z -> Z) (d : list Z) (fill k : Z),
    let free := open_and_read fill (init sched None d) in
    let faulty := open_and_read fill (init sched (Some k) d) in
    (0 <= k < r_calls (snd free) -> fst faulty = IErr XFault /\ r_calls (snd faulty) = k + 1)
    /\ (k < 0 \/ r_calls (snd free) <= k -> fst faulty = fst free /\ r_calls (snd faulty) = r_calls (snd free)).
  Proof. exact Proofs.ReadImageIO_main.open_and_read_fault_surfaces. Qed.

  Theorem take_read_exact_refines : forall d s lim n, okstate d s -> 0 <= lim ->
    match Model.Vp8Parse.read_exact (tk lim s) n with
    | Ok (b, g') => exists s', take_read_exact lim n s = (IOk b, s') /\ okstate d s' /\ tk (lim - len b) s' = g' /\ 0 <= lim - len b
    | Err e => e = EIo /\ exists s', take_read_exact lim n s = (IErr XEof, s') /\ okstate d s'
    | _ => False
    end.
  Proof. exact take_read_exact_spec. Qed.

  Theorem take_read_to_end_refines : forall d s lim, okstate d s -> 0 <= lim ->
    exists s', take_read_to_end lim s = (IOk (tk lim s), s') /\ okstate d s'.
  Proof. exact take_read_to_end_spec. Qed.

  Theorem vp8_partition_reads_refine : forall d lim v n s, okstate d s -> 0 <= lim -> tk lim s = Model.Vp8Parse.v_r v ->
    RefOK d (init_partitions_io lim v n s) (Model.Vp8Parse.init_partitions v n).
  Proof. exact init_partitions_refines. Qed.

  Theorem glue_error_or_pixels_partial : forall dec buf s px,
    r_fail_at s = None -> r_fail_eof s = false ->
    fst (read_image_io dec buf s) = (IOk tt, Some px) ->
    forall k, fst (read_image_io dec buf (set_fail s (Some k))) = (IErr XFault, None)
              \/ fst (read_image_io dec buf (set_fail s (Some k))) = (IOk tt, Some px).
  Proof. exact read_image_io_error_or_pixels_partial. Qed.

  (* a 39 x 2 lossy still written by libwebp (4 token partitions, the payload of Proofs/VP8_frame_main.ex_payload) as a simple file *)
  Definition gio_payload : list Z := [240; 3; 0; 157; 1; 42; 39; 0; 2; 0; 63; 53; 64; 205; 102; 165; 163; 133; 84; 82; 169; 162; 115; 0; 92; 250; 189; 8; 99; 20; 244; 193; 94; 164; 47; 183; 21; 104; 95; 0; 0; 56; 0; 0; 2; 0; 0; 2; 0; 0; 246; 193; 39; 200; 231; 123; 62; 12; 254; 232; 250; 203; 239; 168; 98; 99; 179; 171; 153; 179; 141; 60; 230; 191; 223; 248; 1; 226; 88; 178; 9; 185; 8; 186; 145; 88; 7; 197; 10; 66; 55; 120; 164; 30; 202; 219; 6; 78; 254; 140; 27; 10; 169; 97; 128; 0; 0; 0; 0; 0; 0; 0].
  Definition gio_file : list Z := [82;73;70;70; 124;0;0;0; 87;69;66;80; 86;80;56;32; 111;0;0;0] ++ gio_payload ++ [0].
  (* (calls after new, 0 = Ok | 1 = the injected fault | 2 = UnexpectedEof | 3 = another error | 4 = panic / fuel, buffer length or -1, calls at the end) *)
  Definition gio_summary (x : ires decoder * Z * option (ires unit * option (list Z) * Z)) : Z * Z * Z * Z :=
    match x with
    | (_, c0, Some (r, ob, c1)) =>
        (c0, match r with IOk _ => 0 | IErr XFault => 1 | IErr XEof => 2 | IErr _ => 3 | _ => 4 end,
         match ob with Some b => len b | None => -1 end, c1)
    | (_, c0, None) => (c0, 9, -1, -1)
    end.

  (* windows of 7 bytes: new = 10 calls, read_image = 23 more (seek, 4 header reads, first partition, sizes, 3 sized partitions,
     read_to_end); whole-file windows: 11; a fault at each of the 23 calls gives the I/O error after k + 1 calls, at call 33 nothing *)
  Example glue_fault_example :
    gio_summary (rio_eval (sched_const 7) None gio_file 0) = (10, 0, 234, 33)
    /\ gio_summary (rio_eval sched_whole None gio_file 0) = (10, 0, 234, 21)
    /\ forallb (fun k => match gio_summary (rio_eval (sched_const 7) (Some k) gio_file 0) with
                         | (c0, r, b, c1) => andb (andb (andb (c0 =? 10) (r =? 1)) (b =? -1)) (c1 =? k + 1) end)
               [10; 11; 12; 13; 14; 15; 16; 17; 18; 19; 20; 21; 22; 23; 24; 25; 26; 27; 28; 29; 30; 31; 32] = true
    /\ gio_summary (rio_eval (sched_const 7) (Some 33) gio_file 0) = (10, 0, 234, 33).
  Proof. vm_compute. repeat split; reflexivity. Qed.
End GIO.

(* ---------------- lossy stills without ALPH: the I/O-level glue equals the pure glue (fault-free), and a fault gives the I/O error or exactly the specification pixels ---------------- *)
Module GIO2.
  Import Lib.Res Spec.Container Proofs.ReadImage_container Proofs.ReadImage_lossy Proofs.VP8_decode_main.
  Local Open Scope Z_scope.

  Theorem vp8_header_io_refines_pure : forall d lim v s, Proofs.ContainerIO_refine.okstate d s -> 0 <= lim ->
    Proofs.ReadImageIO_refine.tk lim s = Model.Vp8Parse.v_r v ->
    Proofs.ReadImageIO_refine.RefOK d (Model.ReadImageIO.vp8_read_frame_header_io lim v s) (Model.Vp8Parse.read_frame_header v).
  Proof. exact Proofs.ReadImageIO_refine2.vp8_header_refines. Qed.

  Theorem vp8_decoder_io_refines_pure : forall d lim s, Proofs.ContainerIO_refine.okstate d s -> 0 <= lim ->
    Proofs.ReadImageIO_refine.RefOK d (Model.ReadImageIO.vp8_decode_frame_io lim s)
      (Model.Vp8Decode.decode_frame (Proofs.ReadImageIO_refine.tk lim s)).
  Proof. exact Proofs.ReadImageIO_refine2.vp8_decode_frame_io_refines. Qed.

  Theorem glue_lossy_no_fault : forall (dec : Model.Container.decoder) (buf : list Z) (s : Model.ContainerIO.rstate),
    Proofs.ContainerIO_refine.okstate (Model.Container.d_data dec) s ->
    (forall range, Model.Container.lookup Model.Container.KVP8 (Model.Container.d_chunks dec) = Some range ->
                   0 <= fst range <= Model.Container.u64_max) ->
    Model.Container.is_animated dec = false ->
    Model.Container.lookup Model.Container.KVP8L (Model.Container.d_chunks dec) = None ->
    (Model.Container.has_alpha dec = true -> Model.Container.lookup Model.Container.KALPH (Model.Container.d_chunks dec) = None) ->
    Proofs.ContainerIO_refine.erase (fst (Model.ReadImageIO.read_image_m dec buf s))
    = Proofs.ReadImageIO_refine2.outcome_res (Model.ReadImage.read_image Model.Vp8Decode.decode_frame dec buf).
  Proof. exact Proofs.ReadImageIO_refine2.read_image_vp8_io_no_fault. Qed.

  Theorem glue_lossy_error_or_spec_pixels : forall c payload w h yp up vp px,
    wf c = true -> anim c = false -> image_vp8 c = Some payload -> dims c = (w, h) ->
    Spec.VP8.decode payload = Some (w, h, yp, up, vp) -> decode_hyps_b payload = true ->
    lossy_pixels c w h yp up vp = Some px -> alph_ok_for c w h ->
    image_alph c = None -> len (serialize c) <= 18446744073709551615 ->
    exists dec, Model.Container.new (serialize c) = Ok dec /\
      forall (buf : list Z) (s : Model.ContainerIO.rstate),
        len buf = buffer_size c ->
        Model.ContainerIO.r_data s = serialize c -> Model.ContainerIO.r_fail_at s = None -> Model.ContainerIO.r_fail_eof s = false ->
        0 <= Model.ContainerIO.r_pos s ->
        fst (Model.ReadImageIO.read_image_io dec buf s) = (Model.ContainerIO.IOk tt, Some px)
        /\ forall k, fst (Model.ReadImageIO.read_image_io dec buf (Proofs.ContainerIO_prims.set_fail s (Some k)))
                       = (Model.ContainerIO.IErr Model.ContainerIO.XFault, None)
                     \/ fst (Model.ReadImageIO.read_image_io dec buf (Proofs.ContainerIO_prims.set_fail s (Some k)))
                       = (Model.ContainerIO.IOk tt, Some px).
  Proof. exact Proofs.ReadImageIO_closed.lossy_still_fault_error_or_spec_pixels. Qed.
End GIO2.
