(* C08 -- header and metadata accessors report what the container holds.
   Statements only; proofs are in Proofs/Container_*.v.  [M] = Model.Container (mirror of decoder.rs / extended.rs,
   tied to the code by the correspondence check c08), the container type, [serialize], [wf] and the expected values
   are Spec.Container. *)
From Coq Require Import ZArith List Bool.
From WebP Require Import Lib.Res Spec.Container Proofs.Container_bytes Proofs.Container_simple Proofs.Container_scan
  Proofs.Container_extended Proofs.Container_examples.
From WebP Require Model.Container.
Open Scope Z_scope.

(* For every well-formed file (all four layouts, every flag combination, every legal dimension, unknown chunks and
   metadata chunks at any position, odd payloads, duplicates) `new` succeeds and every accessor returns the value the
   headers define; under any memory limit the three metadata getters return the payload or MemoryLimitExceeded. *)
Theorem accessors_spec : forall c : container,
  wf c = true -> exists d, M.new (serialize c) = Ok d /\ accessors_ok c d.
Proof. exact Container_extended.accessors_spec. Qed.

(* named parts *)
Theorem accessors_spec_simple_lossy : forall v trail,
  wf (SimpleLossy v trail) = true ->
  exists d, M.new (serialize (SimpleLossy v trail)) = Ok d /\ accessors_ok (SimpleLossy v trail) d.
Proof. exact Container_simple.accessors_spec_simple_lossy. Qed.

Theorem accessors_spec_simple_lossless : forall l trail,
  wf (SimpleLossless l trail) = true ->
  exists d, M.new (serialize (SimpleLossless l trail)) = Ok d /\ accessors_ok (SimpleLossless l trail) d.
Proof. exact Container_simple.accessors_spec_simple_lossless. Qed.

Theorem accessors_spec_extended : forall x cs,
  wf (Extended x cs) = true ->
  exists d, M.new (serialize (Extended x cs)) = Ok d /\ accessors_ok (Extended x cs) d.
Proof. exact Container_extended.accessors_spec_extended. Qed.

(* a registered chunk larger than the limit: MemoryLimitExceeded, decided by the size test before any seek,
   allocation or read of the model *)
Theorem memory_limit : forall dec k s e limit,
  M.lookup k (M.d_chunks dec) = Some (s, e) -> s <= e -> limit < e - s ->
  M.read_chunk dec k limit = Err EMemoryLimitExceeded.
Proof. exact Container_extended.memory_limit. Qed.

Theorem memory_limit_spec : forall c d limit p,
  wf c = true -> M.new (serialize c) = Ok d -> 0 <= limit -> limit < len p ->
  (icc c = Some p -> M.icc_profile (M.set_memory_limit d limit) = Err EMemoryLimitExceeded)
  /\ (exif c = Some p -> M.exif_metadata (M.set_memory_limit d limit) = Err EMemoryLimitExceeded)
  /\ (xmp c = Some p -> M.xmp_metadata (M.set_memory_limit d limit) = Err EMemoryLimitExceeded).
Proof. exact Container_extended.memory_limit_spec. Qed.

(* the hypotheses are satisfiable by non-trivial files *)
Example wf_animation_with_unknown_chunks_and_odd_exif : wf ex_anim = true.
Proof. exact wf_ex_anim. Qed.
Example wf_still_with_metadata_before_image : wf ex_still = true.
Proof. exact wf_ex_still. Qed.
