(* C01 -- VP8L decoding matches the lossless specification for every valid stream.            (PARTIAL)
   Reference: Spec.VP8L.decode, an executable Gallina transcription of the WebP lossless bitstream specification
   (bit-by-bit canonical prefix decoding, every pixel inserted into the colour cache, per-pixel inverse transforms),
   validated against the compiled libwebp on every run (harness c01spec).
   Proved here, re-checked on every run against definitions regenerated from /repo/src:
     * the tables the decoder uses are the specification's (120-entry distance map, code-length code order, alphabet sizes);
     * the scalar kernels of the inverse transforms equal the specification's formulas for all byte inputs (Average2,
       ClampAddSubtractFull/Half, ColorTransformDelta modulo 256 by a 65536-case sweep, sub-sampled image size);
       none of them can overflow in a checked build.
   NOT proved here: the structural refinement of the Rust decoder (64-bit reservoir, two-level prefix tables, in-place
   transforms, copy_within) to the specification -- decided on every run by whole-stream correspondence
   implementation = Spec.VP8L.decode on seeded random *legal streams* (harness c01: any transform order, cache 0..11 bits,
   meta codes, simple/normal codes up to 15 bits, all distance codes, sizes up to 16384), and natively against libwebp.
   Component lemmas of the Rust-mirroring model (bit reader, prefix tables) are added by Properties of the lossless model
   when present (see evidence: theorem list). *)
From Coq Require Import ZArith List.
From WebP Require Import Gen.Tables Gen.Kernels Lib.ZBits Spec.VP8L Proofs.VP8L_kernels.
Import ListNotations.
Open Scope Z_scope.

Theorem vp8l_tables_normative :
  lossless_DISTANCE_MAP = map (fun xy => [fst xy; snd xy]) distance_map
  /\ lossless_CODE_LENGTH_CODE_ORDER = kCodeLengthCodeOrder
  /\ lossless_ALPHABET_SIZE = [256 + 24; 256; 256; 256; 40].
Proof.
  split; [exact distance_map_normative|]. split; [exact (proj1 code_length_order_normative) | exact alphabet_sizes_normative].
Qed.

Theorem predictor_kernels_spec : forall a b c, byte a -> byte b -> byte c ->
  average2 a b = (a + b) / 2
  /\ clamp_add_subtract_full a b c = Clamp (a + b - c)
  /\ clamp_add_subtract_half a b = Clamp (a + Z.quot (a - b) 2).
Proof.
  intros a b c Ha Hb Hc. split; [exact (proj1 (average2_spec a b Ha Hb))|].
  split; [exact (proj1 (clamp_full_spec a b c Ha Hb Hc)) | exact (proj1 (clamp_half_spec a b Ha Hb))].
Qed.

Theorem color_transform_delta_spec : forall t c, byte t -> byte c ->
  color_transform_delta (int8 t) (int8 c) mod 256 = ColorTransformDelta t c mod 256.
Proof. intros t c Ht Hc. exact (proj1 (color_delta_spec t c Ht Hc)). Qed.

Theorem subsample_size_is_div_round_up : forall size bits, 0 <= size <= 65535 -> 0 <= bits <= 9 ->
  subsample_size size bits = DIV_ROUND_UP size (2 ^ bits).
Proof. intros size bits Hs Hb. exact (proj1 (subsample_size_spec size bits Hs Hb)). Qed.

Theorem vp8l_kernels_no_overflow : forall a b c, byte a -> byte b -> byte c ->
  average2_ok a b = true /\ clamp_add_subtract_full_ok a b c = true /\ clamp_add_subtract_half_ok a b = true
  /\ color_transform_delta_ok (int8 a) (int8 b) = true.
Proof.
  intros a b c Ha Hb Hc. split; [exact (proj2 (average2_spec a b Ha Hb))|].
  split; [exact (proj2 (clamp_full_spec a b c Ha Hb Hc))|].
  split; [exact (proj2 (clamp_half_spec a b Ha Hb)) | exact (proj2 (color_delta_spec a b Ha Hb))].
Qed.

(* the specification decoder on a hand-made 1x1 stream and on a truncated one *)
Example spec_decodes_a_stream :
  decode_rgba [0x2f; 0; 0; 0; 0; 0x88; 0x88; 0x08] <> None /\ decode_rgba [0x2f; 0; 0] = None.
Proof. split; vm_compute; congruence. Qed.
