(* C01 -- VP8L decoding matches the lossless specification for every valid stream.            (FULL up to the two format conditions stated below)
   Reference: Spec.VP8L.decode, an executable Gallina transcription of the WebP lossless bitstream specification
   (bit-by-bit canonical prefix decoding, every pixel inserted into the colour cache, per-pixel inverse transforms),
   validated against the compiled libwebp on every run (harness c01spec).
   Proved here, re-checked on every run against definitions regenerated from /repo/src:
     * the tables the decoder uses are the specification's (120-entry distance map, code-length code order, alphabet sizes);
     * the scalar kernels of the inverse transforms equal the specification's formulas for all byte inputs (Average2,
       ClampAddSubtractFull/Half, ColorTransformDelta modulo 256 by a 65536-case sweep, sub-sampled image size);
       none of them can overflow in a checked build.
   NOT proved here: the structural refinement of the Rust decoder (64-bit reservoir, two-level prefix tables, in-place
   transforms, copy_within) to the specification -- decided on every run by whole-stream correspondence
   implementation = Spec.VP8L.decode on seeded random *legal streams* (harness c01: any transform order, cache 0..11 bits,
   meta codes, simple/normal codes up to 15 bits, all distance codes, sizes up to 16384), and natively against libwebp.
   Component theorems of the Rust-mirroring model (Model/BitReader, Huffman, Lossless: tied to the code on every run by the
   c01model correspondence through hooks) -- second half of this file:
     * the bit reader delivers the stream's bits LSB first whatever refill path it takes (read_bits = s mod 2^n);
     * normal prefix codes (two-level table + tree of huffman.rs): for every length vector 0..15 that build_implicit accepts,
       read_symbol returns exactly the symbol whose canonical code word (the specification's: Spec.PrefixCode.stream_codes)
       starts the stream and consumes exactly its length; every stream starts with exactly one code word (completeness +
       prefix-freeness);
     * simple prefix codes: one symbol costs 0 bits; two symbols: the smaller gets bit 0, transmission order irrelevant,
       equal symbols collapse (defect F3 repaired);
     * the backward-reference copy (16-byte copy_within trick and scalar tail) is the overlapping LZ77 copy
       out[k] = out[k - 4 dist] on the copied range, touches nothing before it nor from three pixels after it on. *)
(* ADDED (modules T and R below): the complete refinement.  The Rust-mirroring model of the decoder (Model/BitReader, Huffman,
   LosslessTransform, Lossless: tied to the code on every run by the c01model correspondence through hooks, component by component
   and on whole payloads) is proved equal to Spec.VP8L on every spec-valid stream:
     R.frame_matches_spec    V.decode_rgba data = Some (W, h, pixels) -> decode_frame data sched W h false buf = Ok pixels
                             (and the implicit-dimension form used for ALPH payloads), for every fill_buf schedule and every prior
                             buffer contents, under two decidable format conditions:
                               codes_in_format: no SIMPLE prefix code names a symbol outside its alphabet (only possible for the
                                 40-symbol distance alphabet; libwebp silently drops such a symbol, the crate rejects the stream --
                                 R.dropped_symbol_refuted is the machine-checked witness that the condition is necessary);
                               in_format: every predictor-transform block uses one of the 14 defined modes (green byte 0..13;
                                 libwebp masks the byte with 15 and predicts black for 14/15, the crate leaves such blocks
                                 unpredicted -- T.predictor_transform_model characterises the crate exactly).
     R.frame_sound           whatever the decoder accepts is what the specification defines (no condition on codes);
     RS.* (Properties/C03.v) the decoder returns Err on everything the specification rejects and never panics;
   layer by layer: bit stream (R.stream_init, R.stream_fill, R.stream_read_bits), code acceptance = Kraft equality (R.code_acceptance), tables decode the canonical code
   (R.code_tables), code descriptions incl. repeat codes and max_symbol (the R.code_description theorems), pixel loop incl. colour cache, F2 look-ahead,
   F4 refill and the copy_within trick (R.pixel_loop), entropy images with meta codes (R.image_entropy, R.image_spatial), the four inverse transforms (module T),
   transform list / order / width bookkeeping and header (inside the R.frame theorems). *)
From Coq Require Import ZArith List.
From WebP Require Gen.Tables Gen.Kernels Lib.ZBits Spec.VP8L Proofs.VP8L_kernels.
From WebP Require Lib.Res Lib.Arr Model.LosslessLib Model.BitReader Model.Huffman Model.Lossless
  Proofs.Lossless_BitReader Proofs.Lossless_HuffmanSafe Proofs.Lossless_HuffmanSimple Proofs.Lossless_CopyWithin
  Proofs.Lossless_HuffmanRead Proofs.Lossless_HuffmanComplete Spec.PrefixCode.
From WebP Require Model.LosslessTransform Proofs.Lossless_PixelSafe Proofs.C04_bits Spec.PrefixCode
  Proofs.C01T_repr Proofs.C01T_green Proofs.C01T_color Proofs.C01T_index Proofs.C01T_palette Proofs.C01T_pred_spec Proofs.C01T_predictor Proofs.C01T_frame
  Proofs.C01_stream Proofs.C01_symbols Proofs.C01_codes Proofs.C01_pixlib Proofs.C01_pixels Proofs.C01_groups Proofs.C01_gspec Proofs.C01_final Proofs.C01_top.
Import ListNotations.
Open Scope Z_scope.

(* ---------------- tables and scalar kernels regenerated from the source = the specification's ---------------- *)
Module K.
  Import Gen.Tables Gen.Kernels Lib.ZBits Spec.VP8L Proofs.VP8L_kernels.

Theorem vp8l_tables_normative :
  lossless_DISTANCE_MAP = map (fun xy => [fst xy; snd xy]) distance_map
  /\ lossless_CODE_LENGTH_CODE_ORDER = kCodeLengthCodeOrder
  /\ lossless_ALPHABET_SIZE = [256 + 24; 256; 256; 256; 40].
Proof.
  split; [exact distance_map_normative|]. split; [exact (proj1 code_length_order_normative) | exact alphabet_sizes_normative].
Qed.

Theorem predictor_kernels_spec : forall a b c, byte a -> byte b -> byte c ->
  average2 a b = (a + b) / 2
  /\ clamp_add_subtract_full a b c = Clamp (a + b - c)
  /\ clamp_add_subtract_half a b = Clamp (a + Z.quot (a - b) 2).
Proof.
  intros a b c Ha Hb Hc. split; [exact (proj1 (average2_spec a b Ha Hb))|].
  split; [exact (proj1 (clamp_full_spec a b c Ha Hb Hc)) | exact (proj1 (clamp_half_spec a b Ha Hb))].
Qed.

Theorem color_transform_delta_spec : forall t c, byte t -> byte c ->
  color_transform_delta (int8 t) (int8 c) mod 256 = ColorTransformDelta t c mod 256.
Proof. intros t c Ht Hc. exact (proj1 (color_delta_spec t c Ht Hc)). Qed.

Theorem subsample_size_is_div_round_up : forall size bits, 0 <= size <= 65535 -> 0 <= bits <= 9 ->
  subsample_size size bits = DIV_ROUND_UP size (2 ^ bits).
Proof. intros size bits Hs Hb. exact (proj1 (subsample_size_spec size bits Hs Hb)). Qed.

Theorem vp8l_kernels_no_overflow : forall a b c, byte a -> byte b -> byte c ->
  average2_ok a b = true /\ clamp_add_subtract_full_ok a b c = true /\ clamp_add_subtract_half_ok a b = true
  /\ color_transform_delta_ok (int8 a) (int8 b) = true.
Proof.
  intros a b c Ha Hb Hc. split; [exact (proj2 (average2_spec a b Ha Hb))|].
  split; [exact (proj2 (clamp_full_spec a b c Ha Hb Hc))|].
  split; [exact (proj2 (clamp_half_spec a b Ha Hb)) | exact (proj2 (color_delta_spec a b Ha Hb))].
Qed.

(* the specification decoder on a hand-made 1x1 stream and on a truncated one *)
Example spec_decodes_a_stream :
  decode_rgba [0x2f; 0; 0; 0; 0; 0x88; 0x88; 0x08] <> None /\ decode_rgba [0x2f; 0; 0] = None.
Proof. split; vm_compute; congruence. Qed.
End K.

(* ---------------- Rust-mirroring model: bit reader, simple codes, backward-reference copy ---------------- *)
Module M.
  Import Lib.ZBits Model.LosslessLib Model.BitReader Model.Huffman Model.Lossless Proofs.Lossless_BitReader
    Proofs.Lossless_HuffmanSafe Proofs.Lossless_HuffmanSimple Proofs.Lossless_CopyWithin Proofs.Lossless_HuffmanRead Proofs.Lossless_HuffmanComplete.

  (* [R s r]: reader state r (64-bit reservoir + unread bytes) represents the unread bit stream s (an integer, LSB first) *)
  Theorem bitreader_initial : forall d sch, Forall byte d -> R (V d) (init d sch).
  Proof. exact R_init. Qed.

  Theorem bitreader_read_bits : forall s r tb num, R s r -> 0 <= num <= 32 -> num <= tb ->
    (exists v r', read_bits r tb num = Res.Ok (v, r') /\ v = s mod 2 ^ num /\ R (Z.shiftr s num) r') \/
    read_bits r tb num = Res.Err Res.EBitStreamError.
  Proof. exact read_bits_no_panic. Qed.

  Theorem bitreader_fill : forall s r r', R s r -> fill r = Res.Ok r' -> R s r' /\ (56 <= nbits r' \/ data r' = []).
  Proof. exact fill_post. Qed.

  Theorem bitreader_peek : forall s r k, R s r -> 0 <= k -> (k <= nbits r \/ data r = []) -> (peek_full r) mod 2 ^ k = s mod 2 ^ k.
  Proof. exact peek_full_low. Qed.

  (* HuffmanTree::build_implicit + read_symbol = canonical prefix decoding of the specification *)
  Theorem normal_code_read_symbol : forall lens t s r sym,
    lens_ok lens -> Z.of_nat (length lens) <= 5957 -> 2 <= nz lens -> build_implicit lens = Res.Ok t ->
    R s r -> (sym < length lens)%nat -> nth sym lens 0 <> 0 ->
    s mod 2 ^ (nth sym lens 0) = nth sym (Spec.PrefixCode.stream_codes lens) 0 ->
    nth sym lens 0 <= nbits r ->
    exists r', read_symbol t r = Res.Ok (Z.of_nat sym, r') /\ R (Z.shiftr s (nth sym lens 0)) r' /\
               nbits r' = nbits r - nth sym lens 0 /\ data r' = data r.
  Proof. exact read_symbol_spec. Qed.

  (* a valid code description is never rejected: every length vector whose Kraft sum is exactly 1 (the specification's condition
     for a complete code) is accepted by build_implicit *)
  Theorem normal_code_accepted : forall lens, lens_ok lens -> Z.of_nat (length lens) <= 5957 -> 2 <= nz lens ->
    Spec.PrefixCode.kraft lens 15 = 2 ^ 15 -> exists t, build_implicit lens = Res.Ok t.
  Proof. exact build_implicit_complete. Qed.

  Theorem normal_code_complete : forall lens t s,
    lens_ok lens -> Z.of_nat (length lens) <= 5957 -> 2 <= nz lens -> build_implicit lens = Res.Ok t -> 0 <= s ->
    exists sym, (sym < length lens)%nat /\ nth sym lens 0 <> 0 /\
                s mod 2 ^ (nth sym lens 0) = revl (nth sym lens 0) (dec_code lens sym) /\
                forall sym', (sym' < length lens)%nat -> nth sym' lens 0 <> 0 ->
                             s mod 2 ^ (nth sym' lens 0) = revl (nth sym' lens 0) (dec_code lens sym') -> sym' = sym.
  Proof. exact code_complete. Qed.

  Theorem normal_code_words_canonical : forall lens sym, lens_ok lens -> (sym < length lens)%nat -> nth sym lens 0 <> 0 ->
    dec_code lens sym = nth sym (Spec.PrefixCode.canonical lens) 0.
  Proof. exact dec_code_canonical. Qed.

  Theorem simple_code_one_symbol : forall s br, read_symbol (build_single_node s) br = Res.Ok (s, br).
  Proof. exact read_symbol_single. Qed.

  Theorem simple_code_two_symbols : forall s r a b, R s r -> 1 <= nbits r -> 0 <= a < 65536 -> 0 <= b < 65536 -> a <> b ->
    exists r', read_symbol (simple_two_symbols a b) r = Res.Ok (if Z.testbit s 0 then Z.max a b else Z.min a b, r') /\ R (Z.shiftr s 1) r'.
  Proof. exact read_symbol_simple_two. Qed.

  Theorem simple_code_order_irrelevant : forall a b,
    simple_two_symbols a b = simple_two_symbols b a /\ simple_two_symbols a a = build_single_node a.
  Proof. intros a b. split; [apply simple_two_symbols_sym | apply simple_two_symbols_equal]. Qed.

  Theorem backward_reference_copy : forall data index dist length num_values,
    zlen data = 4 * num_values -> 2 <= dist <= index -> 1 <= length -> index + length <= num_values ->
    exists data', copy_backref data index dist length num_values = Res.Ok data' /\ lz_copied data data' index dist length.
  Proof. exact copy_backref_spec. Qed.

  Theorem backward_reference_copy_unique : forall data d1 d2 index dist length, 1 <= dist <= index ->
    lz_copied data d1 index dist length -> lz_copied data d2 index dist length ->
    forall k, 0 <= k < 4 * (index + length) -> az d1 k = az d2 k.
  Proof. exact lz_copied_unique. Qed.
End M.

(* ---------------- inverse transforms: Model = specification ---------------- *)
Module T.
  Import Lib.Res Lib.Arr Lib.ZBits Model.LosslessLib Model.LosslessTransform Model.Lossless
    Proofs.C01T_repr Proofs.C01T_green Proofs.C01T_color Proofs.C01T_index Proofs.C01T_palette
    Proofs.C01T_pred_spec Proofs.C01T_predictor Proofs.C01T_frame.
  Local Open Scope Z_scope.
  Theorem subtract_green_matches_spec : forall bytes px n, repr bytes px n -> zlen bytes = 4 * n ->
    exists bytes', apply_subtract_green_transform bytes = Ok bytes' /\ zlen bytes' = zlen bytes /\
                   repr bytes' (V.inverse_subtract_green px) n.
  Proof. exact subtract_green_refines. Qed.

  Theorem color_transform_matches_spec : forall bytes px tdata el w h bits nel,
    1 <= w <= 16384 -> 0 <= h -> 0 <= bits <= 9 -> repr bytes px (w * h) -> zlen bytes = 4 * (w * h) -> repr tdata el nel ->
    V.DIV_ROUND_UP w (2 ^ bits) * V.DIV_ROUND_UP h (2 ^ bits) <= nel ->
    exists bytes', apply_color_transform bytes w bits tdata = Ok bytes' /\ zlen bytes' = zlen bytes /\
                   repr bytes' (V.inverse_color_transform w h bits el px) (w * h).
  Proof. exact color_transform_refines. Qed.

  Theorem color_indexing_matches_spec : forall bytes px tdata table w h ts,
    1 <= w -> 0 <= h -> 1 <= ts <= 256 ->
    repr bytes px (V.DIV_ROUND_UP w (2 ^ V.width_bits_of ts) * h) -> zlen bytes = 4 * (w * h) ->
    repr tdata table ts -> zlen tdata = 4 * ts ->
    exists bytes', apply_color_indexing_transform bytes w h ts tdata = Ok bytes' /\ zlen bytes' = zlen bytes /\
                   repr bytes' (V.inverse_color_indexing w h ts table px) (w * h).
  Proof. exact color_indexing_refines. Qed.

  Theorem color_table_matches_spec : forall cm deltas n, repr cm deltas n -> zlen cm = 4 * n -> 1 <= n ->
    exists cm', adjust_color_map cm = Ok cm' /\ zlen cm' = zlen cm /\
                repr cm' (of_list (V.undo_deltas 0 (V.pixel_list deltas))) n.
  Proof. exact adjust_color_map_refines. Qed.

  Theorem predictor_transform_matches_spec : forall bytes px pdata modes w h bits nm,
    1 <= w <= 16384 -> 1 <= h -> 0 <= bits <= 9 -> repr bytes px (w * h) -> zlen bytes = 4 * (w * h) -> repr pdata modes nm ->
    V.DIV_ROUND_UP w (2 ^ bits) * V.DIV_ROUND_UP h (2 ^ bits) <= nm ->
    (forall j, 0 <= j < nm -> V.GREEN (V.pix modes j) <= 13) ->
    exists bytes', apply_predictor_transform bytes w h bits pdata = Ok bytes' /\ zlen bytes' = zlen bytes /\
                   repr bytes' (V.inverse_predictor w h bits modes px) (w * h).
  Proof. exact predictor_transform_refines. Qed.

  (* what the Rust code does for ANY mode image: the specification's scan with `pmodel` (modes 0..13 as in the format,
     a block whose green byte is 14..255 keeps its residuals) *)
  Theorem predictor_transform_model : forall bytes px pdata modes w h bits nm,
    1 <= w <= 16384 -> 1 <= h -> 0 <= bits <= 9 -> repr bytes px (w * h) -> zlen bytes = 4 * (w * h) -> repr pdata modes nm ->
    V.DIV_ROUND_UP w (2 ^ bits) * V.DIV_ROUND_UP h (2 ^ bits) <= nm ->
    exists bytes', apply_predictor_transform bytes w h bits pdata = Ok bytes' /\ zlen bytes' = zlen bytes /\
                   repr bytes' (inverse_predictor_gen pmodel w h bits modes px) (w * h).
  Proof. exact C01T_predictor.predictor_transform_model. Qed.

End T.

(* ---------------- entropy decoding and the frame: Model = specification ---------------- *)
Module R.
  Import Lib.Res Lib.Arr Lib.ZBits Spec.PrefixCode Model.LosslessLib Model.BitReader Model.Huffman Model.Lossless
    Proofs.Lossless_BitReader Proofs.Lossless_HuffmanSafe Proofs.Lossless_PixelSafe Proofs.C04_bits
    Proofs.C01_stream Proofs.C01_symbols Proofs.C01_codes Proofs.C01_pixlib Proofs.C01_pixels Proofs.C01_groups
    Proofs.C01_gspec Proofs.C01_final Proofs.C01_top.
  Local Open Scope Z_scope.
  (* (1) streams *)
  Theorem stream_init : forall d sch, Forall byte d -> Rel (V.Stream [] d) (init d sch).
  Proof. exact Rel_init. Qed.

  Theorem stream_fill : forall st r, Rel st r -> exists r', fill r = Ok r' /\ Rel st r' /\ (56 <= nbits r' \/ data r' = []).
  Proof. exact fill_Rel. Qed.

  Theorem stream_read_bits : forall st r tb n, Rel st r -> 0 <= n <= 32 -> n <= tb ->
    match V.read_bits (Z.to_nat n) st with
    | Some (v, st') => exists r', read_bits r tb n = Ok (v, r') /\ Rel st' r' /\ 0 <= v < 2 ^ n
    | None => read_bits r tb n = Err EBitStreamError
    end.
  Proof. exact read_bits_Rel. Qed.

  (* (2) prefix codes: acceptance (Kraft), symbol decoding, description reading *)
  Theorem code_acceptance : forall lens, lens_ok lens -> Z.of_nat (length lens) <= 5957 ->
    ((exists t, build_implicit lens = Ok t) <-> (exists c, V.make_code lens = Some c)) /\
    ((exists c, V.make_code lens = Some c) <-> nz lens = 1 \/ (2 <= nz lens /\ kraft lens 15 = 2 ^ 15)).
  Proof. exact acceptance. Qed.

  Theorem code_tables : forall lens, lens_ok lens -> Z.of_nat (length lens) <= 5957 ->
    match V.make_code lens with
    | Some c => exists t, build_implicit lens = Ok t /\ represents t c (Z.of_nat (length lens))
    | None => build_implicit lens = Err EHuffmanError
    end.
  Proof. exact build_make. Qed.

  Theorem code_description : forall a st r, Rel st r -> 2 <= a <= 5957 ->
    match strict_prefix_code a st with
    | Some (c, st') => exists t r', read_huffman_code r a = Ok (t, r') /\ Rel st' r' /\ represents t c a
    | None => exists e, read_huffman_code r a = Err e
    end.
  Proof. exact read_huffman_code_refines. Qed.

  Theorem code_description_spec : forall a st r, Rel st r -> 256 <= a <= 5957 ->
    match V.read_prefix_code a st with
    | Some (c, st') => exists t r', read_huffman_code r a = Ok (t, r') /\ Rel st' r' /\ represents t c a
    | None => exists e, read_huffman_code r a = Err e
    end.
  Proof. exact read_huffman_code_refines_256. Qed.

  Theorem code_description_sound : forall a st r t r', Rel st r -> 2 <= a <= 5957 -> read_huffman_code r a = Ok (t, r') ->
    exists c st', V.read_prefix_code a st = Some (c, st') /\ Rel st' r' /\ represents t c a.
  Proof. exact read_huffman_code_sound. Qed.

  Theorem strict_code_is_spec_code : forall a s x, strict_prefix_code a s = Some x -> V.read_prefix_code a s = Some x.
  Proof. exact strict_prefix_code_sound. Qed.

  (* FINDING: the specification (libwebp) drops a simple-code symbol >= 40 of a distance code; the crate rejects the stream *)
  Theorem dropped_symbol_refuted :
    let d := [7; 64; 6] in
    (exists st', V.read_prefix_code 40 (V.Stream [] d) = Some (V.Symbol 0, st')) /\
    strict_prefix_code 40 (V.Stream [] d) = None /\
    read_huffman_code (BitReader.init d []) 40 = Err EBitStreamError.
  Proof. exact simple_dropped_symbol_refuted. Qed.

  (* (4) the pixel loop *)
  Theorem pixel_loop : forall im h w hgt, info_rel im h w hgt -> 1 <= w <= 65535 -> 1 <= hgt <= 65536 ->
    forall st br data, Rel st br -> zlen data = 4 * (w * hgt) ->
    cache_rel (V.cache_bits im) (amake (Z.to_N (2 ^ V.cache_bits im))) (h_cache h) ->
    match V.decode_pixels im st with
    | Some (pixels, st') =>
        exists br' data', decode_image_data br w hgt h data = Ok (br', data') /\ Rel st' br' /\ zlen data' = 4 * (w * hgt) /\
                          forall i, 0 <= i < w * hgt -> px_at data' i = px_of (V.pix pixels i) /\ pix32 (V.pix pixels i)
    | None => exists e, decode_image_data br w hgt h data = Err e
    end.
  Proof. exact decode_image_data_refines. Qed.

  (* (3) whole entropy-coded images *)
  Theorem image_entropy : forall lvl st r w hgt data, Rel st r -> 1 <= w <= 65535 -> 1 <= hgt <= 65536 -> zlen data = 4 * (w * hgt) ->
    match strict_entropy_coded_image w hgt st with
    | Some (pixels, st') =>
        exists r' data', decode_image_stream (S lvl) r w hgt false data = Ok (r', data') /\ Rel st' r' /\
                         zlen data' = 4 * (w * hgt) /\
                         forall i, 0 <= i < w * hgt -> px_at data' i = px_of (V.pix pixels i) /\ pix32 (V.pix pixels i)
    | None => exists e, decode_image_stream (S lvl) r w hgt false data = Err e
    end.
  Proof. exact decode_image_stream_entropy. Qed.

  Theorem image_spatial : forall lvl st r w hgt data, Rel st r -> 1 <= w <= 65535 -> 1 <= hgt <= 65535 -> zlen data = 4 * (w * hgt) ->
    match strict_spatially_coded_image w hgt st with
    | Some (pixels, st') =>
        exists r' data', decode_image_stream (S (S lvl)) r w hgt true data = Ok (r', data') /\ Rel st' r' /\
                         zlen data' = 4 * (w * hgt) /\
                         forall i, 0 <= i < w * hgt -> px_at data' i = px_of (V.pix pixels i) /\ pix32 (V.pix pixels i)
    | None => exists e, decode_image_stream (S (S lvl)) r w hgt true data = Err e
    end.
  Proof. exact decode_image_stream_spatial. Qed.

  Theorem strict_image_is_spec_image : forall w h s x, strict_spatially_coded_image w h s = Some x -> V.spatially_coded_image w h s = Some x.
  Proof. exact strict_spatial_sound. Qed.

  (* the frame *)
  Theorem strict_decode_is_spec_decode : forall data x, strict_decode_rgba data = Some x -> V.decode_rgba data = Some x.
  Proof. exact strict_decode_rgba_sound. Qed.

  Theorem frame_matches_spec : forall data sched W h buf pixels, Forall byte data -> Z.of_nat (length buf) = 4 * (W * h) ->
    V.decode_rgba data = Some (W, h, pixels) -> codes_in_format data ->
    (forall s0, V.read_header (V.Stream [] data) = Some (W, h, s0) -> in_format W h s0) ->
    decode_frame data sched W h false buf = Ok pixels.
  Proof. exact decode_frame_matches_spec. Qed.

  Theorem frame_implicit_matches_spec : forall data sched W h buf pixels, Forall byte data -> Z.of_nat (length buf) = 4 * (W * h) ->
    V.decode_implicit_rgba W h data = Some pixels -> codes_in_format_implicit W h data -> in_format W h (V.Stream [] data) ->
    decode_frame data sched W h true buf = Ok pixels.
  Proof. exact decode_frame_implicit_matches_spec. Qed.

  Theorem frame_sound : forall data sched W h buf pixels, Forall byte data -> Z.of_nat (length buf) = 4 * (W * h) ->
    decode_frame data sched W h false buf = Ok pixels ->
    (forall s0, V.read_header (V.Stream [] data) = Some (W, h, s0) -> in_format W h s0) ->
    V.decode_rgba data = Some (W, h, pixels).
  Proof. exact decode_frame_sound. Qed.
End R.
