(* C01 -- VP8L decoding matches the lossless specification for every valid stream.            (PARTIAL)
   Reference: Spec.VP8L.decode, an executable Gallina transcription of the WebP lossless bitstream specification
   (bit-by-bit canonical prefix decoding, every pixel inserted into the colour cache, per-pixel inverse transforms),
   validated against the compiled libwebp on every run (harness c01spec).
   Proved here, re-checked on every run against definitions regenerated from /repo/src:
     * the tables the decoder uses are the specification's (120-entry distance map, code-length code order, alphabet sizes);
     * the scalar kernels of the inverse transforms equal the specification's formulas for all byte inputs (Average2,
       ClampAddSubtractFull/Half, ColorTransformDelta modulo 256 by a 65536-case sweep, sub-sampled image size);
       none of them can overflow in a checked build.
   NOT proved here: the structural refinement of the Rust decoder (64-bit reservoir, two-level prefix tables, in-place
   transforms, copy_within) to the specification -- decided on every run by whole-stream correspondence
   implementation = Spec.VP8L.decode on seeded random *legal streams* (harness c01: any transform order, cache 0..11 bits,
   meta codes, simple/normal codes up to 15 bits, all distance codes, sizes up to 16384), and natively against libwebp.
   Component theorems of the Rust-mirroring model (Model/BitReader, Huffman, Lossless: tied to the code on every run by the
   c01model correspondence through hooks) -- second half of this file:
     * the bit reader delivers the stream's bits LSB first whatever refill path it takes (read_bits = s mod 2^n);
     * normal prefix codes (two-level table + tree of huffman.rs): for every length vector 0..15 that build_implicit accepts,
       read_symbol returns exactly the symbol whose canonical code word (the specification's: Spec.PrefixCode.stream_codes)
       starts the stream and consumes exactly its length; every stream starts with exactly one code word (completeness +
       prefix-freeness);
     * simple prefix codes: one symbol costs 0 bits; two symbols: the smaller gets bit 0, transmission order irrelevant,
       equal symbols collapse (defect F3 repaired);
     * the backward-reference copy (16-byte copy_within trick and scalar tail) is the overlapping LZ77 copy
       out[k] = out[k - 4 dist] on the copied range, touches nothing before it nor from three pixels after it on. *)
From Coq Require Import ZArith List.
From WebP Require Import Gen.Tables Gen.Kernels Lib.ZBits Spec.VP8L Proofs.VP8L_kernels.
From WebP Require Lib.Res Lib.Arr Model.LosslessLib Model.BitReader Model.Huffman Model.Lossless
  Proofs.Lossless_BitReader Proofs.Lossless_HuffmanSafe Proofs.Lossless_HuffmanSimple Proofs.Lossless_CopyWithin
  Proofs.Lossless_HuffmanRead Proofs.Lossless_HuffmanComplete Spec.PrefixCode.
Import ListNotations.
Open Scope Z_scope.

Theorem vp8l_tables_normative :
  lossless_DISTANCE_MAP = map (fun xy => [fst xy; snd xy]) distance_map
  /\ lossless_CODE_LENGTH_CODE_ORDER = kCodeLengthCodeOrder
  /\ lossless_ALPHABET_SIZE = [256 + 24; 256; 256; 256; 40].
Proof.
  split; [exact distance_map_normative|]. split; [exact (proj1 code_length_order_normative) | exact alphabet_sizes_normative].
Qed.

Theorem predictor_kernels_spec : forall a b c, byte a -> byte b -> byte c ->
  average2 a b = (a + b) / 2
  /\ clamp_add_subtract_full a b c = Clamp (a + b - c)
  /\ clamp_add_subtract_half a b = Clamp (a + Z.quot (a - b) 2).
Proof.
  intros a b c Ha Hb Hc. split; [exact (proj1 (average2_spec a b Ha Hb))|].
  split; [exact (proj1 (clamp_full_spec a b c Ha Hb Hc)) | exact (proj1 (clamp_half_spec a b Ha Hb))].
Qed.

Theorem color_transform_delta_spec : forall t c, byte t -> byte c ->
  color_transform_delta (int8 t) (int8 c) mod 256 = ColorTransformDelta t c mod 256.
Proof. intros t c Ht Hc. exact (proj1 (color_delta_spec t c Ht Hc)). Qed.

Theorem subsample_size_is_div_round_up : forall size bits, 0 <= size <= 65535 -> 0 <= bits <= 9 ->
  subsample_size size bits = DIV_ROUND_UP size (2 ^ bits).
Proof. intros size bits Hs Hb. exact (proj1 (subsample_size_spec size bits Hs Hb)). Qed.

Theorem vp8l_kernels_no_overflow : forall a b c, byte a -> byte b -> byte c ->
  average2_ok a b = true /\ clamp_add_subtract_full_ok a b c = true /\ clamp_add_subtract_half_ok a b = true
  /\ color_transform_delta_ok (int8 a) (int8 b) = true.
Proof.
  intros a b c Ha Hb Hc. split; [exact (proj2 (average2_spec a b Ha Hb))|].
  split; [exact (proj2 (clamp_full_spec a b c Ha Hb Hc))|].
  split; [exact (proj2 (clamp_half_spec a b Ha Hb)) | exact (proj2 (color_delta_spec a b Ha Hb))].
Qed.

(* the specification decoder on a hand-made 1x1 stream and on a truncated one *)
Example spec_decodes_a_stream :
  decode_rgba [0x2f; 0; 0; 0; 0; 0x88; 0x88; 0x08] <> None /\ decode_rgba [0x2f; 0; 0] = None.
Proof. split; vm_compute; congruence. Qed.

(* ---------------- Rust-mirroring model: bit reader, simple codes, backward-reference copy ---------------- *)
Module M.
  Import Model.LosslessLib Model.BitReader Model.Huffman Model.Lossless Proofs.Lossless_BitReader
    Proofs.Lossless_HuffmanSafe Proofs.Lossless_HuffmanSimple Proofs.Lossless_CopyWithin Proofs.Lossless_HuffmanRead Proofs.Lossless_HuffmanComplete.

  (* [R s r]: reader state r (64-bit reservoir + unread bytes) represents the unread bit stream s (an integer, LSB first) *)
  Theorem bitreader_initial : forall d sch, Forall byte d -> R (V d) (init d sch).
  Proof. exact R_init. Qed.

  Theorem bitreader_read_bits : forall s r tb num, R s r -> 0 <= num <= 32 -> num <= tb ->
    (exists v r', read_bits r tb num = Res.Ok (v, r') /\ v = s mod 2 ^ num /\ R (Z.shiftr s num) r') \/
    read_bits r tb num = Res.Err Res.EBitStreamError.
  Proof. exact read_bits_no_panic. Qed.

  Theorem bitreader_fill : forall s r r', R s r -> fill r = Res.Ok r' -> R s r' /\ (56 <= nbits r' \/ data r' = []).
  Proof. exact fill_post. Qed.

  Theorem bitreader_peek : forall s r k, R s r -> 0 <= k -> (k <= nbits r \/ data r = []) -> (peek_full r) mod 2 ^ k = s mod 2 ^ k.
  Proof. exact peek_full_low. Qed.

  (* HuffmanTree::build_implicit + read_symbol = canonical prefix decoding of the specification *)
  Theorem normal_code_read_symbol : forall lens t s r sym,
    lens_ok lens -> Z.of_nat (length lens) <= 5957 -> 2 <= nz lens -> build_implicit lens = Res.Ok t ->
    R s r -> (sym < length lens)%nat -> nth sym lens 0 <> 0 ->
    s mod 2 ^ (nth sym lens 0) = nth sym (Spec.PrefixCode.stream_codes lens) 0 ->
    nth sym lens 0 <= nbits r ->
    exists r', read_symbol t r = Res.Ok (Z.of_nat sym, r') /\ R (Z.shiftr s (nth sym lens 0)) r' /\
               nbits r' = nbits r - nth sym lens 0 /\ data r' = data r.
  Proof. exact read_symbol_spec. Qed.

  (* a valid code description is never rejected: every length vector whose Kraft sum is exactly 1 (the specification's condition
     for a complete code) is accepted by build_implicit *)
  Theorem normal_code_accepted : forall lens, lens_ok lens -> Z.of_nat (length lens) <= 5957 -> 2 <= nz lens ->
    Spec.PrefixCode.kraft lens 15 = 2 ^ 15 -> exists t, build_implicit lens = Res.Ok t.
  Proof. exact build_implicit_complete. Qed.

  Theorem normal_code_complete : forall lens t s,
    lens_ok lens -> Z.of_nat (length lens) <= 5957 -> 2 <= nz lens -> build_implicit lens = Res.Ok t -> 0 <= s ->
    exists sym, (sym < length lens)%nat /\ nth sym lens 0 <> 0 /\
                s mod 2 ^ (nth sym lens 0) = revl (nth sym lens 0) (dec_code lens sym) /\
                forall sym', (sym' < length lens)%nat -> nth sym' lens 0 <> 0 ->
                             s mod 2 ^ (nth sym' lens 0) = revl (nth sym' lens 0) (dec_code lens sym') -> sym' = sym.
  Proof. exact code_complete. Qed.

  Theorem normal_code_words_canonical : forall lens sym, lens_ok lens -> (sym < length lens)%nat -> nth sym lens 0 <> 0 ->
    dec_code lens sym = nth sym (Spec.PrefixCode.canonical lens) 0.
  Proof. exact dec_code_canonical. Qed.

  Theorem simple_code_one_symbol : forall s br, read_symbol (build_single_node s) br = Res.Ok (s, br).
  Proof. exact read_symbol_single. Qed.

  Theorem simple_code_two_symbols : forall s r a b, R s r -> 1 <= nbits r -> 0 <= a < 65536 -> 0 <= b < 65536 -> a <> b ->
    exists r', read_symbol (simple_two_symbols a b) r = Res.Ok (if Z.testbit s 0 then Z.max a b else Z.min a b, r') /\ R (Z.shiftr s 1) r'.
  Proof. exact read_symbol_simple_two. Qed.

  Theorem simple_code_order_irrelevant : forall a b,
    simple_two_symbols a b = simple_two_symbols b a /\ simple_two_symbols a a = build_single_node a.
  Proof. intros a b. split; [apply simple_two_symbols_sym | apply simple_two_symbols_equal]. Qed.

  Theorem backward_reference_copy : forall data index dist length num_values,
    zlen data = 4 * num_values -> 2 <= dist <= index -> 1 <= length -> index + length <= num_values ->
    exists data', copy_backref data index dist length num_values = Res.Ok data' /\ lz_copied data data' index dist length.
  Proof. exact copy_backref_spec. Qed.

  Theorem backward_reference_copy_unique : forall data d1 d2 index dist length, 1 <= dist <= index ->
    lz_copied data d1 index dist length -> lz_copied data d2 index dist length ->
    forall k, 0 <= k < 4 * (index + length) -> az d1 k = az d2 k.
  Proof. exact lz_copied_unique. Qed.
End M.
