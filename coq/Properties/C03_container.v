(* C03, container layer -- no byte string makes WebPDecoder::new (or an accessor of the decoder it returns) panic,
   overflow checked arithmetic, unwrap None, or loop without end.  Statements only; proofs in
   Proofs/Container_safety.v.  [M] = Model.Container with every checked `+`/`-` of the debug build, every unwrap
   and the fuel of the chunk scan explicit.  Hypotheses: the input is a list of bytes no longer than isize::MAX. *)
From Coq Require Import ZArith List Bool.
From WebP Require Import Lib.Res Spec.Container Proofs.Container_bytes Proofs.Container_safety.
From WebP Require Model.Container.
Open Scope Z_scope.

Theorem container_new_no_panic : forall bytes,
  all_bytes bytes = true -> len bytes <= 9223372036854775807 ->
  (forall p, M.new bytes <> Panic p) /\ M.new bytes <> OutOfFuel.
Proof. exact new_no_panic. Qed.

Theorem container_accessors_no_panic : forall bytes dec,
  all_bytes bytes = true -> len bytes <= 9223372036854775807 -> M.new bytes = Ok dec ->
  forall limit,
    safe (M.icc_profile (M.set_memory_limit dec limit)) /\ safe (M.exif_metadata (M.set_memory_limit dec limit))
    /\ safe (M.xmp_metadata (M.set_memory_limit dec limit))
    /\ safe (M.icc_profile dec) /\ safe (M.exif_metadata dec) /\ safe (M.xmp_metadata dec).
Proof. exact accessors_no_panic. Qed.
