(* C06 -- Animation frames follow the canvas compositing model.
   Property theorems only: each is closed by `exact <lemma>` and followed (in the check) by Print Assumptions.
   Objects: Model.Anim (hand model of extended.rs::composite_frame and decoder.rs::read_frame on the REPAIRED tree:
   fix_F12 disposal, fix_F13 background byte order; tied to the code by the correspondence check `c06`), Spec.Anim (the
   container specification's canvas model with the per-pixel blend operator as an argument), Proofs.Anim_play.anim_of
   (how the specification reads the ANMF fields: offsets doubled, sizes plus one, blend / dispose bits).
   Frame payload decoding is abstracted (C01 / C02 / C05): the model is given each frame's decoded bytes. *)
From Coq Require Import ZArith List Bool.
From WebP Require Import Lib.Res Lib.Arr Spec.Blend Model.AlphaBlend Model.Anim Spec.Anim
  Proofs.Anim_arr Proofs.Anim_composite Proofs.Anim_play.
From WebP Require Spec.Container Model.ReadImage Proofs.Container_bytes Proofs.C01_top Proofs.ReadImage_base Proofs.ReadImage_container Proofs.ReadImage_vp8l Proofs.ReadImage_lossless Proofs.ReadImage_lossy Proofs.ReadImage_stillspec Proofs.ReadImage_wrap Proofs.ReadImage_safe Proofs.ReadImage_frame Proofs.ReadImage_anim.
From WebP Require Spec.VP8 Model.Vp8Decode Proofs.VP8_decode_main Proofs.VP8_decode_planes Proofs.VP8_decode_readimage.
From WebP Require Proofs.Container_fits.
From WebP Require Spec.Container Spec.YUV Spec.VP8 Spec.Anim Model.AlphaBlend Model.Anim Model.ReadImage Model.Vp8Decode Proofs.C15_model Proofs.Container_bytes Proofs.C01_top Proofs.Anim_play
  Proofs.ReadImage_base Proofs.ReadImage_container Proofs.ReadImage_lossy Proofs.ReadImage_wrap Proofs.ReadImage_safe Proofs.ReadImage_frame Proofs.ReadImage_anim
  Proofs.VP8_decode_main Proofs.VP8_decode_planes Proofs.VP8_decode_readimage.
Import ListNotations.
Open Scope Z_scope.

(* For every valid animation, the k-th successful read_frame of a fresh decoder returns the k-th frame's duration and the
   rendering (RGBA or RGB by the file's alpha flag) of the canvas obtained by starting from the background colour
   (stored as B,G,R,A) and, for each frame up to k, restoring the previous frame's rectangle if that frame asked for
   disposal and then drawing the frame at its offset by overwriting or blending as its flag says. *)
Theorem read_frame_spec : forall f buf k, valid_file f -> Z.of_nat (length buf) = output_buffer_size f ->
  (k < length (m_frames f))%nat ->
  nth_error (play f buf) k =
  Some (Ok (duration (anim_of f) k),
        render (m_alpha f) (m_w f) (m_h f) (frames_upto do_alpha_blending (anim_of f) k)).
Proof. exact read_frame_spec_lemma. Qed.

(* ... all of them at once *)
Theorem play_is_shown : forall f buf, valid_file f -> Z.of_nat (length buf) = output_buffer_size f ->
  play f buf = map (fun db => (Ok (fst db), snd db)) (shown do_alpha_blending (anim_of f)).
Proof. exact play_all_lemma. Qed.

(* the model's reading of a valid file is a valid animation of the specification *)
Theorem valid_file_valid_anim : forall f, valid_file f -> valid_anim (anim_of f).
Proof. exact valid_anim_of. Qed.

(* composite_frame itself, for any canvas / frame / previous rectangle inside the canvas: the flat array afterwards
   holds, pixel by pixel, "previous rectangle cleared if a clear colour is given, then the frame drawn" *)
Theorem composite_frame_pixelwise :
  forall (W H : Z) (a : arr) (K : canvas) (clear : option px) (frame : arr) (fx fy fw fh : Z) (ha bl : bool) (pw ph pox poy : Z),
  fits W H -> crep W H a K ->
  0 <= fx -> 0 <= fy -> 1 <= fw -> 1 <= fh -> fx + fw <= W -> fy + fh <= H ->
  zlen frame = fw * fh * (if ha then 4 else 3) ->
  0 <= pox -> 0 <= poy -> 0 <= pw -> 0 <= ph -> pox + pw <= W -> poy + ph <= H ->
  exists a', composite_frame a W H clear frame fx fy fw fh ha bl pw ph pox poy = Ok a' /\
    crep W H a' (composite_result K clear frame fx fy fw fh ha bl pw ph pox poy).
Proof. exact composite_frame_spec. Qed.

(* a frame that is not blended replaces the canvas pixels of its rectangle exactly (opaque source pixels included) *)
Theorem overwrite_exact : forall over A k fr x y, nth_error (an_frames A) k = Some fr -> blends fr = false ->
  in_frame fr x y = true ->
  frames_upto over A k x y = frame_pixel fr (x - fr_x fr) (y - fr_y fr).
Proof. exact overwrite_exact_lemma. Qed.

(* outside the frame's rectangle only the disposal of the previous frame's rectangle happens *)
Theorem outside_frame : forall over A k fr x y, nth_error (an_frames A) k = Some fr -> in_frame fr x y = false ->
  frames_upto over A k x y = canvas_before over A k x y.
Proof. exact outside_frame_lemma. Qed.

(* a fully transparent source pixel of a blended frame leaves the canvas pixel unchanged *)
Theorem transparent_unchanged : forall A k fr x y, bytes_anim A -> nth_error (an_frames A) k = Some fr ->
  blends fr = true -> in_frame fr x y = true -> p_alpha (frame_pixel fr (x - fr_x fr) (y - fr_y fr)) = 0 ->
  frames_upto do_alpha_blending A k x y = canvas_before do_alpha_blending A k x y.
Proof. exact transparent_unchanged_lemma. Qed.

(* in between, the kernel stays within the bounds of property C12 of the exact operator; at alpha 0 it is exact *)
Theorem kernel_meets_spec_bounds : over_transparent_exact do_alpha_blending /\ over_within_bounds do_alpha_blending.
Proof. exact (conj kernel_transparent_exact kernel_within_bounds). Qed.

(* a frame without alpha channel whose blending bit is set: blending it with any operator that is exact on opaque
   sources is overwriting, which is what Spec.Anim.draw (and the code) does *)
Theorem draw_opaque_frame : forall over fr K x y, over_opaque_exact over ->
  Forall pixel_ok (fr_pixels fr) -> pixel_ok (K x y) ->
  draw_by_flag over fr K x y = draw over fr K x y.
Proof. exact draw_opaque_frame_lemma. Qed.

(* KNOWN FINDING F14 (known_findings.txt, class opaque-source-decrement).  The property demands that an opaque source
   pixel replaces the canvas pixel exactly.  For BLENDED frames the tree returns every non-zero colour channel one lower.
   The clause is refuted, and the exact behaviour on the known class is pinned so that any other deviation is a violation. *)
Theorem opaque_blended_refuted : exists A k fr x y,
  valid_anim A /\ bytes_anim A /\ nth_error (an_frames A) k = Some fr /\ blends fr = true /\ in_frame fr x y = true /\
  p_alpha (frame_pixel fr (x - fr_x fr) (y - fr_y fr)) = 255 /\
  frames_upto do_alpha_blending A k x y <> frame_pixel fr (x - fr_x fr) (y - fr_y fr).
Proof. exact opaque_blended_refuted_lemma. Qed.

Theorem opaque_blended_known_class : forall A k fr x y, bytes_anim A -> nth_error (an_frames A) k = Some fr ->
  blends fr = true -> in_frame fr x y = true -> p_alpha (frame_pixel fr (x - fr_x fr) (y - fr_y fr)) = 255 ->
  let s := frame_pixel fr (x - fr_x fr) (y - fr_y fr) in
  frames_upto do_alpha_blending A k x y = (dec_channel (p_red s), dec_channel (p_green s), dec_channel (p_blue s), 255).
Proof. exact opaque_blended_known_lemma. Qed.

(* non-vacuity: a 3-frame animation on a 3x2 canvas whose first frame (2x1, disposed) does not cover the canvas; second
   frame 1x1 at (2,0) blended with alpha 128; third frame 1x2 at (0,0) without alpha channel.  Background stored as
   B=10 G=20 R=30 A=200, so the canvas starts as (30,20,10,200). *)
Definition example_file : mfile :=
  {| m_w := 3; m_h := 2; m_alpha := true; m_bg_stored := [10; 20; 30; 200];
     m_frames := [
       {| mf_xh := 0; mf_yh := 0; mf_wm1 := 1; mf_hm1 := 0; mf_duration := 70; mf_flags := 3; mf_has_alpha := true;
          mf_data := [200; 100; 50; 255; 1; 2; 3; 4] |};
       {| mf_xh := 1; mf_yh := 0; mf_wm1 := 0; mf_hm1 := 0; mf_duration := 80; mf_flags := 0; mf_has_alpha := true;
          mf_data := [90; 80; 70; 128] |};
       {| mf_xh := 0; mf_yh := 0; mf_wm1 := 0; mf_hm1 := 1; mf_duration := 90; mf_flags := 2; mf_has_alpha := false;
          mf_data := [11; 22; 33; 44; 55; 66] |} ] |}.

Example read_frame_spec_instance :
  valid_file example_file /\
  play example_file (repeat 238 24) =
  [ (Ok 70, [200;100;50;255; 1;2;3;4; 30;20;10;200;   30;20;10;200; 30;20;10;200; 30;20;10;200]);
    (Ok 80, [30;20;10;200; 30;20;10;200; 63;53;43;228;   30;20;10;200; 30;20;10;200; 30;20;10;200]);
    (Ok 90, [11;22;33;255; 30;20;10;200; 63;53;43;228;   44;55;66;255; 30;20;10;200; 30;20;10;200]) ].
Proof.
  split.
  - unfold valid_file, example_file. cbn [m_w m_h m_bg_stored m_frames length].
    repeat split; try reflexivity; try discriminate.
    repeat constructor; cbn; try discriminate; reflexivity.
  - vm_compute. reflexivity.
Qed.

(* ---------------- animation frames decoded from the file bytes (Model/ReadImage.v read_frame = find_anmf + frame_body + Model.Anim.read_frame_core) ---------------- *)
Module G.
  Import Lib.Res Lib.ZBits Spec.Container Spec.YUV Model.ReadImage Proofs.ReadImage_base Proofs.ReadImage_container Proofs.ReadImage_vp8l Proofs.ReadImage_lossless Proofs.ReadImage_lossy Proofs.ReadImage_stillspec Proofs.ReadImage_wrap Proofs.ReadImage_safe Proofs.ReadImage_frame Proofs.ReadImage_anim.

  (* FROM THE FILE BYTES: for every well-formed animated container (chunks of any kind before, between and after the ANMF chunks -- defect F20 repaired) whose frame payloads decode (VP8L: the specification pixels under the two C01 format conditions; VP8 / ALPH+VP8: under the vp8 hypotheses), repeated read_frame delivers for frame k the duration and the rendering of the container-specification canvas fold, and then NoMoreFrames *)
  Theorem read_frame_from_file_spec :
    forall (vp8 : list Z -> res (Z * Z * list Z * list Z * list Z)) (c : container) (ms : list Anim.mframe),
           wf c = true ->
           anim c = true ->
           Forall2 (frame_decodes vp8 (fst (dims c)) (snd (dims c))) (frames c) ms ->
           exists dec : Container_bytes.M.decoder,
             Container_bytes.M.new (serialize c) = Ok dec /\
             Container_bytes.M.num_frames dec = Z.of_nat (length ms) /\
             (forall buf : list Z,
              len buf = buffer_size c ->
              (forall k : nat,
               (k < length ms)%nat ->
               nth_error (play vp8 dec (S (length ms)) buf) k =
               Some
                 (Ok (Anim.duration (Anim_play.anim_of (anim_file c ms)) k),
                  Anim.render (alpha c) (fst (dims c)) (snd (dims c))
                    (Anim.frames_upto AlphaBlend.do_alpha_blending (Anim_play.anim_of (anim_file c ms)) k))) /\
              (exists b : list Z, nth_error (play vp8 dec (S (length ms)) buf) (length ms) = Some (Err ENoMoreFrames, b))).
  Proof. intros vp8 c ms Hwf Ha HF. exact (ReadImage_anim.read_frame_from_file_spec vp8 c ms Hwf Ha HF (Container_fits.wf_canvas_fits c Hwf)). Qed.

  (* the byte-level play = the frame-list play of Model/Anim.v, so read_frame_spec / play_is_shown / history_independent (C07) apply to frames decoded from the file *)
  Theorem play_from_file :
    forall (vp8 : list Z -> res (Z * Z * list Z * list Z * list Z)) (c : container) (ms : list Anim.mframe),
           wf c = true ->
           anim c = true ->
           Forall2 (frame_decodes vp8 (fst (dims c)) (snd (dims c))) (frames c) ms ->
           Anim_play.valid_file (anim_file c ms) /\
           (exists dec : Container_bytes.M.decoder,
              Container_bytes.M.new (serialize c) = Ok dec /\
              (forall buf : list Z,
               len buf = buffer_size c ->
               play vp8 dec (length ms) buf = Anim.play (anim_file c ms) buf /\
               play vp8 dec (S (length ms)) buf =
               Anim.play (anim_file c ms) buf ++ [(Err ENoMoreFrames, last (map snd (Anim.play (anim_file c ms) buf)) buf)])).
  Proof. intros vp8 c ms Hwf Ha HF. exact (ReadImage_anim.play_from_file vp8 c ms Hwf Ha HF (Container_fits.wf_canvas_fits c Hwf)). Qed.

End G.

(* ---------------- animations with lossy frames, frame decoder instantiated (C06) ---------------- *)
Module GC.
  Import Spec.Container Spec.YUV Model.ReadImage Proofs.ReadImage_base Proofs.ReadImage_container Proofs.ReadImage_lossy Proofs.ReadImage_frame Proofs.ReadImage_anim
    Proofs.VP8_decode_main Proofs.VP8_decode_readimage.

  (* frame_decodes_spec = ReadImage_anim.frame_decodes with `vp8 payload = Ok planes /\ planes_ok` replaced by
     `Spec.VP8.decode payload = Some planes /\ decode_hyps_b payload = true` *)
  Theorem read_frame_from_file_spec_closed :
    forall (c : container) (ms : list Anim.mframe),
           wf c = true -> anim c = true ->
           Forall2 (frame_decodes_spec (fst (dims c)) (snd (dims c))) (frames c) ms ->
           exists dec : Container_bytes.M.decoder,
             Container_bytes.M.new (serialize c) = Ok dec /\
             Container_bytes.M.num_frames dec = Z.of_nat (length ms) /\
             (forall buf : list Z,
              len buf = buffer_size c ->
              (forall k : nat,
               (k < length ms)%nat ->
               nth_error (play Vp8Decode.decode_frame dec (S (length ms)) buf) k =
               Some
                 (Ok (Spec.Anim.duration (Anim_play.anim_of (anim_file c ms)) k),
                  Spec.Anim.render (alpha c) (fst (dims c)) (snd (dims c))
                    (Spec.Anim.frames_upto AlphaBlend.do_alpha_blending (Anim_play.anim_of (anim_file c ms)) k))) /\
              (exists b : list Z, nth_error (play Vp8Decode.decode_frame dec (S (length ms)) buf) (length ms) = Some (Err ENoMoreFrames, b))).
  Proof. intros c ms Hwf Ha HF. exact (VP8_decode_readimage.read_frame_from_file_spec_closed c ms Hwf Ha HF (Container_fits.wf_canvas_fits c Hwf)). Qed.

  Theorem play_from_file_closed :
    forall (c : container) (ms : list Anim.mframe),
           wf c = true -> anim c = true ->
           Forall2 (frame_decodes_spec (fst (dims c)) (snd (dims c))) (frames c) ms ->
           Anim_play.valid_file (anim_file c ms) /\
           (exists dec : Container_bytes.M.decoder,
              Container_bytes.M.new (serialize c) = Ok dec /\
              (forall buf : list Z,
               len buf = buffer_size c ->
               play Vp8Decode.decode_frame dec (length ms) buf = Anim.play (anim_file c ms) buf /\
               play Vp8Decode.decode_frame dec (S (length ms)) buf =
               Anim.play (anim_file c ms) buf ++ [(Err ENoMoreFrames, last (map snd (Anim.play (anim_file c ms) buf)) buf)])).
  Proof. intros c ms Hwf Ha HF. exact (VP8_decode_readimage.play_from_file_closed c ms Hwf Ha HF (Container_fits.wf_canvas_fits c Hwf)). Qed.
End GC.
