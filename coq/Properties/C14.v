(* C14 -- Encoder prefix codes are complete, length-limited and canonical.
   Property theorems only: each is closed by `exact <lemma>`.
   Object: Model.Encoder.build_huffman_tree = hand model of encoder.rs::build_huffman_tree (BinaryHeap modelled exactly in
   Model/EncoderHeap.v; the unstable sort is the parameter `sorter`, constrained only to return a permutation), tied to
   the code by the correspondence check through hook verif::build_huffman_tree; and Spec.PrefixCode.c14_ok, the certified
   checker the oracle applies to the implementation's own output. *)
From Coq Require Import ZArith List.
From WebP Require Import Lib.Res Model.EncoderHeap Model.Encoder Spec.PrefixCode
  Proofs.Huffman_lists Proofs.Huffman_checker Proofs.Huffman_canon Proofs.Huffman_ok Proofs.Huffman_depth.
Import ListNotations.
Open Scope Z_scope.

(* the boolean checker decides exactly the property (lengths 1..L for used symbols, 0 for unused, Kraft equality,
   bit-reversed canonical code words, flag semantics below two used symbols) *)
Theorem checker_decides_property : forall freqs L flag lens codes,
  c14_ok freqs L flag lens codes = true <-> c14_prop freqs L flag lens codes.
Proof. exact c14_ok_spec. Qed.

(* every histogram with at least two used symbols (non-negative counts summing to less than 2^32, as u32 counters of at
   most 2 * 16384^2 pixels do), every limit 1..15 the alphabet fits into (n <= 2^L), every tie-break of the unstable sort:
   the model returns Ok -- no overflow, no index, no underflow of `i` or `counts[L]`, the final assert_eq! holds -- and the
   result satisfies the property *)
Theorem huffman_ok : forall sorter freqs L,
  sorter_ok sorter -> 1 <= L <= 15 ->
  Forall (fun f => 0 <= f) freqs -> zsum freqs < 2 ^ 32 -> zlen freqs <= 2 ^ L -> 2 <= used freqs ->
  exists lens codes, build_huffman_tree sorter freqs L = Ok (true, lens, codes) /\ c14_prop freqs L true lens codes.
Proof. exact huffman_ok_full. Qed.

(* the three situations in which encoder.rs calls build_huffman_tree: limit 15 on 256 / 280 symbols, limit 7 on 16 *)
Theorem huffman_ok_encoder : forall sorter freqs L,
  sorter_ok sorter -> Forall (fun f => 0 <= f) freqs -> zsum freqs < 2 ^ 32 -> 2 <= used freqs ->
  (L = 15 /\ (zlen freqs = 256 \/ zlen freqs = 280)) \/ (L = 7 /\ zlen freqs = 16) ->
  exists lens codes, build_huffman_tree sorter freqs L = Ok (true, lens, codes) /\ c14_prop freqs L true lens codes.
Proof. exact Huffman_depth.huffman_ok_encoder. Qed.

(* `depth as u8` loses nothing: the heap loop builds a Huffman tree (the heap is a min-heap on the frequency, pop returns
   a minimum), a subtree of height k weighs at least Fibonacci(k+2), so no leaf is deeper than 45 *)
Theorem depth_fits_u8 : forall freqs,
  zlen freqs <= 32768 -> Forall (fun f => 0 <= f) freqs -> zsum freqs < 2 ^ 32 -> depth_fits freqs.
Proof. exact depth_fits_all. Qed.

(* fewer than two used symbols: signalled, arrays zeroed, so that a single-symbol code is written instead *)
Theorem huffman_few : forall sorter freqs L, used freqs <= 1 ->
  build_huffman_tree sorter freqs L = Ok (false, zeros (length freqs), zeros (length freqs))
  /\ c14_prop freqs L false (zeros (length freqs)) (zeros (length freqs)).
Proof. exact Huffman_ok.huffman_few. Qed.

(* the code words are the canonical ones whenever the lengths are complete: the final assert_eq! cannot fire *)
Theorem codes_canonical : forall lens L, 1 <= L <= 15 -> Forall (fun l => 0 <= l <= L) lens -> kraft lens L = 2 ^ L ->
  assign_codes lens L = Ok (stream_codes lens).
Proof. exact assign_codes_ok. Qed.

(* the oracle's default tie-break is admissible *)
Theorem stable_sorter_admissible : sorter_ok stable_sorter.
Proof. exact stable_sorter_ok. Qed.

(* non-vacuity: both limits the encoder uses, on histograms that need the limit *)
Example limit_7_instance :
  build_huffman_tree stable_sorter [1; 1; 2; 3; 5; 8; 13; 21; 34; 55; 0; 0; 0; 0; 0; 0] 7
  = Ok (true, [7; 7; 7; 7; 6; 6; 4; 3; 2; 1; 0; 0; 0; 0; 0; 0], [31; 95; 63; 127; 15; 47; 7; 3; 1; 0; 0; 0; 0; 0; 0; 0]).
Proof. exact huffman_ok_instance_7. Qed.
Example limit_15_instance :
  build_huffman_tree stable_sorter [1; 1; 2; 3; 5; 8; 13; 21; 34; 55; 89; 144; 233; 377; 610; 987; 1597; 2584; 0; 0] 15
  = Ok (true, [15; 15; 15; 15; 14; 14; 12; 11; 10; 9; 8; 7; 6; 5; 4; 3; 2; 1; 0; 0],
        [8191; 24575; 16383; 32767; 4095; 12287; 2047; 1023; 511; 255; 127; 63; 31; 15; 7; 3; 1; 0; 0; 0]).
Proof. exact huffman_ok_instance_15. Qed.
