(* C12 -- Alpha blending is exact at the extremes and tightly bounded elsewhere.
   Property theorems only: each is closed by `exact <lemma>` and followed by Print Assumptions.
   Object: Model.AlphaBlend.do_alpha_blending = the [u8;4] wrapper (hand model, correspondence-checked) around
   Gen.Kernels.blend_pixel_nonpremult, which tools/rs2v.py regenerates from /repo/src/alpha_blending.rs on every run. *)
From Coq Require Import ZArith List.
From WebP Require Import Gen.Kernels Lib.ZBits Spec.Blend Model.AlphaBlend Proofs.C12_blend.
Open Scope Z_scope.

(* source alpha 0: the destination is returned unchanged *)
Theorem blend_transparent : forall s d, px_ok s -> px_ok d -> px_a s = 0 -> do_alpha_blending s d = d.
Proof. exact blend_transparent_lemma. Qed.

(* 0 < source alpha < 255: result alpha within 1 of the exact alpha; every colour channel within 2 code values of the
   exact non-premultiplied "over" value when weighted by result_alpha/255, and between min(src,dst)-1 and max(src,dst)+1 *)
Theorem blend_mid : forall s d k, px_ok s -> px_ok d -> 0 < px_a s < 255 -> (k < 3)%nat ->
  let o := do_alpha_blending s d in
  alpha_close (px_a s) (px_a d) (px_a o)
  /\ chan_close (chan_of s k) (px_a s) (chan_of d k) (px_a d) (chan_of o k) (px_a o)
  /\ chan_range (chan_of s k) (chan_of d k) (chan_of o k).
Proof. exact blend_mid_lemma. Qed.

(* source alpha 255: KNOWN FINDING F14 (known_findings.txt).  The property demands `do_alpha_blending s d = s`; the
   tree returns every non-zero colour channel one lower.  The statement the property makes is refuted, and the
   exact behaviour on the known class is pinned so that any *other* deviation is still a violation. *)
Theorem blend_opaque_refuted : exists s d, px_ok s /\ px_ok d /\ px_a s = 255 /\ do_alpha_blending s d <> s.
Proof. exact blend_opaque_refuted_lemma. Qed.

Theorem blend_opaque_known_class : forall s d, px_ok s -> px_ok d -> px_a s = 255 ->
  let dec c := if c =? 0 then 0 else c - 1 in
  do_alpha_blending s d = (dec (px_r s), dec (px_g s), dec (px_b s), 255).
Proof. exact blend_opaque_known_lemma. Qed.

(* no u32 overflow, no failing debug_assert!, no over-wide shift, no division by zero in a checked build *)
Theorem blend_no_overflow : forall s d, px_ok s -> px_ok d -> do_alpha_blending_ok s d = true.
Proof. exact blend_no_overflow_lemma. Qed.

(* non-vacuity: the hypotheses are met by concrete pixels, and the bounds are not trivially slack *)
Example blend_mid_instance :
  px_ok (10, 200, 30, 128) /\ px_ok (250, 5, 60, 77) /\ do_alpha_blending (10, 200, 30, 128) (250, 5, 60, 77) = (64, 155, 36, 166).
Proof. unfold px_ok, byte. repeat split; try (vm_compute; congruence); vm_compute; reflexivity. Qed.
