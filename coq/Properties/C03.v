(* C03 -- No byte string makes decoding panic, overflow, hang or index out of bounds.
   (FULL at model level for every decode path: container, lossless decoder, VP8 key-frame decoder (module VS: EVERY byte string), read_image / read_frame glue.)
   Safety theorems (no Panic outcome of the model = no panic / checked-arithmetic overflow / out-of-bounds index of the
   Rust code it mirrors) for the components modelled so far; the remaining components are covered by the direct search
   on the implementation only (harness c03: structured mutation of valid files, full API sequence, checked build,
   watchdog).  The evidence file lists exactly which functions are under a theorem. *)
From Coq Require Import ZArith List.
From WebP Require Import Gen.Kernels Lib.ZBits Lib.Res Spec.YUV Model.Yuv Spec.Alpha Model.Alpha Model.AlphaBlend
  Proofs.C12_blend Proofs.C13_yuv Proofs.Alpha_unfilter.
From WebP Require Spec.Container Proofs.Container_bytes Proofs.Container_safety Model.Container.
From WebP Require Model.ArithDec Proofs.C15_main Proofs.C15_ops Proofs.VP8L_kernels Proofs.VP8_kernels.
From WebP Require Import Lib.Arr Proofs.VP8_arraykernels_aux Proofs.VP8_arraykernels.
From WebP Require Model.LosslessLib Model.BitReader Model.Huffman Proofs.Lossless_BitReader Proofs.Lossless_HuffmanSafe Proofs.Lossless_HuffmanRead
  Model.Lossless Proofs.Lossless_PixelSafe.
From WebP Require Model.LosslessTransform Proofs.C04_bits Spec.PrefixCode
  Proofs.C01T_repr Proofs.C01T_green Proofs.C01T_color Proofs.C01T_index Proofs.C01T_palette Proofs.C01T_pred_spec Proofs.C01T_predictor Proofs.C01T_frame
  Proofs.C01_stream Proofs.C01_symbols Proofs.C01_codes Proofs.C01_pixlib Proofs.C01_pixels Proofs.C01_groups Proofs.C01_gspec Proofs.C01_final Proofs.C01_top.
From WebP Require Spec.Container Model.ReadImage Proofs.Container_bytes Proofs.C01_top Proofs.ReadImage_base Proofs.ReadImage_container Proofs.ReadImage_vp8l Proofs.ReadImage_lossless Proofs.ReadImage_lossy Proofs.ReadImage_stillspec Proofs.ReadImage_wrap Proofs.ReadImage_safe Proofs.ReadImage_frame Proofs.ReadImage_anim.
From WebP Require Model.Vp8Parse Model.Vp8Frame Model.Vp8Recon Model.Vp8Decode Proofs.C15_model Proofs.VP8_parse_coeffs Proofs.VP8_parse_residual
  Proofs.VP8_frame_loop Proofs.VP8_decode_shape Proofs.VP8_safe_defs Proofs.VP8_safe_inv Proofs.VP8_safe_residual Proofs.VP8_safe_loop
  Proofs.VP8_safe_header Proofs.VP8_safe_recon_filter Proofs.VP8_safe_recon_rel Proofs.VP8_safe_recon Proofs.VP8_safe_readimage
  Proofs.VP8_safe_main Proofs.VP8_safe_interleave Proofs.VP8_safe_example.
Import ListNotations.
Open Scope Z_scope.

(* alpha_blending.rs: u32 products, shifts, division, both debug_assert!s *)
Theorem blend_safe : forall s d, px_ok s -> px_ok d -> do_alpha_blending_ok s d = true.
Proof. exact blend_no_overflow_lemma. Qed.

(* vp8.rs fill_rgb_row / fill_rgba_row per-pixel arithmetic: i32/u32 overflow, shifts *)
Theorem yuv_kernels_safe : forall y0 y1 u v, byte y0 -> byte y1 -> byte u -> byte v ->
  rgb_pair_ok y0 y1 u v = true /\ rgb_tail_ok y0 u v = true /\ rgba_tail_ok y0 u v = true.
Proof.
  intros y0 y1 u v H0 H1 Hu Hv. split; [exact (rgb_pair_ok_lemma y0 y1 u v H0 H1 Hu Hv)|].
  split; [exact (rgb_tail_ok_lemma y0 u v H0 Hu Hv) | exact (rgba_tail_ok_lemma y0 u v H0 Hu Hv)].
Qed.

(* vp8.rs Frame::fill_rgb / fill_rgba: the plane slices never go out of range on a consistent frame *)
Theorem fill_planes_safe : forall w h yp up vp buf3 buf4, (1 <= w)%nat -> length yp = (w * h)%nat ->
  length up = (((w + 1) / 2) * ((h + 1) / 2))%nat -> length vp = (((w + 1) / 2) * ((h + 1) / 2))%nat ->
  Forall byte yp -> Forall byte up -> Forall byte vp -> length buf3 = (w * h * 3)%nat -> length buf4 = (w * h * 4)%nat ->
  is_ok (fill_rgb w yp up vp buf3) = true /\ is_ok (fill_rgba w yp up vp buf4) = true.
Proof.
  intros w h yp up vp b3 b4 Hw Hy Hu Hv Hyb Hub Hvb H3 H4.
  rewrite (fill_rgb_spec_lemma w h yp up vp b3) by assumption.
  rewrite (fill_rgba_spec_lemma w h yp up vp b4) by assumption. split; reflexivity.
Qed.

(* decoder.rs alpha loop + extended.rs get_alpha_predictor: every index is in range on a buffer of 4 bytes per alpha value *)
Theorem alpha_loop_safe : forall f w data buf, (1 <= w)%nat -> length buf = (4 * length data)%nat ->
  is_ok (apply_alpha f w data buf) = true.
Proof.
  intros f w data buf Hw Hl. destruct (apply_alpha_spec_lemma f w data buf Hw Hl) as (b & E & _). rewrite E. reflexivity.
Qed.

(* decoder.rs container layer (WebPDecoder::new = read_data with its u64 position arithmetic, chunk scan, ANMF peeking, ANIM parse;
   the metadata getters with the memory limit): for EVERY byte string no panic and no run-away loop *)
Theorem container_new_safe : forall bytes,
  Spec.Container.all_bytes bytes = true -> Spec.Container.len bytes <= 9223372036854775807 ->
  (forall p, Model.Container.new bytes <> Panic p) /\ Model.Container.new bytes <> OutOfFuel.
Proof. exact Proofs.Container_safety.new_no_panic. Qed.

(* vp8_arithmetic_decoder.rs: for every byte string and every request script, no debug_assert fires, the u64 value never
   overflows, no index is out of range *)
Theorem arith_decoder_safe : forall trees data ops,
  Forall byte data -> Z.of_nat (length data) < 2 ^ 63 -> Forall (Proofs.C15_main.op_ok trees) ops ->
  exists outs eof, Model.ArithDec.run trees data ops = Ok (outs, eof) /\ length outs = length ops.
Proof. exact Proofs.C15_main.arith_no_panic_lemma. Qed.

(* lossless_transform.rs scalar kernels and lossless.rs subsample_size: no i16 / u16 / u32 overflow *)
Theorem vp8l_kernels_safe : forall a b c, byte a -> byte b -> byte c ->
  average2_ok a b = true /\ clamp_add_subtract_full_ok a b c = true /\ clamp_add_subtract_half_ok a b = true.
Proof.
  intros a b c Ha Hb Hc. split; [exact (proj2 (Proofs.VP8L_kernels.average2_spec a b Ha Hb))|].
  split; [exact (proj2 (Proofs.VP8L_kernels.clamp_full_spec a b c Ha Hb Hc)) | exact (proj2 (Proofs.VP8L_kernels.clamp_half_spec a b Ha Hb))].
Qed.

(* loop_filter.rs edge kernels: no i32 overflow, no failing cast, at any edge position whose 8 samples are bytes, for any thresholds;
   transform.rs: idct4x4 / iwht4x4 cannot overflow for blocks within 2^29 / 2^27 - 1 *)
Theorem loop_filter_kernels_safe : forall hev_threshold interior_limit edge_limit step a i, taps_bytes a i step ->
  app8 (lf_simple_segment_ok edge_limit) false (taps_of a i step) = true
  /\ app8 (lf_subblock_filter_ok hev_threshold interior_limit edge_limit) false (taps_of a i step) = true
  /\ app8 (lf_macroblock_filter_ok hev_threshold interior_limit edge_limit) false (taps_of a i step) = true.
Proof.
  intros h il el step a i H. split; [exact (simple_segment_no_panic el step a i H)|].
  split; [exact (subblock_filter_no_panic h il el step a i H) | exact (macroblock_filter_no_panic h il el step a i H)].
Qed.

Theorem transforms_safe : forall b0 b1 b2 b3 b4 b5 b6 b7 b8 b9 b10 b11 b12 b13 b14 b15,
  (Forall (within dct_bound) [b0; b1; b2; b3; b4; b5; b6; b7; b8; b9; b10; b11; b12; b13; b14; b15] ->
     idct4x4_ok b0 b1 b2 b3 b4 b5 b6 b7 b8 b9 b10 b11 b12 b13 b14 b15 = true)
  /\ (Forall (within wht_bound) [b0; b1; b2; b3; b4; b5; b6; b7; b8; b9; b10; b11; b12; b13; b14; b15] ->
     iwht4x4_ok b0 b1 b2 b3 b4 b5 b6 b7 b8 b9 b10 b11 b12 b13 b14 b15 = true).
Proof.
  intros. split; intros H.
  - exact (proj2 (idct4x4_refines b0 b1 b2 b3 b4 b5 b6 b7 b8 b9 b10 b11 b12 b13 b14 b15 H)).
  - exact (proj2 (iwht4x4_refines b0 b1 b2 b3 b4 b5 b6 b7 b8 b9 b10 b11 b12 b13 b14 b15 H)).
Qed.

(* ---------------- lossless decoder components (Model/BitReader.v, Model/Huffman.v; tied by the c01model correspondence) ---------------- *)
Module LL.
  Import Lib.Res Model.LosslessLib Model.BitReader Model.Huffman Model.Lossless Proofs.Lossless_BitReader Proofs.Lossless_HuffmanSafe
    Proofs.Lossless_HuffmanRead Proofs.Lossless_PixelSafe.

  (* BitReader::fill on every reachable reader state: never an error, never a panic *)
  Theorem bit_reader_fill_safe : forall s r, R s r -> exists r', fill r = Ok r'.
  Proof. exact fill_no_panic. Qed.

  (* read_bits::<T>(num) with num <= bits of T and num <= 32 (every call site): a value or BitStreamError *)
  Theorem bit_reader_read_bits_safe : forall s r tb num, R s r -> 0 <= num <= 32 -> num <= tb ->
    (exists v r', read_bits r tb num = Ok (v, r') /\ v = s mod 2 ^ num /\ R (Z.shiftr s num) r') \/
    read_bits r tb num = Err EBitStreamError.
  Proof. exact read_bits_no_panic. Qed.

  (* HuffmanTree::build_implicit on every vector of code lengths 0..15 (what read_huffman_code_lengths can produce) of at most
     5957 symbols (real alphabets: at most 280 + 2^11 = 2328): a tree or HuffmanError -- u16 histogram, u32 Kraft sum (F16
     repaired), table and tree indices, both unwraps and the debug_assert on table entries included *)
  Theorem huffman_build_safe : forall lens, lens_ok lens -> Z.of_nat (length lens) <= 5957 ->
    forall p, build_implicit lens <> Panic p.
  Proof. exact build_implicit_no_panic. Qed.

  (* read_symbol / peek_symbol on any tree build_implicit returns, with ANY reservoir contents (also garbage above nbits):
     a symbol or BitStreamError -- no table or tree index out of range, no `- 1` underflow on an empty slot (the table is
     complete), the tree walk ends (depth bound) *)
  Theorem huffman_read_symbol_safe : forall lens t r,
    lens_ok lens -> Z.of_nat (length lens) <= 5957 -> build_implicit lens = Ok t -> 0 <= buffer r -> 0 <= nbits r ->
    (exists sym r', read_symbol t r = Ok (sym, r')) \/ read_symbol t r = Err EBitStreamError.
  Proof. exact read_symbol_total. Qed.

  Theorem huffman_peek_symbol_safe : forall lens t r,
    lens_ok lens -> Z.of_nat (length lens) <= 5957 -> build_implicit lens = Ok t -> 0 <= buffer r ->
    exists o, peek_symbol t r = Ok o.
  Proof. exact peek_symbol_total. Qed.

  (* LosslessDecoder::decode_image_data (the pixel loop: literals, back-references with the copy_within trick, colour-cache hits,
     block / group switching, the all-single-symbol fast path) under the header invariants the decoder establishes before it
     (five trees per group that the decoder can build, green symbols < 280 + cache size, distance symbols < 40, entropy image
     entries name existing groups, cache of 2^bits entries): never panics -- every buffer, table and cache index in range, no
     arithmetic overflow -- and terminates within its fuel *)
  Theorem pixel_loop_safe : forall w hgt h cn br data s,
    1 <= w <= 65535 -> 1 <= hgt <= 65536 -> 0 <= cn -> info_ok h w hgt (280 + cn) -> cache_inv (h_cache h) cn ->
    R s br -> zlen data = 4 * (w * hgt) ->
    match decode_image_data br w hgt h data with Panic _ => False | OutOfFuel => False | _ => True end.
  Proof. exact decode_image_data_safe. Qed.
End LL.

(* ---------------- the whole lossless decoder (LosslessDecoder::decode_frame as modelled in Model/Lossless.v) ---------------- *)
(* RS.frame_safe / RS.frame_implicit_safe: for EVERY byte payload, every fill_buf schedule and every buffer of the right size the model
   of decode_frame returns Ok or Err -- never a panic (index, slice, overflow, unwrap, assert, shift) and never runs out of its fuel;
   RS.frame_rejects_invalid: everything the specification rejects is an Err.  module TS: the four inverse transforms one by one. *)
Module RS.
  Import Lib.Res Lib.Arr Lib.ZBits Spec.PrefixCode Model.LosslessLib Model.BitReader Model.Huffman Model.Lossless
    Proofs.Lossless_BitReader Proofs.Lossless_HuffmanSafe Proofs.Lossless_PixelSafe Proofs.C04_bits
    Proofs.C01_stream Proofs.C01_symbols Proofs.C01_codes Proofs.C01_pixlib Proofs.C01_pixels Proofs.C01_groups
    Proofs.C01_gspec Proofs.C01_final Proofs.C01_top.
  Theorem header_establishes_pixel_invariant : forall im h w hgt, info_rel im h w hgt ->
    info_ok h w hgt (280 + V.cache_size_of (V.cache_bits im)).
  Proof. exact info_rel_ok. Qed.

  Theorem entropy_decoder_safe : forall br s xs ys (argb : bool) data,
    rel br s -> 1 <= xs <= 16384 -> 1 <= ys <= 16384 -> zlen data = 4 * (xs * ys) ->
    match decode_image_stream STREAM_LEVELS br xs ys argb data with Panic _ => False | OutOfFuel => False | _ => True end.
  Proof. exact decode_image_stream_no_panic. Qed.

  Theorem frame_safe : forall data sched W h buf, Forall byte data -> zlen buf = 4 * (W * h) ->
    (forall p, decode_frame_arr data sched W h false buf <> Panic p) /\ decode_frame_arr data sched W h false buf <> OutOfFuel.
  Proof. exact decode_frame_no_panic. Qed.

  Theorem frame_implicit_safe : forall data sched W h buf, Forall byte data -> zlen buf = 4 * (W * h) ->
    1 <= W <= 16384 -> 1 <= h <= 16384 ->
    (forall p, decode_frame_arr data sched W h true buf <> Panic p) /\ decode_frame_arr data sched W h true buf <> OutOfFuel.
  Proof. exact decode_frame_implicit_no_panic. Qed.

  Theorem frame_rejects_invalid : forall data sched W h buf, Forall byte data -> zlen buf = 4 * (W * h) ->
    V.decode data = None -> exists e, decode_frame_arr data sched W h false buf = Err e.
  Proof. exact decode_frame_rejects. Qed.
End RS.

Module TS.
  Import Lib.Res Lib.Arr Lib.ZBits Model.LosslessLib Model.LosslessTransform Model.Lossless
    Proofs.C01T_repr Proofs.C01T_green Proofs.C01T_color Proofs.C01T_index Proofs.C01T_palette
    Proofs.C01T_pred_spec Proofs.C01T_predictor Proofs.C01T_frame.
  Theorem subtract_green_safe : forall img p, apply_subtract_green_transform img <> Panic p.
  Proof. exact subtract_green_no_panic. Qed.

  Theorem color_transform_safe : forall bytes px tdata el w h bits nel,
    1 <= w <= 16384 -> 0 <= h -> 0 <= bits <= 9 -> repr bytes px (w * h) -> zlen bytes = 4 * (w * h) -> repr tdata el nel ->
    V.DIV_ROUND_UP w (2 ^ bits) * V.DIV_ROUND_UP h (2 ^ bits) <= nel ->
    forall p, apply_color_transform bytes w bits tdata <> Panic p.
  Proof. exact color_transform_no_panic. Qed.

  Theorem color_indexing_safe : forall bytes px tdata table w h ts,
    1 <= w -> 0 <= h -> 1 <= ts <= 256 ->
    repr bytes px (V.DIV_ROUND_UP w (2 ^ V.width_bits_of ts) * h) -> zlen bytes = 4 * (w * h) ->
    repr tdata table ts -> zlen tdata = 4 * ts ->
    forall p, apply_color_indexing_transform bytes w h ts tdata <> Panic p.
  Proof. exact color_indexing_no_panic. Qed.

  Theorem color_table_safe : forall cm deltas n, repr cm deltas n -> zlen cm = 4 * n -> 1 <= n ->
    forall p, adjust_color_map cm <> Panic p.
  Proof. exact adjust_color_map_no_panic. Qed.

  Theorem predictor_transform_safe : forall bytes px pdata modes w h bits nm,
    1 <= w <= 16384 -> 1 <= h -> 0 <= bits <= 9 -> repr bytes px (w * h) -> zlen bytes = 4 * (w * h) -> repr pdata modes nm ->
    V.DIV_ROUND_UP w (2 ^ bits) * V.DIV_ROUND_UP h (2 ^ bits) <= nm ->
    forall p, apply_predictor_transform bytes w h bits pdata <> Panic p.
  Proof. exact predictor_transform_no_panic. Qed.

End TS.

(* ---------------- read_image / read_frame glue (Model/ReadImage.v) ---------------- *)
Module RI.
  Import Lib.Res Lib.ZBits Spec.Container Spec.YUV Model.ReadImage Proofs.ReadImage_base Proofs.ReadImage_container Proofs.ReadImage_vp8l Proofs.ReadImage_lossless Proofs.ReadImage_lossy Proofs.ReadImage_stillspec Proofs.ReadImage_wrap Proofs.ReadImage_safe Proofs.ReadImage_frame Proofs.ReadImage_anim.

  (* read_image on a non-animated file: no panic for any file bytes and any buffer, given that the VP8 frame decoder does not panic *)
  Theorem read_image_no_panic :
    forall vp8 : list Z -> res (Z * Z * list Z * list Z * list Z),
           vp8_safe vp8 ->
           forall (file : list Z) (dec : Container_bytes.M.decoder) (buf : list Z),
           all_bytes file = true ->
           len file <= 9223372036854775807 ->
           Container_bytes.M.new file = Ok dec ->
           Container_bytes.M.is_animated dec = false -> Container_safety.safe (fst (read_image vp8 dec buf)).
  Proof. exact ReadImage_safe.read_image_no_panic. Qed.

  (* the ANMF header / size checks / three payload branches of read_frame: no panic for any file bytes *)
  Theorem decode_frame_payload_no_panic :
    forall vp8 : list Z -> res (Z * Z * list Z * list Z * list Z),
           vp8_safe vp8 ->
           forall (file : list Z) (dec : Container_bytes.M.decoder) (pos : Z),
           all_bytes file = true ->
           len file <= 9223372036854775807 ->
           Container_bytes.M.new file = Ok dec -> 0 <= pos -> Container_safety.safe (fst (decode_frame_payload vp8 dec pos)).
  Proof. exact ReadImage_safe.decode_frame_payload_no_panic. Qed.

End RI.

(* ---------------- the VP8 key-frame decoder (Model/Vp8Decode.v = Vp8Frame.parse_frame + Vp8Recon.decode_frame_planes) ----------------
   READY TO PASTE at the end of coq/Properties/C03.v (after `End RI.`).
   Extra Requires for the header of Properties/C03.v:
     From WebP Require Model.Vp8Parse Model.Vp8Frame Model.Vp8Recon Model.Vp8Decode Proofs.C15_model Proofs.VP8_parse_coeffs Proofs.VP8_parse_residual
       Proofs.VP8_frame_loop Proofs.VP8_decode_shape Proofs.VP8_safe_defs Proofs.VP8_safe_inv Proofs.VP8_safe_residual Proofs.VP8_safe_loop
       Proofs.VP8_safe_header Proofs.VP8_safe_recon_filter Proofs.VP8_safe_recon_rel Proofs.VP8_safe_recon Proofs.VP8_safe_readimage
       Proofs.VP8_safe_main Proofs.VP8_safe_interleave Proofs.VP8_safe_example.
   VS.vp8_decode_never_panics: for EVERY byte string shorter than 2^63 the model of Vp8Decoder::decode_frame returns Ok or Err -- no
   panic (index, slice, overflow of checked u8 / i16 / i32 / usize arithmetic, assert!, panic!("unknown token"), division by a zero
   partition count) and no fuel exhaustion; on Ok the planes have the announced sizes.  VS.read_image_never_panics /
   VS.read_frame_payload_never_panics: the glue theorems of module RI with the real frame decoder plugged in, no hypothesis about it left.
   VS.vp8_safe_refuted: the hypothesis `vp8_safe` of RI.read_image_no_panic is too strong for the real decoder (it demands width, height >= 1
   of every Ok frame; a header with width 0 is accepted and gives an empty 0 x 16 frame -- crate and model agree); the glue only needs
   vp8_safe_bytes (RI-style theorems VS.read_image_no_panic_bytes / VS.decode_frame_payload_no_panic_bytes). *)
Module VS.
  Import Lib.Res Lib.ZBits Model.ArithDec Model.Vp8Parse Model.Vp8Frame Model.Vp8Recon Proofs.C15_model Proofs.VP8_parse_base Proofs.VP8_parse_coeffs Proofs.VP8_parse_residual
    Proofs.VP8_frame_loop Proofs.VP8_decode_shape Proofs.ReadImage_lossy Proofs.ReadImage_safe
    Proofs.VP8_safe_defs Proofs.VP8_safe_inv Proofs.VP8_safe_residual Proofs.VP8_safe_loop Proofs.VP8_safe_header
    Proofs.VP8_safe_recon_filter Proofs.VP8_safe_recon_rel Proofs.VP8_safe_recon Proofs.VP8_safe_readimage Proofs.VP8_safe_main
    Proofs.VP8_safe_interleave Proofs.VP8_safe_example.

  (* ----- the theorem ----- *)
  Theorem vp8_decode_total : forall data, Forall byte data -> C15_model.len data < 2 ^ 63 ->
    (exists e, Vp8Decode.decode_frame data = Err e) \/
    exists w h yp up vp, Vp8Decode.decode_frame data = Ok (w, h, yp, up, vp) /\ frame_result_ok w h yp up vp.
  Proof. exact VP8_safe_main.vp8_decode_total. Qed.

  Theorem vp8_decode_never_panics : forall data, Forall byte data -> C15_model.len data < 2 ^ 63 ->
    (forall p, Vp8Decode.decode_frame data <> Panic p) /\ Vp8Decode.decode_frame data <> OutOfFuel.
  Proof. exact VP8_safe_main.vp8_decode_never_panics. Qed.

  Theorem vp8_decode_safe_bytes : vp8_safe_bytes Vp8Decode.decode_frame.
  Proof. exact VP8_safe_main.vp8_decode_safe_bytes. Qed.

  (* the stronger vp8_safe (1 <= width, height of every Ok frame; every integer list) is refuted by a width-0 header *)
  Theorem vp8_safe_refuted : ~ vp8_safe Vp8Decode.decode_frame.
  Proof. exact VP8_safe_main.vp8_safe_refuted. Qed.

  Theorem width0_decodes : Forall byte width0_payload /\ Vp8Decode.decode_frame width0_payload = Ok (0, 16, [], [], []).
  Proof. exact VP8_safe_main.width0_decodes. Qed.

  (* ----- the pieces: parsing half ----- *)
  (* Vp8Decoder::new + read_frame_header on every byte string: Err, or Ok with the loop invariant and in-range reconstruction fields *)
  Theorem read_frame_header_safe : forall data, Forall byte data -> C15_model.len data < 2 ^ 63 ->
    exists v0, Vp8_new data = Ok v0 /\
    ((exists e, read_frame_header v0 = Err e) \/ exists v, read_frame_header v0 = Ok v /\ vp8_inv v /\ rhdr_ok (rhdr_of_vp8 v)).
  Proof. exact VP8_safe_header.read_frame_header_safe. Qed.

  (* read_residual_data (read_coefficients, inverse WHT / DCT, context updates) from any well-formed state, any reader position *)
  Theorem read_residual_data_safe : forall (v : Vp8) (mb t : MacroBlock) (mbx p : Z) (d : Dec) (seg : Segment),
    (exists P, tables_ok P /\ token_nodes_of P = Ok (v_token_probs v)) ->
    0 <= mb_segmentid mb -> nth_error (v_segment v) (Z.to_nat (mb_segmentid mb)) = Some seg -> seg_q_ok seg ->
    0 <= p -> nth_error (v_partitions v) (Z.to_nat p) = Some d -> part_live d ->
    0 <= mbx -> nth_error (v_top v) (Z.to_nat mbx) = Some t ->
    length (mb_complexity t) = 9%nat -> length (mb_complexity (v_left v)) = 9%nat ->
    cx_ok (mb_complexity t) -> cx_ok (mb_complexity (v_left v)) ->
    rrd_post v p mbx t (read_residual_data v mb mbx p).
  Proof. exact VP8_safe_residual.read_residual_data_safe. Qed.

  Theorem parse_macroblock_safe : forall v mbx p, vp8_inv v -> 0 <= mbx < v_mbwidth v -> 0 <= p < v_num_partitions v ->
    (exists e, parse_macroblock v mbx p = Err e) \/
    exists mb blocks v', parse_macroblock v mbx p = Ok (mb, blocks, v') /\ vp8_inv v' /\ same_hdr v v' /\ mbout_ok (mb, blocks).
  Proof. exact VP8_safe_loop.parse_macroblock_safe. Qed.

  Theorem parse_frame_loop_safe : forall v, vp8_inv v -> 0 <= v_mbwidth v ->
    (exists e, parse_frame_loop v = Err e) \/
    exists recs v', parse_frame_loop v = Ok (recs, v') /\ same_hdr v v' /\ Forall mbout_ok recs /\
                    length recs = (Z.to_nat (v_mbheight v) * Z.to_nat (v_mbwidth v))%nat.
  Proof. exact VP8_safe_loop.parse_frame_loop_safe. Qed.

  (* ----- the pieces: reconstruction half ----- *)
  (* calculate_filter_parameters for every header state a stream can produce (no restriction on the segment-adjusted base) *)
  Theorem filter_parameters_kernel_safe : forall (frame : Z) (en d : bool) (sl r0 m0 luma sh : Z),
    0 <= frame <= 63 -> lf63 sl -> lf63 r0 -> lf63 m0 -> 0 <= sh <= 7 ->
    Gen.Kernels.calculate_filter_parameters_ok frame en d sl r0 m0 luma sh true = true /\
    exists level il hev,
      Gen.Kernels.calculate_filter_parameters frame en d sl r0 m0 luma sh true = [level; il; hev] /\
      0 <= level <= 63 /\ 1 <= il <= 63 /\ 0 <= hev <= 2.
  Proof. exact VP8_safe_recon_filter.cfp_safe. Qed.

  Theorem loop_filter_safe : forall h mx my mb b, fhdr_ok h -> seg_id_ok mb -> 0 <= mx < rh_mbwidth h -> 0 <= my < rh_mbheight h ->
    pst3 (rh_mbwidth h) (rh_mbheight h) b ->
    exists b', Vp8Recon.loop_filter h mx my mb b = Ok b' /\ pst3 (rh_mbwidth h) (rh_mbheight h) b'.
  Proof. exact VP8_safe_recon_filter.loop_filter_safe. Qed.

  Theorem reconstruct_safe : forall h recs, rhdr_ok h -> Forall rec_ok recs -> length recs = Z.to_nat (rh_mbwidth h * rh_mbheight h) ->
    exists s, Vp8Recon.reconstruct h recs = Ok s /\
      pst3 (rh_mbwidth h) (rh_mbheight h) (rs_ybuf s, rs_ubuf s, rs_vbuf s) /\ rs_macroblocks s = map fst recs.
  Proof. exact VP8_safe_recon_rel.reconstruct_safe. Qed.

  (* prediction + loop filter + crop for every in-range header (sizes 0..16383) and every list of records the parser can hand on *)
  Theorem decode_frame_planes_safe : forall (h : RHdr) (recs : list (MacroBlock * list Z)),
    rhdr_ok h -> Forall rec_ok recs -> length recs = Z.to_nat (rh_mbwidth h * rh_mbheight h) ->
    exists y u v, Vp8Recon.decode_frame_planes h recs = Ok (y, u, v) /\
                  (1 <= rh_width h -> 1 <= rh_height h -> planes_ok (rh_width h) (rh_height h) y u v).
  Proof. exact VP8_safe_recon.decode_frame_planes_safe. Qed.


  (* the order of the Rust text (parse one macroblock, reconstruct it, next) gives the same result as the Model's "all parsing, then all
     reconstruction", for EVERY payload: reconstructing a macroblock the parser has handed on never fails, so a parsing error in macroblock k
     is what both return.  decode_frame_il = the interleaved loop written with the same functions of Model.Vp8Frame / Model.Vp8Recon *)
  Theorem decode_interleaved_eq : forall data, Forall byte data -> C15_model.len data < 2 ^ 63 ->
    decode_frame_il data = Vp8Decode.decode_frame data.
  Proof. exact VP8_safe_interleave.decode_interleaved_eq. Qed.

  Theorem decode_interleaved_never_panics : forall data, Forall byte data -> C15_model.len data < 2 ^ 63 ->
    (forall p, decode_frame_il data <> Panic p) /\ decode_frame_il data <> OutOfFuel.
  Proof. exact VP8_safe_interleave.decode_interleaved_never_panics. Qed.

  Theorem recon_mb_safe : forall h mx my mb bl s, 0 <= mx < rh_mbwidth h -> 0 <= my < rh_mbheight h -> rs_inv h mx my s -> rec_ok (mb, bl) ->
    exists s', Vp8Recon.recon_mb h mx my mb bl s = Ok s' /\ rs_inv h (mx + 1) my s'.
  Proof. exact VP8_safe_interleave.recon_mb_safe. Qed.

  (* ----- the glue of module RI from the weaker (true) hypothesis, and closed ----- *)
  Theorem read_image_no_panic_bytes : forall vp8, vp8_safe_bytes vp8 ->
    forall (file : list Z) (dec : Container_bytes.M.decoder) (buf : list Z),
    Spec.Container.all_bytes file = true -> Spec.Container.len file <= 9223372036854775807 -> Container_bytes.M.new file = Ok dec ->
    Container_bytes.M.is_animated dec = false ->
    Container_safety.safe (fst (Model.ReadImage.read_image vp8 dec buf)).
  Proof. exact VP8_safe_readimage.read_image_no_panic_bytes. Qed.

  Theorem decode_frame_payload_no_panic_bytes : forall vp8, vp8_safe_bytes vp8 ->
    forall file dec pos,
    Spec.Container.all_bytes file = true -> Spec.Container.len file <= 9223372036854775807 -> Container_bytes.M.new file = Ok dec -> 0 <= pos ->
    Container_safety.safe (fst (Model.ReadImage.decode_frame_payload vp8 dec pos)).
  Proof. exact VP8_safe_readimage.decode_frame_payload_no_panic_bytes. Qed.

  Theorem read_image_never_panics : forall (file : list Z) (dec : Container_bytes.M.decoder) (buf : list Z),
    Spec.Container.all_bytes file = true -> Spec.Container.len file <= 9223372036854775807 ->
    Container_bytes.M.new file = Ok dec -> Container_bytes.M.is_animated dec = false ->
    Container_safety.safe (fst (Model.ReadImage.read_image Vp8Decode.decode_frame dec buf)).
  Proof. exact VP8_safe_main.read_image_never_panics. Qed.

  Theorem read_frame_payload_never_panics : forall (file : list Z) (dec : Container_bytes.M.decoder) (pos : Z),
    Spec.Container.all_bytes file = true -> Spec.Container.len file <= 9223372036854775807 ->
    Container_bytes.M.new file = Ok dec -> 0 <= pos ->
    Container_safety.safe (fst (Model.ReadImage.decode_frame_payload Vp8Decode.decode_frame dec pos)).
  Proof. exact VP8_safe_main.read_frame_payload_never_panics. Qed.

  (* non-vacuity: every outcome class occurs, on valid, truncated and garbage payloads (status 0 = Ok, else the error code) *)
  Example outcomes :
    outcome (Vp8Decode.decode_frame VP8_frame_main.ex_payload) = (0, 39, 2, 78, 20) /\
    outcome (Vp8Decode.decode_frame garbage_frame) = (0, 33, 17, 561, 153) /\
    outcome (Vp8Decode.decode_frame ([16; 1; 0; 157; 1; 42; 1; 0; 1; 0] ++ repeat 0 9)) = (0, 1, 1, 1, 1) /\
    outcome (Vp8Decode.decode_frame width0_payload) = (0, 0, 16, 0, 0) /\
    outcome (Vp8Decode.decode_frame (firstn 100 VP8_frame_main.ex_payload)) = (1, 0, 0, 0, 0) /\
    outcome (Vp8Decode.decode_frame []) = (1, 0, 0, 0, 0) /\
    outcome (Vp8Decode.decode_frame ([16; 1; 0; 157; 1; 43; 200; 0; 100; 0] ++ repeat 0 8 ++ repeat 90 50)) = (2, 0, 0, 0, 0) /\
    outcome (Vp8Decode.decode_frame ([16; 1; 0; 157; 1; 42; 200; 0; 100; 0] ++ [128] ++ repeat 0 7 ++ repeat 90 50)) = (3, 0, 0, 0, 0) /\
    outcome (Vp8Decode.decode_frame ([16; 1; 0; 157; 1; 42; 200; 0; 100; 0] ++ repeat 0 8 ++ repeat 90 50)) = (7, 0, 0, 0, 0) /\
    outcome (Vp8Decode.decode_frame ([16; 1; 0; 157; 1; 42; 1; 0; 1; 0] ++ repeat 0 8)) = (7, 0, 0, 0, 0) /\
    outcome (Vp8Decode.decode_frame (repeat 255 40)) = (1, 0, 0, 0, 0) /\
    outcome (Vp8Decode.decode_frame ([17; 1; 0] ++ repeat 0 30)) = (9, 0, 0, 0, 0).
  Proof. exact VP8_safe_example.outcomes. Qed.
End VS.
