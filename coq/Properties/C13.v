(* C13 -- YUV to RGB conversion equals libwebp's for every sample triple.
   Object: Gen.Kernels.{mulhi, clip, rgb_pair, rgb_tail, rgba_pair, rgba_tail} -- regenerated from vp8.rs (mulhi, clip and
   the bodies of fill_rgb_row / fill_rgba_row) by tools/rs2v.py on every run -- and the hand model Model.Yuv of the row
   and plane loops (correspondence-checked through hooks verif::fill_rgb / verif::fill_rgba).
   Reference: Spec.YUV = libwebp 1.3.1 src/dsp/yuv.h (VP8YUVToR/G/B, MultHi, VP8Clip8). *)
From Coq Require Import ZArith List.
From WebP Require Import Gen.Kernels Lib.ZBits Lib.Res Spec.YUV Model.Yuv Proofs.C13_yuv.
Import ListNotations.
Open Scope Z_scope.

(* every sample triple, every position of the 2-pixel loop and the odd tail, both writers *)
Theorem yuv_kernel_pair : forall y0 y1 u v, byte y0 -> byte y1 -> byte u -> byte v ->
  rgb_pair y0 y1 u v = rgb y0 u v ++ rgb y1 u v.
Proof. exact rgb_pair_spec. Qed.

Theorem yuv_kernel_tail : forall y u v, byte y -> byte u -> byte v -> rgb_tail y u v = rgb y u v.
Proof. exact rgb_tail_spec. Qed.

Theorem yuv_kernel_pair_rgba : forall y0 y1 u v, byte y0 -> byte y1 -> byte u -> byte v -> forall b0 b1 b2 b3 b4 b5 b6 b7,
  rgba_pair y0 y1 u v b0 b1 b2 b3 b4 b5 b6 b7 = rgb y0 u v ++ [b3] ++ rgb y1 u v ++ [b7].
Proof. exact rgba_pair_spec. Qed.

Theorem yuv_kernel_tail_rgba : forall y u v, byte y -> byte u -> byte v -> rgba_tail y u v = rgb y u v.
Proof. exact rgba_tail_spec. Qed.

(* rows: pixel x gets the conversion of (ys[x], us[x/2], vs[x/2]) for even x, odd x and the unpaired last pixel alike;
   the four-channel writer leaves every alpha byte as it found it (rgba_row copies buf[4x+3]) *)
Theorem fill_rgb_row_spec : forall ys us vs, Forall byte ys -> Forall byte us -> Forall byte vs ->
  ((length ys + 1) / 2 <= length us)%nat -> ((length ys + 1) / 2 <= length vs)%nat ->
  fill_rgb_row ys us vs = rgb_row ys us vs.
Proof. exact fill_rgb_row_spec_lemma. Qed.

Theorem fill_rgba_row_spec : forall ys us vs buf, Forall byte ys -> Forall byte us -> Forall byte vs ->
  ((length ys + 1) / 2 <= length us)%nat -> ((length ys + 1) / 2 <= length vs)%nat -> length buf = (4 * length ys)%nat ->
  fill_rgba_row ys us vs buf = rgba_row ys us vs buf.
Proof. exact fill_rgba_row_spec_lemma. Qed.

(* planes: row r uses chroma row r/2; any width >= 1 and any height (both parities) *)
Theorem fill_rgb_spec : forall w h yp up vp buf, (1 <= w)%nat -> length yp = (w * h)%nat ->
  length up = (((w + 1) / 2) * ((h + 1) / 2))%nat -> length vp = (((w + 1) / 2) * ((h + 1) / 2))%nat ->
  Forall byte yp -> Forall byte up -> Forall byte vp -> length buf = (w * h * 3)%nat ->
  fill_rgb w yp up vp buf = Ok (rgb_plane w h yp up vp).
Proof. exact fill_rgb_spec_lemma. Qed.

Theorem fill_rgba_spec : forall w h yp up vp buf, (1 <= w)%nat -> length yp = (w * h)%nat ->
  length up = (((w + 1) / 2) * ((h + 1) / 2))%nat -> length vp = (((w + 1) / 2) * ((h + 1) / 2))%nat ->
  Forall byte yp -> Forall byte up -> Forall byte vp -> length buf = (w * h * 4)%nat ->
  fill_rgba w yp up vp buf = Ok (rgba_plane w h yp up vp buf).
Proof. exact fill_rgba_spec_lemma. Qed.

(* no i32/u32 overflow or over-wide shift in a checked build, for every triple *)
Theorem yuv_kernels_no_overflow : forall y0 y1 u v, byte y0 -> byte y1 -> byte u -> byte v ->
  rgb_pair_ok y0 y1 u v = true /\ rgb_tail_ok y0 u v = true /\ rgba_tail_ok y0 u v = true /\
  forall b0 b1 b2 b3 b4 b5 b6 b7, rgba_pair_ok y0 y1 u v b0 b1 b2 b3 b4 b5 b6 b7 = true.
Proof.
  intros y0 y1 u v H0 H1 Hu Hv. split; [exact (rgb_pair_ok_lemma y0 y1 u v H0 H1 Hu Hv)|].
  split; [exact (rgb_tail_ok_lemma y0 u v H0 Hu Hv)|]. split; [exact (rgba_tail_ok_lemma y0 u v H0 Hu Hv)|].
  intros. exact (rgba_pair_ok_lemma y0 y1 u v _ _ _ _ _ _ _ _ H0 H1 Hu Hv).
Qed.

(* non-vacuity / sanity: a 3x3 frame (odd width and height), and a triple that saturates both ways *)
Example yuv_instance :
  fill_rgb 3 [16; 128; 235; 0; 255; 77; 90; 91; 92] [128; 240; 16; 90] [128; 16; 240; 200] (repeat 0 27)
  = Ok (rgb_plane 3 3 [16; 128; 235; 0; 255; 77; 90; 91; 92] [128; 240; 16; 90] [128; 16; 240; 200])
  /\ rgb 255 0 255 = [255; 225; 20] /\ rgb 16 128 128 = [0; 0; 0] /\ rgb 235 255 0 = [51; 255; 255].
Proof. repeat split; vm_compute; reflexivity. Qed.
