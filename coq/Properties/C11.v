(* C11 -- Output buffers: size checked, every byte written, all wrappings agree.
   (FULL at model level up to the side conditions of C01 / C02: modules RI, RIC, LL below; the wrappings simple / VP8X; the single-ANMF-frame wrapping is decided by the harness and by C06's theorems)
   Proved here, for all inputs, about the modelled write paths of read_image:
     * lossy RGB path: every byte of the buffer is determined by the planes alone (no dependence on prior contents);
     * lossy RGBA path: colour bytes determined by the planes; the alpha loop then determines every alpha byte from the
       ALPH payload alone -- two runs on buffers with different prior contents give identical buffers;
     * three-channel output = four-channel output with alpha dropped (the copy loop of the lossless-without-alpha path).
     * lossless path (module LL): LosslessDecoder::decode_frame, which decodes IN PLACE in the caller's buffer (entropy decoding,
       then up to four inverse transforms), gives the same verdict and the same pixels for any two buffers of the right size and
       any two fill_buf schedules; on success the pixels are exactly the specification's (Properties/C01.v R.frame_sound), so
       every output byte is determined by the file.
   The size check / wrong-length rejection and the agreement of the wrappings are decided on the implementation by the harness (c11). *)
From Coq Require Import ZArith List.
From WebP Require Import Gen.Kernels Lib.ZBits Lib.Res Spec.YUV Model.Yuv Spec.Alpha Model.Alpha Model.Still
  Proofs.C13_yuv Proofs.Alpha_unfilter Proofs.Still_glue.
From WebP Require Model.Container Proofs.Container_simple.
From WebP Require Lib.Arr Model.LosslessLib Model.Lossless Proofs.C04_bits Proofs.C01_top Proofs.C11_lossless.
From WebP Require Spec.Container Model.ReadImage Proofs.Container_bytes Proofs.C01_top Proofs.ReadImage_base Proofs.ReadImage_container Proofs.ReadImage_vp8l Proofs.ReadImage_lossless Proofs.ReadImage_lossy Proofs.ReadImage_stillspec Proofs.ReadImage_wrap Proofs.ReadImage_safe Proofs.ReadImage_frame Proofs.ReadImage_anim.
From WebP Require Spec.VP8 Model.Vp8Decode Proofs.VP8_decode_main Proofs.VP8_decode_planes Proofs.VP8_decode_readimage.
From WebP Require Spec.Container Spec.YUV Spec.VP8 Spec.Anim Model.AlphaBlend Model.Anim Model.ReadImage Model.Vp8Decode Proofs.C15_model Proofs.Container_bytes Proofs.C01_top Proofs.Anim_play
  Proofs.ReadImage_base Proofs.ReadImage_container Proofs.ReadImage_lossy Proofs.ReadImage_wrap Proofs.ReadImage_safe Proofs.ReadImage_frame Proofs.ReadImage_anim
  Proofs.VP8_decode_main Proofs.VP8_decode_planes Proofs.VP8_decode_readimage.
Import ListNotations.
Open Scope Z_scope.

Theorem lossy_rgb_buf_independent : forall w h yp up vp b1 b2, (1 <= w)%nat -> length yp = (w * h)%nat ->
  length up = (((w + 1) / 2) * ((h + 1) / 2))%nat -> length vp = (((w + 1) / 2) * ((h + 1) / 2))%nat ->
  Forall byte yp -> Forall byte up -> Forall byte vp -> length b1 = (w * h * 3)%nat -> length b2 = (w * h * 3)%nat ->
  fill_rgb w yp up vp b1 = fill_rgb w yp up vp b2.
Proof.
  intros w h yp up vp b1 b2 Hw Hy Hu Hv Hyb Hub Hvb H1 H2.
  rewrite (fill_rgb_spec_lemma w h yp up vp b1) by assumption.
  rewrite (fill_rgb_spec_lemma w h yp up vp b2) by assumption. reflexivity.
Qed.

Theorem alpha_buf_independent : forall f w data b1 b2 o1 o2, (1 <= w)%nat ->
  length b1 = (4 * length data)%nat -> length b2 = (4 * length data)%nat ->
  (forall j, (j mod 4 <> 3)%nat -> nth j b1 0 = nth j b2 0) ->
  apply_alpha f w data b1 = Ok o1 -> apply_alpha f w data b2 = Ok o2 -> o1 = o2.
Proof. exact apply_alpha_buf_independent_lemma. Qed.

Theorem rgb_is_rgba_dropped : forall data buf n, length data = (4 * n)%nat -> length buf = (3 * n)%nat ->
  drop_alpha_into data buf = drop_alpha data.
Proof. exact drop_alpha_into_spec. Qed.

(* output_buffer_size = width x height x (4 if has_alpha else 3), for every decoder state whose dimensions fit the 24-bit + 1 canvas fields
   (for every well-formed file this is the value the headers define: theorem accessors_spec of Properties/C08.v) *)
Theorem buffer_size_formula : forall d, 0 <= Model.Container.d_width d <= 16777216 -> 0 <= Model.Container.d_height d <= 16777216 ->
  Model.Container.output_buffer_size d
  = Some (Model.Container.d_width d * Model.Container.d_height d * (if Model.Container.d_has_alpha d then 4 else 3)).
Proof. exact Proofs.Container_simple.output_buffer_size_ok. Qed.

Example c11_instance :
  drop_alpha_into [1; 2; 3; 4; 5; 6; 7; 8] [9; 9; 9; 9; 9; 9] = [1; 2; 3; 5; 6; 7].
Proof. reflexivity. Qed.

(* ---------------- lossless payloads: in-place decode independent of prior buffer contents ---------------- *)
Module LL.
  Import Lib.Res Lib.ZBits Model.Lossless Proofs.C04_bits Proofs.C01_top Proofs.C11_lossless.

  Theorem lossless_buffer_independent : forall data sched1 sched2 W h buf1 buf2,
    Forall byte data -> Z.of_nat (length buf1) = 4 * (W * h) -> Z.of_nat (length buf2) = 4 * (W * h) ->
    (forall s0, V.read_header (V.Stream [] data) = Some (W, h, s0) -> in_format W h s0) ->
    match decode_frame data sched1 W h false buf1, decode_frame data sched2 W h false buf2 with
    | Ok p1, Ok p2 => p1 = p2
    | Err _, Err _ => True
    | _, _ => False
    end.
  Proof. exact decode_frame_buffer_and_schedule_independent. Qed.
End LL.

(* ---------------- read_image glue of decoder.rs (Model/ReadImage.v): buffer length, every byte written, wrappings agree ---------------- *)
Module RI.
  Import Lib.Res Lib.ZBits Spec.Container Spec.YUV Model.ReadImage Proofs.ReadImage_base Proofs.ReadImage_container Proofs.ReadImage_vp8l Proofs.ReadImage_lossless Proofs.ReadImage_lossy Proofs.ReadImage_stillspec Proofs.ReadImage_wrap Proofs.ReadImage_safe Proofs.ReadImage_frame Proofs.ReadImage_anim.

  (* a buffer whose length is not output_buffer_size is rejected with ImageTooLarge and left untouched (every still layout) *)
  Theorem wrong_length_view :
    forall (vp8 : list Z -> res (Z * Z * list Z * list Z * list Z)) (c : container) (dec : Container_bytes.M.decoder) (buf : list Z),
           still_view c dec -> len buf <> buffer_size c -> read_image vp8 dec buf = (Err EImageTooLarge, Some buf).
  Proof. exact ReadImage_lossless.wrong_length_view. Qed.

  (* lossless stills: every output byte is the specification pixel (RGBA, or RGB = alpha dropped), whatever the buffer held *)
  Theorem read_image_lossless :
    forall (vp8 : list Z -> res (Z * Z * list Z * list Z * list Z)) (c : container) (payload : list Z) (W h : Z) (pixels : list Z),
           wf c = true ->
           anim c = false ->
           image_vp8l c = Some payload ->
           dims c = (W, h) ->
           V.decode_rgba payload = Some (W, h, pixels) ->
           C01_top.codes_in_format payload ->
           (forall s0 : V.stream, V.read_header (V.Stream [] payload) = Some (W, h, s0) -> C01_top.in_format W h s0) ->
           exists dec : Container_bytes.M.decoder,
             Container_bytes.M.new (serialize c) = Ok dec /\
             (forall buf : list Z,
              len buf = buffer_size c -> read_image vp8 dec buf = (Ok tt, Some (if alpha c then pixels else Still.drop_alpha pixels))) /\
             (forall buf : list Z, len buf <> buffer_size c -> read_image vp8 dec buf = (Err EImageTooLarge, Some buf)).
  Proof. exact ReadImage_lossless.read_image_lossless. Qed.

  (* the same VP8L payload as simple file or VP8X still (alpha flag clear or set) gives the same pixels, modulo the dropped alpha byte *)
  Theorem lossless_wrappings_agree :
    forall (vp8 : list Z -> res (Z * Z * list Z * list Z * list Z)) (payload : list Z) (W h : Z) (pixels : list Z),
           V.decode_rgba payload = Some (W, h, pixels) ->
           C01_top.codes_in_format payload ->
           (forall s0 : V.stream, V.read_header (V.Stream [] payload) = Some (W, h, s0) -> C01_top.in_format W h s0) ->
           forall c : container,
           wf c = true ->
           anim c = false ->
           image_vp8l c = Some payload ->
           dims c = (W, h) ->
           exists dec : Container_bytes.M.decoder,
             Container_bytes.M.new (serialize c) = Ok dec /\
             (forall buf : list Z, len buf = buffer_size c -> read_image vp8 dec buf = (Ok tt, Some (render (alpha c) pixels))).
  Proof. exact ReadImage_wrap.lossless_wrappings_agree. Qed.

  (* the same VP8 payload as simple file or VP8X still gives the same pixels *)
  Theorem lossy_wrappings_agree :
    forall (vp8 : list Z -> res (Z * Z * list Z * list Z * list Z)) (payload : list Z) (w h : Z) (yp up vp : list Z),
           vp8 payload = Ok (w, h, yp, up, vp) ->
           planes_ok w h yp up vp ->
           forall (c : container) (px : list Z),
           wf c = true ->
           anim c = false ->
           image_vp8 c = Some payload ->
           dims c = (w, h) ->
           lossy_pixels c w h yp up vp = Some px ->
           alph_ok_for c w h ->
           (if alpha c then Still.drop_alpha px else px) = rgb_plane (Z.to_nat w) (Z.to_nat h) yp up vp /\
           (exists dec : Container_bytes.M.decoder,
              Container_bytes.M.new (serialize c) = Ok dec /\
              (forall buf : list Z, len buf = buffer_size c -> read_image vp8 dec buf = (Ok tt, Some px))).
  Proof. exact ReadImage_wrap.lossy_wrappings_agree. Qed.

End RI.

(* ---------------- lossy stills with the frame decoder instantiated: vp8 := Model.Vp8Decode.decode_frame (C05 / C11) ---------------- *)
Module RIC.
  Import Spec.Container Spec.YUV Model.ReadImage Proofs.ReadImage_base Proofs.ReadImage_container Proofs.ReadImage_lossy Proofs.ReadImage_wrap
    Proofs.VP8_decode_main Proofs.VP8_decode_readimage.

  (* no hypothesis about the frame decoder is left: the file is a well-formed lossy still whose key frame the reference decodes under the four
     decidable side conditions of decode_hyps_b *)
  Theorem read_image_lossy_closed :
    forall (c : container) (payload : list Z) (w h : Z) (yp up vp px : list Z),
           wf c = true -> anim c = false -> image_vp8 c = Some payload -> dims c = (w, h) ->
           VP8.decode payload = Some (w, h, yp, up, vp) -> decode_hyps_b payload = true ->
           lossy_pixels c w h yp up vp = Some px -> alph_ok_for c w h ->
           exists dec : Container_bytes.M.decoder,
             Container_bytes.M.new (serialize c) = Ok dec /\
             (forall buf : list Z, len buf = buffer_size c -> read_image Vp8Decode.decode_frame dec buf = (Ok tt, Some px)) /\
             (forall buf : list Z, len buf <> buffer_size c -> read_image Vp8Decode.decode_frame dec buf = (Err EImageTooLarge, Some buf)).
  Proof. exact VP8_decode_readimage.read_image_lossy_closed. Qed.

  (* C05 at file level: read_image returns exactly the pixels of Spec.Still.decode_still *)
  Theorem read_image_equals_still_spec_closed :
    forall (c : container) (payload : list Z) (w h : Z) (yp up vp : list Z) (w' h' : Z) (a : bool) (px : list Z),
           wf c = true -> anim c = false -> image_vp8 c = Some payload -> dims c = (w, h) ->
           VP8.decode payload = Some (w, h, yp, up, vp) -> decode_hyps_b payload = true ->
           alph_ok_for c w h ->
           SS.decode_still (serialize c) = Some (w', h', a, px) ->
           (w', h', a) = (w, h, alpha c) /\
           (exists dec : Container_bytes.M.decoder,
              Container_bytes.M.new (serialize c) = Ok dec /\
              Container_bytes.M.dimensions dec = (w', h') /\
              Container_bytes.M.has_alpha dec = a /\
              (forall buf : list Z, len buf = buffer_size c -> read_image Vp8Decode.decode_frame dec buf = (Ok tt, Some px)) /\
              (forall buf : list Z, len buf <> buffer_size c -> read_image Vp8Decode.decode_frame dec buf = (Err EImageTooLarge, Some buf))).
  Proof. exact VP8_decode_readimage.read_image_equals_still_spec_closed. Qed.

  (* every container around the same key frame shows the same colours *)
  Theorem lossy_wrappings_agree_closed :
    forall (payload : list Z) (w h : Z) (yp up vp : list Z),
           VP8.decode payload = Some (w, h, yp, up, vp) -> decode_hyps_b payload = true ->
           forall (c : container) (px : list Z), wf c = true -> anim c = false -> image_vp8 c = Some payload -> dims c = (w, h) ->
           lossy_pixels c w h yp up vp = Some px -> alph_ok_for c w h ->
           (if alpha c then Still.drop_alpha px else px) = rgb_plane (Z.to_nat w) (Z.to_nat h) yp up vp /\
           (exists dec : Container_bytes.M.decoder,
              Container_bytes.M.new (serialize c) = Ok dec /\
              (forall buf : list Z, len buf = buffer_size c -> read_image Vp8Decode.decode_frame dec buf = (Ok tt, Some px))).
  Proof. exact VP8_decode_readimage.lossy_wrappings_agree_closed. Qed.

  (* the frame decoder on a valid key frame: Ok and well-formed planes (the clause of vp8_safe for that payload) *)
  Theorem vp8dec_safe_on_valid :
    forall (payload : list Z) (w h : Z) (yp up vp : list Z),
           Forall byte payload -> C15_model.len payload < 2 ^ 63 ->
           VP8.decode payload = Some (w, h, yp, up, vp) -> decode_hyps_b payload = true ->
           match Vp8Decode.decode_frame payload with
           | Ok (w', h', yp', up', vp') => planes_ok w' h' yp' up' vp'
           | Err _ => True
           | Panic _ | OutOfFuel => False
           end.
  Proof. exact VP8_decode_readimage.vp8dec_safe_on_valid. Qed.
End RIC.
