(* C11 -- Output buffers: size checked, every byte written, all wrappings agree.          (PARTIAL, grows with the models)
   Proved here, for all inputs, about the modelled write paths of read_image:
     * lossy RGB path: every byte of the buffer is determined by the planes alone (no dependence on prior contents);
     * lossy RGBA path: colour bytes determined by the planes; the alpha loop then determines every alpha byte from the
       ALPH payload alone -- two runs on buffers with different prior contents give identical buffers;
     * three-channel output = four-channel output with alpha dropped (the copy loop of the lossless-without-alpha path).
     * lossless path (module LL): LosslessDecoder::decode_frame, which decodes IN PLACE in the caller's buffer (entropy decoding,
       then up to four inverse transforms), gives the same verdict and the same pixels for any two buffers of the right size and
       any two fill_buf schedules; on success the pixels are exactly the specification's (Properties/C01.v R.frame_sound), so
       every output byte is determined by the file.
   The size check / wrong-length rejection and the agreement of the wrappings are decided on the implementation by the harness (c11). *)
From Coq Require Import ZArith List.
From WebP Require Import Gen.Kernels Lib.ZBits Lib.Res Spec.YUV Model.Yuv Spec.Alpha Model.Alpha Model.Still
  Proofs.C13_yuv Proofs.Alpha_unfilter Proofs.Still_glue.
From WebP Require Model.Container Proofs.Container_simple.
From WebP Require Lib.Arr Model.LosslessLib Model.Lossless Proofs.C04_bits Proofs.C01_top Proofs.C11_lossless.
Import ListNotations.
Open Scope Z_scope.

Theorem lossy_rgb_buf_independent : forall w h yp up vp b1 b2, (1 <= w)%nat -> length yp = (w * h)%nat ->
  length up = (((w + 1) / 2) * ((h + 1) / 2))%nat -> length vp = (((w + 1) / 2) * ((h + 1) / 2))%nat ->
  Forall byte yp -> Forall byte up -> Forall byte vp -> length b1 = (w * h * 3)%nat -> length b2 = (w * h * 3)%nat ->
  fill_rgb w yp up vp b1 = fill_rgb w yp up vp b2.
Proof.
  intros w h yp up vp b1 b2 Hw Hy Hu Hv Hyb Hub Hvb H1 H2.
  rewrite (fill_rgb_spec_lemma w h yp up vp b1) by assumption.
  rewrite (fill_rgb_spec_lemma w h yp up vp b2) by assumption. reflexivity.
Qed.

Theorem alpha_buf_independent : forall f w data b1 b2 o1 o2, (1 <= w)%nat ->
  length b1 = (4 * length data)%nat -> length b2 = (4 * length data)%nat ->
  (forall j, (j mod 4 <> 3)%nat -> nth j b1 0 = nth j b2 0) ->
  apply_alpha f w data b1 = Ok o1 -> apply_alpha f w data b2 = Ok o2 -> o1 = o2.
Proof. exact apply_alpha_buf_independent_lemma. Qed.

Theorem rgb_is_rgba_dropped : forall data buf n, length data = (4 * n)%nat -> length buf = (3 * n)%nat ->
  drop_alpha_into data buf = drop_alpha data.
Proof. exact drop_alpha_into_spec. Qed.

(* output_buffer_size = width x height x (4 if has_alpha else 3), for every decoder state whose dimensions fit the 24-bit + 1 canvas fields
   (for every well-formed file this is the value the headers define: theorem accessors_spec of Properties/C08.v) *)
Theorem buffer_size_formula : forall d, 0 <= Model.Container.d_width d <= 16777216 -> 0 <= Model.Container.d_height d <= 16777216 ->
  Model.Container.output_buffer_size d
  = Some (Model.Container.d_width d * Model.Container.d_height d * (if Model.Container.d_has_alpha d then 4 else 3)).
Proof. exact Proofs.Container_simple.output_buffer_size_ok. Qed.

Example c11_instance :
  drop_alpha_into [1; 2; 3; 4; 5; 6; 7; 8] [9; 9; 9; 9; 9; 9] = [1; 2; 3; 5; 6; 7].
Proof. reflexivity. Qed.

(* ---------------- lossless payloads: in-place decode independent of prior buffer contents ---------------- *)
Module LL.
  Import Lib.Res Lib.ZBits Model.Lossless Proofs.C04_bits Proofs.C01_top Proofs.C11_lossless.

  Theorem lossless_buffer_independent : forall data sched1 sched2 W h buf1 buf2,
    Forall byte data -> Z.of_nat (length buf1) = 4 * (W * h) -> Z.of_nat (length buf2) = 4 * (W * h) ->
    (forall s0, V.read_header (V.Stream [] data) = Some (W, h, s0) -> in_format W h s0) ->
    match decode_frame data sched1 W h false buf1, decode_frame data sched2 W h false buf2 with
    | Ok p1, Ok p2 => p1 = p2
    | Err _, Err _ => True
    | _, _ => False
    end.
  Proof. exact decode_frame_buffer_and_schedule_independent. Qed.
End LL.
