(* C04 -- The lossless encoder round-trips every image: the layers proved so far (DESIGN.md section 6 C04) and the
   dimension clause.  The full round-trip theorem needs Spec.VP8L (decoder side); until it is linked the property is
   decided on every case by the search (both decoders return the input pixels) and the correspondence check. *)
From Coq Require Import ZArith List.
From WebP Require Import Lib.Res Gen.Kernels Model.EncoderHeap Model.Encoder Spec.LZ77Prefix
  Proofs.Encoder_container Proofs.Encoder_bitwriter Proofs.Encoder_runs.
Open Scope Z_scope.
Open Scope res_scope.

(* dimensions of 0 or above 16384: InvalidDimensions, nothing written, no panic *)
Theorem encode_bad_dims : forall sorter fault data w h ct p icc exif xmp,
  (w = 0 \/ 16384 < w \/ h = 0 \/ 16384 < h) ->
  zlen data = Z.min (w * h * bytes_per_pixel ct) (two64 - 1) ->
  run_encode sorter fault data w h ct p icc exif xmp = (new_sink fault, Err EInvalidDimensions).
Proof. exact Encoder_container.encode_bad_dims. Qed.

(* layer 3a: BitWriter output = LSB-first packing of the (bits, n) fields, zero-padded to whole bytes *)
Theorem bitwriter_packs : forall ws, Forall field_ok ws ->
  exists w', (write_all_bits ws ;; flush) (new_bitwriter (new_sink (-1))) = (w', Ok tt)
             /\ sink_bytes (bw_sink w') = le_bytes (Z.to_nat ((snd (pack ws) + 7) / 8)) (fst (pack ws)).
Proof. exact Encoder_bitwriter.bitwriter_packs. Qed.

(* layer 2a: a run of 1..4096 pixels is emitted as a token the specification's prefix decoding reads back *)
Theorem run_token_roundtrip : forall run, 1 <= run <= 4096 ->
  let '(p, e, x) := run_token run in
  0 <= p < 24 /\ e = prefix_extra_bits p /\ 0 <= x < 2 ^ e /\ e <= 10 /\ prefix_value p x = run
  /\ (4 < run -> length_to_symbol_ok (wrapU 16 run) = true).
Proof. exact Encoder_runs.run_token_roundtrip. Qed.
