(* C04 -- The lossless encoder round-trips every image.
   Property theorems only: each is closed by `exact <lemma>`.
   Objects: Model.Encoder (hand model of src/encoder.rs, tied to the code by the byte-exact correspondence check; the
   unstable sort is the parameter `sorter`, constrained only to return a permutation) and Spec.VP8L (the executable
   transcription of the lossless bitstream specification, validated against libwebp on every run).
   Main statements: `encode_roundtrip` (frame) and `encode_file_roundtrip` (WebPEncoder::encode); the layer theorems
   L1..L5 they are composed from are restated below so that each is usable on its own. *)
From Coq Require Import ZArith List.
From WebP Require Import Lib.Res Lib.Arr Gen.Kernels Model.EncoderHeap Model.Encoder Spec.LZ77Prefix Spec.PrefixCode Spec.WebPFile
  Proofs.Huffman_lists Proofs.Huffman_ok
  Proofs.Encoder_container Proofs.Encoder_bitwriter Proofs.Encoder_runs
  Proofs.C04_bits Proofs.C04_prefix Proofs.C04_codedesc Proofs.C04_arr Proofs.C04_tokens Proofs.C04_transforms
  Proofs.C04_predictor Proofs.C04_frame Proofs.C04_file.
From WebP Require Spec.VP8L.   (* not imported: its `let*` notation clashes with Lib.Res's; V = Spec.VP8L *)
Import ListNotations.
Open Scope Z_scope.
Open Scope res_scope.

(* ---------------------------------------------------------------------------------------------------------- *)
(* the property                                                                                                *)

(* For every image of 1..16384 by 1..16384 pixels in any of the four colour types, with or without the predictor
   transform, for every admissible tie-break of the unstable sort: encode_frame succeeds (no panic, no error) and the
   payload it writes is decoded by the lossless specification to exactly the input pixels -- `expand` is grey -> R = G = B,
   missing alpha -> 255, in the R, G, B, A byte order of the decoder's output buffer -- with the same dimensions.
   The last clause bounds the payload size (used below to show that the container's u32 size fields cannot overflow). *)
Theorem encode_roundtrip : forall sorter data w h ct (p : bool),
  sorter_ok sorter -> 1 <= w <= 16384 -> 1 <= h <= 16384 ->
  zlen data = w * h * bytes_per_pixel ct -> Forall (fun x => 0 <= x < 256) data ->
  exists fs, run_encode_frame sorter (-1) data w h ct p = (fs, Ok tt)
             /\ V.decode_rgba (sink_bytes fs) = Some (w, h, expand ct data)
             /\ 8 * zlen (sink_bytes fs) <= 85 * (w * h) + 9007.
Proof. exact C04_frame.encode_roundtrip. Qed.

(* the same on ARGB pixel values (the specification's own pixel type) *)
Theorem encode_roundtrip_argb : forall sorter data w h ct (p : bool),
  sorter_ok sorter -> 1 <= w <= 16384 -> 1 <= h <= 16384 ->
  zlen data = w * h * bytes_per_pixel ct -> Forall (fun x => 0 <= x < 256) data ->
  exists fs, run_encode_frame sorter (-1) data w h ct p = (fs, Ok tt)
             /\ V.decode (sink_bytes fs) = Some (w, h, expand_argb ct data)
             /\ 8 * zlen (sink_bytes fs) <= 85 * (w * h) + 9007.
Proof. exact C04_frame.encode_roundtrip_argb. Qed.

(* WebPEncoder::encode: with up to 10^9 bytes of metadata, encoding succeeds and the file is the container of
   Spec.WebPFile around a VP8L payload that decodes to the input *)
Theorem encode_file_roundtrip : forall sorter data w h ct (p : bool) icc exif xmp,
  sorter_ok sorter -> 1 <= w <= 16384 -> 1 <= h <= 16384 ->
  zlen data = w * h * bytes_per_pixel ct -> Forall (fun x => 0 <= x < 256) data ->
  flen icc + flen exif + flen xmp <= 1000000000 ->
  exists frame s, run_encode sorter (-1) data w h ct p icc exif xmp = (s, Ok tt)
    /\ sink_bytes s = lossless_file (is_alpha ct) w h frame icc exif xmp
    /\ V.decode_rgba frame = Some (w, h, expand ct data).
Proof. exact C04_file.encode_file_roundtrip. Qed.

(* dimensions of 0 or above 16384: InvalidDimensions, nothing written, no panic *)
Theorem encode_bad_dims : forall sorter fault data w h ct p icc exif xmp,
  (w = 0 \/ 16384 < w \/ h = 0 \/ 16384 < h) ->
  zlen data = Z.min (w * h * bytes_per_pixel ct) (two64 - 1) ->
  run_encode sorter fault data w h ct p icc exif xmp = (new_sink fault, Err EInvalidDimensions).
Proof. exact Encoder_container.encode_bad_dims. Qed.

(* ---------------------------------------------------------------------------------------------------------- *)
(* the layers (C04_bits.parses / emits: a reader consumes exactly the given bits / a writer appends exactly them) *)

(* L1 writer: BitWriter output = LSB-first packing of the (bits, n) fields, zero-padded to whole bytes *)
Theorem bitwriter_packs : forall ws, Forall field_ok ws ->
  exists w', (write_all_bits ws ;; flush) (new_bitwriter (new_sink (-1))) = (w', Ok tt)
             /\ sink_bytes (bw_sink w') = le_bytes (Z.to_nat ((snd (pack ws) + 7) / 8)) (fst (pack ws)).
Proof. exact Encoder_bitwriter.bitwriter_packs. Qed.

(* L1 writer/reader: write_bits appends the n low bits, least significant first; ReadBits(n) on those bits returns the
   field; the bytes of a finished writer read as a stream are the emitted bits followed by zero padding *)
Theorem write_bits_emits : forall v n, 0 <= n <= 64 -> 0 <= v < 2 ^ n -> emits (write_bits v n) (bits_of (Z.to_nat n) v) tt.
Proof. exact C04_bits.write_bits_emits. Qed.
Theorem read_bits_parses : forall n v, 0 <= v < 2 ^ Z.of_nat n -> parses (V.read_bits n) (bits_of n v) v.
Proof. exact C04_bits.read_bits_parses. Qed.
Theorem emits_run : forall (m : M bitwriter unit) bs, emits m bs tt ->
  exists w' pad, (mbind m (fun _ => flush)) (new_bitwriter (new_sink (-1))) = (w', Ok tt)
    /\ sbits (V.Stream [] (sink_bytes (bw_sink w'))) = bs ++ repeat false pad.
Proof. exact C04_bits.emits_run. Qed.

(* L2: for complete code lengths the specification builds a code tree, and reading the word the encoder emits for
   symbol k (the bit-reversed canonical word of C14) returns k and consumes exactly that word *)
Theorem prefix_code_roundtrip : forall lens, Forall (fun l => 0 <= l <= 15) lens -> kraft lens 15 = 2 ^ 15 ->
  exists c, V.make_code lens = Some c /\
    forall k, (k < length lens)%nat -> 0 < nth k lens 0 ->
      parses (V.read_symbol c) (bits_of (Z.to_nat (nth k lens 0)) (nth k (stream_codes lens) 0)) (Z.of_nat k).
Proof. exact C04_prefix.prefix_code_roundtrip. Qed.

(* L3: the code descriptions (simple and normal form) are read back by read_prefix_code to a code that decodes every
   used symbol's code word; at most 2100 bits *)
Theorem single_entry_roundtrip : forall sym n, 0 <= sym < 256 -> sym < n ->
  exists bs, emits (write_single_entry_huffman_tree sym) bs tt /\ parses (V.read_prefix_code n) bs (V.Symbol sym).
Proof. exact C04_codedesc.single_entry_roundtrip. Qed.
Theorem write_huffman_tree_roundtrip : forall sorter freqs n,
  sorter_ok sorter -> (n = 256 \/ n = 280) -> zlen freqs = n -> Forall (fun f => 0 <= f) freqs -> zsum freqs < 2 ^ 32 ->
  (exists i, (i < 256)%nat /\ 0 < nth i freqs 0) ->
  exists bs lens codes c,
    emits (write_huffman_tree sorter freqs) bs (lens, codes) /\ parses (V.read_prefix_code n) bs c
    /\ length lens = length freqs /\ length codes = length freqs
    /\ (forall k, (k < length freqs)%nat -> 0 < nth k freqs 0 -> sym_ok c lens codes k)
    /\ zlen bs <= 2100.
Proof. exact C04_codedesc.write_huffman_tree_roundtrip. Qed.

(* L4 (part): a run of 1..4096 pixels is emitted as a token the specification's prefix decoding reads back *)
Theorem run_token_roundtrip : forall run, 1 <= run <= 4096 ->
  let '(p, e, x) := run_token run in
  0 <= p < 24 /\ e = prefix_extra_bits p /\ 0 <= x < 2 ^ e /\ e <= 10 /\ prefix_value p x = run
  /\ (4 < run -> length_to_symbol_ok (wrapU 16 run) = true).
Proof. exact Encoder_runs.run_token_roundtrip. Qed.

(* L4: the literal / run tokens of the pixel loop decode, under decode_pixels with one code group, no colour cache and
   distance code 2 for every run, to the pixel sequence; at most 85 bits per pixel *)
Theorem pixel_stream_roundtrip : forall ct lens0 codes0 lens1 codes1 lens2 codes2 lens3 codes3 k0 k1 k2 k3,
  length lens0 = 256%nat /\ length codes0 = 256%nat /\ length lens1 = 280%nat /\ length codes1 = 280%nat
  /\ length lens2 = 256%nat /\ length codes2 = 256%nat /\ length lens3 = 256%nat /\ length codes3 = 256%nat ->
  forall w h (all : list pixel), zlen all = w * h -> 1 <= w * h ->
  Forall (seg_ok ct lens0 codes0 lens1 codes1 lens2 codes2 lens3 codes3 k0 k1 k2 k3) (segments (S (length all)) all) ->
  exists bs,
    emits (write_loop (S (length all)) ct all (of_list codes0) (of_list lens0) (of_list codes1) (of_list lens1)
                      (of_list codes2) (of_list lens2) (of_list codes3) (of_list lens3)) bs tt
    /\ zlen bs <= 85 * (w * h)
    /\ forall s tail, sbits s = bs ++ tail ->
         exists a s', V.decode_pixels (im k0 k1 k2 k3 w h) s = Some (a, s') /\ sbits s' = tail /\ alen a = Z.to_N (w * h)
                      /\ forall j, 0 <= j < w * h -> V.pix a j = apix (nth (Z.to_nat j) all C04_tokens.dpx).
Proof. exact C04_tokens.pixel_stream_roundtrip. Qed.

(* L5: the inverse transforms.  Subtract green on the whole array; the predictor with every block in mode 2 (what
   encode_frame writes) undoes "subtract the pixel above / the pixel to the left in the top row / 0xff000000 first" *)
Theorem inverse_subtract_green_spec : forall img,
  alen (V.inverse_subtract_green img) = alen img
  /\ forall j, 0 <= j < Z.of_N (alen img) -> V.pix (V.inverse_subtract_green img) j = V.add_green (V.pix img j).
Proof. exact C04_transforms.inverse_subtract_green_spec. Qed.
Theorem inverse_predictor_spec : forall w h modes img (P Q : Z -> pixel), 1 <= w -> 1 <= h ->
  (forall x y, 0 <= x < w -> 0 <= y < h ->
     V.pix modes (Z.shiftr y 9 * V.DIV_ROUND_UP w (2 ^ 9) + Z.shiftr x 9) = V.argb 0 0 2 0) ->
  (forall i, 0 <= i < w * h -> V.pix img i = apx (Q i)) ->
  (forall i, 0 <= i < w * h -> pxbytes (P i)) ->
  (let '(r, g, b, a) := P 0 in Q 0 = (r, g, b, sub8 a 255)) ->
  (forall i, 0 < i < w -> Q i = sub_px (P i) (P (i - 1))) ->
  (forall i, w <= i < w * h -> Q i = sub_px (P i) (P (i - w))) ->
  alen (V.inverse_predictor w h 9 modes img) = alen img
  /\ forall j, 0 <= j < w * h -> V.pix (V.inverse_predictor w h 9 modes img) j = apx (P j).
Proof. exact C04_transforms.inverse_predictor_spec. Qed.
Theorem predictor_transform_spec : forall pixels w h, 1 <= w -> 1 <= h -> length pixels = Z.to_nat (4 * w * h) ->
  exists out, predictor_transform pixels w h = Ok out /\ length out = length pixels /\
    forall j, (j < length pixels)%nat -> nth j out 0 = pred_byte pixels (Z.to_nat (4 * w)) j.
Proof. exact C04_predictor.predictor_transform_spec. Qed.

(* non-vacuity: concrete images through the model encoder and the specification decoder *)
Example roundtrip_rgba_2x2 :
  let data := [10; 20; 30; 255; 10; 20; 30; 255; 200; 100; 50; 0; 1; 2; 3; 4] in
  V.decode_rgba (sink_bytes (fst (run_encode_frame stable_sorter (-1) data 2 2 Rgba8 false))) = Some (2, 2, expand Rgba8 data).
Proof. exact C04_frame.roundtrip_rgba_2x2. Qed.
Example roundtrip_l8_5x1 :
  let data := [7; 7; 7; 7; 9] in
  V.decode_rgba (sink_bytes (fst (run_encode_frame stable_sorter (-1) data 5 1 L8 false))) = Some (5, 1, expand L8 data).
Proof. exact C04_frame.roundtrip_l8_5x1. Qed.
Example roundtrip_rgb_3x3_pred :
  let data := [1; 2; 3; 4; 5; 6; 7; 8; 9; 10; 20; 30; 40; 50; 60; 70; 80; 90; 255; 0; 255; 0; 255; 0; 128; 128; 128] in
  V.decode_rgba (sink_bytes (fst (run_encode_frame stable_sorter (-1) data 3 3 Rgb8 true))) = Some (3, 3, expand Rgb8 data).
Proof. exact C04_frame.roundtrip_rgb_3x3_pred. Qed.
