(* C15 -- the boolean entropy decoder returns what the RFC 6386 section 7 reference decoder returns, on the speculative
   fast path and on the fallback path alike, and reports exhaustion exactly when the requests consumed more than one byte
   beyond the data.
   Object:    Model.ArithDec -- the Gallina mirror of src/vp8_arithmetic_decoder.rs (init, State, FastDecoder, the five
              public reads, check) and of TreeNode / tree_nodes_from in src/vp8.rs, with Gen.Kernels.prepare_branch /
              value_from_branch and the tree arrays of Gen.Tables regenerated from the source on every run; tied to the
              crate by the correspondence check through hook verif::arith_script.
   Reference: Spec.RfcBoolDec -- RFC 6386 section 7.3 bool_decoder transcribed literally (value register an unbounded
              integer, see spec_registers_small: it never needs more than two bytes), zeros past the end of the data.
   Scripts:   OB p = read_bool(p), OF = read_flag(), OL n = read_literal(n), OS n = read_optional_signed_value(n),
              OT k = read_with_tree on tree number k of `trees` (RFC tree array, probabilities, start index).
   op_ok:     OB p: 0 <= p <= 255.  OL n, OS n: 0 <= n <= 8 (the crate returns a u8: longer literals wrap there).
              OT k: k < length trees and the tree is well formed (tree_okb: 2 entries per probability, at most 64 inner
              nodes, byte probabilities, every positive entry an even index further on, every other entry in -127..0)
              and entered at an even index.  All 115 entries of Model.ArithDec.vp8_trees qualify (vp8_trees_ok).
   HYPOTHESIS `nth 0 data 0 <> 255`: a partition whose first byte is 0xFF starts the decoder outside its invariant
              value/2^8 < range; the value register then grows without bound, the result depends on the register width
              (RFC: platform-defined bool_value; crate: u64 with silent loss of high bits) and the decoders disagree:
              first_byte_ff_counterexample.  No encoder emits such a partition.  Safety (arith_no_panic) holds for
              every byte string. *)
From Coq Require Import ZArith List.
From WebP Require Import Lib.Res Lib.ZBits Spec.RfcBoolDec Model.ArithDec
  Proofs.C15_model Proofs.C15_main.
Import ListNotations.
Open Scope Z_scope.

(* the theorem: values and exhaustion *)
Theorem arith_refines_rfc : forall trees data ops,
  Forall byte data -> nth 0 data 0 <> 255 -> Z.of_nat (length data) < 2 ^ 63 -> Forall (op_ok trees) ops ->
  exists outs eof,
    ArithDec.run trees data ops = Ok (outs, eof) /\ length outs = length ops /\
    (* exhaustion is reported exactly when some request needs more than length + 1 bytes *)
    (eof = true <-> exists k, (k < length ops)%nat /\ Z.of_nat (length data) + 1 < bytes_needed_upto trees data ops k) /\
    (* every value returned before the exhausting request is the reference decoder's *)
    (forall k, (k < length ops)%nat -> bytes_needed_upto trees data ops k <= Z.of_nat (length data) + 1 ->
               nth k outs 0 = nth k (RfcBoolDec.run trees data ops) 0) /\
    (* so without exhaustion the two runs are equal *)
    (eof = false -> outs = RfcBoolDec.run trees data ops).
Proof. exact arith_refines_rfc_lemma. Qed.

(* the trees of the crate are admissible *)
Theorem vp8_trees_admissible : forall k, (k < length vp8_trees)%nat -> tree_desc_ok (nth k vp8_trees ([], [], 0)).
Proof. exact vp8_trees_ok. Qed.

(* safety, for every byte string (feeds C03): no panic, no failed debug_assert, no overflow of a checked operation, no
   endless tree walk, whatever the data -- including a first byte 0xFF *)
Theorem arith_no_panic : forall trees data ops,
  Forall byte data -> Z.of_nat (length data) < 2 ^ 63 -> Forall (op_ok trees) ops ->
  exists outs eof, ArithDec.run trees data ops = Ok (outs, eof) /\ length outs = length ops.
Proof. exact arith_no_panic_lemma. Qed.

(* the same, request by request, from any well-formed decoder state (data-independent):
   wsafe d  =  128 <= range <= 255, -8 <= bit_count <= 31, 0 <= chunk_index <= number of chunks < 2^64 - 1,
               three final bytes, final_bytes_remaining in -1..3 or the EOF sentinel *)
Theorem arith_step_safe : forall trees d o, wsafe d -> nchunks d + 100 < u64_mod -> op_ok trees o ->
  exists v d', ArithDec.step trees d o = Ok (v, d') /\ wsafe d' /\ chunks d' = chunks d.
Proof. exact step_safe. Qed.

(* the speculative fast path never changes a result: each public read equals the cold read from the saved state *)
Theorem fast_equals_cold : forall trees d o, wsafe d -> nchunks d + 100 < u64_mod -> op_ok trees o ->
  ArithDec.step trees d o = cold_step trees d o.
Proof. exact fast_equals_cold_lemma. Qed.

(* the reference decoder's registers: `value` fits two bytes, so any bool_value type of at least 16 bits behaves alike *)
Theorem spec_registers_small : forall trees data ops,
  Forall byte data -> nth 0 data 0 <> 255 -> Forall (op_ok trees) ops ->
  let s := snd (run_st trees data ops) in
  0 <= RfcBoolDec.value s < 2 ^ 16 /\ 128 <= RfcBoolDec.range s <= 255 /\ 0 <= RfcBoolDec.bit_count s <= 7.
Proof. exact spec_registers_small_lemma. Qed.

(* the hypothesis on the first byte cannot be dropped: eight bytes 0xFF, eight requests, no exhaustion reported,
   different values (the unbounded reference decodes 1-bits for ever and is exhausted at request 6) *)
Theorem first_byte_ff_counterexample :
  Forall byte ff_data /\ nth 0 ff_data 0 = 255 /\ Forall (op_ok vp8_trees) ff_ops /\
  ArithDec.run vp8_trees ff_data ff_ops = Ok ([1; 10; 1; 1; 10; 10; 11; 11], false) /\
  RfcBoolDec.run vp8_trees ff_data ff_ops = [1; 10; 1; 1; 10; 10; 10; 10] /\
  RfcBoolDec.exhausted vp8_trees ff_data ff_ops = true.
Proof. exact first_byte_ff_counterexample_lemma. Qed.

(* non-vacuity: the crate's unit-test vector b"hel" (test_arithmetic_decoder_hello_short) satisfies the hypotheses and
   decodes to the values the test expects; three more requests exhaust it at request 8 (5 bytes needed, 3 + 1 available) *)
Example hel_instance :
  Forall byte hel_data /\ nth 0 hel_data 0 <> 255 /\ Forall (op_ok vp8_trees) hel_ops /\
  ArithDec.run vp8_trees hel_data hel_ops = Ok ([0; 1; 0; 1; 5; 64; 185], false) /\
  RfcBoolDec.run vp8_trees hel_data hel_ops = [0; 1; 0; 1; 5; 64; 185] /\
  ArithDec.run vp8_trees hel_data (hel_ops ++ [OT 1; OL 8; OS 4]) = Ok ([0; 1; 0; 1; 5; 64; 185; 4; 16; 0], true) /\
  bytes_needed_upto vp8_trees hel_data (hel_ops ++ [OT 1; OL 8; OS 4]) 7 = 4 /\
  bytes_needed_upto vp8_trees hel_data (hel_ops ++ [OT 1; OL 8; OS 4]) 8 = 5.
Proof. exact hel_instance_lemma. Qed.
