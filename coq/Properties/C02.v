(* C02 -- VP8 keyframe reconstruction is bit-exact for every valid stream and size.
   (FULL up to four stated, decidable side conditions: module D, theorem D.decode_frame_is_spec, at the end of this file)
   Reference: Spec.VP8.decode, an executable Gallina transcription of libwebp 1.3.1's key-frame decoder (bit-exact with the
   RFC 6386 reference on valid streams), validated against the compiled libwebp on every run (harness c02spec).
   Proved here, re-checked against the current source on every run because Gen.* is regenerated from /repo/src:
     * every table vp8.rs decodes with is the normative one (coefficient probabilities and their update probabilities,
       key-frame mode trees and probabilities incl. the 10x10x9 sub-block mode contexts, token tree, DCT categories,
       bands, zig-zag, DC/AC quantiser tables), modulo an explicit, bijective renumbering of modes / tree leaves;
     * the scalar kernels equal the reference forms (averaging predictors, loop-filter clamps and conversions);
     * the imperative kernels of loop_filter.rs and transform.rs, translated on every run by tools/rs2v_imp.py into functions of
       the 8 edge samples / 16 block cells, equal the reference: the three edge filters (simple, sub-block, macroblock) leave
       exactly the samples Spec.VP8's simple_edge / inner_edge / mb_edge leave at every edge position of every array, with the
       Rust arguments (edge_limit, interior_limit, hev_threshold) = the Spec arguments (thresh, ithresh, hevt); idct4x4 and
       iwht4x4 equal Spec.VP8.idct / iwht for every block within 2^29 / 2^27 - 1 (the sharp bounds for exact i32 casts);
     * calculate_filter_parameters (struct fields as parameters) computes the reference's per-macroblock filter level,
       interior limit and key-frame hev threshold (Spec.VP8.filter_strength) for every header state whose segment base level
       stays within 0..63 before the deltas are added.
     * the per-segment block of read_quantization_indices (places read as parameters, places written as results) computes the
       reference's six dequantisation factors (Spec.VP8.segment_quant: table lookups at clamped indices, y2dc * 2,
       y2ac * 155 / 100 with floor 8, uvdc capped at 132) for every header the bitstream can express, without overflow.
     * (module P) the parsing functions of vp8.rs, modelled one to one in Model/Vp8Parse.v on top of the boolean-decoder model of C15
       and tied to the code by the vp8parse correspondence, equal the reference parser function by function: read_coefficients =
       get_coeffs, read_macroblock_header = parse_mb_mode, the quantiser / loop-filter / segmentation / probability blocks of the
       frame header, read_residual_data = parse_residuals + inverse transforms for both kinds of non-skipped macroblock.
     * (module I) intra prediction, modelled in Model/Vp8Predict.v and tied by the vp8predict correspondence: the ten 4x4 predictors,
       the 16x16 / 8x8 predictors, add_residue and the border construction equal the reference predictors of Spec.VP8.
     * (module F) FRAME-LEVEL PARSING: read_frame_header = parse_header in every field, and header + macroblock loop of
       decode_frame_ (Model/Vp8Frame.v, tied to the REAL decode_frame_ by recording hooks) = the reference parse_modes / parse_tokens
       for every macroblock in raster order (F.parse_frame_refines).
     * (module X) FRAME-LEVEL RECONSTRUCTION: the reconstruction half of decode_frame_ (Model/Vp8Recon.v, tied to the real decode_frame_
       by recording hooks: planes before and after the filter pass) -- per-macroblock prediction incl. the 16-sub-block loop and the
       write-back, the loop-filter pass (run once after all macroblocks, raster order), the crop -- fed the reference's parse results
       returns exactly the planes of Spec.VP8.decode_frame (X.decode_frame_recon_is_spec).
     * (module D) THE WHOLE FRAME DECODER: for every payload the reference decodes (Spec.VP8.decode_frame data = Some f), under four
       decidable side conditions (reserved colour-space bit clear; first partition and token partitions do not start with byte 0xFF
       -- the C15 hypothesis; per segment the loop-filter base level within 0..63 -- the documented clamp difference, necessity
       machine-checked by D.decode_frame_lf_clamp_refuted), the Model of Vp8Decoder::decode_frame (Model/Vp8Decode.v = parse_frame, then
       the reconstruction half; tied to the code by the vp8decode / vp8frame / vp8recon correspondences) returns exactly the reference
       frame: same size, same Y, U, V samples.  The reference being one byte stricter than the crate about truncated partitions is
       proved, so no "stays inside every partition" hypothesis remains.
   (Formerly not proved, now subsumed:) the workspace / border
   bookkeeping = frame-addressed reconstruction and per-macroblock filter traversal: decided on every run by the
   whole-frame correspondence implementation = Spec.VP8.decode on generated key frames (harness c02), and on libwebp. *)
From Coq Require Import ZArith List Lia.
From WebP Require Import Gen.Tables Gen.Kernels Lib.ZBits Lib.Arr Spec.VP8Tables Spec.VP8 Proofs.VP8_tables Proofs.VP8_kernels
  Proofs.VP8_arraykernels_aux Proofs.VP8_arraykernels Proofs.VP8_filter_params Proofs.VP8_quant.
From WebP Require Lib.Res Spec.BoolDec Model.ArithDec Model.Vp8Parse Proofs.C15_model Proofs.VP8_parse_base Proofs.VP8_parse_coeffs Proofs.VP8_parse_mbheader
  Proofs.VP8_parse_header Proofs.VP8_parse_residual Proofs.VP8_parse_refuted.
From WebP Require Model.Vp8Frame Proofs.VP8_frame_base Proofs.VP8_frame_mono Proofs.VP8_frame_header Proofs.VP8_frame_hdrthm Proofs.VP8_frame_residual
  Proofs.VP8_frame_loop Proofs.VP8_frame_main.
From WebP Require Model.Vp8Predict Proofs.VP8_predict_base Proofs.VP8_predict_sub Proofs.VP8_predict_border Proofs.VP8_predict.
From WebP Require Model.Vp8Recon Proofs.VP8_recon_base Proofs.VP8_recon_plane Proofs.VP8_recon_frame Proofs.VP8_recon_filter Proofs.VP8_recon_pass Proofs.VP8_recon_main Proofs.VP8_recon_example.
From WebP Require Model.Vp8Decode Proofs.VP8_decode_starved Proofs.VP8_decode_shape Proofs.VP8_decode_refwf Proofs.VP8_decode_bridge
     Proofs.VP8_decode_main Proofs.VP8_decode_planes Proofs.VP8_decode_example Proofs.ReadImage_lossy.
From WebP Require Lib.Res Spec.BoolDec Model.Vp8Parse Model.Vp8Frame Model.Vp8Recon Proofs.C15_model Proofs.VP8_parse_base Proofs.VP8_parse_coeffs Proofs.VP8_frame_base Proofs.VP8_frame_main Proofs.VP8_recon_mb Proofs.VP8_frame_hdrthm Proofs.VP8_frame_loop
  Proofs.VP8_recon_frame Proofs.VP8_recon_filter Proofs.VP8_recon_example.
From WebP Require Model.Vp8Decode Proofs.VP8_decode_starved Proofs.VP8_decode_shape Proofs.VP8_decode_refwf Proofs.VP8_decode_bridge
  Proofs.VP8_decode_main Proofs.VP8_decode_planes Proofs.VP8_decode_example Proofs.ReadImage_lossy.
Import ListNotations.
Open Scope Z_scope.

Theorem tables_normative :
     vp8_COEFF_PROBS = coeffs_proba0
  /\ vp8_COEFF_UPDATE_PROBS = coeffs_update_proba
  /\ vp8_COEFF_BANDS = firstn 16 kBands
  /\ vp8_ZIGZAG = kZigzag
  /\ vp8_DC_QUANT = kDcTable
  /\ vp8_AC_QUANT = kAcTable
  /\ vp8_SEGMENT_ID_TREE = segment_tree
  /\ vp8_DCT_TOKEN_TREE = coeff_tree
  /\ vp8_PROB_DCT_CAT = map (pad_to 12) cat_probs
  /\ vp8_DCT_CAT_BASE = cat_base.
Proof.
  split; [exact coeff_probs_normative|].
  split; [exact coeff_update_probs_normative|].
  split; [exact coeff_bands_normative|].
  split; [exact zigzag_normative|].
  split; [exact dc_quant_normative|].
  split; [exact ac_quant_normative|].
  split; [exact segment_tree_normative|].
  split; [exact dct_token_tree_normative|].
  split; [exact dct_cat_probs_normative|].
  exact dct_cat_base_normative.
Qed.

Theorem mode_tables_normative :
     vp8_KEYFRAME_YMODE_TREE = map_leaves ymode_to_rfc kf_ymode_tree
  /\ vp8_KEYFRAME_YMODE_PROBS = kf_ymode_prob
  /\ vp8_KEYFRAME_UV_MODE_TREE = map_leaves ymode_to_rfc uv_mode_tree
  /\ vp8_KEYFRAME_UV_MODE_PROBS = uv_mode_prob
  /\ vp8_KEYFRAME_BPRED_MODE_TREE = map_leaves bmode_to_rfc (tree_of_libwebp kYModesIntra4)
  /\ vp8_KEYFRAME_BPRED_MODE_PROBS = reindex_bmodes [] kBModesProba.
Proof.
  split; [exact kf_ymode_tree_normative|].
  split; [exact kf_ymode_probs_normative|].
  split; [exact uv_mode_tree_normative|].
  split; [exact uv_mode_probs_normative|].
  split; [exact bpred_tree_normative|].
  exact bpred_probs_normative.
Qed.

Theorem predictor_averages : forall a b c, byte a -> byte b -> byte c ->
  Gen.Kernels.avg2 a b = Spec.VP8.avg2 a b /\ Gen.Kernels.avg3 a b c = Spec.VP8.avg3 a b c.
Proof. intros a b c Ha Hb Hc. split; [exact (proj1 (avg2_spec a b Ha Hb)) | exact (proj1 (avg3_spec a b c Ha Hb Hc))]. Qed.

Theorem loop_filter_scalars : forall v a b, byte a -> byte b -> -2147483520 <= v <= 2147483519 ->
  lf_c v = sclip1 v /\ lf_s2u v = clip255 (v + 128) /\ lf_u2s a = a - 128 /\ lf_diff a b = Z.abs (a - b).
Proof.
  intros v a b Ha Hb Hv. split; [apply lf_c_spec|]. split; [apply lf_s2u_spec; lia|].
  split; [exact (proj1 (lf_u2s_spec a Ha)) | exact (proj1 (lf_diff_spec a b Ha Hb))].
Qed.

(* loop filter: at every edge position (8 distinct, non-negative indices i-4*step .. i+3*step) of every array, the Spec's
   edge function equals writing back what the translated Rust kernel computes from the 8 samples it reads *)
Theorem loop_filter_kernels_refine : forall hev_threshold interior_limit edge_limit step a i, edge_pos i step ->
  arr_ext (Spec.VP8.simple_edge step edge_limit a i)
          (write_taps a i step (app8 (lf_simple_segment edge_limit) [] (taps_of a i step)))
  /\ arr_ext (Spec.VP8.inner_edge step edge_limit interior_limit hev_threshold a i)
          (write_taps a i step (app8 (lf_subblock_filter hev_threshold interior_limit edge_limit) [] (taps_of a i step)))
  /\ arr_ext (Spec.VP8.mb_edge step edge_limit interior_limit hev_threshold a i)
          (write_taps a i step (app8 (lf_macroblock_filter hev_threshold interior_limit edge_limit) [] (taps_of a i step))).
Proof.
  intros h il el step a i H. split; [exact (simple_segment_refines el step a i H)|].
  split; [exact (subblock_filter_refines h il el step a i H) | exact (macroblock_filter_refines h il el step a i H)].
Qed.

Theorem transforms_refine : forall b0 b1 b2 b3 b4 b5 b6 b7 b8 b9 b10 b11 b12 b13 b14 b15,
  (Forall (within dct_bound) [b0; b1; b2; b3; b4; b5; b6; b7; b8; b9; b10; b11; b12; b13; b14; b15] ->
     idct4x4 b0 b1 b2 b3 b4 b5 b6 b7 b8 b9 b10 b11 b12 b13 b14 b15
     = fst (Spec.VP8.idct [b0; b1; b2; b3; b4; b5; b6; b7; b8; b9; b10; b11; b12; b13; b14; b15]))
  /\ (Forall (within wht_bound) [b0; b1; b2; b3; b4; b5; b6; b7; b8; b9; b10; b11; b12; b13; b14; b15] ->
     iwht4x4 b0 b1 b2 b3 b4 b5 b6 b7 b8 b9 b10 b11 b12 b13 b14 b15
     = fst (Spec.VP8.iwht [b0; b1; b2; b3; b4; b5; b6; b7; b8; b9; b10; b11; b12; b13; b14; b15])).
Proof.
  intros. split; intros H.
  - exact (proj1 (idct4x4_refines b0 b1 b2 b3 b4 b5 b6 b7 b8 b9 b10 b11 b12 b13 b14 b15 H)).
  - exact (proj1 (iwht4x4_refines b0 b1 b2 b3 b4 b5 b6 b7 b8 b9 b10 b11 b12 b13 b14 b15 H)).
Qed.

(* per-macroblock loop-filter parameters: level (segment override or delta, ref_lf_delta[0], mode_lf_delta[0] for B_PRED, clamps),
   interior limit from the sharpness, key-frame hev threshold; level 0 = no filtering *)
Theorem filter_parameters_refine : forall (h : header) (seg : Z) (i4 : bool),
  0 <= h_level h <= 63 -> -63 <= nthZ (h_seg_filter h) seg 0 <= 63 ->
  -63 <= nthZ (h_ref_lf_delta h) 0 0 <= 63 -> -63 <= nthZ (h_mode_lf_delta h) 0 0 <= 63 -> 0 <= h_sharpness h <= 7 ->
  let base := if h_use_segment h then nthZ (h_seg_filter h) seg 0 + (if h_absolute h then 0 else h_level h) else h_level h in
  0 <= base <= 63 ->
  let out := calculate_filter_parameters (h_level h) (h_use_segment h) (negb (h_absolute h)) (nthZ (h_seg_filter h) seg 0)
               (if h_use_lf_delta h then nthZ (h_ref_lf_delta h) 0 0 else 0)
               (if h_use_lf_delta h then nthZ (h_mode_lf_delta h) 0 0 else 0)
               (if i4 then 4 else 0) (h_sharpness h) true in
  let level := nth 0 out 0 in let il := nth 1 out 0 in let hev := nth 2 out 0 in
  filter_strength h seg i4 = if 0 <? level then mkF (2 * level + il) il hev else mkF 0 0 0.
Proof. exact filter_params_refine. Qed.

(* dequantisation factors of a segment: every header the bitstream can express (7-bit base index, 4-bit signed deltas,
   7-bit signed segment values, segment map absolute or delta) *)
Theorem dequantisation_refine : forall (h : header) (seg : Z),
  0 <= h_base_q h <= 127 -> -127 <= nthZ (h_seg_quant h) seg 0 <= 127 ->
  -15 <= h_dqy1_dc h <= 15 -> -15 <= h_dqy2_dc h <= 15 -> -15 <= h_dqy2_ac h <= 15 -> -15 <= h_dquv_dc h <= 15 -> -15 <= h_dquv_ac h <= 15 ->
  segment_quantizers (h_base_q h) (h_dqy1_dc h) (h_dqy2_dc h) (h_dqy2_ac h) (h_dquv_dc h) (h_dquv_ac h)
                     (h_use_segment h) (negb (h_absolute h)) (nthZ (h_seg_quant h) seg 0)
  = [q_y1dc (segment_quant h seg); q_y1ac (segment_quant h seg); q_y2dc (segment_quant h seg);
     q_y2ac (segment_quant h seg); q_uvdc (segment_quant h seg); q_uvac (segment_quant h seg)]
  /\ segment_quantizers_ok (h_base_q h) (h_dqy1_dc h) (h_dqy2_dc h) (h_dqy2_ac h) (h_dquv_dc h) (h_dquv_ac h)
                     (h_use_segment h) (negb (h_absolute h)) (nthZ (h_seg_quant h) seg 0) = true.
Proof. exact segment_quant_refine. Qed.

(* ---------------- parsing functions of vp8.rs (Model/Vp8Parse.v, tied to the code by the vp8parse correspondence through hooks on a real
   Vp8Decoder: 5800 component cases quick / 188000 thorough) = the reference parser of Spec.VP8, function by function.  Shape of every theorem: from
   linked reader states, either the Model function returns Ok with exactly the reference's values and the states are linked again, or it returns
   BitStreamError and the reference run has read beyond the partition (truncated data). ---------------- *)
Module P.
  Import Lib.Res Lib.ZBits Gen.Kernels Spec.VP8 Spec.VP8Tables Spec.BoolDec Model.ArithDec Model.Vp8Parse
    Proofs.VP8_tables Proofs.VP8_quant Proofs.VP8_parse_base Proofs.VP8_parse_coeffs Proofs.VP8_parse_mbheader Proofs.VP8_parse_header
    Proofs.VP8_parse_residual Proofs.VP8_parse_refuted.

  (* a partition whose first byte is not 0xFF (hypothesis of C15): the reference boolean decoder state and the Rust decoder model start linked *)
  Theorem linked_init :
    forall data : list Z,
           Forall byte data ->
           C15_model.len data < 2 ^ 63 ->
           nth 0 data 0 <> 255 -> exists d0 : Dec, init (chunks_of data) (C15_model.len data) = Ok d0 /\ linked data (bd_init data) d0.
  Proof. exact VP8_parse_base.linked_init. Qed.

  (* read_coefficients = the reference token reading get_coeffs: every probability table, context, i16 quantiser pair, both first positions; same dequantised coefficients at the same raster positions, same flag, same final reader state, no panic; or BitStreamError exactly when the reference over-reads *)
  Theorem read_coefficients_refines :
    forall data : list Z,
           Forall byte data ->
           C15_model.len data < 2 ^ 63 ->
           forall (v : Vp8) (probs4 : list (list (list (list Z)))) (p plane complexity dcq acq : Z) (s : bstate) (d : Dec),
           tables_ok probs4 ->
           token_nodes_of probs4 = Ok (v_token_probs v) ->
           0 <= plane <= 3 ->
           0 <= complexity <= 2 ->
           i16 dcq ->
           i16 acq ->
           0 <= p ->
           nth_error (v_partitions v) (Z.to_nat p) = Some d ->
           linked data s d ->
           let first := if plane =? 0 then 1 else 0 in
           let
           '(coeffs, nz, _, s') := get_coeffs (nthZ probs4 plane []) complexity dcq acq first s in
            (exists d' : Dec,
               read_coefficients v zero16 p plane complexity dcq acq = Ok (first <? nz, coeffs, set_partitions v (updZ (v_partitions v) p d')) /\
               linked data s' d') \/ read_coefficients v zero16 p plane complexity dcq acq = Err EBitStreamError /\ over_read data s'.
  Proof. exact VP8_parse_coeffs.read_coefficients_refines. Qed.

  (* read_macroblock_header = the reference mode parsing of one macroblock (segment id, skip flag, luma mode, 16 sub-block modes with above / left contexts and their updates, chroma mode), modulo the bijective mode renumberings of the table theorems *)
  Theorem read_macroblock_header_refines :
    forall data : list Z,
           Forall byte data ->
           C15_model.len data < 2 ^ 63 ->
           forall (h : header) (v : Vp8) (mbx : Z) (t : MacroBlock) (s : bstate),
           mbh_header_rel h v ->
           0 <= mbx ->
           nth_error (v_top v) (Z.to_nat mbx) = Some t ->
           length (mb_bpred t) = 16%nat ->
           length (mb_bpred (v_left v)) = 16%nat ->
           modes_ok (mb_bpred t) ->
           modes_ok (mb_bpred (v_left v)) ->
           linked data s (v_b v) ->
           let top4 := map bmode_of_rfc (skipn 12 (mb_bpred t)) in
           let left4 := map bmode_of_rfc (firstn 4 (mb_bpred (v_left v))) in
           let
           '(m, top4', left4', s') := parse_mb_mode h top4 left4 s in
            (exists (mb : MacroBlock) (lb' : list Z) (d' : Dec),
               read_macroblock_header v mbx =
               Ok
                 (mb,
                  st v d'
                    (updZ (v_top v) mbx
                       {|
                         mb_bpred := mb_bpred mb;
                         mb_complexity := mb_complexity t;
                         mb_luma_mode := mb_luma_mode mb;
                         mb_chroma_mode := mb_chroma_mode mb;
                         mb_segmentid := mb_segmentid t;
                         mb_coeffs_skipped := mb_coeffs_skipped t;
                         mb_non_zero_coeffs := mb_non_zero_coeffs t
                       |}) (mb_set_bpred (v_left v) lb')) /\
               linked data s' d' /\
               mb_segmentid mb = m_seg m /\
               mb_coeffs_skipped mb = m_skip m /\
               mb_non_zero_coeffs mb = false /\
               mb_complexity mb = repeat 0 9 /\
               ymode_of_rfc (mb_luma_mode mb) = m_ymode m /\
               ymode_of_rfc (mb_chroma_mode mb) = m_uvmode m /\
               m_i4 m = (mb_luma_mode mb =? 4) /\
               m_imodes m = (if m_i4 m then map bmode_of_rfc (mb_bpred mb) else []) /\
               map bmode_of_rfc (skipn 12 (mb_bpred mb)) = top4' /\ map bmode_of_rfc (firstn 4 lb') = left4') \/
            read_macroblock_header v mbx = Err EBitStreamError /\ over_read data s'.
  Proof. exact VP8_parse_mbheader.read_macroblock_header_refines. Qed.

  (* the quantiser index block of the frame header *)
  Theorem read_quantization_indices_refines :
    forall data : list Z,
           Forall byte data ->
           C15_model.len data < 2 ^ 63 ->
           forall (v : Vp8) (s : bstate),
           length (v_segment v) = 4%nat ->
           Forall seg_level_ok (v_segment v) ->
           linked data s (v_b v) ->
           let
           '(base_q, s0) := BoolDec.read_literal 7 s in
            let
            '(dqy1_dc, s1) := read_opt_signed 4 s0 in
             let
             '(dqy2_dc, s2) := read_opt_signed 4 s1 in
              let
              '(dqy2_ac, s3) := read_opt_signed 4 s2 in
               let
               '(dquv_dc, s4) := read_opt_signed 4 s3 in
                let
                '(dquv_ac, s5) := read_opt_signed 4 s4 in
                 quant_ranges (base_q, dqy1_dc, dqy2_dc, dqy2_ac, dquv_dc, dquv_ac) /\
                 ((exists d' : Dec,
                     read_quantization_indices v = Ok (quant_state v (base_q, dqy1_dc, dqy2_dc, dqy2_ac, dquv_dc, dquv_ac) d') /\
                     linked data s5 d') \/ read_quantization_indices v = Err EBitStreamError /\ over_read data s5).
  Proof. exact VP8_parse_header.read_quantization_indices_refines. Qed.

  (* ...and the six dequantisation factors it stores are the reference ones (with dequantisation_refine) *)
  Theorem quantization_factors_are_spec :
    forall (h : header) (v : Vp8) (d' : Dec) (seg : nat),
           length (v_segment v) = 4%nat ->
           h_use_segment h = v_segments_enabled v ->
           (seg < (if v_segments_enabled v then 4 else 1))%nat ->
           nthZ (h_seg_quant h) (Z.of_nat seg) 0 = sg_quantizer_level (nth seg (v_segment v) Segment_default) ->
           h_absolute h = negb (sg_delta_values (nth seg (v_segment v) Segment_default)) ->
           quant_ranges (h_base_q h, h_dqy1_dc h, h_dqy2_dc h, h_dqy2_ac h, h_dquv_dc h, h_dquv_ac h) ->
           -127 <= nthZ (h_seg_quant h) (Z.of_nat seg) 0 <= 127 ->
           let s' :=
             nth seg (v_segment (quant_state v (h_base_q h, h_dqy1_dc h, h_dqy2_dc h, h_dqy2_ac h, h_dquv_dc h, h_dquv_ac h) d'))
               Segment_default in
           let q := segment_quant h (Z.of_nat seg) in
           sg_ydc s' = q_y1dc q /\
           sg_yac s' = q_y1ac q /\ sg_y2dc s' = q_y2dc q /\ sg_y2ac s' = q_y2ac q /\ sg_uvdc s' = q_uvdc q /\ sg_uvac s' = q_uvac q.
  Proof. exact VP8_parse_header.quantization_factors_are_spec. Qed.

  (* loop-filter delta block of the frame header *)
  Theorem read_loop_filter_adjustments_refines :
    forall data : list Z,
           Forall byte data ->
           C15_model.len data < 2 ^ 63 ->
           forall (v : Vp8) (s : bstate),
           length (v_ref_delta v) = 4%nat ->
           length (v_mode_delta v) = 4%nat ->
           linked data s (v_b v) ->
           let
           '(upd_delta, s1) := BoolDec.read_flag s in
            let
            '(rm, s2) :=
             if isone upd_delta
             then let '(r, s0) := read_delta_updates [0; 0; 0; 0] s1 [] in let '(m, s2) := read_delta_updates [0; 0; 0; 0] s0 [] in (r, m, s2)
             else ([0; 0; 0; 0], [0; 0; 0; 0], s1) in
             (exists d' : Dec,
                read_loop_filter_adjustments v =
                Ok (set_b (if isone upd_delta then set_mode_delta (set_ref_delta v (fst rm)) (snd rm) else v) d') /\ 
                linked data s2 d') \/ read_loop_filter_adjustments v = Err EBitStreamError /\ over_read data s2.
  Proof. exact VP8_parse_header.read_loop_filter_adjustments_refines. Qed.

  (* segmentation block of the frame header *)
  Theorem read_segment_updates_refines :
    forall data : list Z,
           Forall byte data ->
           C15_model.len data < 2 ^ 63 ->
           forall (v : Vp8) (s : bstate),
           length (v_segment v) = 4%nat ->
           length (v_segment_tree_nodes v) = 3%nat ->
           linked data s (v_b v) ->
           let
           '(um, (absolute, q, f), probs, s') := spec_segment_block s in
            (exists (r : bool * option (bool * list Z * list Z) * option (list Z)) (d' : Dec),
               read_segment_updates v = Ok (segu_state v r d') /\
               linked data s' d' /\
               fst (fst r) = um /\
               match snd (fst r) with
               | Some (mode, q', f') => mode = absolute /\ q' = q /\ f' = f
               | None => (absolute, q, f) = (true, [0; 0; 0; 0], [0; 0; 0; 0])
               end /\ match snd r with
                      | Some p3 => p3 = probs
                      | None => probs = [255; 255; 255]
                      end) \/ read_segment_updates v = Err EBitStreamError /\ over_read data s'.
  Proof. exact VP8_parse_header.read_segment_updates_refines. Qed.

  (* coefficient probability updates of the frame header (keeps the table invariant read_coefficients needs) *)
  Theorem update_token_probabilities_refines :
    forall data : list Z,
           Forall byte data ->
           C15_model.len data < 2 ^ 63 ->
           forall (v : Vp8) (P0 : list (list (list (list Z)))) (s : bstate),
           tables_ok P0 ->
           token_nodes_of P0 = Ok (v_token_probs v) ->
           linked data s (v_b v) ->
           let
           '(P1, s') := parse_proba_1 coeffs_update_proba P0 s [] in
            (exists (tp1 : list (list (list (list TreeNode)))) (d' : Dec),
               update_token_probabilities v = Ok (set_b (set_token_probs v tp1) d') /\
               linked data s' d' /\ tables_ok P1 /\ token_nodes_of P1 = Ok tp1) \/
            update_token_probabilities v = Err EBitStreamError /\ over_read data s'.
  Proof. exact VP8_parse_header.update_token_probabilities_refines. Qed.

  (* the crate's non-zero flag of a macroblock = the reference's, when the DC factor is not 0 *)
  Theorem residual_flag_is_block_nonzero :
    forall (bands : list (list (list Z))) (dc ac first : Z) (tops lefts : list Z) (s : bstate),
           first = 1 \/ first = 0 /\ dc <> 0 ->
           let
           '(bl, _, _, _, _) := blocks_rows bands dc ac first tops lefts s [] [] true in
            existsb (spec_flag first) bl = existsb block_nonzero bl.
  Proof. exact VP8_parse_residual.residual_flag_is_block_nonzero. Qed.

  (* read_residual_data for a non-skipped B_PRED macroblock = the reference parse_residuals + inverse DCT of every block: 24 blocks in plane order with the contexts, the three context arrays, the 384 residuals, the non-zero flag *)
  Theorem read_residual_data_bpred_refines :
    forall data : list Z,
           Forall byte data ->
           C15_model.len data < 2 ^ 63 ->
           forall (h : header) (m : mbmode) (v : Vp8) (mb t : MacroBlock) (mbx p : Z) (d : Dec) (s : bstate) (seg : Segment),
           mb_luma_mode mb = 4 ->
           m_i4 m = true ->
           h_use_skip h && m_skip m = false ->
           tables_ok (h_probas h) ->
           token_nodes_of (h_probas h) = Ok (v_token_probs v) ->
           0 <= mb_segmentid mb ->
           nth_error (v_segment v) (Z.to_nat (mb_segmentid mb)) = Some seg ->
           sg_ydc seg = q_y1dc (segment_quant h (m_seg m)) ->
           sg_yac seg = q_y1ac (segment_quant h (m_seg m)) ->
           sg_uvdc seg = q_uvdc (segment_quant h (m_seg m)) ->
           sg_uvac seg = q_uvac (segment_quant h (m_seg m)) ->
           i16 (sg_ydc seg) ->
           i16 (sg_yac seg) ->
           i16 (sg_uvdc seg) ->
           i16 (sg_uvac seg) ->
           coef_bound (sg_ydc seg) (sg_yac seg) <= VP8_arraykernels_aux.dct_bound ->
           coef_bound (sg_uvdc seg) (sg_uvac seg) <= VP8_arraykernels_aux.dct_bound ->
           sg_ydc seg <> 0 ->
           sg_uvdc seg <> 0 ->
           0 <= p ->
           nth_error (v_partitions v) (Z.to_nat p) = Some d ->
           0 <= mbx ->
           nth_error (v_top v) (Z.to_nat mbx) = Some t ->
           length (mb_complexity t) = 9%nat ->
           length (mb_complexity (v_left v)) = 9%nat ->
           cx_ok (mb_complexity t) ->
           cx_ok (mb_complexity (v_left v)) ->
           linked data s d ->
           let
           '(res0, top', left', s') := parse_residuals h m (ctx_of (mb_complexity t)) (ctx_of (mb_complexity (v_left v))) s in
            (exists d' : Dec,
               read_residual_data v mb mbx p =
               Ok
                 (concat (map (fun b : list Z => fst (idct b)) (r_y res0 ++ r_u res0 ++ r_v res0)), r_nonzero res0,
                  rst v p mbx t d' (c_dc top' :: c_y top' ++ c_u top' ++ c_v top') (c_dc left' :: c_y left' ++ c_u left' ++ c_v left')) /\
               linked data s' d') \/ read_residual_data v mb mbx p = Err EBitStreamError /\ (exists sx : bstate, over_read data sx).
  Proof. exact VP8_parse_residual.read_residual_data_bpred_refines. Qed.

  (* read_residual_data for a non-skipped 16x16 macroblock: additionally the Y2 block, its context, the inverse WHT, the DC scatter, Y blocks read from position 1 *)
  Theorem read_residual_data_i16_refines :
    forall data : list Z,
           Forall byte data ->
           C15_model.len data < 2 ^ 63 ->
           forall (h : header) (m : mbmode) (v : Vp8) (mb t : MacroBlock) (mbx p : Z) (d : Dec) (s : bstate) (seg : Segment),
           (mb_luma_mode mb =? Tables.vp8_B_PRED) = false ->
           m_i4 m = false ->
           h_use_skip h && m_skip m = false ->
           tables_ok (h_probas h) ->
           token_nodes_of (h_probas h) = Ok (v_token_probs v) ->
           0 <= mb_segmentid mb ->
           nth_error (v_segment v) (Z.to_nat (mb_segmentid mb)) = Some seg ->
           sg_ydc seg = q_y1dc (segment_quant h (m_seg m)) ->
           sg_yac seg = q_y1ac (segment_quant h (m_seg m)) ->
           sg_y2dc seg = q_y2dc (segment_quant h (m_seg m)) ->
           sg_y2ac seg = q_y2ac (segment_quant h (m_seg m)) ->
           sg_uvdc seg = q_uvdc (segment_quant h (m_seg m)) ->
           sg_uvac seg = q_uvac (segment_quant h (m_seg m)) ->
           i16 (sg_ydc seg) ->
           i16 (sg_yac seg) ->
           i16 (sg_y2dc seg) ->
           i16 (sg_y2ac seg) ->
           i16 (sg_uvdc seg) ->
           i16 (sg_uvac seg) ->
           coef_bound (sg_ydc seg) (sg_yac seg) <= VP8_arraykernels_aux.dct_bound ->
           coef_bound (sg_y2dc seg) (sg_y2ac seg) <= VP8_arraykernels_aux.wht_bound ->
           coef_bound (sg_uvdc seg) (sg_uvac seg) <= VP8_arraykernels_aux.dct_bound ->
           sg_uvdc seg <> 0 ->
           0 <= p ->
           nth_error (v_partitions v) (Z.to_nat p) = Some d ->
           0 <= mbx ->
           nth_error (v_top v) (Z.to_nat mbx) = Some t ->
           length (mb_complexity t) = 9%nat ->
           length (mb_complexity (v_left v)) = 9%nat ->
           cx_ok (mb_complexity t) ->
           cx_ok (mb_complexity (v_left v)) ->
           linked data s d ->
           let
           '(res0, top', left', s') := parse_residuals h m (ctx_of (mb_complexity t)) (ctx_of (mb_complexity (v_left v))) s in
            (exists d' : Dec,
               read_residual_data v mb mbx p =
               Ok
                 (concat (map (fun b : list Z => fst (idct b)) (r_y res0 ++ r_u res0 ++ r_v res0)), r_nonzero res0,
                  rst v p mbx t d' (c_dc top' :: c_y top' ++ c_u top' ++ c_v top') (c_dc left' :: c_y left' ++ c_u left' ++ c_v left')) /\
               linked data s' d') \/ read_residual_data v mb mbx p = Err EBitStreamError /\ (exists sx : bstate, over_read data sx).
  Proof. exact VP8_parse_residual.read_residual_data_i16_refines. Qed.

  (* where the header parser and libwebp disagree about ACCEPTING a header (none is a valid key frame the crate rejects except the reserved colour-space bit, documented in DESIGN.md 0.2): machine-checked witnesses *)
  Theorem header_acceptance_refuted :
    (spec_accepts w_ok = true /\ model_result w_ok = 0) /\
           (spec_accepts w_colour_space = true /\ model_result w_colour_space = 3) /\
           (spec_accepts w_width0 = false /\ model_result w_width0 = 0) /\
           (spec_accepts w_hidden = false /\ model_result w_hidden = 0) /\
           (spec_accepts w_profile4 = false /\ model_result w_profile4 = 0) /\
           (spec_accepts w_empty_last = false /\ model_result w_empty_last = 0) /\
           spec_accepts w_oversized = false /\ model_result w_oversized = 1.
  Proof. exact VP8_parse_refuted.header_acceptance_refuted. Qed.

End P.

(* ---------------- intra prediction (Model/Vp8Predict.v, tied to the code by the vp8predict correspondence through hooks: every predictor,
   add_residue, border construction, intra_predict_luma / intra_predict_chroma) = the reference predictors of Spec.VP8 ---------------- *)
Module I.
  Import Lib.Res Lib.ZBits Gen.Kernels Gen.Tables Spec.VP8 Spec.VP8Tables Model.Vp8Predict
    Proofs.VP8_tables Proofs.VP8_predict_base Proofs.VP8_predict_sub Proofs.VP8_predict_border Proofs.VP8_predict.

  (* the ten 4x4 sub-block predictors (any position and stride inside the workspace): predict_b??pred writes exactly the reference pred4 of the 13 neighbour cells it reads, touches nothing else, never panics; mode numbers related by the bijective renumbering bmode_to_rfc *)
  Theorem predict_sub_spec :
    forall (m : Z) (a : list Z) (x0 y0 s : Z),
           0 <= m <= 9 -> bytes a -> fits4 a x0 y0 s -> predict_sub (bmode_to_rfc m) a x0 y0 s = Ok (put4x4 a x0 y0 s (pred4_ws m a x0 y0 s)).
  Proof. exact VP8_predict_sub.predict_sub_spec. Qed.

  (* add_residue = clip255 (sample + residue) on the 16 cells *)
  Theorem add_residue_spec :
    forall (a res0 : list Z) (x0 y0 s : Z),
           bytes a ->
           fits4 a x0 y0 s ->
           length res0 = 16%nat -> res_ok res0 -> add_residue a res0 y0 x0 s = Ok (put4x4 a x0 y0 s (zip_with add_clip (blk4 a x0 y0 s) res0)).
  Proof. exact VP8_predict_sub.add_residue_spec. Qed.

  (* predict + residue = what the reference store4x4 writes *)
  Theorem predict_then_residue :
    forall (m : Z) (a a1 a2 res0 : list Z) (x0 y0 s r c : Z),
           0 <= m <= 9 ->
           bytes a ->
           fits4 a x0 y0 s ->
           length res0 = 16%nat ->
           res_ok res0 ->
           predict_sub (bmode_to_rfc m) a x0 y0 s = Ok a1 ->
           add_residue a1 res0 y0 x0 s = Ok a2 ->
           0 <= r < 4 ->
           0 <= c < 4 ->
           get a2 ((y0 + r) * s + x0 + c) = clip255 (nth (Z.to_nat (4 * r + c)) (pred4_ws m a x0 y0 s) 0 + nth (Z.to_nat (4 * r + c)) res0 0).
  Proof. exact VP8_predict.predict_then_residue. Qed.

  (* create_border_luma builds the reference neighbourhood (interior, top row, left column, corners, last column: 127 / 129 out-of-frame values, above-right rule) *)
  Theorem create_border_luma_spec :
    forall (p : plane) (mbw mx my : Z) (top left : list Z),
           0 <= mx < mbw ->
           0 <= my ->
           top_holds p mbw mx my top ->
           left_holds p mx my left -> exists ws : list Z, create_border_luma mx my mbw top left = Ok ws /\ luma_border p mbw mx my ws.
  Proof. exact VP8_predict_border.create_border_luma_spec. Qed.

  (* the inline chroma border construction of intra_predict_chroma *)
  Theorem create_border_chroma_spec :
    forall (p : plane) (buf : list Z) (mbw mbh mx my : Z),
           0 <= mx < mbw ->
           0 <= my < mbh ->
           plane_holds p buf (mbw * 8) (mbh * 8) -> exists ws : list Z, create_border_chroma mx my mbw buf = Ok ws /\ chroma_border p mx my ws.
  Proof. exact VP8_predict.create_border_chroma_spec. Qed.

  (* 16x16 V / H / TM / DC prediction on the luma workspace = the reference pred_big at the frame position *)
  Theorem luma_predict_big_spec :
    forall (p : plane) (mbw mx my : Z) (ws : list Z),
           0 <= mx ->
           0 <= my ->
           luma_border p mbw mx my ws ->
           forall m : Z, 0 <= m <= 3 -> bytes ws -> big_ok (predict_big (ymode_to_rfc m) ws 16 21 mx my) ws 17 21 16 (pred_big p 16 4 mx my m).
  Proof. exact VP8_predict.luma_predict_big_spec. Qed.

  (* 8x8 V / H / TM / DC prediction on the chroma workspace *)
  Theorem chroma_predict_big_spec :
    forall (p : plane) (mx my : Z) (ws : list Z),
           0 <= mx ->
           0 <= my ->
           chroma_border p mx my ws ->
           forall m : Z, 0 <= m <= 3 -> bytes ws -> big_ok (predict_big (ymode_to_rfc m) ws 8 9 mx my) ws 9 9 8 (pred_big p 8 3 mx my m).
  Proof. exact VP8_predict.chroma_predict_big_spec. Qed.

  (* the above-right neighbours of the right-column sub-blocks are the reference ones *)
  Theorem luma_border_top_right :
    forall (p : plane) (mbw mx my : Z) (ws : list Z),
           luma_border p mbw mx my ws ->
           forall sy i : Z,
           0 <= sy < 4 ->
           0 <= i < 4 ->
           nbT ws 13 (1 + 4 * sy) 21 (4 + i) =
           (if mx =? mbw - 1 then pget p (16 * mx + 15) (16 * my - 1) else pget p (16 * mx + 16 + i) (16 * my - 1)).
  Proof. exact VP8_predict.luma_border_top_right. Qed.

End I.

(* ---------------- frame-level parsing ---------------- *)
Module F.
  Import Lib.Res Lib.ZBits Gen.Kernels Spec.VP8 Spec.VP8Tables Spec.BoolDec Model.ArithDec Model.Vp8Parse Model.Vp8Frame
    Proofs.VP8_tables Proofs.VP8_quant Proofs.VP8_parse_base Proofs.VP8_parse_coeffs Proofs.VP8_parse_mbheader Proofs.VP8_parse_header Proofs.VP8_parse_residual
    Proofs.VP8_frame_base Proofs.VP8_frame_mono Proofs.VP8_frame_header Proofs.VP8_frame_hdrthm Proofs.VP8_frame_residual Proofs.VP8_frame_loop Proofs.VP8_frame_main.

  (* read_frame_header as ONE theorem: for every payload whose header the reference parses (reserved colour-space bit clear; no partition starting with byte 0xFF: the C15 hypothesis), the fresh decoder reads it to a state that agrees with the reference header in EVERY field (header_rel: frame and macroblock sizes, segmentation incl. the six dequantisation factors per segment, filter parameters, deltas, partition count, token probability tables, skip probability), with the first-partition reader and every token-partition reader linked to the reference readers; covers the 10-byte frame start, every scalar read in order, init_partitions = parse_partitions *)
  Theorem read_frame_header_refines :
    forall data : list Z,
           Forall byte data ->
           C15_model.len data < 2 ^ 63 ->
           forall (h : header) (s : bstate) (parts : list (list Z)),
           parse_header data = Some (h, s, parts) ->
           h_color_space h = 0 ->
           no_ff_start (first_partition data) = true ->
           forallb no_ff_start parts = true ->
           exists v0 : Vp8,
             Vp8_new data = Ok v0 /\
             ((exists v : Vp8,
                 read_frame_header v0 = Ok v /\
                 header_rel h v /\ header_wf h /\ linked (first_partition data) s (v_b v) /\ parts_linked parts v /\ parts_wf h parts) \/
              read_frame_header v0 = Err EBitStreamError /\ over_read (first_partition data) s).
  Proof. exact VP8_frame_hdrthm.read_frame_header_refines. Qed.

  (* the skipped-macroblock branch inlined in decode_frame_ (contexts cleared, complexity[0] kept for B_PRED) *)
  Theorem skipped_macroblock_ok :
    forall (v : Vp8) (mb : MacroBlock) (mbx p : Z) (t : MacroBlock) (d : Dec),
           0 <= mbx ->
           0 <= p ->
           nth_error (v_partitions v) (Z.to_nat p) = Some d ->
           nth_error (v_top v) (Z.to_nat mbx) = Some t ->
           length (mb_complexity t) = 9%nat ->
           length (mb_complexity (v_left v)) = 9%nat ->
           skipped_macroblock v mb mbx =
           Ok
             (rst v p mbx t d (skc (mb_luma_mode mb =? Tables.vp8_B_PRED) (mb_complexity t))
                (skc (mb_luma_mode mb =? Tables.vp8_B_PRED) (mb_complexity (v_left v)))).
  Proof. exact VP8_frame_loop.skipped_macroblock_ok. Qed.

  (* FRAME-LEVEL PARSING: header + the macroblock loop of decode_frame_ (Model/Vp8Frame.v: mirrors the real loop, tied by the vp8frame correspondence on the REAL decode_frame_ through recording hooks) deliver, for every macroblock in raster order, exactly the modes and residual records of the reference (parse_modes from the first partition, parse_tokens from the token partitions: the per-macroblock interleaving of the crate commutes with the two passes of the reference because the partitions are separate streams with disjoint contexts), or BitStreamError exactly when the reference has read beyond a partition; loop invariants (valid stored modes, 0/1 contexts, factor equalities and ranges) are established, not assumed *)
  Theorem parse_frame_refines :
    forall data : list Z,
           Forall byte data ->
           C15_model.len data < 2 ^ 63 ->
           forall (h : header) (s : bstate) (parts : list (list Z)),
           parse_header data = Some (h, s, parts) ->
           h_color_space h = 0 ->
           no_ff_start (first_partition data) = true ->
           forallb no_ff_start parts = true ->
           let
           '(modes, s') := parse_modes h s in
            let
            '(res0, ps') := parse_tokens h modes (map bd_init parts) in
             (exists (recs : list (MacroBlock * list Z)) (v vh : Vp8),
                parse_frame data = Ok (recs, v) /\
                rows_rel modes res0 recs /\
                header_rel h vh /\ header_wf h /\ same_hdr vh v /\ linked (first_partition data) s' (v_b v) /\ parts_rel parts ps' v) \/
             parse_frame data = Err EBitStreamError /\ (over_read (first_partition data) s' \/ parts_over parts ps').
  Proof. exact VP8_frame_main.parse_frame_refines. Qed.

  (* a stream the reference reads without running beyond any partition parses to the reference values *)
  Theorem parse_frame_valid :
    forall data : list Z,
           Forall byte data ->
           C15_model.len data < 2 ^ 63 ->
           forall (h : header) (s : bstate) (parts : list (list Z)),
           parse_header data = Some (h, s, parts) ->
           h_color_space h = 0 ->
           no_ff_start (first_partition data) = true ->
           forallb no_ff_start parts = true ->
           let
           '(modes, s') := parse_modes h s in
            let
            '(res0, ps') := parse_tokens h modes (map bd_init parts) in
             ~ over_read (first_partition data) s' ->
             ~ parts_over parts ps' ->
             exists (recs : list (MacroBlock * list Z)) (v : Vp8), parse_frame data = Ok (recs, v) /\ rows_rel modes res0 recs.
  Proof. exact VP8_frame_main.parse_frame_valid. Qed.

End F.

(* ---------------- frame-level reconstruction, loop filter and crop (Model/Vp8Recon.v) ---------------- *)
Module X.
  Import Lib.Res Lib.ZBits Lib.Arr Gen.Kernels Gen.Tables Spec.VP8Tables Spec.BoolDec Spec.VP8 Model.Vp8Predict Model.Vp8Recon Proofs.VP8_recon_base Proofs.VP8_recon_plane Proofs.VP8_recon_frame Proofs.VP8_recon_filter Proofs.VP8_recon_pass Proofs.VP8_recon_main Proofs.VP8_recon_example.

  (* reconstruction of ONE macroblock (border construction, 16x16 prediction or the 16-sub-block loop of predict_4x4 with residue, chroma, write-back into the planes and the border arrays) = the reference recon_mb, re-establishing the border invariants for the next macroblock *)
  Theorem recon_mb_refines :
    forall (h : RHdr) (mbh : Z) (pl : planes) (mx my : Z) (mb : MacroBlock) (m : mbmode) (r : mbres) (blocks : list Z) (s : RState),
           0 <= mx < rh_mbwidth h ->
           0 <= my < mbh ->
           planes_rel (rh_mbwidth h) mbh pl s ->
           VP8_recon_mb.top_inv (pl_y pl) (rh_mbwidth h) mx my (rs_top_border s) ->
           VP8_recon_mb.left_inv (pl_y pl) mx my (rs_left_border s) ->
           VP8_recon_mb.mb_rel mb m ->
           VP8_recon_mb.res_rel blocks r ->
           let pl' := VP8.recon_mb (rh_mbwidth h) pl mx my m r in
           exists s' : RState,
             recon_mb h mx my mb blocks s = Ok s' /\
             planes_rel (rh_mbwidth h) mbh pl' s' /\
             VP8_recon_mb.top_inv (pl_y pl') (rh_mbwidth h) (mx + 1) my (rs_top_border s') /\
             VP8_recon_mb.left_inv (pl_y pl') (mx + 1) my (rs_left_border s') /\ rs_macroblocks s' = rs_macroblocks s ++ [mb].
  Proof. exact VP8_recon_frame.recon_mb_refines. Qed.

  (* the reconstruction loop over the frame = the reference reconstruct (induction over macroblocks in raster order) *)
  Theorem reconstruct_refines :
    forall (h : RHdr) (hs : header) (inp : list (MacroBlock * list Z)) (mss : list (list mbmode)) (rss : list (list mbres)),
           dims_rel h hs ->
           frame_rel (mb_w hs) inp mss rss ->
           Z.of_nat (length mss) = mb_h hs ->
           exists s : RState,
             reconstruct h inp = Ok s /\ planes_rel (mb_w hs) (mb_h hs) (VP8.reconstruct hs mss rss) s /\ rs_macroblocks s = map fst inp.
  Proof. exact VP8_recon_frame.reconstruct_refines. Qed.

  (* the loop filter of ONE macroblock (filter parameters, left / inner vertical / top / inner horizontal edges of luma and both chroma planes, frame-edge exclusions, inner-edge condition, simple or normal filter) = the reference filter_mb *)
  Theorem loop_filter_mb_refines :
    forall (h : RHdr) (hs : header) (pl : planes) (mx my : Z) (mb : MacroBlock) (m : mbmode) (r : mbres) (b : planes3),
           filt_rel h hs ->
           lf_valid hs ->
           h_level hs <> 0 ->
           (Vp8Parse.mb_luma_mode mb =? vp8_B_PRED) = m_i4 m ->
           seg_rel mb m r ->
           0 <= mx < rh_mbwidth h ->
           0 <= my < rh_mbheight h ->
           frel3 (rh_mbwidth h) (rh_mbheight h) pl b ->
           exists b' : planes3, loop_filter h mx my mb b = Ok b' /\ frel3 (rh_mbwidth h) (rh_mbheight h) (filter_mb hs pl mx my m r) b'.
  Proof. exact VP8_recon_filter.loop_filter_mb_refines. Qed.

  (* the filter pass over the frame = the reference loop_filter *)
  Theorem filter_frame_refines :
    forall (h : RHdr) (hs : header) (inp : list (MacroBlock * list Z)) (mss : list (list mbmode)) (rss : list (list mbres))
             (pl : planes) (b : planes3),
           filt_rel h hs ->
           lf_valid hs ->
           frame_rel (rh_mbwidth h) inp mss rss ->
           Z.of_nat (length mss) = rh_mbheight h ->
           0 < rh_mbwidth h ->
           frel3 (rh_mbwidth h) (rh_mbheight h) pl b ->
           exists b' : planes3,
             filter_frame h (map fst inp) b = Ok b' /\ frel3 (rh_mbwidth h) (rh_mbheight h) (VP8.loop_filter hs mss rss pl) b'.
  Proof. exact VP8_recon_pass.filter_frame_refines. Qed.

  (* reconstruction + filter pass + crop = the reference planes, given related parse results *)
  Theorem decode_frame_recon_refines :
    forall (h : RHdr) (hs : header) (inp : list (MacroBlock * list Z)) (mss : list (list mbmode)) (rss : list (list mbres)),
           dims_rel h hs ->
           h_width hs <= 16383 ->
           h_height hs <= 16383 ->
           filt_rel h hs ->
           lf_valid hs ->
           frame_rel (mb_w hs) inp mss rss ->
           Z.of_nat (length mss) = mb_h hs ->
           let rec := VP8.reconstruct hs mss rss in
           let pl := VP8.loop_filter hs mss rss rec in
           let w := h_width hs in
           let hh := h_height hs in
           let cw := Z.shiftr (w + 1) 1 in
           let ch := Z.shiftr (hh + 1) 1 in
           decode_frame_recon h inp =
           Ok
             (to_list (p_a (pl_y rec)), to_list (p_a (pl_u rec)), to_list (p_a (pl_v rec)),
              (crop (pl_y pl) w hh, crop (pl_u pl) cw ch, crop (pl_v pl) cw ch)).
  Proof. exact VP8_recon_main.decode_frame_recon_refines. Qed.

  (* ... stated against Spec.VP8.decode_frame: fed the parse results of the reference, the reconstruction half of decode_frame_ (Model/Vp8Recon.v, tied to the REAL decode_frame_ by recording hooks) returns exactly the reference planes *)
  Theorem decode_frame_recon_is_spec :
    forall (data : list Z) (hs : header) (s : bstate) (parts : list (list Z)) (mss : list (list mbmode)) (s' : bstate)
             (rss : list (list mbres)) (parts' : list bstate) (f : frame) (h : RHdr) (inp : list (MacroBlock * list Z)),
           parse_header data = Some (hs, s, parts) ->
           parse_modes hs s = (mss, s') ->
           parse_tokens hs mss (map bd_init parts) = (rss, parts') ->
           decode_frame data = Some f ->
           dims_rel h hs ->
           h_width hs <= 16383 ->
           h_height hs <= 16383 ->
           filt_rel h hs ->
           lf_valid hs ->
           frame_rel (mb_w hs) inp mss rss ->
           Z.of_nat (length mss) = mb_h hs ->
           decode_frame_planes h inp = Ok (fr_y f, fr_u f, fr_v f) /\ fr_w f = rh_width h /\ fr_h f = rh_height h.
  Proof. exact VP8_recon_main.decode_frame_recon_is_spec. Qed.

  (* closed form: two computable side conditions (well-formed parse results; filter levels whose segment base stays in 0..63 before the deltas -- the documented lf_ambiguous exclusion) *)
  Theorem recon_of_spec_parse :
    forall (data : list Z) (hs : header) (s : bstate) (parts : list (list Z)) (mss : list (list mbmode)) (s' : bstate)
             (rss : list (list mbres)) (parts' : list bstate) (f : frame),
           parse_header data = Some (hs, s, parts) ->
           parse_modes hs s = (mss, s') ->
           parse_tokens hs mss (map bd_init parts) = (rss, parts') ->
           decode_frame data = Some f ->
           wf_frame_b (mb_w hs) mss rss = true ->
           lf_valid_b hs = true -> decode_frame_planes (hdr_of_spec hs) (frame_of_spec mss rss) = Ok (fr_y f, fr_u f, fr_v f).
  Proof. exact VP8_recon_example.recon_of_spec_parse. Qed.

  (* the lf_valid condition is necessary: machine-checked witness of the documented clamp difference (crate level 53, libwebp level 60) *)
  Theorem filter_level_clamp_refuted :
    lf_valid_b amb_hdr = false /\
           filter_parameters (hdr_of_spec amb_hdr)
             {|
               Vp8Parse.mb_bpred := repeat 0 16;
               Vp8Parse.mb_complexity := repeat 0 9;
               Vp8Parse.mb_luma_mode := 0;
               Vp8Parse.mb_chroma_mode := 0;
               Vp8Parse.mb_segmentid := 0;
               Vp8Parse.mb_coeffs_skipped := false;
               Vp8Parse.mb_non_zero_coeffs := false
             |} = Ok (53, 53, 2) /\ filter_strength amb_hdr 0 false = {| f_limit := 2 * 60 + 60; f_ilevel := 60; f_hev := 2 |}.
  Proof. exact VP8_recon_example.filter_level_clamp_refuted. Qed.

End X.

(* ---------------- the whole frame decoder: Vp8Decoder::decode_frame = Spec.VP8.decode_frame (Model/Vp8Decode.v) ---------------- *)
Module D.
  Import Lib.Res Spec.BoolDec Spec.VP8 Model.Vp8Parse Model.Vp8Frame Model.Vp8Recon Proofs.VP8_frame_hdrthm Proofs.VP8_frame_loop
    Proofs.VP8_recon_frame Proofs.VP8_recon_filter Proofs.VP8_recon_example
    Proofs.VP8_decode_starved Proofs.VP8_decode_shape Proofs.VP8_decode_refwf Proofs.VP8_decode_bridge Proofs.VP8_decode_main Proofs.VP8_decode_planes
    Proofs.VP8_decode_example Proofs.ReadImage_lossy.

  (* MAIN: for every payload the reference decodes, under the four decidable side conditions of decode_hyps_b (reserved colour-space bit clear;
     first partition and token partitions do not start with 0xFF; per segment the loop-filter base level within 0..63), the Model of
     Vp8Decoder::decode_frame returns exactly the reference frame: same size, same Y / U / V samples *)
  Theorem decode_frame_is_spec :
    forall (data : list Z) (f : frame),
           Forall byte data -> C15_model.len data < 2 ^ 63 ->
           decode_frame data = Some f ->
           decode_hyps_b data = true ->
           Vp8Decode.decode_frame data = Ok (fr_w f, fr_h f, fr_y f, fr_u f, fr_v f).
  Proof. exact VP8_decode_main.decode_frame_is_spec. Qed.

  Theorem decode_is_spec :
    forall (data : list Z) (w h : Z) (yp up vp : list Z),
           Forall byte data -> C15_model.len data < 2 ^ 63 ->
           decode data = Some (w, h, yp, up, vp) ->
           decode_hyps_b data = true ->
           Vp8Decode.decode_frame data = Ok (w, h, yp, up, vp).
  Proof. exact VP8_decode_main.decode_is_spec. Qed.

  (* the parsing half never fails on a stream the reference decodes (the reference rejects starved partitions and is one byte stricter than the
     crate), and hands on what the reconstruction half needs *)
  Theorem parse_frame_of_spec :
    forall (data : list Z) (f : frame) (h : header) (s : bstate) (parts : list (list Z)),
           Forall byte data -> C15_model.len data < 2 ^ 63 ->
           parse_header data = Some (h, s, parts) -> decode_frame data = Some f ->
           h_color_space h = 0 -> no_ff_start (first_partition data) = true -> forallb no_ff_start parts = true ->
           let '(modes, s') := parse_modes h s in
           let '(res, ps') := parse_tokens h modes (map bd_init parts) in
           exists recs v, parse_frame data = Ok (recs, v) /\ frame_rel (mb_w h) recs modes res /\
                          dims_rel (Vp8Decode.recon_header v) h /\ filt_rel (Vp8Decode.recon_header v) h /\ header_wf h.
  Proof. exact VP8_decode_main.parse_frame_of_spec. Qed.

  (* over-read (the crate's failure condition) implies libwebp's eof flag, on every state of a reference run *)
  Theorem over_read_starved : forall (data : list Z) (s : bstate), sinv data s -> VP8_parse_base.over_read data s -> starved s = true.
  Proof. exact VP8_decode_starved.over_read_starved. Qed.

  Theorem decoded_not_over_read :
    forall (data : list Z) (h : header) (s : bstate) (parts : list (list Z)) (f : frame),
           parse_header data = Some (h, s, parts) -> decode_frame data = Some f ->
           (h_num_parts h = 1 \/ h_num_parts h = 2 \/ h_num_parts h = 4 \/ h_num_parts h = 8) ->
           length parts = Z.to_nat (h_num_parts h) -> 0 < mb_h h ->
           let '(modes, s') := parse_modes h s in
           let '(res, ps') := parse_tokens h modes (map bd_init parts) in
           ~ VP8_parse_base.over_read (first_partition data) s' /\ ~ parts_over parts ps'.
  Proof. exact VP8_decode_starved.decoded_not_over_read. Qed.

  (* the record of a macroblock is well typed whenever read_macroblock_header returns Ok (the from_i8 checks of the Model) *)
  Theorem parse_frame_shape : forall (data : list Z) (recs : list (MacroBlock * list Z)) (v : Vp8), parse_frame data = Ok (recs, v) -> recs_shape recs.
  Proof. exact VP8_decode_shape.parse_frame_shape. Qed.

  (* the reference parse is well formed for every header with legal tables: row lengths, segment ids, 16/4/4 blocks, coefficients within 2^29 *)
  Theorem parse_modes_facts : forall (h : header) (s : bstate), Forall (mrow_ok h) (fst (parse_modes h s)).
  Proof. exact VP8_decode_refwf.parse_modes_facts. Qed.
  Theorem parse_tokens_facts :
    forall (h : header) (v : Vp8) (modes : list (list mbmode)) (parts : list bstate),
           VP8_parse_coeffs.tables_ok (h_probas h) -> token_nodes_of (h_probas h) = Ok (v_token_probs v) ->
           Forall (Forall res_wf) (fst (parse_tokens h modes parts)).
  Proof. exact VP8_decode_refwf.parse_tokens_facts. Qed.

  (* the relations of the two halves fit *)
  Theorem mb_bridge :
    forall (m : mbmode) (r : mbres) (mb : MacroBlock) (blocks : list Z),
           VP8_frame_loop.mb_rel m r (mb, blocks) -> rec_shape mb -> seg_ok m -> res_wf r ->
           VP8_recon_mb.mb_rel mb m /\ VP8_recon_mb.res_rel blocks r /\ seg_rel mb m r.
  Proof. exact VP8_decode_bridge.mb_bridge. Qed.
  Theorem frame_bridge :
    forall (h : header) (mss : list (list mbmode)) (rss : list (list mbres)) (recs : list (MacroBlock * list Z)),
           0 <= mb_w h -> rows_rel mss rss recs -> recs_shape recs -> Forall (mrow_ok h) mss -> Forall (Forall res_wf) rss ->
           frame_rel (mb_w h) recs mss rss.
  Proof. exact VP8_decode_bridge.frame_bridge. Qed.
  Theorem header_bridge :
    forall (data : list Z) (h : header) (s : bstate) (parts : list (list Z)) (vh v : Vp8),
           parse_header data = Some (h, s, parts) -> header_rel h vh -> same_hdr vh v ->
           dims_rel (Vp8Decode.recon_header v) h /\ filt_rel (Vp8Decode.recon_header v) h.
  Proof. exact VP8_decode_bridge.header_bridge. Qed.
  Theorem lf_valid_bridge : forall h : header, header_wf h -> lf_base_ok h -> lf_valid h.
  Proof. exact VP8_decode_bridge.lf_valid_bridge. Qed.

  (* the computable check wf_frame_b of recon_of_spec_parse is a theorem for every stream the reference decodes *)
  Theorem spec_parse_wf_b :
    forall (data : list Z) (f : frame) (h : header) (s : bstate) (parts : list (list Z)),
           Forall byte data -> C15_model.len data < 2 ^ 63 ->
           parse_header data = Some (h, s, parts) -> decode_frame data = Some f ->
           h_color_space h = 0 -> no_ff_start (first_partition data) = true -> forallb no_ff_start parts = true ->
           let '(modes, s') := parse_modes h s in
           let '(res, ps') := parse_tokens h modes (map bd_init parts) in
           wf_frame_b (mb_w h) modes res = true.
  Proof. exact VP8_decode_main.spec_parse_wf_b. Qed.

  (* the planes of the reference are well formed, unconditionally: sizes, sample counts, bytes *)
  Theorem planes_ok_of_spec :
    forall (data : list Z) (w h : Z) (yp up vp : list Z), decode data = Some (w, h, yp, up, vp) -> planes_ok w h yp up vp.
  Proof. exact VP8_decode_planes.planes_ok_of_spec. Qed.

  (* non-vacuity: two real key frames (a gen_vp8 frame program, a libwebp encode), hypotheses discharged, conclusion from the theorem *)
  Theorem ex_frame_decodes :
    match decode VP8_recon_example.ex_frame with
    | Some (w, h, yp, up, vp) =>
        Vp8Decode.decode_frame VP8_recon_example.ex_frame = Ok (w, h, yp, up, vp) /\ planes_ok w h yp up vp /\ (w, h) = (7, 27) /\
        length yp = 189%nat /\ length up = 56%nat
    | None => False
    end.
  Proof. exact VP8_decode_example.ex_frame_decodes. Qed.
  Theorem ex_payload_decodes :
    match decode VP8_frame_main.ex_payload with
    | Some (w, h, yp, up, vp) =>
        Vp8Decode.decode_frame VP8_frame_main.ex_payload = Ok (w, h, yp, up, vp) /\ planes_ok w h yp up vp /\ (w, h) = (39, 2)
    | None => False
    end.
  Proof. exact VP8_decode_example.ex_payload_decodes. Qed.

  (* the fourth side condition is necessary: a whole 7 x 16 key frame (66 bytes) of the documented class lf_ambiguous on which Model (= crate)
     and Spec (= libwebp) return different luma planes, the other three conditions holding *)
  Theorem decode_frame_lf_clamp_refuted :
    match parse_header lf_witness with
    | Some (h, s, parts) =>
        (h_color_space h =? 0) && no_ff_start (first_partition lf_witness) && forallb no_ff_start parts = true /\ lf_base_okb h = false
    | None => False
    end /\
    match Vp8Decode.decode_frame lf_witness, decode lf_witness with
    | Ok (w, h, yp, up, vp), Some (w', h', yp', up', vp') =>
        (w, h, w', h') = (7, 16, 7, 16) /\ zl_eqb up up' = true /\ zl_eqb vp vp' = true /\ zl_eqb yp yp' = false
    | _, _ => False
    end.
  Proof. exact VP8_decode_example.decode_frame_lf_clamp_refuted. Qed.
End D.
