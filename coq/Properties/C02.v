(* C02 -- VP8 keyframe reconstruction is bit-exact for every valid stream and size.          (PARTIAL)
   Reference: Spec.VP8.decode, an executable Gallina transcription of libwebp 1.3.1's key-frame decoder (bit-exact with the
   RFC 6386 reference on valid streams), validated against the compiled libwebp on every run (harness c02spec).
   Proved here, re-checked against the current source on every run because Gen.* is regenerated from /repo/src:
     * every table vp8.rs decodes with is the normative one (coefficient probabilities and their update probabilities,
       key-frame mode trees and probabilities incl. the 10x10x9 sub-block mode contexts, token tree, DCT categories,
       bands, zig-zag, DC/AC quantiser tables), modulo an explicit, bijective renumbering of modes / tree leaves;
     * the scalar kernels equal the reference forms (averaging predictors, loop-filter clamps and conversions);
     * the imperative kernels of loop_filter.rs and transform.rs, translated on every run by tools/rs2v_imp.py into functions of
       the 8 edge samples / 16 block cells, equal the reference: the three edge filters (simple, sub-block, macroblock) leave
       exactly the samples Spec.VP8's simple_edge / inner_edge / mb_edge leave at every edge position of every array, with the
       Rust arguments (edge_limit, interior_limit, hev_threshold) = the Spec arguments (thresh, ithresh, hevt); idct4x4 and
       iwht4x4 equal Spec.VP8.idct / iwht for every block within 2^29 / 2^27 - 1 (the sharp bounds for exact i32 casts);
     * calculate_filter_parameters (struct fields as parameters) computes the reference's per-macroblock filter level,
       interior limit and key-frame hev threshold (Spec.VP8.filter_strength) for every header state whose segment base level
       stays within 0..63 before the deltas are added.
     * the per-segment block of read_quantization_indices (places read as parameters, places written as results) computes the
       reference's six dequantisation factors (Spec.VP8.segment_quant: table lookups at clamped indices, y2dc * 2,
       y2ac * 155 / 100 with floor 8, uvdc capped at 132) for every header the bitstream can express, without overflow.
   NOT proved (the two structural links of DESIGN.md section 6 C02: interleaved parsing with contexts = AST parse, workspace /
   border bookkeeping = frame-addressed reconstruction and per-macroblock filter traversal): decided on every run by the
   whole-frame correspondence implementation = Spec.VP8.decode on generated key frames (harness c02), and on libwebp. *)
From Coq Require Import ZArith List Lia.
From WebP Require Import Gen.Tables Gen.Kernels Lib.ZBits Lib.Arr Spec.VP8Tables Spec.VP8 Proofs.VP8_tables Proofs.VP8_kernels
  Proofs.VP8_arraykernels_aux Proofs.VP8_arraykernels Proofs.VP8_filter_params Proofs.VP8_quant.
Import ListNotations.
Open Scope Z_scope.

Theorem tables_normative :
     vp8_COEFF_PROBS = coeffs_proba0
  /\ vp8_COEFF_UPDATE_PROBS = coeffs_update_proba
  /\ vp8_COEFF_BANDS = firstn 16 kBands
  /\ vp8_ZIGZAG = kZigzag
  /\ vp8_DC_QUANT = kDcTable
  /\ vp8_AC_QUANT = kAcTable
  /\ vp8_SEGMENT_ID_TREE = segment_tree
  /\ vp8_DCT_TOKEN_TREE = coeff_tree
  /\ vp8_PROB_DCT_CAT = map (pad_to 12) cat_probs
  /\ vp8_DCT_CAT_BASE = cat_base.
Proof.
  split; [exact coeff_probs_normative|].
  split; [exact coeff_update_probs_normative|].
  split; [exact coeff_bands_normative|].
  split; [exact zigzag_normative|].
  split; [exact dc_quant_normative|].
  split; [exact ac_quant_normative|].
  split; [exact segment_tree_normative|].
  split; [exact dct_token_tree_normative|].
  split; [exact dct_cat_probs_normative|].
  exact dct_cat_base_normative.
Qed.

Theorem mode_tables_normative :
     vp8_KEYFRAME_YMODE_TREE = map_leaves ymode_to_rfc kf_ymode_tree
  /\ vp8_KEYFRAME_YMODE_PROBS = kf_ymode_prob
  /\ vp8_KEYFRAME_UV_MODE_TREE = map_leaves ymode_to_rfc uv_mode_tree
  /\ vp8_KEYFRAME_UV_MODE_PROBS = uv_mode_prob
  /\ vp8_KEYFRAME_BPRED_MODE_TREE = map_leaves bmode_to_rfc (tree_of_libwebp kYModesIntra4)
  /\ vp8_KEYFRAME_BPRED_MODE_PROBS = reindex_bmodes [] kBModesProba.
Proof.
  split; [exact kf_ymode_tree_normative|].
  split; [exact kf_ymode_probs_normative|].
  split; [exact uv_mode_tree_normative|].
  split; [exact uv_mode_probs_normative|].
  split; [exact bpred_tree_normative|].
  exact bpred_probs_normative.
Qed.

Theorem predictor_averages : forall a b c, byte a -> byte b -> byte c ->
  Gen.Kernels.avg2 a b = Spec.VP8.avg2 a b /\ Gen.Kernels.avg3 a b c = Spec.VP8.avg3 a b c.
Proof. intros a b c Ha Hb Hc. split; [exact (proj1 (avg2_spec a b Ha Hb)) | exact (proj1 (avg3_spec a b c Ha Hb Hc))]. Qed.

Theorem loop_filter_scalars : forall v a b, byte a -> byte b -> -2147483520 <= v <= 2147483519 ->
  lf_c v = sclip1 v /\ lf_s2u v = clip255 (v + 128) /\ lf_u2s a = a - 128 /\ lf_diff a b = Z.abs (a - b).
Proof.
  intros v a b Ha Hb Hv. split; [apply lf_c_spec|]. split; [apply lf_s2u_spec; lia|].
  split; [exact (proj1 (lf_u2s_spec a Ha)) | exact (proj1 (lf_diff_spec a b Ha Hb))].
Qed.

(* loop filter: at every edge position (8 distinct, non-negative indices i-4*step .. i+3*step) of every array, the Spec's
   edge function equals writing back what the translated Rust kernel computes from the 8 samples it reads *)
Theorem loop_filter_kernels_refine : forall hev_threshold interior_limit edge_limit step a i, edge_pos i step ->
  arr_ext (Spec.VP8.simple_edge step edge_limit a i)
          (write_taps a i step (app8 (lf_simple_segment edge_limit) [] (taps_of a i step)))
  /\ arr_ext (Spec.VP8.inner_edge step edge_limit interior_limit hev_threshold a i)
          (write_taps a i step (app8 (lf_subblock_filter hev_threshold interior_limit edge_limit) [] (taps_of a i step)))
  /\ arr_ext (Spec.VP8.mb_edge step edge_limit interior_limit hev_threshold a i)
          (write_taps a i step (app8 (lf_macroblock_filter hev_threshold interior_limit edge_limit) [] (taps_of a i step))).
Proof.
  intros h il el step a i H. split; [exact (simple_segment_refines el step a i H)|].
  split; [exact (subblock_filter_refines h il el step a i H) | exact (macroblock_filter_refines h il el step a i H)].
Qed.

Theorem transforms_refine : forall b0 b1 b2 b3 b4 b5 b6 b7 b8 b9 b10 b11 b12 b13 b14 b15,
  (Forall (within dct_bound) [b0; b1; b2; b3; b4; b5; b6; b7; b8; b9; b10; b11; b12; b13; b14; b15] ->
     idct4x4 b0 b1 b2 b3 b4 b5 b6 b7 b8 b9 b10 b11 b12 b13 b14 b15
     = fst (Spec.VP8.idct [b0; b1; b2; b3; b4; b5; b6; b7; b8; b9; b10; b11; b12; b13; b14; b15]))
  /\ (Forall (within wht_bound) [b0; b1; b2; b3; b4; b5; b6; b7; b8; b9; b10; b11; b12; b13; b14; b15] ->
     iwht4x4 b0 b1 b2 b3 b4 b5 b6 b7 b8 b9 b10 b11 b12 b13 b14 b15
     = fst (Spec.VP8.iwht [b0; b1; b2; b3; b4; b5; b6; b7; b8; b9; b10; b11; b12; b13; b14; b15])).
Proof.
  intros. split; intros H.
  - exact (proj1 (idct4x4_refines b0 b1 b2 b3 b4 b5 b6 b7 b8 b9 b10 b11 b12 b13 b14 b15 H)).
  - exact (proj1 (iwht4x4_refines b0 b1 b2 b3 b4 b5 b6 b7 b8 b9 b10 b11 b12 b13 b14 b15 H)).
Qed.

(* per-macroblock loop-filter parameters: level (segment override or delta, ref_lf_delta[0], mode_lf_delta[0] for B_PRED, clamps),
   interior limit from the sharpness, key-frame hev threshold; level 0 = no filtering *)
Theorem filter_parameters_refine : forall (h : header) (seg : Z) (i4 : bool),
  0 <= h_level h <= 63 -> -63 <= nthZ (h_seg_filter h) seg 0 <= 63 ->
  -63 <= nthZ (h_ref_lf_delta h) 0 0 <= 63 -> -63 <= nthZ (h_mode_lf_delta h) 0 0 <= 63 -> 0 <= h_sharpness h <= 7 ->
  let base := if h_use_segment h then nthZ (h_seg_filter h) seg 0 + (if h_absolute h then 0 else h_level h) else h_level h in
  0 <= base <= 63 ->
  let out := calculate_filter_parameters (h_level h) (h_use_segment h) (negb (h_absolute h)) (nthZ (h_seg_filter h) seg 0)
               (if h_use_lf_delta h then nthZ (h_ref_lf_delta h) 0 0 else 0)
               (if h_use_lf_delta h then nthZ (h_mode_lf_delta h) 0 0 else 0)
               (if i4 then 4 else 0) (h_sharpness h) true in
  let level := nth 0 out 0 in let il := nth 1 out 0 in let hev := nth 2 out 0 in
  filter_strength h seg i4 = if 0 <? level then mkF (2 * level + il) il hev else mkF 0 0 0.
Proof. exact filter_params_refine. Qed.

(* dequantisation factors of a segment: every header the bitstream can express (7-bit base index, 4-bit signed deltas,
   7-bit signed segment values, segment map absolute or delta) *)
Theorem dequantisation_refine : forall (h : header) (seg : Z),
  0 <= h_base_q h <= 127 -> -127 <= nthZ (h_seg_quant h) seg 0 <= 127 ->
  -15 <= h_dqy1_dc h <= 15 -> -15 <= h_dqy2_dc h <= 15 -> -15 <= h_dqy2_ac h <= 15 -> -15 <= h_dquv_dc h <= 15 -> -15 <= h_dquv_ac h <= 15 ->
  segment_quantizers (h_base_q h) (h_dqy1_dc h) (h_dqy2_dc h) (h_dqy2_ac h) (h_dquv_dc h) (h_dquv_ac h)
                     (h_use_segment h) (negb (h_absolute h)) (nthZ (h_seg_quant h) seg 0)
  = [q_y1dc (segment_quant h seg); q_y1ac (segment_quant h seg); q_y2dc (segment_quant h seg);
     q_y2ac (segment_quant h seg); q_uvdc (segment_quant h seg); q_uvac (segment_quant h seg)]
  /\ segment_quantizers_ok (h_base_q h) (h_dqy1_dc h) (h_dqy2_dc h) (h_dqy2_ac h) (h_dquv_dc h) (h_dquv_ac h)
                     (h_use_segment h) (negb (h_absolute h)) (nthZ (h_seg_quant h) seg 0) = true.
Proof. exact segment_quant_refine. Qed.
