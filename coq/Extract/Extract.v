(* Extraction of the executable Model and Spec entry points to OCaml (ExtrOcamlBasic only: bool, option, unit,
   list, prod, sumbool, sumor mapped to OCaml's; numbers stay Coq inductives).  Run by `vf` from build/ocaml. *)
From Coq Require Import ZArith List Extraction ExtrOcamlBasic.
From WebP Require Import Gen.Kernels Gen.Tables Model.AlphaBlend.
Extraction Language OCaml.

Extraction "oracle_gen.ml"
  Model.AlphaBlend.do_alpha_blending Model.AlphaBlend.do_alpha_blending_ok
  Z.of_nat Z.to_nat Z.add Z.mul Z.sub Z.eqb Z.leb Z.ltb Z.abs Z.min Z.max Z.div Z.modulo Pos.succ.
