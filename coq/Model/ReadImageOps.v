(* Hand model of the remaining public calls that touch `self.animation` -- decoder.rs :: reset_animation and read_image seen as a
   state transformer -- and an interpreter of call sequences over the BYTE-LEVEL decoder record (Model.Container.decoder + the
   animation state of Model.ReadImage), with the op alphabet of Model.Anim: MFrame = read_frame, MReset = reset_animation,
   MImage = read_image, MFill v = the caller overwrites its buffer.  Everything else is Model.ReadImage.  No proofs in this file.

   reset_animation:  assert!(self.is_animated());
                     self.animation = AnimationState { next_frame_start: self.chunks.get(&ANMF).unwrap().start - 8, ..Default::default() };
   read_image (animated): let saved = take(&mut self.animation); self.animation.next_frame_start = <first ANMF> - 8;
                     let result = self.read_frame(buf); self.animation = saved; result?;
     -- whatever read_frame does to the (default) state is discarded: read_image leaves self.animation as it found it; the still
        branches do not touch it at all.  (Model.ReadImage.read_image already runs read_frame on that fresh state.) *)
From Coq Require Import ZArith List Bool.
From WebP Require Import Lib.Res.
From WebP Require Model.Lossless Model.Anim Model.Container.   (* `Container.x` below is Model.Container.x *)
From WebP Require Import Model.ReadImage.
Import ListNotations.
Open Scope Z_scope.
Open Scope res_scope.

(* result of one call, as Model.Anim.mres but with the outcome of reset_animation (an assert and an unwrap) explicit;
   RoImage's flag: false when the buffer contents after a failed in-place lossless decode are not modelled (still files only) *)
Inductive ores := RoFrame (r : res Z) | RoImage (r : res unit) (buffer_modelled : bool) | RoReset (r : res unit) | RoFill.

Definition of_mres (r : Anim.mres) : ores :=
  match r with
  | Anim.RFrame x => RoFrame x
  | Anim.RImage x => RoImage x true
  | Anim.RReset => RoReset (Ok tt)
  | Anim.RFill => RoFill
  end.

Definition reset_animation (dec : Container.decoder) : res fstate :=
  if negb (Container.is_animated dec) then Panic PAssert else
  let* anmf := of_option (Container.lookup Container.KANMF (Container.d_chunks dec)) PUnwrap in
  let* start := Container.sub_u64 (fst anmf) 8 in
  Ok (fresh_fstate start).

Section WithVp8.
Variable vp8 : list Z -> res (Z * Z * list Z * list Z * list Z).

(* the trace: result of each call and the caller's buffer after it *)
Fixpoint run_ops (dec : Container.decoder) (ops : list Anim.mop) (st : fstate) (buf : list Z) : list (ores * list Z) :=
  match ops with
  | [] => []
  | Anim.MFrame :: tl =>
      let '(r, st', buf') := read_frame vp8 dec st buf in (RoFrame r, buf') :: run_ops dec tl st' buf'
  | Anim.MReset :: tl =>
      match reset_animation dec with
      | Ok st' => (RoReset (Ok tt), buf) :: run_ops dec tl st' buf
      | Err e => (RoReset (Err e), buf) :: run_ops dec tl st buf
      | Panic p => (RoReset (Panic p), buf) :: run_ops dec tl st buf
      | OutOfFuel => (RoReset OutOfFuel, buf) :: run_ops dec tl st buf
      end
  | Anim.MImage :: tl =>
      match read_image vp8 dec buf with
      | (r, Some buf') => (RoImage r true, buf') :: run_ops dec tl st buf'
      | (r, None) => (RoImage r false, buf) :: run_ops dec tl st buf
      end
  | Anim.MFill v :: tl => (RoFill, map (fun _ => v) buf) :: run_ops dec tl st (map (fun _ => v) buf)
  end.

End WithVp8.

(* entry point of the extracted oracle: WebPDecoder::new, a buffer of output_buffer_size() bytes all [fill], the call sequence *)
Definition rimg_ops (file : list Z) (ops : list Anim.mop) (fill : Z)
  : res (Z * Z * bool * bool * list (ores * list Z)) :=
  let* dec := Container.new file in
  let buflen := match Container.output_buffer_size dec with Some k => k | None => 0 end in
  Ok (Container.d_width dec, Container.d_height dec, Container.d_has_alpha dec, Container.is_animated dec,
      run_ops rimg_vp8 dec ops (initial_fstate dec) (repeat fill (Z.to_nat buflen))).
