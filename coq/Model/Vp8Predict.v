(* Model/Vp8Predict.v -- hand model of the intra predictors of src/vp8.rs:

     create_border_luma, (the inline chroma border code of intra_predict_chroma = [create_border_chroma]),
     add_residue, predict_4x4, predict_vpred, predict_hpred, predict_dcpred, predict_tmpred, predict_bdcpred,
     topleft_pixel, top_pixels, left_pixels, edge_pixels, predict_bvepred, predict_bhepred, predict_bldpred,
     predict_brdpred, predict_bvrpred, predict_bvlpred, predict_bhdpred, predict_bhupred,
     and the two callers Vp8Decoder::intra_predict_luma / intra_predict_chroma.

   A workspace (`&mut [u8]`) is a flat `list Z` of bytes; every function uses the index arithmetic of the Rust text
   (`y0 * stride + x0`, `pos += stride`, `(y0 - 1) * stride + x0 - 1`, ...).  A Rust sub-slice is a window
   (offset, length) of the flat list: `split_at_mut`, `a[p..]`, `[..n]`, `chunks_exact_mut(stride).skip(y0).take(n)`
   and `zip` become explicit offset / count computations with the same bounds checks.  What can panic is explicit:
   index out of range = [Panic PIndex], slice range out of range = [Panic PSlice], `usize` subtraction below zero and
   `i32` addition overflow (debug build) = [Panic POverflow], `chunks_exact_mut(0)` = [Panic PAssert],
   `copy_from_slice` length mismatch = [Panic PCopyLen].  Not modelled: overflow of `usize` multiplications /
   additions and of the `u32` sums (impossible below 2^24 samples).
   The averages are Gen.Kernels.avg2 / avg3 (regenerated from the source on every run), the mode numbers are
   Gen.Tables.vp8_*.  No proofs in this file. *)
From Coq Require Import ZArith List Bool.
From WebP Require Import Lib.Res Gen.Kernels Gen.Tables.
Import ListNotations.
Open Scope Z_scope.
Open Scope res_scope.

(* ------------------------------------------------------------------------------------------------------------ *)
(* flat byte buffers                                                                                            *)
(* ------------------------------------------------------------------------------------------------------------ *)
Definition len (a : list Z) : Z := Z.of_nat (length a).
Definition get (a : list Z) (i : Z) : Z := nth (Z.to_nat i) a 0.
Fixpoint upd (a : list Z) (i : nat) (v : Z) : list Z :=
  match a, i with
  | [], _ => []
  | _ :: tl, O => v :: tl
  | x :: tl, S k => x :: upd tl k v
  end.
Definition set (a : list Z) (i v : Z) : list Z := upd a (Z.to_nat i) v.
Definition inb (a : list Z) (i : Z) : bool := (0 <=? i) && (i <? len a).

(* a[i] and a[i] = v *)
Definition rd (a : list Z) (i : Z) : res Z := if inb a i then Ok (get a i) else Panic PIndex.
Definition wr (a : list Z) (i v : Z) : res (list Z) := if inb a i then Ok (set a i v) else Panic PIndex.
(* usize subtraction *)
Definition usub (a b : Z) : res Z := if a <? b then Panic POverflow else Ok (a - b).
(* `.max(0).min(255) as u8` *)
Definition clamp255 (v : Z) : Z := Z.min (Z.max v 0) 255.
Definition i32_max : Z := 2147483647.

(* `for (k, d) in dst[pos..].iter_mut().enumerate().take(n) { *d = f(k) }`, k counted from [k] *)
Fixpoint copyf (n : nat) (a : list Z) (pos k : Z) (f : Z -> Z) : res (list Z) :=
  match n with
  | O => Ok a
  | S m => let* a' := wr a (pos + k) (f k) in copyf m a' pos (k + 1) f
  end.

(* a loop over rows: `for r in r0.. (n times) { body(r, pos); pos += stride }` *)
Fixpoint rows (n : nat) (a : list Z) (pos stride r : Z) (body : Z -> Z -> list Z -> res (list Z)) : res (list Z) :=
  match n with
  | O => Ok a
  | S m => let* a' := body r pos a in rows m a' (pos + stride) stride (r + 1) body
  end.

(* `for i in i0 .. i0 + n { body(i) }` *)
Fixpoint for_ (n : nat) (i : Z) (body : Z -> list Z -> res (list Z)) (a : list Z) : res (list Z) :=
  match n with
  | O => Ok a
  | S m => let* a' := body i a in for_ m (i + 1) body a'
  end.

(* `a[lo..hi].copy_from_slice(vals)` *)
Definition copy_from_slice (a : list Z) (lo hi : Z) (vals : list Z) : res (list Z) :=
  if (hi <? lo) || (len a <? hi) then Panic PSlice
  else if negb (hi - lo =? len vals) then Panic PCopyLen
  else copyf (length vals) a lo 0 (fun k => get vals k).

(* sub-list [from, from + n) of a small array (`avgs[i..=i + 3]`) *)
Definition sub (l : list Z) (from n : Z) : list Z := firstn (Z.to_nat n) (skipn (Z.to_nat from) l).

(* ------------------------------------------------------------------------------------------------------------ *)
(* create_border_luma(mbx, mby, mbw, top, left) -> [u8; 357]                                                    *)
(* ------------------------------------------------------------------------------------------------------------ *)
Definition luma_stride : Z := 1 + 16 + 4.
Definition luma_ws0 : list Z := repeat 0 357%nat.

Definition create_border_luma (mbx mby mbw : Z) (top left : list Z) : res (list Z) :=
  let stride := luma_stride in
  let ws := luma_ws0 in
  (* A: above = &mut ws[1..stride] *)
  let* ws :=
    if mby =? 0 then copyf 20 ws 1 0 (fun _ => 127)
    else
      (* above[..16].iter_mut().zip(&top[mbx * 16..]) *)
      if len top <? mbx * 16 then Panic PSlice else
      let* ws := copyf (Z.to_nat (Z.min 16 (len top - mbx * 16))) ws 1 0 (fun k => get top (mbx * 16 + k)) in
      let* m1 := usub mbw 1 in
      if mbx =? m1 then
        (* for above in &mut above[16..] { *above = top[mbx * 16 + 15] } *)
        let* v := rd top (mbx * 16 + 15) in
        copyf 4 ws 17 0 (fun _ => v)
      else
        (* above[16..].iter_mut().zip(&top[mbx * 16 + 16..]) *)
        if len top <? mbx * 16 + 16 then Panic PSlice else
        copyf (Z.to_nat (Z.min 4 (len top - (mbx * 16 + 16)))) ws 17 0 (fun k => get top (mbx * 16 + 16 + k)) in
  (* for i in 17..stride { ws[4*stride+i] = ws[i]; ws[8*stride+i] = ws[i]; ws[12*stride+i] = ws[i]; } *)
  let* ws := for_ 4 17 (fun i s =>
               let* v := rd s i in let* s := wr s (4 * stride + i) v in
               let* v := rd s i in let* s := wr s (8 * stride + i) v in
               let* v := rd s i in wr s (12 * stride + i) v) ws in
  (* L *)
  let* ws :=
    if mbx =? 0 then for_ 16 0 (fun i s => wr s ((i + 1) * stride) 129) ws
    else
      (* (0..16).zip(&left[1..]) *)
      if len left <? 1 then Panic PSlice else
      for_ (Z.to_nat (Z.min 16 (len left - 1))) 0 (fun i s => wr s ((i + 1) * stride) (get left (1 + i))) ws in
  (* P *)
  let* p := if mby =? 0 then Ok 127 else if mbx =? 0 then Ok 129 else rd left 0 in
  wr ws 0 p.

(* ------------------------------------------------------------------------------------------------------------ *)
(* the chroma border of intra_predict_chroma (one plane): left column, top row, top-left sample of a 9x9         *)
(* workspace, read directly from the frame's chroma plane [buf] of width mbwidth * 8                            *)
(* ------------------------------------------------------------------------------------------------------------ *)
Definition chroma_stride : Z := 1 + 8.
Definition chroma_ws0 : list Z := repeat 0 81%nat.

Definition create_border_chroma (mbx mby mbw : Z) (buf : list Z) : res (list Z) :=
  let stride := chroma_stride in
  let w := mbw * 8 in
  let ws := chroma_ws0 in
  (* left border *)
  let* ws := for_ 8 0 (fun y s =>
               let* v := if mbx =? 0 then Ok 129
                         else let* mx := usub mbx 1 in rd buf ((mby * 8 + y) * w + (mx * 8 + 7)) in
               wr s ((y + 1) * stride) v) ws in
  (* top border *)
  let* ws := for_ 8 0 (fun x s =>
               let* v := if mby =? 0 then Ok 127
                         else let* my := usub mby 1 in rd buf ((my * 8 + 7) * w + (mbx * 8 + x)) in
               wr s (x + 1) v) ws in
  (* top left point *)
  let* v := if mby =? 0 then Ok 127 else if mbx =? 0 then Ok 129
            else let* my := usub mby 1 in let* mx := usub mbx 1 in rd buf ((my * 8 + 7) * w + mx * 8 + 7) in
  wr ws 0 v.

(* ------------------------------------------------------------------------------------------------------------ *)
(* add_residue(pblock, rblock: &[i32; 16], y0, x0, stride)                                                      *)
(* ------------------------------------------------------------------------------------------------------------ *)
(* pblock[pos..][..4].iter_mut().zip(row.iter()): *p = (a + i32::from( *p)).max(0).min(255) as u8 *)
Fixpoint add_residue_row (n : nat) (row : list Z) (a : list Z) (pos k : Z) : res (list Z) :=
  match n, row with
  | S m, r :: tl =>
      let* p := rd a (pos + k) in
      if i32_max <? r + p then Panic POverflow else
      let* a' := wr a (pos + k) (clamp255 (r + p)) in
      add_residue_row m tl a' pos (k + 1)
  | _, _ => Ok a
  end.

(* rblock.chunks(4) *)
Fixpoint chunks (fuel : nat) (n : nat) (l : list Z) : list (list Z) :=
  match fuel with
  | O => []
  | S f => match l with [] => [] | _ => firstn n l :: chunks f n (skipn n l) end
  end.

Fixpoint add_residue_rows (rws : list (list Z)) (a : list Z) (pos stride : Z) : res (list Z) :=
  match rws with
  | [] => Ok a
  | row :: tl =>
      if len a <? pos then Panic PSlice else           (* pblock[pos..] *)
      if len a - pos <? 4 then Panic PSlice else       (* [..4] *)
      let* a' := add_residue_row 4 row a pos 0 in
      add_residue_rows tl a' (pos + stride) stride
  end.

Definition add_residue (pblock rblock : list Z) (y0 x0 stride : Z) : res (list Z) :=
  add_residue_rows (chunks (length rblock) 4 rblock) pblock (y0 * stride + x0) stride.

(* ------------------------------------------------------------------------------------------------------------ *)
(* 16x16 / 8x8 (and 4x4 TM) predictors                                                                          *)
(* ------------------------------------------------------------------------------------------------------------ *)
(* predict_vpred: (above, curr) = a.split_at_mut(stride * y0); above_slice = &above[x0..];
   for curr_chunk in curr.chunks_exact_mut(stride).take(size) { curr_chunk[1..].zip(above_slice): copy }
   (the destination column is the literal 1, and a whole row tail of stride - 1 samples is copied) *)
Definition predict_vpred (a : list Z) (size x0 y0 stride : Z) : res (list Z) :=
  let mid := stride * y0 in
  if len a <? mid then Panic PSlice else
  if mid <? x0 then Panic PSlice else
  if stride =? 0 then Panic PAssert else
  let nrows := Z.min size ((len a - mid) / stride) in
  let cnt := Z.min (stride - 1) (mid - x0) in
  rows (Z.to_nat nrows) a (mid + 1) stride 0 (fun _ pos s =>
    copyf (Z.to_nat cnt) s pos 0 (fun k => get a (x0 + k))).

(* predict_hpred: for chunk in a.chunks_exact_mut(stride).skip(y0).take(size) { left = chunk[x0 - 1];
   chunk[x0..].fill(left) } *)
Definition predict_hpred (a : list Z) (size x0 y0 stride : Z) : res (list Z) :=
  if stride =? 0 then Panic PAssert else
  let nrows := Z.max 0 (Z.min size (len a / stride - y0)) in
  rows (Z.to_nat nrows) a (y0 * stride) stride 0 (fun _ pos s =>
    let* xm := usub x0 1 in
    if stride <=? xm then Panic PIndex else
    let left := get s (pos + xm) in
    copyf (Z.to_nat (stride - x0)) s (pos + x0) 0 (fun _ => left)).

(* for y in 0..size { sum += a[(y + 1) * stride] } *)
Fixpoint sum_left (n : nat) (a : list Z) (y stride acc : Z) : res Z :=
  match n with
  | O => Ok acc
  | S m => let* v := rd a ((y + 1) * stride) in sum_left m a (y + 1) stride (acc + v)
  end.
(* a[i .. i + n].iter().fold(acc, +) *)
Fixpoint sum_range (n : nat) (a : list Z) (i acc : Z) : Z :=
  match n with
  | O => acc
  | S m => sum_range m a (i + 1) (acc + get a i)
  end.

Definition predict_dcpred (a : list Z) (size stride : Z) (above left : bool) : res (list Z) :=
  let shf0 := if size =? 8 then 2 else 3 in
  let* sum1 := if left then sum_left (Z.to_nat size) a 0 stride 0 else Ok 0 in
  let shf1 := if left then shf0 + 1 else shf0 in
  let* sum2 := if above then (if len a <? size + 1 then Panic PSlice else Ok (sum1 + sum_range (Z.to_nat size) a 1 0))
               else Ok sum1 in
  let shf := if above then shf1 + 1 else shf1 in
  let dcval := if negb left && negb above then 128 else Z.shiftr (sum2 + Z.shiftl 1 (shf - 1)) shf in
  (* for y in 0..size { a[1 + stride * (y + 1)..][..size].fill(dcval as u8) } *)
  rows (Z.to_nat size) a 0 0 0 (fun y _ s =>
    let start := 1 + stride * (y + 1) in
    if len s <? start then Panic PSlice else
    if len s - start <? size then Panic PSlice else
    copyf (Z.to_nat size) s start 0 (fun _ => dcval mod 256)).

(* predict_tmpred: (above, x_block) = a.split_at_mut(y0 * stride + (x0 - 1)); p = above[(y0-1)*stride + x0 - 1];
   above_slice = &above[(y0-1)*stride + x0..];
   for y in 0..size { lmp = x_block[y*stride] - p; x_block[y*stride + 1..][..size].zip(above_slice): clamp } *)
Definition predict_tmpred (a : list Z) (size x0 y0 stride : Z) : res (list Z) :=
  let* xm := usub x0 1 in
  let mid := y0 * stride + xm in
  if len a <? mid then Panic PSlice else
  let* ym := usub y0 1 in
  let* pidx := usub (ym * stride + x0) 1 in
  if mid <=? pidx then Panic PIndex else
  let p := get a pidx in
  let astart := ym * stride + x0 in
  if mid <? astart then Panic PSlice else
  let alen := mid - astart in
  rows (Z.to_nat size) a 0 0 0 (fun y _ s =>
    if len a - mid <=? y * stride then Panic PIndex else
    let lmp := get s (mid + y * stride) - p in
    if len a - mid <? y * stride + 1 then Panic PSlice else
    if len a - mid - (y * stride + 1) <? size then Panic PSlice else
    copyf (Z.to_nat (Z.min size alen)) s (mid + (y * stride + 1)) 0 (fun k => clamp255 (lmp + get a (astart + k)))).

(* for i in 0..4 { v += a[(y0 + i) * stride + x0 - 1] } *)
Fixpoint sum_leftcol (n : nat) (a : list Z) (x0 y0 stride i acc : Z) : res Z :=
  match n with
  | O => Ok acc
  | S m => let* idx := usub ((y0 + i) * stride + x0) 1 in
           let* v := rd a idx in sum_leftcol m a x0 y0 stride (i + 1) (acc + v)
  end.

Definition predict_bdcpred (a : list Z) (x0 y0 stride : Z) : res (list Z) :=
  let* ym := usub y0 1 in
  let tpos := ym * stride + x0 in
  if len a <? tpos then Panic PSlice else
  if len a - tpos <? 4 then Panic PSlice else
  let v0 := sum_range 4 a tpos 4 in
  let* v1 := sum_leftcol 4 a x0 y0 stride 0 v0 in
  let v := Z.shiftr v1 3 in
  if stride =? 0 then Panic PAssert else
  let nrows := Z.max 0 (Z.min 4 (len a / stride - y0)) in
  rows (Z.to_nat nrows) a (y0 * stride) stride 0 (fun _ pos s =>
    if stride <? x0 then Panic PSlice else
    if stride - x0 <? 4 then Panic PSlice else
    copyf 4 s (pos + x0) 0 (fun _ => v mod 256)).

(* ------------------------------------------------------------------------------------------------------------ *)
(* neighbour readers                                                                                            *)
(* ------------------------------------------------------------------------------------------------------------ *)
Definition topleft_pixel (a : list Z) (x0 y0 stride : Z) : res Z :=
  let* ym := usub y0 1 in
  let* i := usub (ym * stride + x0) 1 in
  rd a i.

Definition top_pixels (a : list Z) (x0 y0 stride : Z) : res (Z * Z * Z * Z * Z * Z * Z * Z) :=
  let* ym := usub y0 1 in
  let pos := ym * stride + x0 in
  if len a <? pos + 8 then Panic PSlice else
  Ok (get a pos, get a (pos + 1), get a (pos + 2), get a (pos + 3),
      get a (pos + 4), get a (pos + 5), get a (pos + 6), get a (pos + 7)).

Definition left_pixels (a : list Z) (x0 y0 stride : Z) : res (Z * Z * Z * Z) :=
  let* i0 := usub (y0 * stride + x0) 1 in let* l0 := rd a i0 in
  let* i1 := usub ((y0 + 1) * stride + x0) 1 in let* l1 := rd a i1 in
  let* i2 := usub ((y0 + 2) * stride + x0) 1 in let* l2 := rd a i2 in
  let* i3 := usub ((y0 + 3) * stride + x0) 1 in let* l3 := rd a i3 in
  Ok (l0, l1, l2, l3).

Definition edge_pixels (a : list Z) (x0 y0 stride : Z) : res (Z * Z * Z * Z * Z * Z * Z * Z * Z) :=
  let* ym := usub y0 1 in
  let* pos := usub (ym * stride + x0) 1 in
  if len a <? pos + 4 + 1 then Panic PSlice else       (* &a[pos..=pos + 4] *)
  let* e0 := rd a (pos + 4 * stride) in
  let* e1 := rd a (pos + 3 * stride) in
  let* e2 := rd a (pos + 2 * stride) in
  let* e3 := rd a (pos + stride) in
  Ok (e0, e1, e2, e3, get a pos, get a (pos + 1), get a (pos + 2), get a (pos + 3), get a (pos + 4)).

(* ------------------------------------------------------------------------------------------------------------ *)
(* 4x4 sub-block predictors                                                                                     *)
(* ------------------------------------------------------------------------------------------------------------ *)
Definition predict_bvepred (a : list Z) (x0 y0 stride : Z) : res (list Z) :=
  let* p := topleft_pixel a x0 y0 stride in
  let* t := top_pixels a x0 y0 stride in
  let '(a0, a1, a2, a3, a4, _, _, _) := t in
  let avg := [avg3 p a0 a1; avg3 a0 a1 a2; avg3 a1 a2 a3; avg3 a2 a3 a4] in
  rows 4 a (y0 * stride + x0) stride 0 (fun _ pos s => copy_from_slice s pos (pos + 3 + 1) avg).

Definition predict_bhepred (a : list Z) (x0 y0 stride : Z) : res (list Z) :=
  let* p := topleft_pixel a x0 y0 stride in
  let* t := left_pixels a x0 y0 stride in
  let '(l0, l1, l2, l3) := t in
  let avgs := [avg3 p l0 l1; avg3 l0 l1 l2; avg3 l1 l2 l3; avg3 l2 l3 l3] in
  rows 4 a (y0 * stride + x0) stride 0 (fun r pos s =>
    if len s <? pos + 3 + 1 then Panic PSlice else
    copyf 4 s pos 0 (fun _ => get avgs r)).

Definition predict_bldpred (a : list Z) (x0 y0 stride : Z) : res (list Z) :=
  let* t := top_pixels a x0 y0 stride in
  let '(a0, a1, a2, a3, a4, a5, a6, a7) := t in
  let avgs := [avg3 a0 a1 a2; avg3 a1 a2 a3; avg3 a2 a3 a4; avg3 a3 a4 a5; avg3 a4 a5 a6; avg3 a5 a6 a7;
               avg3 a6 a7 a7] in
  rows 4 a (y0 * stride + x0) stride 0 (fun i pos s => copy_from_slice s pos (pos + 3 + 1) (sub avgs i 4)).

Definition predict_brdpred (a : list Z) (x0 y0 stride : Z) : res (list Z) :=
  let* t := edge_pixels a x0 y0 stride in
  let '(e0, e1, e2, e3, e4, e5, e6, e7, e8) := t in
  let avgs := [avg3 e0 e1 e2; avg3 e1 e2 e3; avg3 e2 e3 e4; avg3 e3 e4 e5; avg3 e4 e5 e6; avg3 e5 e6 e7;
               avg3 e6 e7 e8] in
  rows 4 a (y0 * stride + x0) stride 0 (fun i pos s => copy_from_slice s pos (pos + 3 + 1) (sub avgs (3 - i) 4)).

Definition predict_bvrpred (a : list Z) (x0 y0 stride : Z) : res (list Z) :=
  let* t := edge_pixels a x0 y0 stride in
  let '(_, e1, e2, e3, e4, e5, e6, e7, e8) := t in
  let* a := wr a ((y0 + 3) * stride + x0) (avg3 e1 e2 e3) in
  let* a := wr a ((y0 + 2) * stride + x0) (avg3 e2 e3 e4) in
  let* a := wr a ((y0 + 3) * stride + x0 + 1) (avg3 e3 e4 e5) in
  let* a := wr a ((y0 + 1) * stride + x0) (avg3 e3 e4 e5) in
  let* a := wr a ((y0 + 2) * stride + x0 + 1) (avg2 e4 e5) in
  let* a := wr a (y0 * stride + x0) (avg2 e4 e5) in
  let* a := wr a ((y0 + 3) * stride + x0 + 2) (avg3 e4 e5 e6) in
  let* a := wr a ((y0 + 1) * stride + x0 + 1) (avg3 e4 e5 e6) in
  let* a := wr a ((y0 + 2) * stride + x0 + 2) (avg2 e5 e6) in
  let* a := wr a (y0 * stride + x0 + 1) (avg2 e5 e6) in
  let* a := wr a ((y0 + 3) * stride + x0 + 3) (avg3 e5 e6 e7) in
  let* a := wr a ((y0 + 1) * stride + x0 + 2) (avg3 e5 e6 e7) in
  let* a := wr a ((y0 + 2) * stride + x0 + 3) (avg2 e6 e7) in
  let* a := wr a (y0 * stride + x0 + 2) (avg2 e6 e7) in
  let* a := wr a ((y0 + 1) * stride + x0 + 3) (avg3 e6 e7 e8) in
  wr a (y0 * stride + x0 + 3) (avg2 e7 e8).

Definition predict_bvlpred (a : list Z) (x0 y0 stride : Z) : res (list Z) :=
  let* t := top_pixels a x0 y0 stride in
  let '(a0, a1, a2, a3, a4, a5, a6, a7) := t in
  let* a := wr a (y0 * stride + x0) (avg2 a0 a1) in
  let* a := wr a ((y0 + 1) * stride + x0) (avg3 a0 a1 a2) in
  let* a := wr a ((y0 + 2) * stride + x0) (avg2 a1 a2) in
  let* a := wr a (y0 * stride + x0 + 1) (avg2 a1 a2) in
  let* a := wr a ((y0 + 1) * stride + x0 + 1) (avg3 a1 a2 a3) in
  let* a := wr a ((y0 + 3) * stride + x0) (avg3 a1 a2 a3) in
  let* a := wr a ((y0 + 2) * stride + x0 + 1) (avg2 a2 a3) in
  let* a := wr a (y0 * stride + x0 + 2) (avg2 a2 a3) in
  let* a := wr a ((y0 + 3) * stride + x0 + 1) (avg3 a2 a3 a4) in
  let* a := wr a ((y0 + 1) * stride + x0 + 2) (avg3 a2 a3 a4) in
  let* a := wr a ((y0 + 2) * stride + x0 + 2) (avg2 a3 a4) in
  let* a := wr a (y0 * stride + x0 + 3) (avg2 a3 a4) in
  let* a := wr a ((y0 + 3) * stride + x0 + 2) (avg3 a3 a4 a5) in
  let* a := wr a ((y0 + 1) * stride + x0 + 3) (avg3 a3 a4 a5) in
  let* a := wr a ((y0 + 2) * stride + x0 + 3) (avg3 a4 a5 a6) in
  wr a ((y0 + 3) * stride + x0 + 3) (avg3 a5 a6 a7).

Definition predict_bhdpred (a : list Z) (x0 y0 stride : Z) : res (list Z) :=
  let* t := edge_pixels a x0 y0 stride in
  let '(e0, e1, e2, e3, e4, e5, e6, e7, _) := t in
  let* a := wr a ((y0 + 3) * stride + x0) (avg2 e0 e1) in
  let* a := wr a ((y0 + 3) * stride + x0 + 1) (avg3 e0 e1 e2) in
  let* a := wr a ((y0 + 2) * stride + x0) (avg2 e1 e2) in
  let* a := wr a ((y0 + 3) * stride + x0 + 2) (avg2 e1 e2) in
  let* a := wr a ((y0 + 2) * stride + x0 + 1) (avg3 e1 e2 e3) in
  let* a := wr a ((y0 + 3) * stride + x0 + 3) (avg3 e1 e2 e3) in
  let* a := wr a ((y0 + 2) * stride + x0 + 2) (avg2 e2 e3) in
  let* a := wr a ((y0 + 1) * stride + x0) (avg2 e2 e3) in
  let* a := wr a ((y0 + 2) * stride + x0 + 3) (avg3 e2 e3 e4) in
  let* a := wr a ((y0 + 1) * stride + x0 + 1) (avg3 e2 e3 e4) in
  let* a := wr a ((y0 + 1) * stride + x0 + 2) (avg2 e3 e4) in
  let* a := wr a (y0 * stride + x0) (avg2 e3 e4) in
  let* a := wr a ((y0 + 1) * stride + x0 + 3) (avg3 e3 e4 e5) in
  let* a := wr a (y0 * stride + x0 + 1) (avg3 e3 e4 e5) in
  let* a := wr a (y0 * stride + x0 + 2) (avg3 e4 e5 e6) in
  wr a (y0 * stride + x0 + 3) (avg3 e5 e6 e7).

Definition predict_bhupred (a : list Z) (x0 y0 stride : Z) : res (list Z) :=
  let* t := left_pixels a x0 y0 stride in
  let '(l0, l1, l2, l3) := t in
  let* a := wr a (y0 * stride + x0) (avg2 l0 l1) in
  let* a := wr a (y0 * stride + x0 + 1) (avg3 l0 l1 l2) in
  let* a := wr a (y0 * stride + x0 + 2) (avg2 l1 l2) in
  let* a := wr a ((y0 + 1) * stride + x0) (avg2 l1 l2) in
  let* a := wr a (y0 * stride + x0 + 3) (avg3 l1 l2 l3) in
  let* a := wr a ((y0 + 1) * stride + x0 + 1) (avg3 l1 l2 l3) in
  let* a := wr a ((y0 + 1) * stride + x0 + 2) (avg2 l2 l3) in
  let* a := wr a ((y0 + 2) * stride + x0) (avg2 l2 l3) in
  let* a := wr a ((y0 + 1) * stride + x0 + 3) (avg3 l2 l3 l3) in
  let* a := wr a ((y0 + 2) * stride + x0 + 1) (avg3 l2 l3 l3) in
  let* a := wr a ((y0 + 2) * stride + x0 + 2) l3 in
  let* a := wr a ((y0 + 2) * stride + x0 + 3) l3 in
  let* a := wr a ((y0 + 3) * stride + x0) l3 in
  let* a := wr a ((y0 + 3) * stride + x0 + 1) l3 in
  let* a := wr a ((y0 + 3) * stride + x0 + 2) l3 in
  wr a ((y0 + 3) * stride + x0 + 3) l3.

(* ------------------------------------------------------------------------------------------------------------ *)
(* predict_4x4: the `match modes[i]` of the Rust text, on the i8 value of the IntraMode (Gen.Tables.vp8_B_xx_PRED) *)
(* ------------------------------------------------------------------------------------------------------------ *)
Definition predict_sub (mode : Z) (ws : list Z) (x0 y0 stride : Z) : res (list Z) :=
  if mode =? vp8_B_TM_PRED then predict_tmpred ws 4 x0 y0 stride
  else if mode =? vp8_B_VE_PRED then predict_bvepred ws x0 y0 stride
  else if mode =? vp8_B_HE_PRED then predict_bhepred ws x0 y0 stride
  else if mode =? vp8_B_DC_PRED then predict_bdcpred ws x0 y0 stride
  else if mode =? vp8_B_LD_PRED then predict_bldpred ws x0 y0 stride
  else if mode =? vp8_B_RD_PRED then predict_brdpred ws x0 y0 stride
  else if mode =? vp8_B_VR_PRED then predict_bvrpred ws x0 y0 stride
  else if mode =? vp8_B_VL_PRED then predict_bvlpred ws x0 y0 stride
  else if mode =? vp8_B_HD_PRED then predict_bhdpred ws x0 y0 stride
  else if mode =? vp8_B_HU_PRED then predict_bhupred ws x0 y0 stride
  else Panic PUnreachable.          (* not an IntraMode *)

(* `resdata[i * 16..][..16]` *)
Definition res_block (resdata : list Z) (start : Z) : res (list Z) :=
  if len resdata <? start then Panic PSlice else
  if len resdata - start <? 16 then Panic PSlice else
  Ok (sub resdata start 16).

(* the two nested loops `for sby in 0..4 { for sbx in 0..4 {..} }` flattened over i = sbx + sby * 4 *)
Fixpoint predict_4x4_from (n : nat) (i : Z) (ws : list Z) (stride : Z) (modes resdata : list Z) : res (list Z) :=
  match n with
  | O => Ok ws
  | S k =>
      let sbx := i mod 4 in let sby := i / 4 in
      let y0 := sby * 4 + 1 in let x0 := sbx * 4 + 1 in
      let* m := rd modes i in
      let* ws := predict_sub m ws x0 y0 stride in
      let* rb := res_block resdata (i * 16) in
      let* ws := add_residue ws rb y0 x0 stride in
      predict_4x4_from k (i + 1) ws stride modes resdata
  end.
Definition predict_4x4 (ws : list Z) (stride : Z) (modes resdata : list Z) : res (list Z) :=
  predict_4x4_from 16 0 ws stride modes resdata.

(* ------------------------------------------------------------------------------------------------------------ *)
(* the callers                                                                                                  *)
(* ------------------------------------------------------------------------------------------------------------ *)
(* the `match mb.luma_mode` (other than B) / `match mb.chroma_mode` of the two callers, on the i8 value of the mode
   (Gen.Tables.vp8_DC_PRED, vp8_V_PRED, vp8_H_PRED, vp8_TM_PRED): whole-block prediction at (1, 1) of the bordered
   workspace; DC uses the edges that exist (`mby != 0`, `mbx != 0`) *)
Definition predict_big (mode : Z) (ws : list Z) (size stride mbx mby : Z) : res (list Z) :=
  if mode =? vp8_V_PRED then predict_vpred ws size 1 1 stride
  else if mode =? vp8_H_PRED then predict_hpred ws size 1 1 stride
  else if mode =? vp8_TM_PRED then predict_tmpred ws size 1 1 stride
  else if mode =? vp8_DC_PRED then predict_dcpred ws size stride (negb (mby =? 0)) (negb (mbx =? 0))
  else Panic PUnreachable.          (* not a LumaMode / ChromaMode handled here *)

(* the residue loops of intra_predict_luma (nb = 4, base = 0) and intra_predict_chroma (nb = 2, base = 16*16 /
   20*16): for y in 0..nb { for x in 0..nb { i = x + y*nb; add_residue(ws, resdata[base + i*16..][..16], 1+y*4, 1+x*4) *)
Fixpoint residue_blocks (n : nat) (i nb base : Z) (ws : list Z) (stride : Z) (resdata : list Z) : res (list Z) :=
  match n with
  | O => Ok ws
  | S k =>
      let x := i mod nb in let y := i / nb in
      let* rb := res_block resdata (base + i * 16) in
      let* ws := add_residue ws rb (1 + y * 4) (1 + x * 4) stride in
      residue_blocks k (i + 1) nb base ws stride resdata
  end.

(* `dst[dpos..][..n]` := `src[spos..][..n]` (iter_mut().zip(..) with both sides sliced to n) *)
Definition copy_block (dst : list Z) (dpos : Z) (src : list Z) (spos n : Z) : res (list Z) :=
  if (len dst <? dpos) || (len dst - dpos <? n) then Panic PSlice else
  if (len src <? spos) || (len src - spos <? n) then Panic PSlice else
  copyf (Z.to_nat n) dst dpos 0 (fun k => get src (spos + k)).

(* intra_predict_luma: luma_mode by its i8 value (Gen.Tables.vp8_DC_PRED ...); state = (ybuf, top_border,
   left_border), mbw = self.mbwidth *)
Definition intra_predict_luma (mbw mbx mby luma_mode : Z) (bpred resdata ybuf top_border left_border : list Z)
  : res (list Z * list Z * list Z) :=
  let stride := luma_stride in
  let w := mbw * 16 in
  let* ws := create_border_luma mbx mby mbw top_border left_border in
  let* ws :=
    if luma_mode =? vp8_B_PRED then predict_4x4 ws stride bpred resdata
    else predict_big luma_mode ws 16 stride mbx mby in
  let* ws := if luma_mode =? vp8_B_PRED then Ok ws else residue_blocks 16 0 4 0 ws stride resdata in
  (* self.left_border[0] = ws[16] *)
  let* v := rd ws 16 in
  let* left_border := wr left_border 0 v in
  (* for (i, left) in self.left_border[1..][..16].iter_mut().enumerate() { *left = ws[(i + 1) * stride + 16] } *)
  let* left_border :=
    if (len left_border <? 1) || (len left_border - 1 <? 16) then Panic PSlice
    else copyf 16 left_border 1 0 (fun i => get ws ((i + 1) * stride + 16)) in
  (* self.top_border[mbx * 16..][..16] <- ws[16 * stride + 1..][..16] *)
  let* top_border := copy_block top_border (mbx * 16) ws (16 * stride + 1) 16 in
  (* for y in 0..16 { ybuf[(mby * 16 + y) * w + mbx * 16..][..16] <- ws[(1 + y) * stride + 1..][..16] } *)
  let* ybuf := for_ 16 0 (fun y b => copy_block b ((mby * 16 + y) * w + mbx * 16) ws ((1 + y) * stride + 1) 16) ybuf in
  Ok (ybuf, top_border, left_border).

(* intra_predict_chroma for one plane (the Rust function treats U and V alike, with resdata offsets 16*16 and
   20*16): chroma_mode by its i8 value *)
Definition intra_predict_chroma_plane (mbw mbx mby chroma_mode base : Z) (resdata buf : list Z) : res (list Z) :=
  let stride := chroma_stride in
  let w := mbw * 8 in
  let* ws := create_border_chroma mbx mby mbw buf in
  let* ws := predict_big chroma_mode ws 8 stride mbx mby in
  let* ws := residue_blocks 4 0 2 base ws stride resdata in
  for_ 8 0 (fun y b => copy_block b ((mby * 8 + y) * w + mbx * 8) ws ((1 + y) * stride + 1) 8) buf.

Definition intra_predict_chroma (mbw mbx mby chroma_mode : Z) (resdata ubuf vbuf : list Z) : res (list Z * list Z) :=
  let* u := intra_predict_chroma_plane mbw mbx mby chroma_mode (16 * 16) resdata ubuf in
  let* v := intra_predict_chroma_plane mbw mbx mby chroma_mode (20 * 16) resdata vbuf in
  Ok (u, v).
