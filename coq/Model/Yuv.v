(* Hand model of vp8.rs Frame::fill_rgb / fill_rgba and their row functions.  The per-pixel arithmetic is NOT written
   here: it is Gen.Kernels.{rgb_pair, rgb_tail, rgba_pair, rgba_tail}, which tools/rs2v.py regenerates from the bodies
   of fill_rgb_row / fill_rgba_row on every run (together with mulhi and clip).

   Row functions: Rust zips chunks_exact_mut(6|8) of the output, chunks_exact(2) of the luma row and the two chroma
   iterators, then handles the odd tail.  The model is exact on the call pattern of fill_rgb/fill_rgba
   (output row of 3|4 bytes per luma sample, both chroma rows at least ceil(n/2) long and equally long); outside it
   [row_pre] is false and the model says so instead of guessing the zip/remainder corner cases.  No proofs here. *)
From Coq Require Import ZArith List Bool.
From WebP Require Import Gen.Kernels Lib.Res.
Import ListNotations.
Open Scope Z_scope.

Fixpoint fill_rgb_row (ys us vs : list Z) : list Z :=
  match ys, us, vs with
  | y0 :: y1 :: ys', u :: us', v :: vs' => rgb_pair y0 y1 u v ++ fill_rgb_row ys' us' vs'
  | [y], u :: _, v :: _ => rgb_tail y u v
  | _, _, _ => []
  end.

Fixpoint fill_rgba_row (ys us vs buf : list Z) : list Z :=
  match ys, us, vs, buf with
  | y0 :: y1 :: ys', u :: us', v :: vs', b0 :: b1 :: b2 :: b3 :: b4 :: b5 :: b6 :: b7 :: buf' =>
      rgba_pair y0 y1 u v b0 b1 b2 b3 b4 b5 b6 b7 ++ fill_rgba_row ys' us' vs' buf'
  | [y], u :: _, v :: _, [_; _; _; b3] => rgba_tail y u v ++ [b3]
  | _, _, _, _ => []
  end.

Definition row_pre (bpp : nat) (ys us vs buf : list Z) : bool :=
  Nat.eqb (length buf) (bpp * length ys) && Nat.leb ((length ys + 1) / 2) (length us) && Nat.leb ((length ys + 1) / 2) (length vs).

(* planes: `for (y, row) in buf.chunks_exact_mut(width*BPP).enumerate()`; slices of the planes can panic *)
Definition take_range (l : list Z) (start len : nat) : option (list Z) :=
  if Nat.leb (start + len) (length l) then Some (firstn len (skipn start l)) else None.
Definition from_index (l : list Z) (start : nat) : option (list Z) :=
  if Nat.leb start (length l) then Some (skipn start l) else None.

Fixpoint fill_rows (rgba : bool) (w cw : nat) (yp up vp : list Z) (rows : nat) (r : nat) (buf : list Z) (acc : list (list Z)) : res (list Z) :=
  match rows with
  | O => Ok (concat (rev acc) ++ buf)         (* bytes after the last complete row are left as they were *)
  | S rows' =>
    let bpp := if rgba then 4%nat else 3%nat in
    match take_range yp (r * w) w, from_index up (cw * (r / 2)), from_index vp (cw * (r / 2)) with
    | Some ys, Some us, Some vs =>
        let row := firstn (w * bpp) buf in
        let out := if rgba then fill_rgba_row ys us vs row else fill_rgb_row ys us vs in
        fill_rows rgba w cw yp up vp rows' (S r) (skipn (w * bpp) buf) (out :: acc)
    | _, _, _ => Panic PSlice
    end
  end.

(* Frame::fill_rgb / fill_rgba for a frame of luma width w with planes yp/up/vp, writing into buf *)
Definition fill_plane (rgba : bool) (w : nat) (yp up vp buf : list Z) : res (list Z) :=
  let bpp := if rgba then 4%nat else 3%nat in
  if Nat.eqb w 0 then Panic PAssert          (* chunks_exact_mut(0) panics *)
  else fill_rows rgba w ((w + 1) / 2) yp up vp (length buf / (w * bpp)) 0 buf [].

Definition fill_rgb := fill_plane false.
Definition fill_rgba := fill_plane true.
