(* lossless.rs :: LosslessDecoder over a reader whose fill_buf can FAIL once (property C10, second half, whole decoder).

   Model/Lossless.v threads a `BitReader.t` (remaining bytes, schedule, buffer, nbits) through every function and never
   fails in `fill`.  Here the same functions are restated over the state of Model/BitReaderIO.v,
       iot = { br : BitReader.t; calls : fill_buf calls made so far; fail_at : index of ONE injected failure },
   in the state-and-result monad  M A = iot -> res A * iot  of that file (`retM`, `bindM`; Rust: `&mut self` and `?`; the state
   after an error is what the Rust code leaves behind).  The text of each function is the text of Model/Lossless.v with
       let* '(x, br) := f br ... in      written      let! x := f_io ... in
   and the reader operations replaced as follows:
       BitReader.fill br                          fill_io                         (BitReaderIO: counts calls, may fail)
       if nbits br <? n then fill br else Ok br   fill_if_io n
       BitReader.read_bits br tb n                read_bits_io tb n               (BitReaderIO: calls fill_io when nbits < n)
       BitReader.consume br n                     consume_io n                    (BitReaderIO: no I/O)
       read_symbol t br                           read_symbol_io t   = liftM (read_symbol t)        no I/O: huffman.rs never fills
       peek_symbol t br                           peek_symbol_io t                                  no I/O
       get_copy_distance br c                     get_copy_distance_io c = liftM (get_copy_distance . c)   peek + consume, no I/O
   `liftM f` runs a function of Model/Lossless.v / Model/Huffman.v that only looks at the bit reservoir on the `br` component and
   leaves `calls` and `fail_at` alone.  Everything that does not touch the reader (tables, colour cache, copies, inverse
   transforms, checked arithmetic) is REUSED from Model/Lossless.v, Model/Huffman.v, Model/LosslessTransform.v through `retM`.
   The only text that is copied rather than reused is `fast_path` (inlined in Lossless.pixel_loop).

   Functions that reach `fill` (directly or through read_bits), hence restated here: read_color_cache, code_lengths_loop,
   read_huffman_code_lengths, read_cl_cl, read_huffman_code, pixel_nonfast, pixel_loop, decode_image_data, read_group,
   read_groups, decode_image_stream, read_transforms_loop, read_transforms, decode_frame_arr, decode_frame.
   No proofs here. *)
From Coq Require Import ZArith NArith List Bool.
From WebP Require Import Lib.Res Lib.Arr Gen.Tables Gen.Kernels Model.LosslessLib Model.Huffman Model.LosslessTransform Model.Lossless.
From WebP Require Model.BitReader.
From WebP Require Import Model.BitReaderIO.
Import ListNotations.
Open Scope Z_scope.
Open Scope res_scope.

Declare Scope io_scope.
Notation "'let!' x ':=' m 'in' f" := (bindM m (fun x => f)) (at level 200, x pattern, m at level 100, f at level 200) : io_scope.
Notation "'let!' ' p ':=' m 'in' f" := (bindM m (fun p => f)) (at level 200, p pattern, m at level 100, f at level 200) : io_scope.
Open Scope io_scope.

(* ---------- reader operations without I/O ---------- *)
(* a function of the pure Model that only uses the bit reservoir: no fill_buf call, the fault cannot be hit *)
Definition liftM {A} (f : BitReader.t -> res (A * BitReader.t)) : M A := fun r =>
  match f (br r) with
  | Ok (a, b') => (Ok a, mkio b' (calls r) (fail_at r))
  | Err e => (Err e, r)
  | Panic p => (Panic p, r)
  | OutOfFuel => (OutOfFuel, r)
  end.

(* HuffmanTree::read_symbol (peek_full + consume; never fills) *)
Definition read_symbol_io (t : tree) : M Z := liftM (read_symbol t).

(* HuffmanTree::peek_symbol (read only) *)
Definition peek_symbol_io (t : tree) : M (option (Z * Z)) := fun r => (peek_symbol t (br r), r).

(* LosslessDecoder::get_copy_distance (peek + consume; never fills) *)
Definition get_copy_distance_io (prefix_code : Z) : M Z := liftM (fun b => get_copy_distance b prefix_code).

(* if self.bit_reader.nbits < n { self.bit_reader.fill()?; } *)
Definition fill_if_io (n : Z) : M unit := fun r =>
  if BitReader.nbits (br r) <? n then fill_io r else (Ok tt, r).

(* ---------- small pieces ---------- *)
(* LosslessDecoder::read_color_cache *)
Definition read_color_cache_io : M (option Z) :=
  let! b := read_bits_io 8 1 in
  if b =? 1 then
    let! code_bits := read_bits_io 8 4 in
    if (1 <=? code_bits) && (code_bits <=? 11) then retM (Ok (Some code_bits)) else retM (Err EInvalidColorCacheBits)
  else retM (Ok None).

(* ---------- prefix code reading ---------- *)
(* the symbol loop of read_huffman_code_lengths *)
Fixpoint code_lengths_loop_io (fuel : nat) (table : tree) (num_symbols symbol max_symbol prev_code_len : Z)
         (code_lengths : arr) : M arr :=
  match fuel with
  | O => retM OutOfFuel
  | S fuel' =>
    if negb (symbol <? num_symbols) then retM (Ok code_lengths) else
    if max_symbol =? 0 then retM (Ok code_lengths) else
    let max_symbol := max_symbol - 1 in
    let! _ := fill_io in
    let! code_len := read_symbol_io table in
    if code_len <? 16 then
      let! cl := retM (zset code_lengths symbol code_len) in
      code_lengths_loop_io fuel' table num_symbols (symbol + 1) max_symbol
                           (if code_len =? 0 then prev_code_len else code_len) cl
    else
      let use_prev := code_len =? 16 in
      let slot := code_len - 16 in
      let! '(extra_bits, repeat_offset) :=
        retM (if slot =? 0 then Ok (2, 3) else if slot =? 1 then Ok (3, 3) else if slot =? 2 then Ok (7, 11)
              else Err EBitStreamError) in
      let! rb := read_bits_io 16 extra_bits in
      let repeat := rb + repeat_offset in
      if (65535 <? repeat) || (65535 <? symbol + repeat) then retM (Panic POverflow) else
      if num_symbols <? symbol + repeat then retM (Err EBitStreamError) else
      let length := if use_prev then prev_code_len else 0 in
      let! cl := retM (for_range 0 repeat (fun k cl => zset cl (symbol + k) length) code_lengths) in
      code_lengths_loop_io fuel' table num_symbols (symbol + repeat) max_symbol prev_code_len cl
  end.

(* LosslessDecoder::read_huffman_code_lengths *)
Definition read_huffman_code_lengths_io (code_length_code_lengths : list Z) (num_symbols : Z) : M (list Z) :=
  let! table := retM (build_implicit code_length_code_lengths) in
  let! b := read_bits_io 8 1 in
  let! max_symbol :=
    (if b =? 1 then
       let! x := read_bits_io 8 3 in
       let length_nbits := 2 + 2 * x in
       let! max_minus_two := read_bits_io 16 length_nbits in
       let! lim := retM (usub num_symbols 2) in
       if lim <? max_minus_two then retM (Err EBitStreamError) else retM (Ok (2 + max_minus_two))
     else retM (Ok num_symbols)) in
  let! cl := code_lengths_loop_io (S (Z.to_nat num_symbols)) table num_symbols 0 max_symbol 8 (zmake num_symbols) in
  retM (Ok (zto_list cl)).

(* for i in 0..num_code_lengths { code_length_code_lengths[CODE_LENGTH_CODE_ORDER[i]] = read_bits(3)?; } *)
Fixpoint read_cl_cl_io (n : nat) (i : Z) (cl : list Z) : M (list Z) :=
  match n with
  | O => retM (Ok cl)
  | S n' =>
    let! v := read_bits_io 16 3 in
    let! pos := retM (zlist_get lossless_CODE_LENGTH_CODE_ORDER i) in
    let! cl' := retM (zlist_set cl pos v) in
    read_cl_cl_io n' (i + 1) cl'
  end.

(* LosslessDecoder::read_huffman_code *)
Definition read_huffman_code_io (alphabet_size : Z) : M tree :=
  let! simple := read_bits_io 8 1 in
  if simple =? 1 then
    let! ns := read_bits_io 8 1 in
    let num_symbols := ns + 1 in
    let! is_first_8bits := read_bits_io 8 1 in
    let! zero_symbol := read_bits_io 16 (1 + 7 * is_first_8bits) in
    if alphabet_size <=? zero_symbol then retM (Err EBitStreamError) else
    if num_symbols =? 1 then retM (Ok (build_single_node zero_symbol))
    else
      let! one_symbol := read_bits_io 16 8 in
      if alphabet_size <=? one_symbol then retM (Err EBitStreamError) else
      retM (Ok (simple_two_symbols zero_symbol one_symbol))
  else
    let! x := read_bits_io 64 4 in
    let num_code_lengths := 4 + x in
    let! cl_cl := read_cl_cl_io (Z.to_nat num_code_lengths) 0 (repeat 0 (Z.to_nat lossless_CODE_LENGTH_CODES)) in
    let! new_code_lengths := read_huffman_code_lengths_io cl_cl alphabet_size in
    let! t := retM (build_implicit new_code_lengths) in
    retM (Ok t).

(* ---------- pixel decoding ---------- *)
(* one iteration of the `while index < num_values` loop of decode_image_data after the block / fast-path prologue
   (Lossless.pixel_nonfast); `k` is the rest of the loop *)
Definition pixel_nonfast_io (k : option color_cache -> Z -> arr -> M arr)
           (width num_values : Z) (grp : group) (cache : option color_cache) (index next_block_start : Z)
           (data : arr) : M arr :=
  let! code := read_symbol_io (g_green grp) in
  if code <? 256 then
    (* literal *)
    let green := u8 code in
    let! red := read_symbol_io (g_red grp) in
    let! blue := read_symbol_io (g_blue grp) in
    let! _ := fill_if_io 15 in
    let! alpha := read_symbol_io (g_alpha grp) in
    let px := (u8 red, green, u8 blue, u8 alpha) in
    let! data := retM (set4 data (index * 4) px) in
    let! cache := retM (cache_insert_opt cache px) in
    k cache (index + 1) data
  else if code <? 256 + 24 then
    (* backward reference *)
    let length_symbol := code - 256 in
    let! length := get_copy_distance_io length_symbol in
    let! _ := fill_if_io 33 in                                                      (* FIX F4 *)
    let! dist_symbol := read_symbol_io (g_dist grp) in
    let! dist_code := get_copy_distance_io dist_symbol in
    let! dist := retM (plane_code_to_distance width dist_code) in
    if (index <? dist) || (num_values - index <? length) then retM (Err EBitStreamError) else
    if dist =? 1 then
      let! value := retM (slice4 data ((index - dist) * 4)) in
      let! data := retM (fill_pixels data index length value) in
      k cache (index + length) data
    else
      let! data := retM (copy_backref data index dist length num_values) in
      let! cache := retM (match cache with
                          | Some c => let* c' := cache_insert_range c data index length in Ok (Some c')
                          | None => Ok None
                          end) in
      k cache (index + length) data
  else
    (* colour cache *)
    match cache with
    | None => retM (Err EBitStreamError)
    | Some c =>
      let! color := retM (cache_lookup c (code - 280)) in
      let! data := retM (write4 data (index * 4) color) in
      let! c := retM (cache_insert c color) in                                      (* FIX F2 *)
      let index := index + 1 in
      if index <? next_block_start then
        let! pk := peek_symbol_io (g_green grp) in
        match pk with
        | Some (bits, code2) =>
          if 280 <=? code2 then
            let! _ := consume_io bits in
            let! color2 := retM (cache_lookup c (code2 - 280)) in
            let! data := retM (write4 data (index * 4) color2) in
            let! c := retM (cache_insert c color2) in                               (* FIX F2 *)
            k (Some c) (index + 1) data
          else k (Some c) index data
        | None => k (Some c) index data
        end
      else k (Some c) index data
    end.

(* the all-single-node fast path of Lossless.pixel_loop (inlined there; the text is copied): reads four zero-length
   symbols, so it only looks at the reservoir.  None = not taken (the reader the caller goes on with is the one it had). *)
Definition fast_path (num_values : Z) (h : huffman_info) (grp : group) (entered : bool) (cache : option color_cache)
           (index next_block_start : Z) (data : arr) (br : BitReader.t)
  : res (option (BitReader.t * arr * option color_cache * Z)) :=
  if entered && all_single grp then
    let* '(code, br1) := read_symbol (g_green grp) br in
    if code <? 256 then
      let n := if h_bits h =? 0 then num_values else next_block_start - index in
      let* '(red, br1) := read_symbol (g_red grp) br1 in
      let* '(blue, br1) := read_symbol (g_blue grp) br1 in
      let* '(alpha, br1) := read_symbol (g_alpha grp) br1 in
      let value := (u8 red, u8 code, u8 blue, u8 alpha) in
      let* data1 := fill_pixels data index n value in
      let* cache1 := cache_insert_opt cache value in
      Ok (Some (br1, data1, cache1, index + n))
    else Ok None
  else Ok None.

Definition fast_path_io (num_values : Z) (h : huffman_info) (grp : group) (entered : bool) (cache : option color_cache)
           (index next_block_start : Z) (data : arr) : M (option (arr * option color_cache * Z)) :=
  liftM (fun br =>
    let* fast := fast_path num_values h grp entered cache index next_block_start data br in
    match fast with
    | Some (br1, data1, cache1, index1) => Ok (Some (data1, cache1, index1), br1)
    | None => Ok (None, br)
    end).

(* the `while index < num_values` loop of decode_image_data *)
Fixpoint pixel_loop_io (fuel : nat) (width num_values : Z) (h : huffman_info) (grp : group)
         (cache : option color_cache) (index next_block_start : Z) (data : arr) : M arr :=
  match fuel with
  | O => retM OutOfFuel
  | S fuel' =>
    if negb (index <? num_values) then retM (Ok data) else
    let! _ := fill_io in
    (* block / group cache *)
    let! '(grp, next_block_start, entered) :=
      retM (if next_block_start <=? index then
              if width =? 0 then Panic PDivZero else
              let x := index mod width in
              let y := index / width in
              let* wm1 := usub width 1 in
              let nbs := Z.min (Z.lor x (h_mask h)) wm1 + y * width + 1 in
              let* huff_index := get_huff_index h (x mod 2 ^ 16) (y mod 2 ^ 16) in
              let* g := vget (h_groups h) huff_index in
              Ok (g, nbs, true)
            else Ok (grp, next_block_start, false)) in
    (* fast path: all four colour codes have a single symbol *)
    let! fast := fast_path_io num_values h grp entered cache index next_block_start data in
    match fast with
    | Some (data1, cache1, index1) =>
      pixel_loop_io fuel' width num_values h grp cache1 index1 next_block_start data1
    | None =>
      pixel_nonfast_io (fun cache index data => pixel_loop_io fuel' width num_values h grp cache index next_block_start data)
                       width num_values grp cache index next_block_start data
    end
  end.

(* LosslessDecoder::decode_image_data *)
Definition decode_image_data_io (width height : Z) (h : huffman_info) (data : arr) : M arr :=
  let num_values := width * height in
  let! huff_index := retM (get_huff_index h 0 0) in
  let! grp := retM (vget (h_groups h) huff_index) in
  pixel_loop_io (S (Z.to_nat num_values)) width num_values h grp (h_cache h) 0 0 data.

(* one HuffmanCodeGroup: for j in 0..5 *)
Definition read_group_io (cache_bits : option Z) : M group :=
  let alpha0 := nth 0 lossless_ALPHABET_SIZE 0 in
  let! a0 := retM (match cache_bits with
                   | Some b => let s := alpha0 + Z.shiftl 1 b in if 65535 <? s then Panic POverflow else Ok s
                   | None => Ok alpha0 end) in
  let! t0 := read_huffman_code_io a0 in
  let! t1 := read_huffman_code_io (nth 1 lossless_ALPHABET_SIZE 0) in
  let! t2 := read_huffman_code_io (nth 2 lossless_ALPHABET_SIZE 0) in
  let! t3 := read_huffman_code_io (nth 3 lossless_ALPHABET_SIZE 0) in
  let! t4 := read_huffman_code_io (nth 4 lossless_ALPHABET_SIZE 0) in
  retM (Ok {| g_green := t0; g_red := t1; g_blue := t2; g_alpha := t3; g_dist := t4 |}).

Fixpoint read_groups_io (n : nat) (cache_bits : option Z) (acc : vec group) : M (vec group) :=
  match n with
  | O => retM (Ok acc)
  | S n' => let! g := read_group_io cache_bits in read_groups_io n' cache_bits (vpush acc g)
  end.

(* decode_image_stream / read_huffman_codes *)
Fixpoint decode_image_stream_io (lvl : nat) (xsize ysize : Z) (is_argb_img : bool) (data : arr) : M arr :=
  match lvl with
  | O => retM OutOfFuel
  | S lvl' =>
    let! color_cache_bits := read_color_cache_io in
    let color_cache := option_map cache_new color_cache_bits in
    (* read_huffman_codes(read_meta = is_argb_img, xsize, ysize, color_cache) *)
    let! meta := (if is_argb_img then let! b := read_bits_io 8 1 in retM (Ok (b =? 1))
                  else retM (Ok false)) in
    let! '(huffman_bits, huffman_xsize, entropy_image, num_huff_groups) :=
      (if meta then
         let! hb := read_bits_io 8 3 in
         let huffman_bits := hb + 2 in
         let! huffman_xsize := retM (subsample xsize huffman_bits) in
         let! huffman_ysize := retM (subsample ysize huffman_bits) in
         let! d := decode_image_stream_io lvl' huffman_xsize huffman_ysize false
                                          (zmake (huffman_xsize * huffman_ysize * 4)) in
         let '(img, ng) := entropy_image_of (zto_list d) [] 1 in
         retM (Ok (huffman_bits, huffman_xsize, img, ng))
       else retM (Ok (0, 1, [], 1))) in
    let! groups := read_groups_io (Z.to_nat num_huff_groups) color_cache_bits (vmake 0 default_group) in
    let huffman_mask := if huffman_bits =? 0 then 65535 else Z.shiftl 1 huffman_bits - 1 in
    let info := {| h_xsize := huffman_xsize; h_cache := color_cache; h_image := of_list entropy_image;
                   h_bits := huffman_bits; h_mask := huffman_mask; h_groups := groups |} in
    decode_image_data_io xsize ysize info data
  end.

(* LosslessDecoder::read_transforms *)
Fixpoint read_transforms_loop_io (fuel : nat) (d : dec) (xsize : Z) : M (Z * dec) :=
  match fuel with
  | O => retM OutOfFuel
  | S fuel' =>
    let! more := read_bits_io 8 1 in
    if negb (more =? 1) then retM (Ok (xsize, d)) else
    let! transform_type_val := read_bits_io 8 2 in
    let! slot := retM (of_option (nth_error (d_transforms d) (Z.to_nat transform_type_val)) PIndex) in
    match slot with
    | Some _ => retM (Err ETransformError)                       (* can only have one of each transform *)
    | None =>
      let order := d_order d ++ [transform_type_val] in
      let! '(tr, xsize') :=
        (if transform_type_val =? 0 then
           let! sb := read_bits_io 8 3 in
           let size_bits := sb + 2 in
           let! block_xsize := retM (subsample xsize size_bits) in
           let! block_ysize := retM (subsample (d_height d) size_bits) in
           let! data := decode_image_stream_io STREAM_LEVELS block_xsize block_ysize false
                                               (zmake (block_xsize * block_ysize * 4)) in
           retM (Ok (PredictorTransform size_bits data, xsize))
         else if transform_type_val =? 1 then
           let! sb := read_bits_io 8 3 in
           let size_bits := sb + 2 in
           let! block_xsize := retM (subsample xsize size_bits) in
           let! block_ysize := retM (subsample (d_height d) size_bits) in
           let! data := decode_image_stream_io STREAM_LEVELS block_xsize block_ysize false
                                               (zmake (block_xsize * block_ysize * 4)) in
           retM (Ok (ColorTransform size_bits data, xsize))
         else if transform_type_val =? 2 then retM (Ok (SubtractGreen, xsize))
         else if transform_type_val =? 3 then
           let! cts := read_bits_io 16 8 in
           let color_table_size := cts + 1 in
           let! color_map := decode_image_stream_io STREAM_LEVELS color_table_size 1 false
                                                    (zmake (color_table_size * 4)) in
           let bits := if color_table_size <=? 2 then 3 else if color_table_size <=? 4 then 2
                       else if color_table_size <=? 16 then 1 else 0 in
           let! xsize' := retM (subsample xsize bits) in
           let! color_map := retM (adjust_color_map color_map) in
           retM (Ok (ColorIndexingTransform color_table_size color_map, xsize'))
         else retM (Panic PUnreachable)) in
      let d' := {| d_transforms := opt_set (d_transforms d) (Z.to_nat transform_type_val) tr; d_order := order;
                   d_width := d_width d; d_height := d_height d |} in
      read_transforms_loop_io fuel' d' xsize'
    end
  end.

Definition read_transforms_io (d : dec) : M (Z * dec) := read_transforms_loop_io 6 d (d_width d).

(* LosslessDecoder::decode_frame on an array, as a computation on the reader state *)
Definition decode_frame_m (width height : Z) (implicit : bool) (buf : arr) : M arr :=
  let! '(w, h) :=
    (if implicit then retM (Ok (width mod 2 ^ 16, height mod 2 ^ 16))
     else
       let! signature := read_bits_io 8 8 in
       if negb (signature =? 47) then retM (Err ELosslessSignatureInvalid) else
       let! w1 := read_bits_io 16 14 in
       let! h1 := read_bits_io 16 14 in
       let w := w1 + 1 in let h := h1 + 1 in
       if negb (w =? width) || negb (h =? height) then retM (Err EInconsistentImageSizes) else
       let! _alpha_used := read_bits_io 8 1 in
       let! version_num := read_bits_io 8 3 in
       if negb (version_num =? 0) then retM (Err EVersionNumberInvalid) else
       retM (Ok (w, h))) in
  let d := {| d_transforms := [None; None; None; None]; d_order := []; d_width := w; d_height := h |} in
  let! '(transformed_width, d) := read_transforms_io d in
  let transformed_size := transformed_width * h * 4 in
  let! v := retM (zview buf transformed_size) in
  let! v' := decode_image_stream_io STREAM_LEVELS transformed_width h true v in
  retM (apply_transforms (rev (d_order d)) d (zunview buf v') transformed_size transformed_width).

(* LosslessDecoder::new(reader).decode_frame(..): the reader starts with `calls = 0` and the fault armed at `fail_at` *)
Definition decode_frame_arr_io (data sched : list Z) (fa : option Z) (width height : Z) (implicit : bool) (buf : arr)
  : res arr * iot :=
  decode_frame_m width height implicit buf (init_io data sched fa).

(* entry point: payload bytes, fill_buf schedule, index of the failing fill_buf call, expected dimensions, ALPH-style implicit
   dimensions, initial contents of the caller's buffer; returns (final contents of the buffer | failure, fill_buf calls made) *)
Definition decode_frame_io (data sched : list Z) (fa : option Z) (width height : Z) (implicit : bool) (buf : list Z)
  : res (list Z) * Z :=
  let '(out, r) := decode_frame_arr_io data sched fa width height implicit (of_list buf) in
  (rmap zto_list out, calls r).

(* extraction entry point (oracle case kind `llio`) *)
Definition o_llio (data sched : list Z) (fa : option Z) (width height : Z) (implicit : bool) (buf : list Z)
  : res (list Z) * Z :=
  decode_frame_io data sched fa width height implicit buf.
