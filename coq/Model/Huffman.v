(* Hand Model of huffman.rs :: HuffmanTree -- the two-level prefix decoding table:
   a primary table of 2^min(max_len, MAX_TABLE_BITS) u32 entries indexed by the next stream bits
   (bit-reversed canonical codes; entry = length << 16 | symbol, or 1 + index of the root of a secondary
   tree for codes longer than MAX_TABLE_BITS) and a vector of secondary tree nodes.
   Mirrors the code WITH the repair F16 (Kraft accumulation in u32, commit 02254ee), as applied in the
   repository copy this model is tied to.  u16 / u32 / usize arithmetic explicit; no proofs here. *)
From Coq Require Import ZArith NArith List Bool.
From WebP Require Import Lib.Res Lib.Arr Gen.Tables Model.LosslessLib Model.BitReader.
Import ListNotations.
Open Scope Z_scope.
Open Scope res_scope.

Inductive node :=
  | Branch (offset : Z)   (* offset in vector to children *)
  | Leaf (symbol : Z)
  | Empty.

Inductive tree :=
  | Single (symbol : Z)
  | Tree (nodes : vec node) (table : arr) (table_mask : Z).

Definition MAX_TABLE_BITS : Z := huffman_MAX_TABLE_BITS.
Definition MAX_ALLOWED_CODE_LENGTH : Z := huffman_MAX_ALLOWED_CODE_LENGTH.

(* HuffmanTree::default *)
Definition default_tree : tree := Single 0.

(* u16::reverse_bits *)
Fixpoint rev_bits_aux (n : nat) (x acc : Z) : Z :=
  match n with O => acc | S n' => rev_bits_aux n' (x / 2) (2 * acc + x mod 2) end.
Definition reverse_bits16 (x : Z) : Z := rev_bits_aux 16 x 0.

(* ---- pass 1: histogram of the non-zero lengths, number of used symbols ---- *)
(* for &length in code_lengths.iter().filter(|&&x| x != 0) { hist[usize::from(length)] += 1; num_symbols += 1; }
   hist : [u16; 16], num_symbols : i32 *)
Fixpoint count_lengths (ls : list Z) (hist : list Z) (num : Z) : res (list Z * Z) :=
  match ls with
  | [] => Ok (hist, num)
  | l :: tl =>
    if l =? 0 then count_lengths tl hist num else
    let* h := zlist_get hist l in                                  (* index out of bounds when length > 15 *)
    if 65535 <=? h then Panic POverflow else
    let* hist' := zlist_set hist l (h + 1) in
    if 2147483647 <=? num then Panic POverflow else
    count_lengths tl hist' (num + 1)
  end.

(* code_lengths.iter().position(|&x| x != 0) *)
Fixpoint position_nonzero (ls : list Z) (i : Z) : option Z :=
  match ls with [] => None | l :: tl => if l =? 0 then position_nonzero tl (i + 1) else Some i end.
(* hist.iter().rposition(|&x| x != 0) *)
Fixpoint rposition_nonzero (hist : list Z) (i : Z) (last : option Z) : option Z :=
  match hist with [] => last | h :: tl => rposition_nonzero tl (i + 1) (if h =? 0 then last else Some i) end.

(* ---- pass 2: first code of every length (FIX F16: curr_code is u32, next_codes stays [u16; 16]) ----
   for code_len in 1..=max { next_codes[code_len] = curr_code as u16;     (wrapping cast)
                             curr_code = (curr_code + u32::from(hist[code_len])) << 1; } *)
Fixpoint assign_codes (n : nat) (code_len : Z) (hist next_codes : list Z) (curr : Z) : res (list Z * Z) :=
  match n with
  | O => Ok (next_codes, curr)
  | S n' =>
    let* nc := zlist_set next_codes code_len (curr mod 2 ^ 16) in            (* FIX F16 : `as u16` *)
    let* h := zlist_get hist code_len in
    let sum := curr + h in
    if 2 ^ 32 <=? sum then Panic POverflow else                    (* FIX F16 : u32 addition *)
    assign_codes n' (code_len + 1) hist nc ((sum * 2) mod 2 ^ 32)   (* `<< 1` drops the top bit silently *)
  end.

(* code_length_hist[a..=b].iter().sum::<u16>() *)
Fixpoint sum_u16 (l : list Z) (acc : Z) : res Z :=
  match l with
  | [] => Ok acc
  | x :: tl => if 65535 <? acc + x then Panic POverflow else sum_u16 tl (acc + x)
  end.
Definition sum_range_u16 (hist : list Z) (a b : Z) : res Z :=       (* hist[a ..= b] *)
  if b + 1 <? a then Panic PSlice else
  if Z.of_nat (length hist) <? b + 1 then Panic PSlice else
  sum_u16 (firstn (Z.to_nat (b + 1 - a)) (skipn (Z.to_nat a) hist)) 0.

(* ---- pass 3: the tables ---- *)
(* while j < table_size { table[j] = entry; j += 1 << length; } *)
Fixpoint replicate (n : nat) (table : arr) (j step entry table_size : Z) : res arr :=
  match n with
  | O => Ok table
  | S n' => if j <? table_size then
              let* t' := zset table j entry in replicate n' t' (j + step) step entry table_size
            else Ok table
  end.

(* for depth in (0..length - table_bits).rev() { ... node_index += offset + ((code >> depth) & 1); } *)
Fixpoint descend (n : nat) (nodes : vec node) (node_index code : Z) : res (vec node * Z) :=
  match n with
  | O => Ok (nodes, node_index)
  | S depth =>
    let* nd := vget nodes node_index in
    let* '(nodes', offset) :=
      match nd with
      | Empty =>                        (* turns a node from empty into a branch and assigns its children *)
        let* offset := usub (vzlen nodes) node_index in
        let* n1 := vset nodes node_index (Branch offset) in
        Ok (vpush (vpush n1 Empty) Empty, offset)
      | Leaf _ => Err EHuffmanError
      | Branch offset => Ok (nodes, offset)
      end in
    descend depth nodes' (node_index + offset + Z.land (Z.shiftr code (Z.of_nat depth)) 1) code
  end.

(* one symbol of the population loop *)
Definition place_symbol (symbol length : Z) (st : list Z * vec node * arr) (table_bits table_size table_mask : Z)
  : res (list Z * vec node * arr) :=
  let '(next_codes, nodes, table) := st in
  let* nc := zlist_get next_codes length in
  let code := nc in                                                  (* next_codes : [u16; 16] *)
  if 65535 <? nc + 1 then Panic POverflow else                        (* next_codes[length] += 1 in u16 *)
  let* next_codes' := zlist_set next_codes length (nc + 1) in
  let* sh := usub 16 length in                                       (* 16 - length in u16 *)
  if length <=? table_bits then
    let j := Z.shiftr (reverse_bits16 code) sh in
    let entry := Z.lor (Z.shiftl length 16) (symbol mod 2 ^ 32) in
    let* table' := replicate (Z.to_nat table_size) table j (Z.shiftl 1 length) entry table_size in
    Ok (next_codes', nodes, table')
  else
    let table_index := Z.land (Z.shiftr (reverse_bits16 code) sh) table_mask in
    let* table_value := zget table table_index in
    if negb (Z.shiftr table_value 16 =? 0) then Panic PAssert else    (* debug_assert_eq!(table_value >> 16, 0) *)
    let* '(nodes1, table1, node_index) :=
      (if table_value =? 0 then
         let node_index := vzlen nodes in
         let* t' := zset table table_index (node_index + 1) in
         Ok (vpush nodes Empty, t', node_index)
       else Ok (nodes, table, table_value - 1)) in
    let* '(nodes2, node_index2) := descend (Z.to_nat (length - table_bits)) nodes1 node_index code in
    let* nd := vget nodes2 node_index2 in
    match nd with
    | Empty => let* nodes3 := vset nodes2 node_index2 (Leaf (symbol mod 2 ^ 16)) in Ok (next_codes', nodes3, table1)
    | Leaf _ => Err EHuffmanError
    | Branch _ => Err EHuffmanError
    end.

(* for (symbol, &length) in code_lengths.iter().enumerate() { if length == 0 { continue; } ... } *)
Fixpoint populate (ls : list Z) (symbol : Z) (st : list Z * vec node * arr) (table_bits table_size table_mask : Z)
  : res (list Z * vec node * arr) :=
  match ls with
  | [] => Ok st
  | l :: tl =>
    if l =? 0 then populate tl (symbol + 1) st table_bits table_size table_mask else
    let* st' := place_symbol symbol l st table_bits table_size table_mask in
    populate tl (symbol + 1) st' table_bits table_size table_mask
  end.

(* HuffmanTree::build_single_node *)
Definition build_single_node (symbol : Z) : tree := Single symbol.

(* HuffmanTree::build_two_node (unchanged by the F3 repair: the caller orders the symbols) *)
Definition build_two_node (zero one : Z) : tree :=
  Tree (vpush (vpush (vpush (vmake 0 Empty) (Leaf zero)) (Leaf one)) Empty)
       (of_list [Z.lor (Z.shiftl 1 16) zero; Z.lor (Z.shiftl 1 16) one])
       1.

(* HuffmanTree::build_implicit(code_lengths: Vec<u16>) *)
Definition build_implicit (code_lengths : list Z) : res tree :=
  let* '(hist, num_symbols) := count_lengths code_lengths (repeat 0 16) 0 in
  if num_symbols =? 0 then Err EHuffmanError else
  if num_symbols =? 1 then
    let* root := of_option (position_nonzero code_lengths 0) PUnwrap in
    Ok (build_single_node (root mod 2 ^ 16))
  else
  let* max_code_length := of_option (rposition_nonzero hist 0 None) PUnwrap in
  let* '(next_codes, curr_code) := assign_codes (Z.to_nat max_code_length) 1 hist (repeat 0 16) 0 in
  if negb (curr_code =? (Z.shiftl 2 max_code_length) mod 2 ^ 32) then Err EHuffmanError else
  let table_bits := Z.min max_code_length MAX_TABLE_BITS in
  let table_size := Z.shiftl 1 table_bits in
  let table_mask := table_size mod 2 ^ 16 - 1 in
  let* _tree_size := sum_range_u16 hist (table_bits + 1) max_code_length in
  let* '(_, nodes, table) := populate code_lengths 0 (next_codes, vmake 0 Empty, zmake table_size)
                                      table_bits table_size table_mask in
  Ok (Tree nodes table table_mask).

(* HuffmanTree::is_single_node *)
Definition is_single_node (t : tree) : bool := match t with Single _ => true | Tree _ _ _ => false end.

(* HuffmanTree::read_symbol_slowpath; the secondary trees built above are at most 5 levels deep *)
Fixpoint read_symbol_slowpath (fuel : nat) (nodes : vec node) (v index depth : Z) (br : BitReader.t) : res (Z * BitReader.t) :=
  match fuel with
  | O => OutOfFuel
  | S fuel' =>
    let* nd := vget nodes index in
    match nd with
    | Branch children_offset =>
      if 255 <=? depth then Panic POverflow else                       (* depth : u8 *)
      read_symbol_slowpath fuel' nodes (Z.shiftr v 1) (index + children_offset + Z.land v 1) (depth + 1) br
    | Leaf symbol => let* br' := BitReader.consume br depth in Ok (symbol, br')
    | Empty => Err EHuffmanError
    end
  end.
Definition SLOWPATH_FUEL : nat := 32.

(* HuffmanTree::read_symbol *)
Definition read_symbol (t : tree) (br : BitReader.t) : res (Z * BitReader.t) :=
  match t with
  | Tree nodes table table_mask =>
    let v := BitReader.peek_full br mod 2 ^ 16 in                     (* as u16 *)
    let* entry := zget table (Z.land v table_mask) in
    if negb (Z.shiftr entry 16 =? 0) then
      let* br' := BitReader.consume br ((Z.shiftr entry 16) mod 2 ^ 8) in
      Ok (entry mod 2 ^ 16, br')
    else
      let* start := usub (Z.land entry 65535) 1 in                    (* (entry & 0xffff) - 1 in u32 *)
      read_symbol_slowpath SLOWPATH_FUEL nodes (Z.shiftr v MAX_TABLE_BITS) start MAX_TABLE_BITS br
  | Single symbol => Ok (symbol, br)
  end.

(* HuffmanTree::peek_symbol *)
Definition peek_symbol (t : tree) (br : BitReader.t) : res (option (Z * Z)) :=
  match t with
  | Tree nodes table table_mask =>
    let v := BitReader.peek_full br mod 2 ^ 16 in
    let* entry := zget table (Z.land v table_mask) in
    if negb (Z.shiftr entry 16 =? 0) then Ok (Some ((Z.shiftr entry 16) mod 2 ^ 8, entry mod 2 ^ 16))
    else Ok None
  | Single symbol => Ok (Some (0, symbol))
  end.
