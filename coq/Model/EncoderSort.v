(* Model of `indexes.sort_unstable_by_key(|&(_, frequency)| frequency)` on a Vec<(usize, u32)> exactly as
   core::slice::sort::unstable (Rust 1.95, 64-bit, not optimize_for_size) executes it, so that the oracle reproduces
   std's order among equal keys.  The *theorems* about build_huffman_tree do not use this file: they hold for every
   permutation (`sorter_ok`).  Structure of std's code, for T = (usize, u32) (16 bytes, Copy + Freeze):
     sort:        len < 2 nothing; len <= 20 insertion_sort_shift_left (stable); else ipnsort
     ipnsort:     find_existing_run; fully sorted / strictly descending input handled directly;
                  else quicksort(v, None, 2 * ilog2(len | 1))
     quicksort:   len <= 32 -> small_sort_general (sort4/8_stable + insert_tail + bidirectional_merge: the same routine
                  the *stable* sort uses, i.e. a stable sort); limit == 0 -> heapsort; choose_pivot (median of 3,
                  recursive from 64 elements); equal-to-ancestor partition; partition_lomuto_branchless_cyclic
   Arrays are lists with positional access (at most 280 elements here).  No proofs here. *)
From Coq Require Import ZArith List Bool.
From WebP Require Import Model.EncoderHeap.
Import ListNotations.
Open Scope Z_scope.

Definition elt := (Z * Z)%type.                                  (* (index, frequency) *)
Definition is_less (a b : elt) : bool := snd a <? snd b.          (* key(a).lt(key(b)) *)
Definition eget (v : list elt) (i : nat) : elt := nth i v (0, 0).
Definition eswap (v : list elt) (i j : nat) : list elt := upd (upd v i (eget v j)) j (eget v i).

(* stable insertion sort: insertion_sort_shift_left / the small sorts *)
Fixpoint insert_tail (lt : elt -> elt -> bool) (x : elt) (sorted : list elt) : list elt :=
  match sorted with
  | [] => [x]
  | y :: tl => if lt x y then x :: sorted else y :: insert_tail lt x tl
  end.
(* inserting from the back keeps equal elements in input order: x goes after every y with not (x < y) *)
Definition stable_sort (lt : elt -> elt -> bool) (v : list elt) : list elt :=
  fold_left (fun acc x => insert_tail lt x acc) v [].

(* find_existing_run *)
Fixpoint run_while (lt : elt -> elt -> bool) (desc : bool) (prev : elt) (rest : list elt) (run : nat) : nat :=
  match rest with
  | [] => run
  | x :: tl => if (if desc then lt x prev else negb (lt x prev)) then run_while lt desc x tl (S run) else run
  end.
Definition find_existing_run (lt : elt -> elt -> bool) (v : list elt) : nat * bool :=
  match v with
  | a :: b :: tl => let desc := lt b a in (run_while lt desc b tl 2, desc)
  | _ => (length v, false)
  end.

(* pivot selection *)
Definition median3 (lt : elt -> elt -> bool) (v : list elt) (a b c : nat) : nat :=
  let x := lt (eget v a) (eget v b) in
  let y := lt (eget v a) (eget v c) in
  if Bool.eqb x y then
    let z := lt (eget v b) (eget v c) in
    if xorb z x then c else b
  else a.
Fixpoint median3_rec (fuel : nat) (lt : elt -> elt -> bool) (v : list elt) (a b c n : nat) : nat :=
  match fuel with
  | O => median3 lt v a b c
  | S fuel =>
    if (64 <=? n * 8)%nat then
      let n8 := (n / 8)%nat in
      let a' := median3_rec fuel lt v a (a + n8 * 4) (a + n8 * 7) n8 in
      let b' := median3_rec fuel lt v b (b + n8 * 4) (b + n8 * 7) n8 in
      let c' := median3_rec fuel lt v c (c + n8 * 4) (c + n8 * 7) n8 in
      median3 lt v a' b' c'
    else median3 lt v a b c
  end.
Definition choose_pivot (lt : elt -> elt -> bool) (v : list elt) : nat :=
  let len := length v in
  let d := (len / 8)%nat in
  if (len <? 64)%nat then median3 lt v 0 (d * 4) (d * 7) else median3_rec 8 lt v 0 (d * 4) (d * 7) d.

(* partition_lomuto_branchless_cyclic on v_without_pivot; returns the rearranged slice and num_lt *)
Fixpoint lomuto_loop (lt : elt -> elt -> bool) (pivot : elt) (a : list elt) (todo : list nat) (gap num_lt : nat)
  : list elt * nat * nat :=
  match todo with
  | [] => (a, gap, num_lt)
  | r :: tl =>
    let elem := eget a r in
    let is_lt := lt elem pivot in
    let a1 := upd a gap (eget a num_lt) in
    let a2 := upd a1 num_lt elem in
    lomuto_loop lt pivot a2 tl r (if is_lt then S num_lt else num_lt)
  end.
Definition lomuto_cyclic (lt : elt -> elt -> bool) (pivot : elt) (v : list elt) : list elt * nat :=
  match v with
  | [] => ([], 0%nat)
  | g :: _ =>
    let '(a, gap, num_lt) := lomuto_loop lt pivot v (seq 1 (length v - 1)) 0 0 in
    (* last iteration: the saved first element plays the role of *right *)
    let is_lt := lt g pivot in
    let a1 := upd a gap (eget a num_lt) in
    let a2 := upd a1 num_lt g in
    (a2, if is_lt then S num_lt else num_lt)
  end.
(* partition(v, pivot_pos, is_less): returns the rearranged slice and the final pivot position *)
Definition partition (lt : elt -> elt -> bool) (v : list elt) (pivot_pos : nat) : list elt * nat :=
  match eswap v 0 pivot_pos with
  | [] => ([], 0%nat)
  | p :: rest =>
    let '(rest', num_lt) := lomuto_cyclic lt p rest in
    (eswap (p :: rest') 0 num_lt, num_lt)
  end.

(* heapsort *)
Fixpoint hs_sift_down (fuel : nat) (lt : elt -> elt -> bool) (v : list elt) (len node : nat) : list elt :=
  match fuel with
  | O => v
  | S fuel =>
    let child := (2 * node + 1)%nat in
    if (len <=? child)%nat then v
    else
      let child := if (child + 1 <? len)%nat && lt (eget v child) (eget v (child + 1)) then S child else child in
      if negb (lt (eget v node) (eget v child)) then v
      else hs_sift_down fuel lt (eswap v node child) len child
  end.
Fixpoint heapsort_loop (lt : elt -> elt -> bool) (v : list elt) (len : nat) (k : nat) : list elt :=
  (* k counts down: the loop variable is i = k - 1 *)
  match k with
  | O => v
  | S i =>
    let '(v1, sift_idx) := if (len <=? i)%nat then (v, (i - len)%nat) else (eswap v 0 i, 0%nat) in
    heapsort_loop lt (hs_sift_down (S len) lt v1 (Nat.min i len) sift_idx) len i
  end.
Definition heapsort (lt : elt -> elt -> bool) (v : list elt) : list elt :=
  let len := length v in heapsort_loop lt v len (len + len / 2).

(* quicksort(v, ancestor_pivot, limit, is_less) *)
Fixpoint quicksort (fuel : nat) (lt : elt -> elt -> bool) (v : list elt) (ancestor : option elt) (limit : nat) : list elt :=
  match fuel with
  | O => v
  | S fuel =>
    if (length v <=? 32)%nat then stable_sort lt v
    else match limit with
    | O => heapsort lt v
    | S limit' =>
      let pivot_pos := choose_pivot lt v in
      let equal_case := match ancestor with Some p => negb (lt p (eget v pivot_pos)) | None => false end in
      if equal_case then
        let '(v', num_le) := partition (fun a b => negb (lt b a)) v pivot_pos in
        firstn (S num_le) v' ++ quicksort fuel lt (skipn (S num_le) v') None limit'
      else
        let '(v', num_lt) := partition lt v pivot_pos in
        let pivot := eget v' num_lt in
        quicksort fuel lt (firstn num_lt v') ancestor limit' ++ pivot :: quicksort fuel lt (skipn (S num_lt) v') (Some pivot) limit'
    end
  end.

Definition ipnsort (lt : elt -> elt -> bool) (v : list elt) : list elt :=
  let len := length v in
  let '(run_len, was_reversed) := find_existing_run lt v in
  if (run_len =? len)%nat then (if was_reversed then rev v else v)
  else quicksort (S len) lt v None (2 * Z.to_nat (Z.log2 (Z.lor (Z.of_nat len) 1))).

(* slice::sort_unstable_by_key(|&(_, frequency)| frequency) *)
Definition std_sort_unstable_by_key (v : list elt) : list elt :=
  let len := length v in
  if (len <? 2)%nat then v
  else if (len <=? 20)%nat then stable_sort is_less v
  else ipnsort is_less v.
