(* Hand Model of lossless.rs :: LosslessDecoder (VP8L), mirroring the Rust functions one to one, WITH the
   repairs F2 (cache hits are inserted into the colour cache, 0500696), F3 (a simple two-symbol code is ordered by
   symbol value in read_huffman_code, ea1beef) and F4 (conditional refill before the distance symbol, e098e2b) of
   the repository (F16 lives in Model/Huffman.v).
   Every slice / index / unwrap / checked arithmetic that can panic in a debug build is an explicit `Panic`;
   loops carry fuel (`OutOfFuel`).  Buffers are Lib/Arr arrays; `&mut buf[..n]` is a view sharing storage.
   No proofs here. *)
From Coq Require Import ZArith NArith List Bool.
From WebP Require Import Lib.Res Lib.Arr Gen.Tables Gen.Kernels Model.LosslessLib Model.BitReader Model.Huffman Model.LosslessTransform.
Import ListNotations.
Open Scope Z_scope.
Open Scope res_scope.



(* ---------- ColorCache ---------- *)
Record color_cache := { cbits : Z; ccache : vec px4 }.       (* Vec<[u8; 4]> of 1 << bits entries *)

Definition cache_new (bits : Z) : color_cache := {| cbits := bits; ccache := vmake (Z.to_N (Z.shiftl 1 bits)) zero4 |}.

(* ColorCache::insert *)
Definition cache_insert (c : color_cache) (p : px4) : res color_cache :=
  let '(r, g, b, a) := p in
  let color_u32 := Z.lor (Z.lor (Z.lor (Z.shiftl r 16) (Z.shiftl g 8)) b) (Z.shiftl a 24) in
  let* sh := usub 32 (cbits c) in
  if 32 <=? sh then Panic PShift else
  let index := Z.shiftr ((506832829 (* 0x1e35a7bd *) * color_u32) mod 2 ^ 32) sh in
  let* v := vset (ccache c) index p in
  Ok {| cbits := cbits c; ccache := v |}.

(* ColorCache::lookup *)
Definition cache_lookup (c : color_cache) (index : Z) : res px4 := vget (ccache c) index.

Definition cache_insert_opt (c : option color_cache) (p : px4) : res (option color_cache) :=
  match c with None => Ok None | Some c => let* c' := cache_insert c p in Ok (Some c') end.

(* ---------- HuffmanInfo ---------- *)
Record group := { g_green : tree; g_red : tree; g_blue : tree; g_alpha : tree; g_dist : tree }.  (* [HuffmanTree; 5] *)
Definition default_group : group := {| g_green := default_tree; g_red := default_tree; g_blue := default_tree;
                                       g_alpha := default_tree; g_dist := default_tree |}.

Record huffman_info := { h_xsize : Z; h_cache : option color_cache; h_image : arr (* Vec<u16> *);
                         h_bits : Z; h_mask : Z; h_groups : vec group }.

(* HuffmanInfo::get_huff_index *)
Definition get_huff_index (h : huffman_info) (x y : Z) : res Z :=
  if h_bits h =? 0 then Ok 0 else
  let position := Z.shiftr y (h_bits h) * h_xsize h + Z.shiftr x (h_bits h) in
  zget (h_image h) position.

(* ---------- TransformType ---------- *)
Inductive transform :=
  | PredictorTransform (size_bits : Z) (predictor_data : arr)
  | ColorTransform (size_bits : Z) (transform_data : arr)
  | SubtractGreen
  | ColorIndexingTransform (table_size : Z) (table_data : arr).

Fixpoint opt_set {A} (l : list (option A)) (i : nat) (v : A) : list (option A) :=
  match l, i with
  | [], _ => []
  | _ :: tl, O => Some v :: tl
  | x :: tl, S i' => x :: opt_set tl i' v
  end.

(* ---------- small pieces ---------- *)
(* LosslessDecoder::read_color_cache *)
Definition read_color_cache (br : BitReader.t) : res (option Z * BitReader.t) :=
  let* '(b, br) := BitReader.read_bits br 8 1 in
  if b =? 1 then
    let* '(code_bits, br) := BitReader.read_bits br 8 4 in
    if (1 <=? code_bits) && (code_bits <=? 11) then Ok (Some code_bits, br) else Err EInvalidColorCacheBits
  else Ok (None, br).

(* LosslessDecoder::get_copy_distance *)
Definition get_copy_distance (br : BitReader.t) (prefix_code : Z) : res (Z * BitReader.t) :=
  if prefix_code <? 4 then Ok (prefix_code + 1, br) else
  let extra_bits := Z.shiftr (prefix_code - 2) 1 in
  if 255 <? extra_bits then Panic PUnwrap else                       (* u8::try_from(..).unwrap() *)
  let offset := Z.shiftl (2 + Z.land prefix_code 1) extra_bits in
  let* bits := BitReader.peek br extra_bits in
  let* br := BitReader.consume br extra_bits in
  Ok (offset + bits + 1, br).

(* LosslessDecoder::plane_code_to_distance *)
Definition plane_code_to_distance (xsize plane_code : Z) : res Z :=
  if 120 <? plane_code then Ok (plane_code - 120) else
  let* i := usub plane_code 1 in
  match nth_error lossless_DISTANCE_MAP (Z.to_nat i) with
  | Some [xoffset; yoffset] =>
    let dist := xoffset + yoffset * xsize in                       (* i32, |.| < 2^20 *)
    if dist <? 1 then Ok 1 else Ok dist
  | _ => Panic PIndex
  end.

(* ---------- prefix code reading ---------- *)
(* the symbol loop of read_huffman_code_lengths; every iteration writes at least one length *)
Fixpoint code_lengths_loop (fuel : nat) (table : tree) (num_symbols symbol max_symbol prev_code_len : Z)
         (code_lengths : arr) (br : BitReader.t) : res (arr * BitReader.t) :=
  match fuel with
  | O => OutOfFuel
  | S fuel' =>
    if negb (symbol <? num_symbols) then Ok (code_lengths, br) else
    if max_symbol =? 0 then Ok (code_lengths, br) else
    let max_symbol := max_symbol - 1 in
    let* br := BitReader.fill br in
    let* '(code_len, br) := read_symbol table br in
    if code_len <? 16 then
      let* cl := zset code_lengths symbol code_len in
      code_lengths_loop fuel' table num_symbols (symbol + 1) max_symbol
                        (if code_len =? 0 then prev_code_len else code_len) cl br
    else
      let use_prev := code_len =? 16 in
      let slot := code_len - 16 in
      let* '(extra_bits, repeat_offset) :=
        (if slot =? 0 then Ok (2, 3) else if slot =? 1 then Ok (3, 3) else if slot =? 2 then Ok (7, 11)
         else Err EBitStreamError) in
      let* '(rb, br) := BitReader.read_bits br 16 extra_bits in
      let repeat := rb + repeat_offset in
      if (65535 <? repeat) || (65535 <? symbol + repeat) then Panic POverflow else
      if num_symbols <? symbol + repeat then Err EBitStreamError else
      let length := if use_prev then prev_code_len else 0 in
      let* cl := for_range 0 repeat (fun k cl => zset cl (symbol + k) length) code_lengths in
      code_lengths_loop fuel' table num_symbols (symbol + repeat) max_symbol prev_code_len cl br
  end.

(* LosslessDecoder::read_huffman_code_lengths *)
Definition read_huffman_code_lengths (br : BitReader.t) (code_length_code_lengths : list Z) (num_symbols : Z)
  : res (list Z * BitReader.t) :=
  let* table := build_implicit code_length_code_lengths in
  let* '(b, br) := BitReader.read_bits br 8 1 in
  let* '(max_symbol, br) :=
    (if b =? 1 then
       let* '(x, br) := BitReader.read_bits br 8 3 in
       let length_nbits := 2 + 2 * x in
       let* '(max_minus_two, br) := BitReader.read_bits br 16 length_nbits in
       let* lim := usub num_symbols 2 in
       if lim <? max_minus_two then Err EBitStreamError else Ok (2 + max_minus_two, br)
     else Ok (num_symbols, br)) in
  let* '(cl, br) := code_lengths_loop (S (Z.to_nat num_symbols)) table num_symbols 0 max_symbol 8
                                      (zmake num_symbols) br in
  Ok (zto_list cl, br).

(* for i in 0..num_code_lengths { code_length_code_lengths[CODE_LENGTH_CODE_ORDER[i]] = read_bits(3)?; } *)
Fixpoint read_cl_cl (n : nat) (i : Z) (cl : list Z) (br : BitReader.t) : res (list Z * BitReader.t) :=
  match n with
  | O => Ok (cl, br)
  | S n' =>
    let* '(v, br) := BitReader.read_bits br 16 3 in
    let* pos := zlist_get lossless_CODE_LENGTH_CODE_ORDER i in
    let* cl' := zlist_set cl pos v in
    read_cl_cl n' (i + 1) cl' br
  end.

(* the two-symbol arm of the simple code in read_huffman_code (FIX F3): both symbols have length 1, so the
   smaller symbol gets the word 0, and a repeated symbol is a single zero-length code *)
Definition simple_two_symbols (zero_symbol one_symbol : Z) : tree :=
  if zero_symbol =? one_symbol then build_single_node zero_symbol                                   (* FIX F3 *)
  else build_two_node (Z.min zero_symbol one_symbol) (Z.max zero_symbol one_symbol).                (* FIX F3 *)

(* LosslessDecoder::read_huffman_code *)
Definition read_huffman_code (br : BitReader.t) (alphabet_size : Z) : res (tree * BitReader.t) :=
  let* '(simple, br) := BitReader.read_bits br 8 1 in
  if simple =? 1 then
    let* '(ns, br) := BitReader.read_bits br 8 1 in
    let num_symbols := ns + 1 in
    let* '(is_first_8bits, br) := BitReader.read_bits br 8 1 in
    let* '(zero_symbol, br) := BitReader.read_bits br 16 (1 + 7 * is_first_8bits) in
    if alphabet_size <=? zero_symbol then Err EBitStreamError else
    if num_symbols =? 1 then Ok (build_single_node zero_symbol, br)
    else
      let* '(one_symbol, br) := BitReader.read_bits br 16 8 in
      if alphabet_size <=? one_symbol then Err EBitStreamError else
      Ok (simple_two_symbols zero_symbol one_symbol, br)
  else
    let* '(x, br) := BitReader.read_bits br 64 4 in
    let num_code_lengths := 4 + x in
    let* '(cl_cl, br) := read_cl_cl (Z.to_nat num_code_lengths) 0 (repeat 0 (Z.to_nat lossless_CODE_LENGTH_CODES)) br in
    let* '(new_code_lengths, br) := read_huffman_code_lengths br cl_cl alphabet_size in
    let* t := build_implicit new_code_lengths in
    Ok (t, br).

(* ---------- pixel decoding ---------- *)
(* for i in 0..n { data[index * 4 + i * 4..][..4].copy_from_slice(&value); } *)
Definition fill_pixels (data : arr) (index n : Z) (value : px4) : res arr :=
  for_range 0 n (fun i data => write4 data (index * 4 + i * 4) value) data.

(* for pixel in data[index * 4..][..length * 4].chunks_exact(4) { color_cache.insert(pixel) } *)
Definition cache_insert_range (c : color_cache) (data : arr) (index length : Z) : res color_cache :=
  if zlen data <? index * 4 + length * 4 then Panic PSlice else
  for_range 0 length (fun i c => let* p := get4 data (index * 4 + i * 4) in cache_insert c p) c.

(* the back-reference copy for dist <> 1 *)
Definition copy_backref (data : arr) (index dist length num_values : Z) : res arr :=
  if index + length + 3 <=? num_values then
    let start := (index - dist) * 4 in
    let* data := zcopy_within data start 16 (index * 4) in
    if (4 <? length) || (dist <? 4) then
      let step := Z.min (dist * 4) 16 in
      (* for i in (0..length * 4).step_by(step).skip(1) *)
      for_loop (Z.to_nat (step_count 0 (length * 4) step - 1)) step step (fun i data =>
        zcopy_within data (start + i) 16 (index * 4 + i)) data
    else Ok data
  else
    for_range 0 (length * 4) (fun i data =>
      let* v := zget data (index * 4 + i - dist * 4) in
      zset data (index * 4 + i) v) data.

Definition all_single (g : group) : bool :=
  is_single_node (g_green g) && is_single_node (g_red g) && is_single_node (g_blue g) && is_single_node (g_alpha g).

Definition u8 (x : Z) : Z := x mod 256.

(* one iteration of the `while index < num_values` loop of decode_image_data after the block / fast-path prologue:
   literal, backward reference or colour-cache symbol.  `k` is the rest of the loop (the next iteration). *)
Definition pixel_nonfast (k : option color_cache -> Z -> BitReader.t -> arr -> res (BitReader.t * arr))
           (width num_values : Z) (grp : group) (cache : option color_cache) (index next_block_start : Z)
           (br : BitReader.t) (data : arr) : res (BitReader.t * arr) :=
  let* '(code, br) := read_symbol (g_green grp) br in
  if code <? 256 then
    (* literal *)
    let green := u8 code in
    let* '(red, br) := read_symbol (g_red grp) br in
    let* '(blue, br) := read_symbol (g_blue grp) br in
    let* br := (if BitReader.nbits br <? 15 then BitReader.fill br else Ok br) in
    let* '(alpha, br) := read_symbol (g_alpha grp) br in
    let px := (u8 red, green, u8 blue, u8 alpha) in
    let* data := set4 data (index * 4) px in
    let* cache := cache_insert_opt cache px in
    k cache (index + 1) br data
  else if code <? 256 + 24 then
    (* backward reference *)
    let length_symbol := code - 256 in
    let* '(length, br) := get_copy_distance br length_symbol in
    let* br := (if BitReader.nbits br <? 33 then BitReader.fill br else Ok br) in   (* FIX F4 *)
    let* '(dist_symbol, br) := read_symbol (g_dist grp) br in
    let* '(dist_code, br) := get_copy_distance br dist_symbol in
    let* dist := plane_code_to_distance width dist_code in
    if (index <? dist) || (num_values - index <? length) then Err EBitStreamError else
    if dist =? 1 then
      let* value := slice4 data ((index - dist) * 4) in
      let* data := fill_pixels data index length value in
      k cache (index + length) br data
    else
      let* data := copy_backref data index dist length num_values in
      let* cache := (match cache with
                     | Some c => let* c' := cache_insert_range c data index length in Ok (Some c')
                     | None => Ok None
                     end) in
      k cache (index + length) br data
  else
    (* colour cache *)
    match cache with
    | None => Err EBitStreamError
    | Some c =>
      let* color := cache_lookup c (code - 280) in
      let* data := write4 data (index * 4) color in
      let* c := cache_insert c color in                                      (* FIX F2 *)
      let index := index + 1 in
      if index <? next_block_start then
        let* pk := peek_symbol (g_green grp) br in
        match pk with
        | Some (bits, code2) =>
          if 280 <=? code2 then
            let* br := BitReader.consume br bits in
            let* color2 := cache_lookup c (code2 - 280) in
            let* data := write4 data (index * 4) color2 in
            let* c := cache_insert c color2 in                               (* FIX F2 *)
            k (Some c) (index + 1) br data
          else k (Some c) index br data
        | None => k (Some c) index br data
        end
      else k (Some c) index br data
    end.

(* the `while index < num_values` loop of decode_image_data; every iteration advances `index` *)
Fixpoint pixel_loop (fuel : nat) (width num_values : Z) (h : huffman_info) (grp : group)
         (cache : option color_cache) (index next_block_start : Z) (br : BitReader.t) (data : arr) : res (BitReader.t * arr) :=
  match fuel with
  | O => OutOfFuel
  | S fuel' =>
    if negb (index <? num_values) then Ok (br, data) else
    let* br := BitReader.fill br in
    (* block / group cache *)
    let* '(grp, next_block_start, entered) :=
      (if next_block_start <=? index then
         if width =? 0 then Panic PDivZero else
         let x := index mod width in
         let y := index / width in
         let* wm1 := usub width 1 in
         let nbs := Z.min (Z.lor x (h_mask h)) wm1 + y * width + 1 in
         let* huff_index := get_huff_index h (x mod 2 ^ 16) (y mod 2 ^ 16) in
         let* g := vget (h_groups h) huff_index in
         Ok (g, nbs, true)
       else Ok (grp, next_block_start, false)) in
    (* fast path: all four colour codes have a single symbol *)
    let* fast :=
      (if entered && all_single grp then
         let* '(code, br1) := read_symbol (g_green grp) br in
         if code <? 256 then
           let n := if h_bits h =? 0 then num_values else next_block_start - index in
           let* '(red, br1) := read_symbol (g_red grp) br1 in
           let* '(blue, br1) := read_symbol (g_blue grp) br1 in
           let* '(alpha, br1) := read_symbol (g_alpha grp) br1 in
           let value := (u8 red, u8 code, u8 blue, u8 alpha) in
           let* data1 := fill_pixels data index n value in
           let* cache1 := cache_insert_opt cache value in
           Ok (Some (br1, data1, cache1, index + n))
         else Ok None
       else Ok None) in
    match fast with
    | Some (br1, data1, cache1, index1) =>
      pixel_loop fuel' width num_values h grp cache1 index1 next_block_start br1 data1
    | None =>
      pixel_nonfast (fun cache index br data => pixel_loop fuel' width num_values h grp cache index next_block_start br data)
                    width num_values grp cache index next_block_start br data
    end
  end.

(* LosslessDecoder::decode_image_data *)
Definition decode_image_data (br : BitReader.t) (width height : Z) (h : huffman_info) (data : arr) : res (BitReader.t * arr) :=
  let num_values := width * height in
  let* huff_index := get_huff_index h 0 0 in
  let* grp := vget (h_groups h) huff_index in
  pixel_loop (S (Z.to_nat num_values)) width num_values h grp (h_cache h) 0 0 br data.

(* entropy_image = data.chunks_exact(4).map(|pixel| (pixel[0] << 8) | pixel[1]) with the running maximum *)
Fixpoint entropy_image_of (l : list Z) (acc : list Z) (num_groups : Z) : list Z * Z :=
  match l with
  | p0 :: p1 :: _ :: _ :: tl =>
    let code := Z.lor (Z.shiftl p0 8) p1 in
    entropy_image_of tl (code :: acc) (if num_groups <=? code then code + 1 else num_groups)
  | _ => (rev acc, num_groups)
  end.

(* one HuffmanCodeGroup: for j in 0..5 *)
Definition read_group (br : BitReader.t) (cache_bits : option Z) : res (group * BitReader.t) :=
  let alpha0 := nth 0 lossless_ALPHABET_SIZE 0 in
  let* a0 := (match cache_bits with
              | Some b => let s := alpha0 + Z.shiftl 1 b in if 65535 <? s then Panic POverflow else Ok s
              | None => Ok alpha0 end) in
  let* '(t0, br) := read_huffman_code br a0 in
  let* '(t1, br) := read_huffman_code br (nth 1 lossless_ALPHABET_SIZE 0) in
  let* '(t2, br) := read_huffman_code br (nth 2 lossless_ALPHABET_SIZE 0) in
  let* '(t3, br) := read_huffman_code br (nth 3 lossless_ALPHABET_SIZE 0) in
  let* '(t4, br) := read_huffman_code br (nth 4 lossless_ALPHABET_SIZE 0) in
  Ok ({| g_green := t0; g_red := t1; g_blue := t2; g_alpha := t3; g_dist := t4 |}, br).

Fixpoint read_groups (n : nat) (br : BitReader.t) (cache_bits : option Z) (acc : vec group) : res (vec group * BitReader.t) :=
  match n with
  | O => Ok (acc, br)
  | S n' => let* '(g, br) := read_group br cache_bits in read_groups n' br cache_bits (vpush acc g)
  end.

(* decode_image_stream / read_huffman_codes (mutually recursive in Rust through the meta image: the inner
   call has is_argb_img = false and does not recurse again; `lvl` bounds the nesting) *)
Fixpoint decode_image_stream (lvl : nat) (br : BitReader.t) (xsize ysize : Z) (is_argb_img : bool) (data : arr)
  : res (BitReader.t * arr) :=
  match lvl with
  | O => OutOfFuel
  | S lvl' =>
    let* '(color_cache_bits, br) := read_color_cache br in
    let color_cache := option_map cache_new color_cache_bits in
    (* read_huffman_codes(read_meta = is_argb_img, xsize, ysize, color_cache) *)
    let* '(meta, br) := (if is_argb_img then let* '(b, br) := BitReader.read_bits br 8 1 in Ok (b =? 1, br)
                         else Ok (false, br)) in
    let* '(huffman_bits, huffman_xsize, entropy_image, num_huff_groups, br) :=
      (if meta then
         let* '(hb, br) := BitReader.read_bits br 8 3 in
         let huffman_bits := hb + 2 in
         let* huffman_xsize := subsample xsize huffman_bits in
         let* huffman_ysize := subsample ysize huffman_bits in
         let* '(br, d) := decode_image_stream lvl' br huffman_xsize huffman_ysize false
                                              (zmake (huffman_xsize * huffman_ysize * 4)) in
         let '(img, ng) := entropy_image_of (zto_list d) [] 1 in
         Ok (huffman_bits, huffman_xsize, img, ng, br)
       else Ok (0, 1, [], 1, br)) in
    let* '(groups, br) := read_groups (Z.to_nat num_huff_groups) br color_cache_bits (vmake 0 default_group) in
    let huffman_mask := if huffman_bits =? 0 then 65535 else Z.shiftl 1 huffman_bits - 1 in
    let info := {| h_xsize := huffman_xsize; h_cache := color_cache; h_image := of_list entropy_image;
                   h_bits := huffman_bits; h_mask := huffman_mask; h_groups := groups |} in
    decode_image_data br xsize ysize info data
  end.

Definition STREAM_LEVELS : nat := 2.

(* LosslessDecoder::adjust_color_map *)
Definition adjust_color_map (color_map : arr) : res arr :=
  for_range 4 (zlen color_map) (fun i cm =>
    let* a := zget cm i in let* b := zget cm (i - 4) in zset cm i (wadd8 a b)) color_map.

(* the decoder state besides the bit reader *)
Record dec := { d_transforms : list (option transform); d_order : list Z; d_width : Z; d_height : Z }.

(* LosslessDecoder::read_transforms; at most four transforms can be read, a fifth `1` bit is an error *)
Fixpoint read_transforms_loop (fuel : nat) (br : BitReader.t) (d : dec) (xsize : Z) : res (Z * BitReader.t * dec) :=
  match fuel with
  | O => OutOfFuel
  | S fuel' =>
    let* '(more, br) := BitReader.read_bits br 8 1 in
    if negb (more =? 1) then Ok (xsize, br, d) else
    let* '(transform_type_val, br) := BitReader.read_bits br 8 2 in
    let* slot := of_option (nth_error (d_transforms d) (Z.to_nat transform_type_val)) PIndex in
    match slot with
    | Some _ => Err ETransformError                       (* can only have one of each transform *)
    | None =>
      let order := d_order d ++ [transform_type_val] in
      let* '(tr, xsize', br) :=
        (if transform_type_val =? 0 then
           let* '(sb, br) := BitReader.read_bits br 8 3 in
           let size_bits := sb + 2 in
           let* block_xsize := subsample xsize size_bits in
           let* block_ysize := subsample (d_height d) size_bits in
           let* '(br, data) := decode_image_stream STREAM_LEVELS br block_xsize block_ysize false
                                                   (zmake (block_xsize * block_ysize * 4)) in
           Ok (PredictorTransform size_bits data, xsize, br)
         else if transform_type_val =? 1 then
           let* '(sb, br) := BitReader.read_bits br 8 3 in
           let size_bits := sb + 2 in
           let* block_xsize := subsample xsize size_bits in
           let* block_ysize := subsample (d_height d) size_bits in
           let* '(br, data) := decode_image_stream STREAM_LEVELS br block_xsize block_ysize false
                                                   (zmake (block_xsize * block_ysize * 4)) in
           Ok (ColorTransform size_bits data, xsize, br)
         else if transform_type_val =? 2 then Ok (SubtractGreen, xsize, br)
         else if transform_type_val =? 3 then
           let* '(cts, br) := BitReader.read_bits br 16 8 in
           let color_table_size := cts + 1 in
           let* '(br, color_map) := decode_image_stream STREAM_LEVELS br color_table_size 1 false
                                                        (zmake (color_table_size * 4)) in
           let bits := if color_table_size <=? 2 then 3 else if color_table_size <=? 4 then 2
                       else if color_table_size <=? 16 then 1 else 0 in
           let* xsize' := subsample xsize bits in
           let* color_map := adjust_color_map color_map in
           Ok (ColorIndexingTransform color_table_size color_map, xsize', br)
         else Panic PUnreachable) in
      let d' := {| d_transforms := opt_set (d_transforms d) (Z.to_nat transform_type_val) tr; d_order := order;
                   d_width := d_width d; d_height := d_height d |} in
      read_transforms_loop fuel' br d' xsize'
    end
  end.

Definition read_transforms (br : BitReader.t) (d : dec) : res (Z * BitReader.t * dec) :=
  read_transforms_loop 6 br d (d_width d).

(* the inverse transforms, last read first *)
Fixpoint apply_transforms (order : list Z) (d : dec) (buf : arr) (image_size width : Z) : res arr :=
  match order with
  | [] => Ok buf
  | trans_index :: tl =>
    let* slot := of_option (nth_error (d_transforms d) (Z.to_nat trans_index)) PIndex in
    let* tr := of_option slot PUnwrap in
    match tr with
    | PredictorTransform size_bits predictor_data =>
      let* v := zview buf image_size in
      let* v' := apply_predictor_transform v width (d_height d) size_bits predictor_data in
      apply_transforms tl d (zunview buf v') image_size width
    | ColorTransform size_bits transform_data =>
      let* v := zview buf image_size in
      let* v' := apply_color_transform v width size_bits transform_data in
      apply_transforms tl d (zunview buf v') image_size width
    | SubtractGreen =>
      let* v := zview buf image_size in
      let* v' := apply_subtract_green_transform v in
      apply_transforms tl d (zunview buf v') image_size width
    | ColorIndexingTransform table_size table_data =>
      let width := d_width d in
      let image_size := width * d_height d * 4 in
      let* buf' := apply_color_indexing_transform buf width (d_height d) table_size table_data in
      apply_transforms tl d buf' image_size width
    end
  end.

(* LosslessDecoder::decode_frame on an array *)
Definition decode_frame_arr (data sched : list Z) (width height : Z) (implicit : bool) (buf : arr) : res arr :=
  let br := BitReader.init data sched in
  let* '(w, h, br) :=
    (if implicit then Ok (width mod 2 ^ 16, height mod 2 ^ 16, br)
     else
       let* '(signature, br) := BitReader.read_bits br 8 8 in
       if negb (signature =? 47) then Err ELosslessSignatureInvalid else
       let* '(w1, br) := BitReader.read_bits br 16 14 in
       let* '(h1, br) := BitReader.read_bits br 16 14 in
       let w := w1 + 1 in let h := h1 + 1 in
       if negb (w =? width) || negb (h =? height) then Err EInconsistentImageSizes else
       let* '(_alpha_used, br) := BitReader.read_bits br 8 1 in
       let* '(version_num, br) := BitReader.read_bits br 8 3 in
       if negb (version_num =? 0) then Err EVersionNumberInvalid else
       Ok (w, h, br)) in
  let d := {| d_transforms := [None; None; None; None]; d_order := []; d_width := w; d_height := h |} in
  let* '(transformed_width, br, d) := read_transforms br d in
  let transformed_size := transformed_width * h * 4 in
  let* v := zview buf transformed_size in
  let* '(_, v') := decode_image_stream STREAM_LEVELS br transformed_width h true v in
  apply_transforms (rev (d_order d)) d (zunview buf v') transformed_size transformed_width.

(* entry point: payload bytes, reader schedule, expected dimensions, ALPH-style implicit dimensions,
   initial contents of the caller's buffer; returns the final contents of the buffer *)
Definition decode_frame (data sched : list Z) (width height : Z) (implicit : bool) (buf : list Z) : res (list Z) :=
  let* out := decode_frame_arr data sched width height implicit (of_list buf) in
  Ok (zto_list out).
