(* Helpers of the hand Model of the lossless decoder (lossless.rs, huffman.rs, lossless_transform.rs):
   - checked `usize` arithmetic (a negative intermediate = "attempt to subtract with overflow"),
   - `Z`-indexed access to the flat byte arrays of Lib/Arr.v with Rust's panic kinds,
   - `vec A`: a `Vec<A>` with O(log n) get / set / push (PositiveMap, like Lib/Arr.v but polymorphic),
   - loop combinators (tail recursive, structural on a `nat` trip count).
   No proofs here. *)
From Coq Require Import ZArith NArith List Bool FMapPositive.
From WebP Require Import Lib.Res Lib.Arr.
Import ListNotations.
Open Scope Z_scope.
Open Scope res_scope.

(* ---------- checked usize arithmetic ---------- *)
Definition usub (a b : Z) : res Z := if a <? b then Panic POverflow else Ok (a - b).
(* wrapping u8 addition *)
Definition wadd8 (a b : Z) : Z := (a + b) mod 256.

(* ---------- byte arrays ---------- *)
Definition zlen (a : arr) : Z := Z.of_N (alen a).
Definition zmake (n : Z) : arr := amake (Z.to_N n).
(* a[i] : a negative index can only come from a usize subtraction that overflowed *)
Definition zget (a : arr) (i : Z) : res Z :=
  if i <? 0 then Panic POverflow else of_option (aget a (Z.to_N i)) PIndex.
Definition zset (a : arr) (i v : Z) : res arr :=
  if i <? 0 then Panic POverflow else of_option (aset a (Z.to_N i) v) PIndex.
(* a[start..][..len] as a list *)
Definition zslice (a : arr) (start len : Z) : res (list Z) :=
  if (start <? 0) || (len <? 0) then Panic POverflow else of_option (aslice a (Z.to_N start) (Z.to_N len)) PSlice.
(* a[start..][..l.len()].copy_from_slice(l) *)
Definition zwrite (a : arr) (start : Z) (l : list Z) : res arr :=
  if start <? 0 then Panic POverflow else of_option (awrite a (Z.to_N start) l) PSlice.
(* a.copy_within(src..src+len, dst) *)
Definition zcopy_within (a : arr) (src len dst : Z) : res arr :=
  if (src <? 0) || (len <? 0) || (dst <? 0) then Panic POverflow
  else of_option (acopy_within a (Z.to_N src) (Z.to_N len) (Z.to_N dst)) PSlice.
(* contents as a list; linear (Lib/Arr.to_list converts every index from unary nat: quadratic) *)
Fixpoint zto_list_aux (a : arr) (n : nat) (i : N) (acc : list Z) : list Z :=
  match n with O => acc | S k => zto_list_aux a k (N.pred i) (araw a (N.pred i) :: acc) end.
Definition zto_list (a : arr) : list Z := zto_list_aux a (N.to_nat (alen a)) (alen a) [].

(* `&mut a[..n]` as a view sharing the storage, and the way back *)
Definition zview (a : arr) (n : Z) : res arr :=
  if n <? 0 then Panic POverflow else
  if (Z.to_N n <=? alen a)%N then Ok {| alen := Z.to_N n; adata := adata a |} else Panic PSlice.
Definition zunview (orig : arr) (v : arr) : arr := {| alen := alen orig; adata := adata v |}.

Definition px4 := (Z * Z * Z * Z)%type.
Definition get4 (a : arr) (i : Z) : res px4 :=
  let* b0 := zget a i in let* b1 := zget a (i + 1) in let* b2 := zget a (i + 2) in let* b3 := zget a (i + 3) in
  Ok (b0, b1, b2, b3).
Definition set4 (a : arr) (i : Z) (p : px4) : res arr :=
  let '(b0, b1, b2, b3) := p in
  let* a := zset a i b0 in let* a := zset a (i + 1) b1 in let* a := zset a (i + 2) b2 in zset a (i + 3) b3.
(* a[i..][..4] : slice checks instead of index checks *)
Definition slice4 (a : arr) (i : Z) : res px4 :=
  let* l := zslice a i 4 in
  match l with [b0; b1; b2; b3] => Ok (b0, b1, b2, b3) | _ => Panic PSlice end.
Definition write4 (a : arr) (i : Z) (p : px4) : res arr :=
  let '(b0, b1, b2, b3) := p in zwrite a i [b0; b1; b2; b3].

(* ---------- Vec<A> ---------- *)
Record vec (A : Type) := { vlen : N; vdef : A; vdata : PM.t A }.
Arguments vlen {A} v. Arguments vdef {A} v. Arguments vdata {A} v.
(* vec![d; n] *)
Definition vmake {A} (n : N) (d : A) : vec A := {| vlen := n; vdef := d; vdata := PM.empty A |}.
Definition vraw {A} (v : vec A) (i : N) : A := match PM.find (akey i) (vdata v) with Some x => x | None => vdef v end.
Definition vget {A} (v : vec A) (i : Z) : res A :=
  if i <? 0 then Panic POverflow else if (Z.to_N i <? vlen v)%N then Ok (vraw v (Z.to_N i)) else Panic PIndex.
Definition vset {A} (v : vec A) (i : Z) (x : A) : res (vec A) :=
  if i <? 0 then Panic POverflow else
  if (Z.to_N i <? vlen v)%N then Ok {| vlen := vlen v; vdef := vdef v; vdata := PM.add (akey (Z.to_N i)) x (vdata v) |}
  else Panic PIndex.
Definition vpush {A} (v : vec A) (x : A) : vec A :=
  {| vlen := N.succ (vlen v); vdef := vdef v; vdata := PM.add (akey (vlen v)) x (vdata v) |}.
Definition vzlen {A} (v : vec A) : Z := Z.of_N (vlen v).
Fixpoint vto_list_aux {A} (v : vec A) (n : nat) (i : N) (acc : list A) : list A :=
  match n with O => acc | S k => vto_list_aux v k (N.pred i) (vraw v (N.pred i) :: acc) end.
Definition vto_list {A} (v : vec A) : list A := vto_list_aux v (N.to_nat (vlen v)) (vlen v) [].

(* ---------- small lists (code length vectors of 19 entries, tables) ---------- *)
Fixpoint list_set (l : list Z) (i : nat) (v : Z) : option (list Z) :=
  match l, i with
  | [], _ => None
  | _ :: tl, O => Some (v :: tl)
  | x :: tl, S i' => match list_set tl i' v with Some tl' => Some (x :: tl') | None => None end
  end.
Definition zlist_set (l : list Z) (i v : Z) : res (list Z) :=
  if i <? 0 then Panic POverflow else of_option (list_set l (Z.to_nat i) v) PIndex.
Definition zlist_get (l : list Z) (i : Z) : res Z :=
  if i <? 0 then Panic POverflow else of_option (nth_error l (Z.to_nat i)) PIndex.

(* ---------- loops ---------- *)
(* for k in 0..n { s = f (start + k*step) s } *)
Fixpoint for_loop {St : Type} (n : nat) (i step : Z) (f : Z -> St -> res St) (s : St) : res St :=
  match n with
  | O => Ok s
  | S n' => match f i s with Ok s' => for_loop n' (i + step) step f s' | r => r end
  end.
(* for i in lo..hi *)
Definition for_range {St : Type} (lo hi : Z) (f : Z -> St -> res St) (s : St) : res St :=
  for_loop (Z.to_nat (hi - lo)) lo 1 f s.
(* for i in (lo..hi).rev() *)
Definition for_range_rev {St : Type} (lo hi : Z) (f : Z -> St -> res St) (s : St) : res St :=
  for_loop (Z.to_nat (hi - lo)) (hi - 1) (-1) f s.
(* number of items of (lo..hi).step_by(step) *)
Definition step_count (lo hi step : Z) : Z := if hi <=? lo then 0 else (hi - lo + step - 1) / step.
