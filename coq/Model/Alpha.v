(* Hand model of extended.rs::get_alpha_predictor and of the alpha application loop that decoder.rs runs after
   fill_rgba (identical in read_image and in read_frame):
       for y in 0..h { for x in 0..w { let p = get_alpha_predictor(x, y, w, method, buf);
                                        buf[(y*w+x)*4+3] = p.wrapping_add(data[y*w+x]); } }
   Buffers are lists; an out-of-range index is an explicit Panic.  No proofs here. *)
From Coq Require Import ZArith List Bool.
From WebP Require Import Lib.Res Spec.Alpha.
Import ListNotations.
Open Scope Z_scope.
Open Scope bool_scope.

Definition rd (buf : list Z) (i : nat) : res Z :=
  match nth_error buf i with Some v => Ok v | None => Panic PIndex end.

Fixpoint set_nth (l : list Z) (i : nat) (v : Z) : option (list Z) :=
  match l, i with
  | [], _ => None
  | _ :: tl, O => Some (v :: tl)
  | a :: tl, S k => match set_nth tl k v with Some tl' => Some (a :: tl') | None => None end
  end.

Definition get_alpha_predictor (x y width : nat) (f : filter) (buf : list Z) : res Z :=
  let at_ (idx : nat) := rd buf (idx * 4 + 3)%nat in
  match f with
  | FNone => Ok 0
  | FHorizontal =>
      if Nat.eqb x 0 && Nat.eqb y 0 then Ok 0
      else if Nat.eqb x 0 then at_ ((y - 1) * width + x)%nat
      else at_ (y * width + x - 1)%nat
  | FVertical =>
      if Nat.eqb x 0 && Nat.eqb y 0 then Ok 0
      else if Nat.eqb y 0 then at_ (y * width + x - 1)%nat
      else at_ ((y - 1) * width + x)%nat
  | FGradient =>
      match x, y with
      | O, O => Ok 0
      | O, _ => bind (at_ ((y - 1) * width + x)%nat) (fun v => Ok (clip255 (v + v - v)))
      | _, O => bind (at_ (y * width + x - 1)%nat) (fun v => Ok (clip255 (v + v - v)))
      | _, _ =>
          bind (at_ (y * width + x - 1)%nat) (fun left =>
          bind (at_ ((y - 1) * width + x)%nat) (fun top =>
          bind (at_ ((y - 1) * width + x - 1)%nat) (fun tl =>
          Ok (clip255 (left + top - tl)))))
      end
  end.

(* the double loop, flattened over the scan index i = y*w + x (x = i mod w, y = i / w) *)
Fixpoint apply_alpha_from (f : filter) (w : nat) (data : list Z) (i : nat) (buf : list Z) : res (list Z) :=
  match data with
  | [] => Ok buf
  | d :: ds =>
      bind (get_alpha_predictor (i mod w) (i / w) w f buf) (fun p =>
      match set_nth buf (i * 4 + 3) ((p + d) mod 256) with
      | Some buf' => apply_alpha_from f w ds (S i) buf'
      | None => Panic PIndex
      end)
  end.

Definition apply_alpha (f : filter) (w : nat) (data buf : list Z) : res (list Z) := apply_alpha_from f w data 0 buf.
