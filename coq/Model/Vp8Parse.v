(* Gallina mirror of the *parsing* functions of src/vp8.rs (Vp8Decoder): read_coefficients, read_residual_data,
   read_macroblock_header, read_segment_updates, read_quantization_indices, read_loop_filter_adjustments,
   update_token_probabilities, init_partitions, read_frame_header, on top of Model.ArithDec's boolean decoder.
   One definition per Rust function, same order of reads, same integer widths; every slice index, assert!, checked
   arithmetic operation of a debug build and the `panic!("unknown token")` arm is an explicit `Panic`; every `?` is the
   `Err` of the result monad.  Loops over constant ranges are structural recursions (the iteration count is the nat
   argument); no loop here is data dependent except through `break`, so there is no fuel.
   State: the record `Vp8` has the fields of `Vp8Decoder` the parsing functions read or write; `v_r` is the reader
   (the bytes not yet consumed).  Not modelled: `macroblocks`, the frame buffers and the prediction borders
   (read_frame_header only allocates them; the prediction side is Model.Vp8Predict).
   Enums are their `repr(i8)` discriminants: LumaMode DC=0 V=1 H=2 TM=3 B=4, ChromaMode DC..TM = 0..3,
   IntraMode DC=0 TM=1 VE=2 HE=3 LD=4 RD=5 VR=6 VL=7 HD=8 HU=9 (the B_*_PRED constants of Gen.Tables).
   The per-segment block of read_quantization_indices and the inverse transforms called by read_residual_data are the
   definitions of Gen.Kernels, regenerated from the source on every run (segment_quantizers, iwht4x4, idct4x4).
   `BitResult::or_accumulate` is the identity and the accumulator carries nothing (as in Model.ArithDec); `check` is
   ArithDec.check.  No proofs in this file (the oracle is extracted from it). *)
From Coq Require Import ZArith List Bool.
From WebP Require Import Lib.Res Gen.Kernels Gen.Tables Model.ArithDec.
Import ListNotations.
Open Scope Z_scope.
Open Scope res_scope.

(* ------------------------------------------------------------------------------------------------------------ *)
(* machine arithmetic and indexing                                                                              *)
(* ------------------------------------------------------------------------------------------------------------ *)
Definition idx {A} (l : list A) (i : Z) : res A :=
  if i <? 0 then Panic PIndex else of_option (nth_error l (Z.to_nat i)) PIndex.
Fixpoint set_nth {A} (l : list A) (n : nat) (x : A) : option (list A) :=
  match l, n with
  | [], _ => None
  | _ :: tl, O => Some (x :: tl)
  | y :: tl, S k => match set_nth tl k x with Some r => Some (y :: r) | None => None end
  end.
Definition set_idx {A} (l : list A) (i : Z) (x : A) : res (list A) :=
  if i <? 0 then Panic PIndex else of_option (set_nth l (Z.to_nat i) x) PIndex.

Definition i16_add (a b : Z) : res Z := if (-32768 <=? a + b) && (a + b <=? 32767) then Ok (a + b) else Panic POverflow.
Definition i32_mul (a b : Z) : res Z := if (i32_min <=? a * b) && (a * b <=? i32_max) then Ok (a * b) else Panic POverflow.
Definition u8_add_c (a b : Z) : res Z := if a + b <=? 255 then Ok (a + b) else Panic POverflow.

(* Read::read_exact on the reader: n bytes or an I/O error (UnexpectedEof) *)
Definition read_exact (r : list Z) (n : Z) : res (list Z * list Z) :=
  if n <=? Z.of_nat (length r) then Ok (firstn (Z.to_nat n) r, skipn (Z.to_nat n) r) else Err EIo.

(* ------------------------------------------------------------------------------------------------------------ *)
(* state                                                                                                        *)
(* ------------------------------------------------------------------------------------------------------------ *)
Record Segment := mkSeg { sg_ydc : Z; sg_yac : Z; sg_y2dc : Z; sg_y2ac : Z; sg_uvdc : Z; sg_uvac : Z;
                          sg_delta_values : bool; sg_quantizer_level : Z; sg_loopfilter_level : Z }.
Definition Segment_default : Segment := mkSeg 0 0 0 0 0 0 false 0 0.

Record MacroBlock := mkMB { mb_bpred : list Z;        (* [IntraMode; 16] *)
                            mb_complexity : list Z;   (* [u8; 9] *)
                            mb_luma_mode : Z; mb_chroma_mode : Z; mb_segmentid : Z;
                            mb_coeffs_skipped : bool; mb_non_zero_coeffs : bool }.
Definition MacroBlock_default : MacroBlock := mkMB (repeat 0 16) (repeat 0 9) 0 0 0 false false.

Record FrameInfo := mkFI { fi_width : Z; fi_height : Z; fi_keyframe : bool; fi_version : Z; fi_for_display : bool;
                           fi_pixel_type : Z; fi_filter_type : bool; fi_filter_level : Z; fi_sharpness_level : Z }.
Definition FrameInfo_default : FrameInfo := mkFI 0 0 false 0 false 0 false 0 0.

Record Vp8 := mkVp8 {
  v_r : list Z;
  v_b : Dec;
  v_mbwidth : Z; v_mbheight : Z;
  v_frame : FrameInfo;
  v_segments_enabled : bool; v_segments_update_map : bool;
  v_segment : list Segment;                                   (* [Segment; 4] *)
  v_ref_delta : list Z; v_mode_delta : list Z;                (* [i32; 4] *)
  v_partitions : list Dec;                                    (* [ArithmeticDecoder; 8] *)
  v_num_partitions : Z;
  v_segment_tree_nodes : list TreeNode;                       (* [TreeNode; 3] *)
  v_token_probs : list (list (list (list TreeNode)));         (* [[[[TreeNode; 11]; 3]; 8]; 4] *)
  v_prob_intra : Z;
  v_prob_skip_false : option Z;
  v_top : list MacroBlock;
  v_left : MacroBlock }.

Definition set_r (v : Vp8) (x : list Z) : Vp8 :=
  mkVp8 x (v_b v) (v_mbwidth v) (v_mbheight v) (v_frame v) (v_segments_enabled v) (v_segments_update_map v) (v_segment v)
        (v_ref_delta v) (v_mode_delta v) (v_partitions v) (v_num_partitions v) (v_segment_tree_nodes v) (v_token_probs v)
        (v_prob_intra v) (v_prob_skip_false v) (v_top v) (v_left v).
Definition set_b (v : Vp8) (x : Dec) : Vp8 :=
  mkVp8 (v_r v) x (v_mbwidth v) (v_mbheight v) (v_frame v) (v_segments_enabled v) (v_segments_update_map v) (v_segment v)
        (v_ref_delta v) (v_mode_delta v) (v_partitions v) (v_num_partitions v) (v_segment_tree_nodes v) (v_token_probs v)
        (v_prob_intra v) (v_prob_skip_false v) (v_top v) (v_left v).
Definition set_mbsize (v : Vp8) (w h : Z) : Vp8 :=
  mkVp8 (v_r v) (v_b v) w h (v_frame v) (v_segments_enabled v) (v_segments_update_map v) (v_segment v)
        (v_ref_delta v) (v_mode_delta v) (v_partitions v) (v_num_partitions v) (v_segment_tree_nodes v) (v_token_probs v)
        (v_prob_intra v) (v_prob_skip_false v) (v_top v) (v_left v).
Definition set_frame (v : Vp8) (x : FrameInfo) : Vp8 :=
  mkVp8 (v_r v) (v_b v) (v_mbwidth v) (v_mbheight v) x (v_segments_enabled v) (v_segments_update_map v) (v_segment v)
        (v_ref_delta v) (v_mode_delta v) (v_partitions v) (v_num_partitions v) (v_segment_tree_nodes v) (v_token_probs v)
        (v_prob_intra v) (v_prob_skip_false v) (v_top v) (v_left v).
Definition set_segments_enabled (v : Vp8) (x : bool) : Vp8 :=
  mkVp8 (v_r v) (v_b v) (v_mbwidth v) (v_mbheight v) (v_frame v) x (v_segments_update_map v) (v_segment v)
        (v_ref_delta v) (v_mode_delta v) (v_partitions v) (v_num_partitions v) (v_segment_tree_nodes v) (v_token_probs v)
        (v_prob_intra v) (v_prob_skip_false v) (v_top v) (v_left v).
Definition set_segments_update_map (v : Vp8) (x : bool) : Vp8 :=
  mkVp8 (v_r v) (v_b v) (v_mbwidth v) (v_mbheight v) (v_frame v) (v_segments_enabled v) x (v_segment v)
        (v_ref_delta v) (v_mode_delta v) (v_partitions v) (v_num_partitions v) (v_segment_tree_nodes v) (v_token_probs v)
        (v_prob_intra v) (v_prob_skip_false v) (v_top v) (v_left v).
Definition set_segment (v : Vp8) (x : list Segment) : Vp8 :=
  mkVp8 (v_r v) (v_b v) (v_mbwidth v) (v_mbheight v) (v_frame v) (v_segments_enabled v) (v_segments_update_map v) x
        (v_ref_delta v) (v_mode_delta v) (v_partitions v) (v_num_partitions v) (v_segment_tree_nodes v) (v_token_probs v)
        (v_prob_intra v) (v_prob_skip_false v) (v_top v) (v_left v).
Definition set_ref_delta (v : Vp8) (x : list Z) : Vp8 :=
  mkVp8 (v_r v) (v_b v) (v_mbwidth v) (v_mbheight v) (v_frame v) (v_segments_enabled v) (v_segments_update_map v) (v_segment v)
        x (v_mode_delta v) (v_partitions v) (v_num_partitions v) (v_segment_tree_nodes v) (v_token_probs v)
        (v_prob_intra v) (v_prob_skip_false v) (v_top v) (v_left v).
Definition set_mode_delta (v : Vp8) (x : list Z) : Vp8 :=
  mkVp8 (v_r v) (v_b v) (v_mbwidth v) (v_mbheight v) (v_frame v) (v_segments_enabled v) (v_segments_update_map v) (v_segment v)
        (v_ref_delta v) x (v_partitions v) (v_num_partitions v) (v_segment_tree_nodes v) (v_token_probs v)
        (v_prob_intra v) (v_prob_skip_false v) (v_top v) (v_left v).
Definition set_partitions (v : Vp8) (x : list Dec) : Vp8 :=
  mkVp8 (v_r v) (v_b v) (v_mbwidth v) (v_mbheight v) (v_frame v) (v_segments_enabled v) (v_segments_update_map v) (v_segment v)
        (v_ref_delta v) (v_mode_delta v) x (v_num_partitions v) (v_segment_tree_nodes v) (v_token_probs v)
        (v_prob_intra v) (v_prob_skip_false v) (v_top v) (v_left v).
Definition set_num_partitions (v : Vp8) (x : Z) : Vp8 :=
  mkVp8 (v_r v) (v_b v) (v_mbwidth v) (v_mbheight v) (v_frame v) (v_segments_enabled v) (v_segments_update_map v) (v_segment v)
        (v_ref_delta v) (v_mode_delta v) (v_partitions v) x (v_segment_tree_nodes v) (v_token_probs v)
        (v_prob_intra v) (v_prob_skip_false v) (v_top v) (v_left v).
Definition set_segment_tree_nodes (v : Vp8) (x : list TreeNode) : Vp8 :=
  mkVp8 (v_r v) (v_b v) (v_mbwidth v) (v_mbheight v) (v_frame v) (v_segments_enabled v) (v_segments_update_map v) (v_segment v)
        (v_ref_delta v) (v_mode_delta v) (v_partitions v) (v_num_partitions v) x (v_token_probs v)
        (v_prob_intra v) (v_prob_skip_false v) (v_top v) (v_left v).
Definition set_token_probs (v : Vp8) (x : list (list (list (list TreeNode)))) : Vp8 :=
  mkVp8 (v_r v) (v_b v) (v_mbwidth v) (v_mbheight v) (v_frame v) (v_segments_enabled v) (v_segments_update_map v) (v_segment v)
        (v_ref_delta v) (v_mode_delta v) (v_partitions v) (v_num_partitions v) (v_segment_tree_nodes v) x
        (v_prob_intra v) (v_prob_skip_false v) (v_top v) (v_left v).
Definition set_prob_intra (v : Vp8) (x : Z) : Vp8 :=
  mkVp8 (v_r v) (v_b v) (v_mbwidth v) (v_mbheight v) (v_frame v) (v_segments_enabled v) (v_segments_update_map v) (v_segment v)
        (v_ref_delta v) (v_mode_delta v) (v_partitions v) (v_num_partitions v) (v_segment_tree_nodes v) (v_token_probs v)
        x (v_prob_skip_false v) (v_top v) (v_left v).
Definition set_prob_skip_false (v : Vp8) (x : option Z) : Vp8 :=
  mkVp8 (v_r v) (v_b v) (v_mbwidth v) (v_mbheight v) (v_frame v) (v_segments_enabled v) (v_segments_update_map v) (v_segment v)
        (v_ref_delta v) (v_mode_delta v) (v_partitions v) (v_num_partitions v) (v_segment_tree_nodes v) (v_token_probs v)
        (v_prob_intra v) x (v_top v) (v_left v).
Definition set_top (v : Vp8) (x : list MacroBlock) : Vp8 :=
  mkVp8 (v_r v) (v_b v) (v_mbwidth v) (v_mbheight v) (v_frame v) (v_segments_enabled v) (v_segments_update_map v) (v_segment v)
        (v_ref_delta v) (v_mode_delta v) (v_partitions v) (v_num_partitions v) (v_segment_tree_nodes v) (v_token_probs v)
        (v_prob_intra v) (v_prob_skip_false v) x (v_left v).
Definition set_left (v : Vp8) (x : MacroBlock) : Vp8 :=
  mkVp8 (v_r v) (v_b v) (v_mbwidth v) (v_mbheight v) (v_frame v) (v_segments_enabled v) (v_segments_update_map v) (v_segment v)
        (v_ref_delta v) (v_mode_delta v) (v_partitions v) (v_num_partitions v) (v_segment_tree_nodes v) (v_token_probs v)
        (v_prob_intra v) (v_prob_skip_false v) (v_top v) x.

Definition mb_set_bpred (m : MacroBlock) (x : list Z) : MacroBlock :=
  mkMB x (mb_complexity m) (mb_luma_mode m) (mb_chroma_mode m) (mb_segmentid m) (mb_coeffs_skipped m) (mb_non_zero_coeffs m).
Definition mb_set_complexity (m : MacroBlock) (x : list Z) : MacroBlock :=
  mkMB (mb_bpred m) x (mb_luma_mode m) (mb_chroma_mode m) (mb_segmentid m) (mb_coeffs_skipped m) (mb_non_zero_coeffs m).
Definition mb_set_luma_mode (m : MacroBlock) (x : Z) : MacroBlock :=
  mkMB (mb_bpred m) (mb_complexity m) x (mb_chroma_mode m) (mb_segmentid m) (mb_coeffs_skipped m) (mb_non_zero_coeffs m).
Definition mb_set_chroma_mode (m : MacroBlock) (x : Z) : MacroBlock :=
  mkMB (mb_bpred m) (mb_complexity m) (mb_luma_mode m) x (mb_segmentid m) (mb_coeffs_skipped m) (mb_non_zero_coeffs m).
Definition mb_set_segmentid (m : MacroBlock) (x : Z) : MacroBlock :=
  mkMB (mb_bpred m) (mb_complexity m) (mb_luma_mode m) (mb_chroma_mode m) x (mb_coeffs_skipped m) (mb_non_zero_coeffs m).
Definition mb_set_coeffs_skipped (m : MacroBlock) (x : bool) : MacroBlock :=
  mkMB (mb_bpred m) (mb_complexity m) (mb_luma_mode m) (mb_chroma_mode m) (mb_segmentid m) x (mb_non_zero_coeffs m).

(* ------------------------------------------------------------------------------------------------------------ *)
(* constants built by `tree_nodes_from` at compile time                                                         *)
(* ------------------------------------------------------------------------------------------------------------ *)
Definition SEGMENT_TREE_NODE_DEFAULTS : res (list TreeNode) := tree_nodes_from vp8_SEGMENT_ID_TREE [255; 255; 255].
Definition KEYFRAME_YMODE_NODES : res (list TreeNode) := tree_nodes_from vp8_KEYFRAME_YMODE_TREE vp8_KEYFRAME_YMODE_PROBS.
Definition KEYFRAME_UV_MODE_NODES : res (list TreeNode) := tree_nodes_from vp8_KEYFRAME_UV_MODE_TREE vp8_KEYFRAME_UV_MODE_PROBS.
(* KEYFRAME_BPRED_MODE_NODES[top][left] *)
Definition KEYFRAME_BPRED_MODE_NODES (top left : Z) : res (list TreeNode) :=
  let* row := idx vp8_KEYFRAME_BPRED_MODE_PROBS top in
  let* probs := idx row left in
  tree_nodes_from vp8_KEYFRAME_BPRED_MODE_TREE probs.
(* COEFF_PROB_NODES: every row of a [4][8][3][11] probability table through tree_nodes_from(DCT_TOKEN_TREE, .) *)
Fixpoint map_res {A B} (f : A -> res B) (l : list A) : res (list B) :=
  match l with
  | [] => Ok []
  | x :: tl => let* y := f x in let* r := map_res f tl in Ok (y :: r)
  end.
Definition token_nodes_of (probs : list (list (list (list Z)))) : res (list (list (list (list TreeNode)))) :=
  map_res (map_res (map_res (tree_nodes_from vp8_DCT_TOKEN_TREE))) probs.
Definition COEFF_PROB_NODES : res (list (list (list (list TreeNode)))) := token_nodes_of vp8_COEFF_PROBS.

(* LumaMode::from_i8, ChromaMode::from_i8, IntraMode::from_i8 (Some = the discriminant), LumaMode::into_intra *)
Definition LumaMode_from_i8 (x : Z) : option Z := if (0 <=? x) && (x <=? 4) then Some x else None.
Definition ChromaMode_from_i8 (x : Z) : option Z := if (0 <=? x) && (x <=? 3) then Some x else None.
Definition IntraMode_from_i8 (x : Z) : option Z := if (0 <=? x) && (x <=? 9) then Some x else None.
Definition LumaMode_into_intra (m : Z) : option Z :=
  if m =? vp8_DC_PRED then Some vp8_B_DC_PRED
  else if m =? vp8_V_PRED then Some vp8_B_VE_PRED
  else if m =? vp8_H_PRED then Some vp8_B_HE_PRED
  else if m =? vp8_TM_PRED then Some vp8_B_TM_PRED
  else None.

(* ------------------------------------------------------------------------------------------------------------ *)
(* read_coefficients                                                                                            *)
(* ------------------------------------------------------------------------------------------------------------ *)
(* for t in probs.iter().copied() { if t == 0 { break } let b = read_bool(t); extra = extra + extra + i16::from(b) } *)
Fixpoint read_extra_loop (probs : list Z) (extra : Z) (d : Dec) : res (Z * Dec) :=
  match probs with
  | [] => Ok (extra, d)
  | t :: tl =>
    if t =? 0 then Ok (extra, d) else
    let* '(b, d1) := read_bool d t in
    let* e2 := i16_add extra extra in
    let* e3 := i16_add e2 (b2z b) in
    read_extra_loop tl e3 d1
  end.

(* the `for i in first..16` loop; n = number of iterations left, i = 16 - n.  Result: has_coefficients, block, decoder *)
Fixpoint coeff_loop (n : nat) (probs : list (list (list TreeNode))) (dcq acq : Z)
                    (d : Dec) (i complexity : Z) (skip has_coefficients : bool) (block : list Z)
  : res (bool * list Z * Dec) :=
  match n with
  | O => Ok (has_coefficients, block, d)
  | S k =>
    let* band := idx vp8_COEFF_BANDS i in
    let* by_ctx := idx probs band in
    let* tree := idx by_ctx complexity in
    let* first_node := idx tree (b2z skip) in
    let* '(token, d1) := read_with_tree_with_first_node d tree first_node in
    if token =? vp8_DCT_EOB then Ok (has_coefficients, block, d1)
    else if token =? vp8_DCT_0 then coeff_loop k probs dcq acq d1 (i + 1) 0 true true block
    else
      let* '(abs_value, d2) :=
        if (vp8_DCT_1 <=? token) && (token <=? vp8_DCT_4) then Ok (token, d1)
        else if (vp8_DCT_CAT1 <=? token) && (token <=? vp8_DCT_CAT6) then
          let cat := token - vp8_DCT_CAT1 in
          let* cprobs := idx vp8_PROB_DCT_CAT cat in
          let* '(extra, d2) := read_extra_loop cprobs 0 d1 in
          let* base := idx vp8_DCT_CAT_BASE cat in
          let* v := i16_add base extra in
          Ok (v, d2)
        else Panic PUnreachable (* panic!("unknown token: {c}") *) in
      let complexity1 := if abs_value =? 0 then 0 else if abs_value =? 1 then 1 else 2 in
      let* '(sign, d3) := read_flag d2 in
      let* signed_value := (if sign then i32_neg abs_value else Ok abs_value) in
      let* zigzag := idx vp8_ZIGZAG i in
      let* prod := i32_mul signed_value (if 0 <? zigzag then acq else dcq) in
      let* block1 := set_idx block zigzag prod in
      coeff_loop k probs dcq acq d3 (i + 1) complexity1 false true block1
  end.

(* returns (has_coefficients, block, state); on Err / Panic the state is lost, as it is for the Rust caller *)
Definition read_coefficients (v : Vp8) (block : list Z) (p plane complexity dcq acq : Z) : res (bool * list Z * Vp8) :=
  if negb (complexity <=? 2) then Panic PAssert else
  let first := if plane =? 0 then 1 else 0 in
  let* probs := idx (v_token_probs v) plane in
  let* decoder := idx (v_partitions v) p in
  let* '(has, block1, d1) := coeff_loop (Z.to_nat (16 - first)) probs dcq acq decoder first complexity false false block in
  let* parts := set_idx (v_partitions v) p d1 in
  let* r := check d1 has in
  Ok (r, block1, set_partitions v parts).

(* ------------------------------------------------------------------------------------------------------------ *)
(* read_residual_data                                                                                           *)
(* ------------------------------------------------------------------------------------------------------------ *)
Definition app16 {A} (f : Z -> Z -> Z -> Z -> Z -> Z -> Z -> Z -> Z -> Z -> Z -> Z -> Z -> Z -> Z -> Z -> A) (dflt : A) (b : list Z) : A :=
  match b with
  | [b0; b1; b2; b3; b4; b5; b6; b7; b8; b9; b10; b11; b12; b13; b14; b15] => f b0 b1 b2 b3 b4 b5 b6 b7 b8 b9 b10 b11 b12 b13 b14 b15
  | _ => dflt
  end.
(* transform::iwht4x4 / idct4x4 on a [i32; 16]: the translated kernels, a failed overflow check is a panic *)
Definition iwht_block (b : list Z) : res (list Z) :=
  if negb (Z.of_nat (length b) =? 16) then Panic PIndex
  else if app16 iwht4x4_ok false b then Ok (app16 iwht4x4 [] b) else Panic POverflow.
Definition idct_block (b : list Z) : res (list Z) :=
  if negb (Z.of_nat (length b) =? 16) then Panic PIndex
  else if app16 idct4x4_ok false b then Ok (app16 idct4x4 [] b) else Panic POverflow.

(* blocks[i*16..][..16] and writing it back *)
Definition get16 (blocks : list Z) (i : Z) : res (list Z) :=
  if negb ((0 <=? i) && (16 * i + 16 <=? Z.of_nat (length blocks))) then Panic PSlice
  else Ok (firstn 16 (skipn (Z.to_nat (16 * i)) blocks)).
Definition put16 (blocks : list Z) (i : Z) (b : list Z) : list Z :=
  firstn (Z.to_nat (16 * i)) blocks ++ b ++ skipn (Z.to_nat (16 * i + 16)) blocks.

(* for k in 0..16 { blocks[16 * k] = block[k] } *)
Fixpoint scatter_dc (n : nat) (k : Z) (blocks block : list Z) : res (list Z) :=
  match n with
  | O => Ok blocks
  | S m => let* x := idx block k in let* b1 := set_idx blocks (16 * k) x in scatter_dc m (k + 1) b1 block
  end.

Definition top_complexity (v : Vp8) (mbx i : Z) : res Z := let* t := idx (v_top v) mbx in idx (mb_complexity t) i.
Definition set_top_complexity (v : Vp8) (mbx i x : Z) : res Vp8 :=
  let* t := idx (v_top v) mbx in
  let* c := set_idx (mb_complexity t) i x in
  let* tops := set_idx (v_top v) mbx (mb_set_complexity t c) in
  Ok (set_top v tops).
Definition left_complexity (v : Vp8) (i : Z) : res Z := idx (mb_complexity (v_left v)) i.
Definition set_left_complexity (v : Vp8) (i x : Z) : res Vp8 :=
  let* c := set_idx (mb_complexity (v_left v)) i x in Ok (set_left v (mb_set_complexity (v_left v) c)).

(* one block of the luma / chroma loops: `x` in 0..nx, context index x + j in top, block index base + x + y * nx *)
Definition residual_block (v : Vp8) (blocks : list Z) (non_zero : bool) (left : Z) (mbx p plane : Z) (i ti dcq acq : Z)
  : res (Vp8 * list Z * bool * Z) :=
  let* block := get16 blocks i in
  let* tc := top_complexity v mbx ti in
  let* complexity := u8_add_c tc left in
  let* '(n, block1, v1) := read_coefficients v block p plane complexity dcq acq in
  let* b0 := idx block1 0 in
  let* '(non_zero1, block2) :=
    if negb (b0 =? 0) || n then let* t := idct_block block1 in Ok (true, t) else Ok (non_zero, block1) in
  let* v2 := set_top_complexity v1 mbx ti (b2z n) in
  Ok (v2, put16 blocks i block2, non_zero1, b2z n).

(* for x in 0..nx *)
Fixpoint residual_row (nx : nat) (x : Z) (v : Vp8) (blocks : list Z) (non_zero : bool) (left : Z)
                      (mbx p plane : Z) (ibase tbase dcq acq : Z) : res (Vp8 * list Z * bool * Z) :=
  match nx with
  | O => Ok (v, blocks, non_zero, left)
  | S m =>
    let* '(v1, blocks1, nz1, left1) := residual_block v blocks non_zero left mbx p plane (ibase + x) (tbase + x) dcq acq in
    residual_row m (x + 1) v1 blocks1 nz1 left1 mbx p plane ibase tbase dcq acq
  end.

(* for y in 0..ny { let mut left = self.left.complexity[y + j]; for x in 0..nx {..}; self.left.complexity[y + j] = left }
   size = nx = ny (4 for luma, 2 for chroma), j = context offset (1, 5, 7), ioff = block offset (0, 16, 20) *)
Fixpoint residual_rows (ny : nat) (y : Z) (size : Z) (v : Vp8) (blocks : list Z) (non_zero : bool)
                       (mbx p plane : Z) (ioff j dcq acq : Z) : res (Vp8 * list Z * bool) :=
  match ny with
  | O => Ok (v, blocks, non_zero)
  | S m =>
    let* left := left_complexity v (y + j) in
    let* '(v1, blocks1, nz1, left1) :=
      residual_row (Z.to_nat size) 0 v blocks non_zero left mbx p plane (ioff + y * size) j dcq acq in
    let* v2 := set_left_complexity v1 (y + j) left1 in
    residual_rows m (y + 1) size v2 blocks1 nz1 mbx p plane ioff j dcq acq
  end.

Definition read_residual_data (v : Vp8) (mb : MacroBlock) (mbx p : Z) : res (list Z * bool * Vp8) :=
  let sindex := mb_segmentid mb in
  let blocks := repeat 0 384 in
  let plane := if mb_luma_mode mb =? vp8_B_PRED then 3 else 1 in
  let* '(v, blocks, plane) :=
    if plane =? 1 then
      let* tc := top_complexity v mbx 0 in
      let* lc := left_complexity v 0 in
      let* complexity := u8_add_c tc lc in
      let block := repeat 0 16 in
      let* seg := idx (v_segment v) sindex in
      let* '(n, block1, v1) := read_coefficients v block p plane complexity (sg_y2dc seg) (sg_y2ac seg) in
      let* v2 := set_left_complexity v1 0 (b2z n) in
      let* v3 := set_top_complexity v2 mbx 0 (b2z n) in
      let* block2 := iwht_block block1 in
      let* blocks1 := scatter_dc 16 0 blocks block2 in
      Ok (v3, blocks1, 0)
    else Ok (v, blocks, plane) in
  (* the Rust text indexes self.segment[sindex] inside the loops; the index is the same in every iteration *)
  let* seg := idx (v_segment v) sindex in
  let* '(v, blocks, non_zero) := residual_rows 4 0 4 v blocks false mbx p plane 0 1 (sg_ydc seg) (sg_yac seg) in
  let plane := 2 in
  let* '(v, blocks, non_zero) := residual_rows 2 0 2 v blocks non_zero mbx p plane 16 5 (sg_uvdc seg) (sg_uvac seg) in
  let* '(v, blocks, non_zero) := residual_rows 2 0 2 v blocks non_zero mbx p plane 20 7 (sg_uvdc seg) (sg_uvac seg) in
  Ok (blocks, non_zero, v).

(* ------------------------------------------------------------------------------------------------------------ *)
(* read_macroblock_header                                                                                       *)
(* ------------------------------------------------------------------------------------------------------------ *)
Definition top_bpred (v : Vp8) (mbx i : Z) : res Z := let* t := idx (v_top v) mbx in idx (mb_bpred t) i.
Definition set_top_bpred (v : Vp8) (mbx i x : Z) : res Vp8 :=
  let* t := idx (v_top v) mbx in
  let* c := set_idx (mb_bpred t) i x in
  let* tops := set_idx (v_top v) mbx (mb_set_bpred t c) in
  Ok (set_top v tops).
Definition set_left_bpred (v : Vp8) (i x : Z) : res Vp8 :=
  let* c := set_idx (mb_bpred (v_left v)) i x in Ok (set_left v (mb_set_bpred (v_left v) c)).

(* for x in 0..4 (inner loop of the B_PRED case) *)
Fixpoint bpred_row (nx : nat) (x y : Z) (v : Vp8) (mb : MacroBlock) (mbx : Z) : res (Vp8 * MacroBlock) :=
  match nx with
  | O => Ok (v, mb)
  | S m =>
    let* top := top_bpred v mbx (12 + x) in
    let* left := idx (mb_bpred (v_left v)) y in
    let* nodes := KEYFRAME_BPRED_MODE_NODES top left in
    let* '(intra, b1) := read_with_tree (v_b v) nodes in
    let v1 := set_b v b1 in
    let* bmode := match IntraMode_from_i8 intra with Some m => Ok m | None => Err EIntraPredictionModeInvalid end in
    let* bp := set_idx (mb_bpred mb) (x + y * 4) bmode in
    let mb1 := mb_set_bpred mb bp in
    let* v2 := set_top_bpred v1 mbx (12 + x) bmode in
    let* v3 := set_left_bpred v2 y bmode in
    bpred_row m (x + 1) y v3 mb1 mbx
  end.
Fixpoint bpred_rows (ny : nat) (y : Z) (v : Vp8) (mb : MacroBlock) (mbx : Z) : res (Vp8 * MacroBlock) :=
  match ny with
  | O => Ok (v, mb)
  | S m => let* '(v1, mb1) := bpred_row 4 0 y v mb mbx in bpred_rows m (y + 1) v1 mb1 mbx
  end.
(* for i in 0..4 { mb.bpred[12 + i] = mode; self.left.bpred[i] = mode } *)
Fixpoint fill_modes (n : nat) (i : Z) (v : Vp8) (mb : MacroBlock) (mode : Z) : res (Vp8 * MacroBlock) :=
  match n with
  | O => Ok (v, mb)
  | S m =>
    let* bp := set_idx (mb_bpred mb) (12 + i) mode in
    let* v1 := set_left_bpred v i mode in
    fill_modes m (i + 1) v1 (mb_set_bpred mb bp) mode
  end.

Definition read_macroblock_header (v : Vp8) (mbx : Z) : res (MacroBlock * Vp8) :=
  let mb := MacroBlock_default in
  let* '(mb, v) :=
    if v_segments_enabled v && v_segments_update_map v then
      let* '(id, b1) := read_with_tree (v_b v) (v_segment_tree_nodes v) in
      Ok (mb_set_segmentid mb (wrapU 8 id), set_b v b1)
    else Ok (mb, v) in
  let* '(skipped, v) :=
    match v_prob_skip_false v with
    | Some prob => let* '(b, b1) := read_bool (v_b v) prob in Ok (b, set_b v b1)
    | None => Ok (false, v)
    end in
  let mb := mb_set_coeffs_skipped mb skipped in
  let* '(inter_predicted, v) :=
    if negb (fi_keyframe (v_frame v)) then let* '(b, b1) := read_bool (v_b v) (v_prob_intra v) in Ok (b, set_b v b1)
    else Ok (false, v) in
  if inter_predicted then Err EUnsupportedFeature else
  let* '(mb, v) :=
    if fi_keyframe (v_frame v) then
      let* ynodes := KEYFRAME_YMODE_NODES in
      let* '(luma, b1) := read_with_tree (v_b v) ynodes in
      let v := set_b v b1 in
      let* lm := match LumaMode_from_i8 luma with Some m => Ok m | None => Err ELumaPredictionModeInvalid end in
      let mb := mb_set_luma_mode mb lm in
      let* '(v, mb) :=
        match LumaMode_into_intra lm with
        | None => bpred_rows 4 0 v mb mbx
        | Some mode => fill_modes 4 0 v mb mode
        end in
      let* uvnodes := KEYFRAME_UV_MODE_NODES in
      let* '(chroma, b2) := read_with_tree (v_b v) uvnodes in
      let v := set_b v b2 in
      let* cm := match ChromaMode_from_i8 chroma with Some m => Ok m | None => Err EChromaPredictionModeInvalid end in
      Ok (mb_set_chroma_mode mb cm, v)
    else Ok (mb, v) in
  (* self.top[mbx].chroma_mode = ..; .luma_mode = ..; .bpred = mb.bpred *)
  let* t := idx (v_top v) mbx in
  let t1 := mb_set_bpred (mb_set_luma_mode (mb_set_chroma_mode t (mb_chroma_mode mb)) (mb_luma_mode mb)) (mb_bpred mb) in
  let* tops := set_idx (v_top v) mbx t1 in
  let v := set_top v tops in
  let* r := check (v_b v) mb in
  Ok (r, v).

(* ------------------------------------------------------------------------------------------------------------ *)
(* header pieces                                                                                                *)
(* ------------------------------------------------------------------------------------------------------------ *)
(* for i in 0..4 { arr[i] = read_optional_signed_value(n) } *)
Fixpoint read_signed_array (k : nat) (i : Z) (arr : list Z) (d : Dec) (n : Z) : res (list Z * Dec) :=
  match k with
  | O => Ok (arr, d)
  | S m =>
    let* '(x, d1) := read_optional_signed_value d n in
    let* arr1 := set_idx arr i x in
    read_signed_array m (i + 1) arr1 d1 n
  end.

Definition read_loop_filter_adjustments (v : Vp8) : res Vp8 :=
  let* '(flag, d) := read_flag (v_b v) in
  let* '(v, d) :=
    if flag then
      let* '(rd, d1) := read_signed_array 4 0 (v_ref_delta v) d 6 in
      let* '(md, d2) := read_signed_array 4 0 (v_mode_delta v) d1 6 in
      Ok (set_mode_delta (set_ref_delta v rd) md, d2)
    else Ok (v, d) in
  let v := set_b v d in
  let* _ := check d tt in
  Ok v.

Definition seg_set_delta_values (s : Segment) (x : bool) : Segment :=
  mkSeg (sg_ydc s) (sg_yac s) (sg_y2dc s) (sg_y2ac s) (sg_uvdc s) (sg_uvac s) x (sg_quantizer_level s) (sg_loopfilter_level s).
Definition seg_set_quantizer_level (s : Segment) (x : Z) : Segment :=
  mkSeg (sg_ydc s) (sg_yac s) (sg_y2dc s) (sg_y2ac s) (sg_uvdc s) (sg_uvac s) (sg_delta_values s) x (sg_loopfilter_level s).
Definition seg_set_loopfilter_level (s : Segment) (x : Z) : Segment :=
  mkSeg (sg_ydc s) (sg_yac s) (sg_y2dc s) (sg_y2ac s) (sg_uvdc s) (sg_uvac s) (sg_delta_values s) (sg_quantizer_level s) x.

(* for i in 0..MAX_SEGMENTS { self.segment[i].<field> = read_optional_signed_value(n) as i8 } *)
Fixpoint read_segment_levels (k : nat) (i : Z) (segs : list Segment) (d : Dec) (n : Z) (setf : Segment -> Z -> Segment)
  : res (list Segment * Dec) :=
  match k with
  | O => Ok (segs, d)
  | S m =>
    let* '(x, d1) := read_optional_signed_value d n in
    let* s := idx segs i in
    let* segs1 := set_idx segs i (setf s (wrapS 8 x)) in
    read_segment_levels m (i + 1) segs1 d1 n setf
  end.
Fixpoint set_all_delta_values (k : nat) (i : Z) (segs : list Segment) (x : bool) : res (list Segment) :=
  match k with
  | O => Ok segs
  | S m => let* s := idx segs i in let* segs1 := set_idx segs i (seg_set_delta_values s x) in set_all_delta_values m (i + 1) segs1 x
  end.
Definition node_set_prob (n : TreeNode) (p : Z) : TreeNode := mkNode (left n) (right n) p (index n).
(* for i in 0..3 { update = flag; prob = if update { literal(8) } else { 255 }; segment_tree_nodes[i].prob = prob } *)
Fixpoint read_segment_tree_probs (k : nat) (i : Z) (nodes : list TreeNode) (d : Dec) : res (list TreeNode * Dec) :=
  match k with
  | O => Ok (nodes, d)
  | S m =>
    let* '(update, d1) := read_flag d in
    let* '(prob, d2) := (if update then read_literal d1 8 else Ok (255, d1)) in
    let* nd := idx nodes i in
    let* nodes1 := set_idx nodes i (node_set_prob nd prob) in
    read_segment_tree_probs m (i + 1) nodes1 d2
  end.

Definition read_segment_updates (v : Vp8) : res Vp8 :=
  let* '(update_map, d) := read_flag (v_b v) in
  let v := set_segments_update_map v update_map in
  let* '(update_segment_feature_data, d) := read_flag d in
  let* '(v, d) :=
    if update_segment_feature_data then
      let* '(segment_feature_mode, d) := read_flag d in
      let* segs := set_all_delta_values 4 0 (v_segment v) (negb segment_feature_mode) in
      let* '(segs, d) := read_segment_levels 4 0 segs d 7 seg_set_quantizer_level in
      let* '(segs, d) := read_segment_levels 4 0 segs d 6 seg_set_loopfilter_level in
      Ok (set_segment v segs, d)
    else Ok (v, d) in
  let* '(v, d) :=
    if v_segments_update_map v then
      let* '(nodes, d) := read_segment_tree_probs 3 0 (v_segment_tree_nodes v) d in
      Ok (set_segment_tree_nodes v nodes, d)
    else Ok (v, d) in
  let v := set_b v d in
  let* _ := check d tt in
  Ok v.

(* the body of `for i in 0usize..n` of read_quantization_indices: Gen.Kernels.segment_quantizers *)
Fixpoint quant_segments (k : nat) (i : Z) (segs : list Segment) (enabled : bool)
                        (yac_abs ydc_delta y2dc_delta y2ac_delta uvdc_delta uvac_delta : Z) : res (list Segment) :=
  match k with
  | O => Ok segs
  | S m =>
    let* s := idx segs i in
    if negb (segment_quantizers_ok yac_abs ydc_delta y2dc_delta y2ac_delta uvdc_delta uvac_delta enabled
                                   (sg_delta_values s) (sg_quantizer_level s)) then Panic POverflow else
    let q := segment_quantizers yac_abs ydc_delta y2dc_delta y2ac_delta uvdc_delta uvac_delta enabled
                                (sg_delta_values s) (sg_quantizer_level s) in
    let s1 := mkSeg (nth 0 q 0) (nth 1 q 0) (nth 2 q 0) (nth 3 q 0) (nth 4 q 0) (nth 5 q 0)
                    (sg_delta_values s) (sg_quantizer_level s) (sg_loopfilter_level s) in
    let* segs1 := set_idx segs i s1 in
    quant_segments m (i + 1) segs1 enabled yac_abs ydc_delta y2dc_delta y2ac_delta uvdc_delta uvac_delta
  end.

Definition read_quantization_indices (v : Vp8) : res Vp8 :=
  let* '(yac_abs, d) := read_literal (v_b v) 7 in
  let* '(ydc_delta, d) := read_optional_signed_value d 4 in
  let* '(y2dc_delta, d) := read_optional_signed_value d 4 in
  let* '(y2ac_delta, d) := read_optional_signed_value d 4 in
  let* '(uvdc_delta, d) := read_optional_signed_value d 4 in
  let* '(uvac_delta, d) := read_optional_signed_value d 4 in
  let n := if v_segments_enabled v then 4%nat else 1%nat in
  let* segs := quant_segments n 0 (v_segment v) (v_segments_enabled v) yac_abs ydc_delta y2dc_delta y2ac_delta uvdc_delta uvac_delta in
  let v := set_b (set_segment v segs) d in
  let* _ := check d tt in
  Ok v.

(* update_token_probabilities: the four nested loops over COEFF_UPDATE_PROBS *)
Fixpoint update_probs_row (us : list Z) (nodes : list TreeNode) (d : Dec) : res (list TreeNode * Dec) :=
  match us with
  | [] => Ok (nodes, d)
  | u :: utl =>
    match nodes with
    | [] => Panic PIndex
    | nd :: ntl =>
      let* '(b, d1) := read_bool d u in
      let* '(nd1, d2) := (if b then let* '(x, d2) := read_literal d1 8 in Ok (node_set_prob nd x, d2) else Ok (nd, d1)) in
      let* '(rest, d3) := update_probs_row utl ntl d2 in
      Ok (nd1 :: rest, d3)
    end
  end.
Fixpoint update_probs_3 (us : list (list Z)) (nodes : list (list TreeNode)) (d : Dec) : res (list (list TreeNode) * Dec) :=
  match us with
  | [] => Ok (nodes, d)
  | u :: utl =>
    match nodes with
    | [] => Panic PIndex
    | nd :: ntl =>
      let* '(r, d1) := update_probs_row (firstn 11 u) nd d in
      let* '(rest, d2) := update_probs_3 utl ntl d1 in
      Ok (r :: rest, d2)
    end
  end.
Fixpoint update_probs_2 (us : list (list (list Z))) (nodes : list (list (list TreeNode))) (d : Dec)
  : res (list (list (list TreeNode)) * Dec) :=
  match us with
  | [] => Ok (nodes, d)
  | u :: utl =>
    match nodes with
    | [] => Panic PIndex
    | nd :: ntl =>
      let* '(r, d1) := update_probs_3 u nd d in
      let* '(rest, d2) := update_probs_2 utl ntl d1 in
      Ok (r :: rest, d2)
    end
  end.
Fixpoint update_probs_1 (us : list (list (list (list Z)))) (nodes : list (list (list (list TreeNode)))) (d : Dec)
  : res (list (list (list (list TreeNode))) * Dec) :=
  match us with
  | [] => Ok (nodes, d)
  | u :: utl =>
    match nodes with
    | [] => Panic PIndex
    | nd :: ntl =>
      let* '(r, d1) := update_probs_2 u nd d in
      let* '(rest, d2) := update_probs_1 utl ntl d1 in
      Ok (r :: rest, d2)
    end
  end.
Definition update_token_probabilities (v : Vp8) : res Vp8 :=
  let* '(tp, d) := update_probs_1 vp8_COEFF_UPDATE_PROBS (v_token_probs v) (v_b v) in
  let v := set_b (set_token_probs v tp) d in
  let* _ := check d tt in
  Ok v.

(* init_partitions *)
Definition le24 (s : list Z) : Z := match s with [b0; b1; b2] => b0 + 256 * b1 + 65536 * b2 | _ => 0 end.
(* for (i, s) in sizes.chunks(3).enumerate(): k = chunks left *)
Fixpoint init_sized_partitions (k : nat) (i : Z) (sizes : list Z) (r : list Z) (parts : list Dec) : res (list Z * list Dec) :=
  match k with
  | O => Ok (r, parts)
  | S m =>
    let size := le24 (firstn 3 sizes) in
    let* '(bytes, r1) := read_exact r size in
    let* d := init (chunks_of bytes) size in
    let* parts1 := set_idx parts i d in
    init_sized_partitions m (i + 1) (skipn 3 sizes) r1 parts1
  end.
Definition init_partitions (v : Vp8) (n : Z) : res Vp8 :=
  let* '(r, parts) :=
    if 1 <? n then
      let* '(sizes, r1) := read_exact (v_r v) (3 * n - 3) in
      init_sized_partitions (Z.to_nat (n - 1)) 0 sizes r1 (v_partitions v)
    else Ok (v_r v, v_partitions v) in
  (* read_to_end *)
  let size := Z.of_nat (length r) in
  let* d := init (chunks_of r) size in
  let* idxn := usize_sub n 1 in
  let* parts1 := set_idx parts idxn d in
  Ok (set_partitions (set_r v []) parts1).

(* init_top_macroblocks(width) *)
Definition init_top_macroblocks (width : Z) : list MacroBlock :=
  repeat (mkMB (repeat vp8_B_DC_PRED 16) (repeat 0 9) vp8_DC_PRED 0 0 false false) (Z.to_nat ((width + 15) / 16)).

Definition fi_set_size (f : FrameInfo) (w h : Z) : FrameInfo :=
  mkFI w h (fi_keyframe f) (fi_version f) (fi_for_display f) (fi_pixel_type f) (fi_filter_type f) (fi_filter_level f) (fi_sharpness_level f).
Definition fi_set_pixel_type (f : FrameInfo) (x : Z) : FrameInfo :=
  mkFI (fi_width f) (fi_height f) (fi_keyframe f) (fi_version f) (fi_for_display f) x (fi_filter_type f) (fi_filter_level f) (fi_sharpness_level f).
Definition fi_set_filter (f : FrameInfo) (t : bool) (l s : Z) : FrameInfo :=
  mkFI (fi_width f) (fi_height f) (fi_keyframe f) (fi_version f) (fi_for_display f) (fi_pixel_type f) t l s.

Definition read_frame_header (v : Vp8) : res Vp8 :=
  let* '(t, r) := read_exact (v_r v) 3 in
  let tag := le24 t in
  let keyframe := Z.land tag 1 =? 0 in
  let f := mkFI (fi_width (v_frame v)) (fi_height (v_frame v)) keyframe (Z.land (Z.shiftr tag 1) 7)
                (negb (Z.land (Z.shiftr tag 4) 1 =? 0)) (fi_pixel_type (v_frame v)) (fi_filter_type (v_frame v))
                (fi_filter_level (v_frame v)) (fi_sharpness_level (v_frame v)) in
  let v := set_frame (set_r v r) f in
  let first_partition_size := Z.shiftr tag 5 in
  let* v :=
    if keyframe then
      let* '(magic, r) := read_exact (v_r v) 3 in
      if negb (match magic with [a; b; c] => (a =? 157) && (b =? 1) && (c =? 42) | _ => false end) then Err EVp8MagicInvalid else
      let* '(wb, r) := read_exact r 2 in
      let* '(hb, r) := read_exact r 2 in
      let w := match wb with [a; b] => a + 256 * b | _ => 0 end in
      let h := match hb with [a; b] => a + 256 * b | _ => 0 end in
      let width := Z.land w 16383 in
      let height := Z.land h 16383 in
      let v := set_frame (set_r v r) (fi_set_size (v_frame v) width height) in
      let top := init_top_macroblocks width in
      let v := set_left (set_top v top) (match top with m :: _ => m | [] => MacroBlock_default end) in
      Ok (set_mbsize v ((width + 15) / 16) ((height + 15) / 16))
    else Ok v in
  let size := first_partition_size in
  let* '(bytes, r) := read_exact (v_r v) size in
  let v := set_r v r in
  let* d := init (chunks_of bytes) size in
  let* '(v, d) :=
    if keyframe then
      let* '(color_space, d) := read_literal d 1 in
      let* '(pixel_type, d) := read_literal d 1 in
      let v := set_frame v (fi_set_pixel_type (v_frame v) pixel_type) in
      if negb (color_space =? 0) then Err EColorSpaceInvalid else Ok (v, d)
    else Ok (v, d) in
  let* '(segments_enabled, d) := read_flag d in
  let v := set_b (set_segments_enabled v segments_enabled) d in
  let* v := (if segments_enabled then read_segment_updates v else Ok v) in
  let* '(filter_type, d) := read_flag (v_b v) in
  let* '(filter_level, d) := read_literal d 6 in
  let* '(sharpness_level, d) := read_literal d 3 in
  let v := set_frame v (fi_set_filter (v_frame v) filter_type filter_level sharpness_level) in
  let* '(lf_adjust_enable, d) := read_flag d in
  let v := set_b v d in
  let* v := (if lf_adjust_enable then read_loop_filter_adjustments v else Ok v) in
  let* '(lg, d) := read_literal (v_b v) 2 in
  let num_partitions := 2 ^ lg in
  let v := set_b v d in
  let* _ := check d tt in
  let v := set_num_partitions v (wrapU 8 num_partitions) in
  let* v := init_partitions v num_partitions in
  let* v := read_quantization_indices v in
  if negb keyframe then Err EUnsupportedFeature else
  let* '(_, d) := read_literal (v_b v) 1 in
  let v := set_b v d in
  let* v := update_token_probabilities v in
  let* '(mb_no_skip_coeff, d) := read_literal (v_b v) 1 in
  let* '(psf, d) := (if mb_no_skip_coeff =? 1 then let* '(x, d) := read_literal d 8 in Ok (Some x, d) else Ok (None, d)) in
  let v := set_b (set_prob_skip_false v psf) d in
  let* _ := check d tt in
  Ok v.

(* Vp8Decoder::new: everything the parsing functions look at *)
Definition Vp8_new (r : list Z) : res Vp8 :=
  let* stn := SEGMENT_TREE_NODE_DEFAULTS in
  let* tp := COEFF_PROB_NODES in
  Ok (mkVp8 r ArithDec.new 0 0 FrameInfo_default false false (repeat Segment_default 4) [0; 0; 0; 0] [0; 0; 0; 0]
            (repeat ArithDec.new 8) 1 stn tp 0 None [] MacroBlock_default).

(* ------------------------------------------------------------------------------------------------------------ *)
(* oracle entry points: states are built from, and dumped to, plain lists of numbers (ocaml/o_vp8parse.ml)      *)
(* ------------------------------------------------------------------------------------------------------------ *)
Definition z2b (x : Z) : bool := negb (x =? 0).
Fixpoint be_num (l : list Z) (acc : Z) : Z := match l with [] => acc | b :: tl => be_num tl (acc * 256 + b) end.
Fixpoint be_bytes (n : nat) (x : Z) (acc : list Z) : list Z :=
  match n with O => acc | S k => be_bytes k (x / 256) (x mod 256 :: acc) end.

(* a decoder over `data` in the state init leaves it in; Err of init is kept as the `new` decoder *)
Definition dec_of_data (data : list Z) : Dec :=
  match init (chunks_of data) (Z.of_nat (length data)) with Ok d => d | _ => ArithDec.new end.
(* [chunk_index; range; bit_count; final_bytes_remaining; fb0; fb1; fb2; value as 8 big-endian bytes] *)
Definition dec_with_state (d : Dec) (l : list Z) : Dec :=
  match l with
  | ci :: rg :: bc :: fbr :: f0 :: f1 :: f2 :: vb => mkDec (chunks d) (mkState ci (be_num vb 0) rg bc) [f0; f1; f2] fbr
  | _ => d
  end.
Definition dump_dec (d : Dec) : list Z :=
  [chunk_index (state d); range (state d); bit_count (state d); final_bytes_remaining d] ++ final_bytes d
  ++ be_bytes 8 (value (state d)) [].

Definition mb_of_list (l : list Z) : MacroBlock :=
  let bp := firstn 16 l in let l := skipn 16 l in
  let cx := firstn 9 l in let l := skipn 9 l in
  mkMB bp cx (nth 0 l 0) (nth 1 l 0) (nth 2 l 0) (z2b (nth 3 l 0)) (z2b (nth 4 l 0)).
Definition dump_mb (m : MacroBlock) : list Z :=
  mb_bpred m ++ mb_complexity m ++ [mb_luma_mode m; mb_chroma_mode m; mb_segmentid m; b2z (mb_coeffs_skipped m); b2z (mb_non_zero_coeffs m)].
Fixpoint segs_of_list (n : nat) (l : list Z) : list Segment :=
  match n with
  | O => []
  | S k => mkSeg (nth 0 l 0) (nth 1 l 0) (nth 2 l 0) (nth 3 l 0) (nth 4 l 0) (nth 5 l 0) (z2b (nth 6 l 0)) (nth 7 l 0) (nth 8 l 0)
           :: segs_of_list k (skipn 9 l)
  end.
Definition dump_seg (s : Segment) : list Z :=
  [sg_ydc s; sg_yac s; sg_y2dc s; sg_y2ac s; sg_uvdc s; sg_uvac s; b2z (sg_delta_values s); sg_quantizer_level s; sg_loopfilter_level s].
Definition dump_frame (f : FrameInfo) : list Z :=
  [fi_width f; fi_height f; b2z (fi_keyframe f); fi_version f; b2z (fi_for_display f); fi_pixel_type f;
   b2z (fi_filter_type f); fi_filter_level f; fi_sharpness_level f].

(* a flat [4*8*3*11] list of probabilities -> nested table *)
Fixpoint chunk_list {A} (n : nat) (size : nat) (l : list A) : list (list A) :=
  match n with O => [] | S k => firstn size l :: chunk_list k size (skipn size l) end.
Definition probs_of_flat (l : list Z) : list (list (list (list Z))) :=
  map (fun a => map (fun b => chunk_list 3 11 b) (chunk_list 8 33 a)) (chunk_list 4 264 l).
Definition flat_token_probs (t : list (list (list (list TreeNode)))) : list Z :=
  concat (map (fun a => concat (map (fun b => concat (map (fun c => map prob c) b)) a)) t).

Fixpoint set_nth_dflt {A} (l : list A) (n : nat) (x : A) : list A :=
  match l, n with
  | [], _ => []
  | _ :: tl, O => x :: tl
  | y :: tl, S k => y :: set_nth_dflt tl k x
  end.

(* one (key, values) pair applied to a state; unknown keys are ignored.  Keys:
   1 reader bytes | 2 first-partition data (decoder as after init) | 3 its state | 10+k data of partition k | 20+k its state |
   30 [mbwidth; mbheight] | 31 frame (9 numbers) | 32 [segments_enabled; segments_update_map] | 33 the 4 segments (36 numbers) |
   34 ref_delta | 35 mode_delta | 36 [num_partitions] | 37 segment tree probabilities | 38 token probabilities (1056) |
   39 [prob_intra] | 40 prob_skip_false ([] = None) | 41 [length of top] (default entries) | 42 [i; macroblock i of top] | 43 left *)
Definition apply_kv (v : Vp8) (k : Z) (l : list Z) : Vp8 :=
  if k =? 1 then set_r v l
  else if k =? 2 then set_b v (dec_of_data l)
  else if k =? 3 then set_b v (dec_with_state (v_b v) l)
  else if (10 <=? k) && (k <? 18) then set_partitions v (set_nth_dflt (v_partitions v) (Z.to_nat (k - 10)) (dec_of_data l))
  else if (20 <=? k) && (k <? 28) then
    set_partitions v (set_nth_dflt (v_partitions v) (Z.to_nat (k - 20)) (dec_with_state (nth (Z.to_nat (k - 20)) (v_partitions v) ArithDec.new) l))
  else if k =? 30 then set_mbsize v (nth 0 l 0) (nth 1 l 0)
  else if k =? 31 then set_frame v (mkFI (nth 0 l 0) (nth 1 l 0) (z2b (nth 2 l 0)) (nth 3 l 0) (z2b (nth 4 l 0)) (nth 5 l 0)
                                         (z2b (nth 6 l 0)) (nth 7 l 0) (nth 8 l 0))
  else if k =? 32 then set_segments_update_map (set_segments_enabled v (z2b (nth 0 l 0))) (z2b (nth 1 l 0))
  else if k =? 33 then set_segment v (segs_of_list 4 l)
  else if k =? 34 then set_ref_delta v l
  else if k =? 35 then set_mode_delta v l
  else if k =? 36 then set_num_partitions v (nth 0 l 0)
  else if k =? 37 then
    set_segment_tree_nodes v (match tree_nodes_from vp8_SEGMENT_ID_TREE l with Ok n => n | _ => v_segment_tree_nodes v end)
  else if k =? 38 then set_token_probs v (match token_nodes_of (probs_of_flat l) with Ok t => t | _ => v_token_probs v end)
  else if k =? 39 then set_prob_intra v (nth 0 l 0)
  else if k =? 40 then set_prob_skip_false v (match l with [] => None | p :: _ => Some p end)
  else if k =? 41 then set_top v (repeat MacroBlock_default (Z.to_nat (nth 0 l 0)))
  else if k =? 42 then set_top v (set_nth_dflt (v_top v) (Z.to_nat (nth 0 l 0)) (mb_of_list (skipn 1 l)))
  else if k =? 43 then set_left v (mb_of_list l)
  else v.

Definition vp8p_state (kvs : list (Z * list Z)) : res Vp8 :=
  let* v0 := Vp8_new [] in Ok (fold_left (fun v kv => apply_kv v (fst kv) (snd kv)) kvs v0).

(* results: lists of sections, each a list of numbers *)
Definition vp8p_read_coefficients (kvs : list (Z * list Z)) (block : list Z) (p plane complexity dcq acq : Z)
  : res (list (list Z)) :=
  let* v := vp8p_state kvs in
  let* '(n, block1, v1) := read_coefficients v block p plane complexity dcq acq in
  Ok [[b2z n]; block1; dump_dec (nth (Z.to_nat p) (v_partitions v1) ArithDec.new)].

Definition vp8p_read_residual_data (kvs : list (Z * list Z)) (mb : list Z) (mbx p : Z) : res (list (list Z)) :=
  let* v := vp8p_state kvs in
  let* '(blocks, nz, v1) := read_residual_data v (mb_of_list mb) mbx p in
  Ok [[b2z nz]; blocks; mb_complexity (nth (Z.to_nat mbx) (v_top v1) MacroBlock_default); mb_complexity (v_left v1);
      dump_dec (nth (Z.to_nat p) (v_partitions v1) ArithDec.new)].

Definition vp8p_read_macroblock_header (kvs : list (Z * list Z)) (mbx : Z) : res (list (list Z)) :=
  let* v := vp8p_state kvs in
  let* '(mb, v1) := read_macroblock_header v mbx in
  Ok [dump_mb mb; dump_mb (nth (Z.to_nat mbx) (v_top v1) MacroBlock_default); dump_mb (v_left v1); dump_dec (v_b v1)].

Definition dump_header_state (v : Vp8) : list (list Z) :=
  [ dump_frame (v_frame v); [v_mbwidth v; v_mbheight v; Z.of_nat (length (v_top v))];
    [b2z (v_segments_enabled v); b2z (v_segments_update_map v)]; concat (map dump_seg (v_segment v));
    v_ref_delta v; v_mode_delta v; [v_num_partitions v]; map prob (v_segment_tree_nodes v);
    match v_prob_skip_false v with Some p => [p] | None => [] end; dump_dec (v_b v) ].

Definition vp8p_read_segment_updates (kvs : list (Z * list Z)) : res (list (list Z)) :=
  let* v := vp8p_state kvs in let* v1 := read_segment_updates v in Ok (dump_header_state v1).
Definition vp8p_read_quantization_indices (kvs : list (Z * list Z)) : res (list (list Z)) :=
  let* v := vp8p_state kvs in let* v1 := read_quantization_indices v in Ok (dump_header_state v1).
Definition vp8p_read_loop_filter_adjustments (kvs : list (Z * list Z)) : res (list (list Z)) :=
  let* v := vp8p_state kvs in let* v1 := read_loop_filter_adjustments v in Ok (dump_header_state v1).
Definition vp8p_update_token_probabilities (kvs : list (Z * list Z)) : res (list (list Z)) :=
  let* v := vp8p_state kvs in let* v1 := update_token_probabilities v in Ok [flat_token_probs (v_token_probs v1); dump_dec (v_b v1)].
Definition vp8p_init_partitions (kvs : list (Z * list Z)) (n : Z) : res (list (list Z)) :=
  let* v := vp8p_state kvs in let* v1 := init_partitions v n in
  Ok (map dump_dec (v_partitions v1) ++ [[Z.of_nat (length (v_r v1))]]).
(* read_frame_header on a fresh decoder over `payload`: header state, token probabilities, the 8 partition decoders *)
Definition vp8p_read_frame_header (payload : list Z) : res (list (list Z)) :=
  let* v := Vp8_new payload in let* v1 := read_frame_header v in
  Ok (dump_header_state v1 ++ [flat_token_probs (v_token_probs v1)] ++ map dump_dec (v_partitions v1)
      ++ [match v_top v1 with m :: _ => dump_mb m | [] => [] end; dump_mb (v_left v1)]).

(* result encoding for the oracle plug-in: (0, sections) | (error code, []) | (100, []) panic | (101, []) out of fuel.
   Error codes: 1 IoError, 2 Vp8MagicInvalid, 3 ColorSpaceInvalid, 4 LumaPredictionModeInvalid, 5 IntraPredictionModeInvalid,
   6 ChromaPredictionModeInvalid, 7 BitStreamError, 8 NotEnoughInitData, 9 UnsupportedFeature, 99 any other *)
Definition vp8p_err_code (e : err) : Z :=
  match e with
  | EIo => 1 | EVp8MagicInvalid => 2 | EColorSpaceInvalid => 3 | ELumaPredictionModeInvalid => 4
  | EIntraPredictionModeInvalid => 5 | EChromaPredictionModeInvalid => 6 | EBitStreamError => 7
  | ENotEnoughInitData => 8 | EUnsupportedFeature => 9 | _ => 99
  end.
Definition vp8p_encode (r : res (list (list Z))) : Z * list (list Z) :=
  match r with
  | Ok l => (0, l)
  | Err e => (vp8p_err_code e, [])
  | Panic _ => (100, [])
  | OutOfFuel => (101, [])
  end.
Definition vp8p_run_coef (kvs : list (Z * list Z)) (block : list Z) (p plane complexity dcq acq : Z) :=
  vp8p_encode (vp8p_read_coefficients kvs block p plane complexity dcq acq).
Definition vp8p_run_res (kvs : list (Z * list Z)) (mb : list Z) (mbx p : Z) := vp8p_encode (vp8p_read_residual_data kvs mb mbx p).
Definition vp8p_run_mbh (kvs : list (Z * list Z)) (mbx : Z) := vp8p_encode (vp8p_read_macroblock_header kvs mbx).
Definition vp8p_run_segu (kvs : list (Z * list Z)) := vp8p_encode (vp8p_read_segment_updates kvs).
Definition vp8p_run_quant (kvs : list (Z * list Z)) := vp8p_encode (vp8p_read_quantization_indices kvs).
Definition vp8p_run_lfadj (kvs : list (Z * list Z)) := vp8p_encode (vp8p_read_loop_filter_adjustments kvs).
Definition vp8p_run_tokp (kvs : list (Z * list Z)) := vp8p_encode (vp8p_update_token_probabilities kvs).
Definition vp8p_run_parts (kvs : list (Z * list Z)) (n : Z) := vp8p_encode (vp8p_init_partitions kvs n).
Definition vp8p_run_hdr (payload : list Z) := vp8p_encode (vp8p_read_frame_header payload).
