(* Hand model of the glue loops of WebPDecoder::read_image / read_frame that move pixels between buffers:
   - `for (rgba_val, chunk) in data.chunks_exact(4).zip(buf.chunks_exact_mut(3)) { chunk.copy_from_slice(&rgba_val[..3]) }`
     (lossless still without alpha: decode into a temporary RGBA vector, then drop alpha; same loop shape in read_frame
      when the canvas is rendered to a three-channel buffer).
   zip stops at the shorter side; a trailing partial chunk of either side is ignored.  No proofs here. *)
From Coq Require Import ZArith List.
Import ListNotations.
Open Scope Z_scope.

Fixpoint drop_alpha_into (data buf : list Z) : list Z :=
  match data, buf with
  | r :: g :: b :: _ :: data', _ :: _ :: _ :: buf' => r :: g :: b :: drop_alpha_into data' buf'
  | _, _ => buf
  end.

(* the four-channel pixels with alpha dropped *)
Fixpoint drop_alpha (data : list Z) : list Z :=
  match data with
  | r :: g :: b :: _ :: data' => r :: g :: b :: drop_alpha data'
  | _ => []
  end.
