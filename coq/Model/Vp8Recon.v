(* Model/Vp8Recon.v -- hand model of the RECONSTRUCTION half of Vp8Decoder::decode_frame_ (src/vp8.rs):

     per macroblock   intra_predict_luma, intra_predict_chroma (workspace predictors, add_residue, create_border_luma,
                      predict_4x4 are those of Model/Vp8Predict.v; what is modelled here is everything that touches the
                      frame planes and the border arrays: the inline chroma border, the write-back of the 16x16 / 8x8
                      block into ybuf / ubuf / vbuf with the plane stride, the update of top_border / left_border)
     per frame        the macroblock loop of decode_frame_ (raster order, `left_border` reset after every row,
                      `macroblocks.push(mb)`), then -- after ALL macroblocks have been reconstructed -- the loop-filter
                      pass `if self.frame.filter_level != 0 { for mby { for mbx { self.loop_filter(mbx, mby, &mb) } } }`,
                      then crop_plane on the three planes
     loop_filter      Vp8Decoder::loop_filter (one macroblock: left macroblock edge, inner vertical edges, top macroblock
                      edge, inner horizontal edges; luma, then u and v interleaved position by position) with the three
                      edge functions of loop_filter.rs (simple_segment, subblock_filter, macroblock_filter) as array
                      operations around the kernels Gen.Kernels.lf_* (translated from loop_filter.rs on every run), and
                      Vp8Decoder::calculate_filter_parameters = Gen.Kernels.calculate_filter_parameters.

   Parsing is NOT modelled here: the input is, in raster order, what decode_frame_ has in hand when it calls
   intra_predict_luma: the MacroBlock `mb` (Model.Vp8Parse.MacroBlock: bpred, luma_mode, chroma_mode, segmentid,
   coeffs_skipped, non_zero_coeffs; `complexity` is not used) and the 384 residuals `blocks` (all zero for a skipped
   macroblock), plus the header fields the reconstruction reads ([RHdr]).

   Data.  The three planes are Lib.Arr arrays (a `Vec<u8>` of mbwidth*mbheight*256 resp. *64 samples, zero-filled by
   read_frame_header), macroblock-aligned, row-major, stride mbwidth*16 resp. mbwidth*8.  Workspaces and the two border
   arrays are flat lists as in Model/Vp8Predict.v.
   Panics.  Index / slice range / copy_within range = [Panic PIndex] / [Panic PSlice]; `usize` subtraction below zero
   and `u8` / `i32` overflow (debug build) = [Panic POverflow] -- for the kernels the overflow conditions are the
   translator's `lf_*_ok` / `calculate_filter_parameters_ok` predicates.  Not modelled: overflow of `usize`
   multiplications / additions (impossible below 2^32 samples).  Type invariants assumed of the inputs: every number
   is within its Rust type (u8 / u16 / i8 / i32), `bpred` has 16 entries, `segment`, `ref_delta`, `mode_delta` have 4.
   A macroblock list shorter than mbwidth * mbheight is not a Rust behaviour: [OutOfFuel].
   No proofs in this file. *)
From Coq Require Import ZArith NArith List Bool.
From WebP Require Import Lib.Res Lib.Arr Gen.Kernels Gen.Tables Model.Vp8Predict.
From WebP Require Model.Vp8Parse.
Import ListNotations.
Open Scope Z_scope.
Open Scope res_scope.

Notation MacroBlock := Vp8Parse.MacroBlock.
Notation Segment := Vp8Parse.Segment.

(* ------------------------------------------------------------------------------------------------------------ *)
(* 0. the decoder fields the reconstruction reads                                                               *)
(* ------------------------------------------------------------------------------------------------------------ *)
Record RHdr := mkRHdr {
  rh_mbwidth : Z; rh_mbheight : Z;                 (* self.mbwidth, self.mbheight : u16 *)
  rh_width : Z; rh_height : Z;                     (* self.frame.width, .height : u16 *)
  rh_filter_type : bool;                           (* self.frame.filter_type: true = simple filter *)
  rh_filter_level : Z; rh_sharpness_level : Z;     (* self.frame.filter_level, .sharpness_level : u8 *)
  rh_segments_enabled : bool;
  rh_segment : list Segment;                       (* [Segment; 4]; delta_values and loopfilter_level are used *)
  rh_ref_delta : list Z; rh_mode_delta : list Z    (* [i32; 4] *)
}.

Definition rhdr_of_vp8 (v : Vp8Parse.Vp8) : RHdr :=
  mkRHdr (Vp8Parse.v_mbwidth v) (Vp8Parse.v_mbheight v)
         (Vp8Parse.fi_width (Vp8Parse.v_frame v)) (Vp8Parse.fi_height (Vp8Parse.v_frame v))
         (Vp8Parse.fi_filter_type (Vp8Parse.v_frame v)) (Vp8Parse.fi_filter_level (Vp8Parse.v_frame v))
         (Vp8Parse.fi_sharpness_level (Vp8Parse.v_frame v))
         (Vp8Parse.v_segments_enabled v) (Vp8Parse.v_segment v) (Vp8Parse.v_ref_delta v) (Vp8Parse.v_mode_delta v).

(* ------------------------------------------------------------------------------------------------------------ *)
(* 1. planes: checked access                                                                                    *)
(* ------------------------------------------------------------------------------------------------------------ *)
Definition alenZ (a : arr) : Z := Z.of_N (alen a).
Definition in_buf (a : arr) (i : Z) : bool := (0 <=? i) && (i <? alenZ a).
(* buf[i] *)
Definition ard (a : arr) (i : Z) : res Z := if in_buf a i then Ok (araw a (Z.to_N i)) else Panic PIndex.

(* `for i in i0 .. i0 + n { body(i) }` on any state *)
Fixpoint for_range {St : Type} (n : nat) (i : Z) (body : Z -> St -> res St) (s : St) : res St :=
  match n with
  | O => Ok s
  | S m => let* s' := body i s in for_range m (i + 1) body s'
  end.
(* `for i in (i0..).step_by(step)`, n iterations *)
Fixpoint for_step {St : Type} (n : nat) (i step : Z) (body : Z -> St -> res St) (s : St) : res St :=
  match n with
  | O => Ok s
  | S m => let* s' := body i s in for_step m (i + step) step body s'
  end.
(* number of iterations of `(lo..hi).step_by(4)` *)
Definition step4_count (lo hi : Z) : nat := Z.to_nat ((hi - lo + 3) / 4).

(* `dst[dpos..][..n]` := `src[spos..][..n]` (iter_mut().zip(..), both sides sliced to n), dst a plane, src a workspace *)
Fixpoint awrite_from (a : arr) (i : N) (src : list Z) (k : Z) (n : nat) : arr :=
  match n with
  | O => a
  | S m => awrite_from (aset' a i (get src k)) (N.succ i) src (k + 1) m
  end.
Definition copy_block_arr (dst : arr) (dpos : Z) (src : list Z) (spos n : Z) : res arr :=
  if (alenZ dst <? dpos) || (alenZ dst - dpos <? n) then Panic PSlice else
  if (len src <? spos) || (len src - spos <? n) then Panic PSlice else
  Ok (awrite_from dst (Z.to_N dpos) src spos (Z.to_nat n)).

(* ------------------------------------------------------------------------------------------------------------ *)
(* 2. Vp8Decoder::intra_predict_luma                                                                            *)
(* ------------------------------------------------------------------------------------------------------------ *)
(* state touched: (self.frame.ybuf, self.top_border, self.left_border) *)
Definition intra_predict_luma (mbw mbx mby : Z) (mb : MacroBlock) (resdata : list Z)
                              (ybuf : arr) (top_border left_border : list Z) : res (arr * list Z * list Z) :=
  let stride := luma_stride in
  let w := mbw * 16 in
  let luma_mode := Vp8Parse.mb_luma_mode mb in
  let* ws := create_border_luma mbx mby mbw top_border left_border in
  (* match mb.luma_mode { V | H | TM | DC => predict_xx(&mut ws, 16, ..), B => predict_4x4(&mut ws, stride, &mb.bpred, resdata) } *)
  let* ws :=
    if luma_mode =? vp8_B_PRED then predict_4x4 ws stride (Vp8Parse.mb_bpred mb) resdata
    else predict_big luma_mode ws 16 stride mbx mby in
  (* if mb.luma_mode != LumaMode::B { 16 x add_residue } *)
  let* ws := if luma_mode =? vp8_B_PRED then Ok ws else residue_blocks 16 0 4 0 ws stride resdata in
  (* self.left_border[0] = ws[16] *)
  let* v := rd ws 16 in
  let* left_border := wr left_border 0 v in
  (* for (i, left) in self.left_border[1..][..16].iter_mut().enumerate() { *left = ws[(i + 1) * stride + 16] } *)
  let* left_border :=
    if (len left_border <? 1) || (len left_border - 1 <? 16) then Panic PSlice
    else copyf 16 left_border 1 0 (fun i => get ws ((i + 1) * stride + 16)) in
  (* self.top_border[mbx * 16..][..16] <- ws[16 * stride + 1..][..16] *)
  let* top_border := copy_block top_border (mbx * 16) ws (16 * stride + 1) 16 in
  (* for y in 0..16 { self.frame.ybuf[(mby * 16 + y) * w + mbx * 16..][..16] <- ws[(1 + y) * stride + 1..][..16] } *)
  let* ybuf := for_range 16 0 (fun y b => copy_block_arr b ((mby * 16 + y) * w + mbx * 16) ws ((1 + y) * stride + 1) 16) ybuf in
  Ok (ybuf, top_border, left_border).

(* ------------------------------------------------------------------------------------------------------------ *)
(* 3. Vp8Decoder::intra_predict_chroma                                                                          *)
(* ------------------------------------------------------------------------------------------------------------ *)
(* the inline border code (left column, top row, top-left sample of a 9x9 workspace) for one plane [buf] of width
   mbwidth * 8: Model.Vp8Predict.create_border_chroma with the plane as an array *)
Definition create_border_chroma (mbx mby mbw : Z) (buf : arr) : res (list Z) :=
  let stride := chroma_stride in
  let w := mbw * 8 in
  let ws := chroma_ws0 in
  (* left border *)
  let* ws := for_ 8 0 (fun y s =>
               let* v := if mbx =? 0 then Ok 129
                         else let* mx := usub mbx 1 in ard buf ((mby * 8 + y) * w + (mx * 8 + 7)) in
               wr s ((y + 1) * stride) v) ws in
  (* top border *)
  let* ws := for_ 8 0 (fun x s =>
               let* v := if mby =? 0 then Ok 127
                         else let* my := usub mby 1 in ard buf ((my * 8 + 7) * w + (mbx * 8 + x)) in
               wr s (x + 1) v) ws in
  (* top left point *)
  let* v := if mby =? 0 then Ok 127 else if mbx =? 0 then Ok 129
            else let* my := usub mby 1 in let* mx := usub mbx 1 in ard buf ((my * 8 + 7) * w + mx * 8 + 7) in
  wr ws 0 v.

(* one plane (the Rust function treats U and V alike, position by position; resdata offsets 16*16 and 20*16) *)
Definition intra_predict_chroma_plane (mbw mbx mby chroma_mode base : Z) (resdata : list Z) (buf : arr) : res arr :=
  let stride := chroma_stride in
  let w := mbw * 8 in
  let* ws := create_border_chroma mbx mby mbw buf in
  let* ws := predict_big chroma_mode ws 8 stride mbx mby in
  let* ws := residue_blocks 4 0 2 base ws stride resdata in
  (* for y in 0..8 { ubuf[(mby * 8 + y) * w + mbx * 8..][..8] <- uws[(1 + y) * stride + 1..][..8] } *)
  for_range 8 0 (fun y b => copy_block_arr b ((mby * 8 + y) * w + mbx * 8) ws ((1 + y) * stride + 1) 8) buf.

Definition intra_predict_chroma (mbw mbx mby : Z) (mb : MacroBlock) (resdata : list Z) (ubuf vbuf : arr)
  : res (arr * arr) :=
  let* u := intra_predict_chroma_plane mbw mbx mby (Vp8Parse.mb_chroma_mode mb) (16 * 16) resdata ubuf in
  let* v := intra_predict_chroma_plane mbw mbx mby (Vp8Parse.mb_chroma_mode mb) (20 * 16) resdata vbuf in
  Ok (u, v).

(* ------------------------------------------------------------------------------------------------------------ *)
(* 4. the macroblock loop of decode_frame_ (reconstruction side)                                                *)
(* ------------------------------------------------------------------------------------------------------------ *)
Record RState := mkRS {
  rs_ybuf : arr; rs_ubuf : arr; rs_vbuf : arr;           (* self.frame.{ybuf, ubuf, vbuf} *)
  rs_top_border : list Z; rs_left_border : list Z;       (* self.top_border, self.left_border *)
  rs_macroblocks : list MacroBlock                       (* self.macroblocks *)
}.

(* what read_frame_header allocates (key frame) *)
Definition init_state (h : RHdr) : RState :=
  let n := rh_mbwidth h * rh_mbheight h in
  mkRS (amake (Z.to_N (n * 16 * 16))) (amake (Z.to_N (n * 8 * 8))) (amake (Z.to_N (n * 8 * 8)))
       (repeat 127 (Z.to_nat (rh_width h + 4 + 16))) (repeat 129 17) [].

(* self.intra_predict_luma(mbx, mby, &mb, &blocks); self.intra_predict_chroma(mbx, mby, &mb, &blocks);
   self.macroblocks.push(mb); *)
Definition recon_mb (h : RHdr) (mbx mby : Z) (mb : MacroBlock) (blocks : list Z) (s : RState) : res RState :=
  let* '(y, t, l) := intra_predict_luma (rh_mbwidth h) mbx mby mb blocks (rs_ybuf s) (rs_top_border s) (rs_left_border s) in
  let* '(u, v) := intra_predict_chroma (rh_mbwidth h) mbx mby mb blocks (rs_ubuf s) (rs_vbuf s) in
  Ok (mkRS y u v t l (rs_macroblocks s ++ [mb])).

(* for mbx in 0..self.mbwidth { .. } ; the parse results are consumed from [inp] *)
Fixpoint recon_row (h : RHdr) (n : nat) (mbx mby : Z) (inp : list (MacroBlock * list Z)) (s : RState)
  : res (list (MacroBlock * list Z) * RState) :=
  match n with
  | O => Ok (inp, s)
  | S k =>
    match inp with
    | [] => OutOfFuel
    | (mb, blocks) :: tl => let* s' := recon_mb h mbx mby mb blocks s in recon_row h k (mbx + 1) mby tl s'
    end
  end.

(* for mby in 0..self.mbheight { row; self.left_border = vec![129u8; 1 + 16]; } *)
Fixpoint recon_rows (h : RHdr) (n : nat) (mby : Z) (inp : list (MacroBlock * list Z)) (s : RState) : res RState :=
  match n with
  | O => Ok s
  | S k =>
    let* '(inp', s') := recon_row h (Z.to_nat (rh_mbwidth h)) 0 mby inp s in
    recon_rows h k (mby + 1) inp'
      (mkRS (rs_ybuf s') (rs_ubuf s') (rs_vbuf s') (rs_top_border s') (repeat 129 17) (rs_macroblocks s'))
  end.

Definition reconstruct (h : RHdr) (inp : list (MacroBlock * list Z)) : res RState :=
  recon_rows h (Z.to_nat (rh_mbheight h)) 0 inp (init_state h).

(* ------------------------------------------------------------------------------------------------------------ *)
(* 5. loop_filter.rs: the three edge functions on a plane                                                       *)
(* ------------------------------------------------------------------------------------------------------------ *)
(* pixels[point + k * stride], k = -4 .. 3, handed to a kernel of Gen.Kernels (which takes the 8 samples as scalars
   and returns the 8 samples afterwards); unchecked reads: the range checks come first *)
Definition px (a : arr) (i : Z) : Z := araw a (Z.to_N i).
Definition pw (a : arr) (i v : Z) : arr := aset' a (Z.to_N i) v.
Definition with_taps {A} (a : arr) (point stride : Z) (f : Z -> Z -> Z -> Z -> Z -> Z -> Z -> Z -> A) : A :=
  f (px a (point - 4 * stride)) (px a (point - 3 * stride)) (px a (point - 2 * stride)) (px a (point - stride))
    (px a point) (px a (point + stride)) (px a (point + 2 * stride)) (px a (point + 3 * stride)).
(* all 8 samples written back (those the Rust code does not assign are written back unchanged) *)
Definition write8 (a : arr) (point stride : Z) (l : list Z) : arr :=
  match l with
  | [t0; t1; t2; t3; t4; t5; t6; t7] =>
    pw (pw (pw (pw (pw (pw (pw (pw a (point - 4 * stride) t0) (point - 3 * stride) t1) (point - 2 * stride) t2)
       (point - stride) t3) point t4) (point + stride) t5) (point + 2 * stride) t6) (point + 3 * stride) t7
  | _ => a
  end.
(* only the four samples simple_segment can touch: point - 2*stride .. point + stride *)
Definition write4 (a : arr) (point stride : Z) (l : list Z) : arr :=
  match l with
  | [_; _; t2; t3; t4; t5; _; _] =>
    pw (pw (pw (pw a (point - 2 * stride) t2) (point - stride) t3) point t4) (point + stride) t5
  | _ => a
  end.

(* simple_segment(edge_limit, pixels, point, stride): reads pixels[point - 2*stride .. point + stride] *)
Definition simple_segment (edge_limit : Z) (a : arr) (point stride : Z) : res arr :=
  if point <? 2 * stride then Panic POverflow else
  if negb (in_buf a (point + stride)) then Panic PIndex else
  if negb (with_taps a point stride (lf_simple_segment_ok edge_limit)) then Panic POverflow else
  Ok (write4 a point stride (with_taps a point stride (lf_simple_segment edge_limit))).

(* macroblock_filter: the first loop reads all eight samples pixels[point + i * stride - 4 * stride] *)
Definition macroblock_filter (hev_threshold interior_limit edge_limit : Z) (a : arr) (point stride : Z) : res arr :=
  if point <? 4 * stride then Panic POverflow else
  if negb (in_buf a (point + 3 * stride)) then Panic PIndex else
  if negb (with_taps a point stride (lf_macroblock_filter_ok hev_threshold interior_limit edge_limit)) then Panic POverflow else
  Ok (write8 a point stride (with_taps a point stride (lf_macroblock_filter hev_threshold interior_limit edge_limit))).

(* subblock_filter: should_filter is a chain of `&&`: simple_threshold (4 inner samples), then the three p-side
   differences (pixels[point - 4*stride] ..), then the three q-side differences (pixels[point + 3*stride] ..); a
   sample is only read when everything before it held *)
Definition p_side_ok (interior_limit p3 p2 p1 p0 q0 q1 q2 q3 : Z) : bool :=
  (lf_diff p3 p2 <=? interior_limit) && (lf_diff p2 p1 <=? interior_limit) && (lf_diff p1 p0 <=? interior_limit).

Definition subblock_filter (hev_threshold interior_limit edge_limit : Z) (a : arr) (point stride : Z) : res arr :=
  if point <? 2 * stride then Panic POverflow else
  if negb (in_buf a (point + stride)) then Panic PIndex else
  if negb (with_taps a point stride (lf_simple_threshold_ok edge_limit)) then Panic POverflow else
  if negb (with_taps a point stride (lf_simple_threshold edge_limit)) then Ok a else
  if point <? 4 * stride then Panic POverflow else
  if negb (with_taps a point stride (p_side_ok interior_limit)) then Ok a else
  if negb (in_buf a (point + 3 * stride)) then Panic PIndex else
  if negb (with_taps a point stride (lf_subblock_filter_ok hev_threshold interior_limit edge_limit)) then Panic POverflow else
  Ok (write8 a point stride (with_taps a point stride (lf_subblock_filter hev_threshold interior_limit edge_limit))).

(* ------------------------------------------------------------------------------------------------------------ *)
(* 6. Vp8Decoder::calculate_filter_parameters and Vp8Decoder::loop_filter                                       *)
(* ------------------------------------------------------------------------------------------------------------ *)
(* (filter_level, interior_limit, hev_threshold); decode_frame_ only gets this far on a key frame *)
Definition cfp_apply {A : Type} (h : RHdr) (seg : Segment) (mb : MacroBlock)
                     (f : Z -> bool -> bool -> Z -> Z -> Z -> Z -> Z -> bool -> A) : A :=
  f (rh_filter_level h) (rh_segments_enabled h) (Vp8Parse.sg_delta_values seg) (Vp8Parse.sg_loopfilter_level seg)
    (nth 0 (rh_ref_delta h) 0) (nth 0 (rh_mode_delta h) 0) (Vp8Parse.mb_luma_mode mb) (rh_sharpness_level h) true.

Definition filter_parameters (h : RHdr) (mb : MacroBlock) : res (Z * Z * Z) :=
  (* let segment = self.segment[macroblock.segmentid as usize]; *)
  match nth_error (rh_segment h) (Z.to_nat (Vp8Parse.mb_segmentid mb)) with
  | None => Panic PIndex
  | Some seg =>
    if negb (cfp_apply h seg mb calculate_filter_parameters_ok) then Panic POverflow else
    let out := cfp_apply h seg mb calculate_filter_parameters in
    Ok (nth 0 out 0, nth 1 out 0, nth 2 out 0)
  end.

Definition planes3 : Type := arr * arr * arr.      (* ybuf, ubuf, vbuf *)

(* both chroma planes at the same position, u first *)
Definition both (f : arr -> Z -> Z -> res arr) (point stride : Z) (uv : arr * arr) : res (arr * arr) :=
  let '(u, v) := uv in
  let* u' := f u point stride in
  let* v' := f v point stride in
  Ok (u', v').

(* the four stages of loop_filter; [edge_limit] is mbedge_limit for the macroblock edges (lf_left, lf_top) and
   sub_bedge_limit for the inner edges (lf_inner_v, lf_inner_h) *)
(* filter across left of macroblock *)
Definition lf_left (h : RHdr) (mbx mby : Z) (mb : MacroBlock) (interior_limit hev_threshold edge_limit : Z)
  (luma_ylength luma_xlength chroma_ylength chroma_xlength : Z) (b : planes3) : res planes3 :=
  let luma_w := rh_mbwidth h * 16 in
  let chroma_w := rh_mbwidth h * 8 in
  let simple := rh_filter_type h in
  let '(y, u, v) := b in
  if mbx >? 0 then
    if simple then
      if luma_xlength >=? 2 then
        let* y := for_range (Z.to_nat luma_ylength) 0 (fun yy a =>
                    simple_segment edge_limit a ((mby * 16 + yy) * luma_w + mbx * 16) 1) y in
        Ok (y, u, v)
      else Ok b
    else
      let* y :=
        if luma_xlength >=? 4 then
          for_range (Z.to_nat luma_ylength) 0 (fun yy a =>
            macroblock_filter hev_threshold interior_limit edge_limit a ((mby * 16 + yy) * luma_w + mbx * 16) 1) y
        else Ok y in
      let* '(u, v) :=
        if chroma_xlength >=? 4 then
          for_range (Z.to_nat chroma_ylength) 0 (fun yy =>
            both (macroblock_filter hev_threshold interior_limit edge_limit) ((mby * 8 + yy) * chroma_w + mbx * 8) 1) (u, v)
        else Ok (u, v) in
      Ok (y, u, v)
  else Ok b.

(* filter across vertical subblocks in macroblock *)
Definition lf_inner_v (h : RHdr) (mbx mby : Z) (mb : MacroBlock) (interior_limit hev_threshold edge_limit : Z)
  (luma_ylength luma_xlength chroma_ylength chroma_xlength : Z) (b : planes3) : res planes3 :=
  let luma_w := rh_mbwidth h * 16 in
  let chroma_w := rh_mbwidth h * 8 in
  let simple := rh_filter_type h in
  let inner := (Vp8Parse.mb_luma_mode mb =? vp8_B_PRED) || Vp8Parse.mb_non_zero_coeffs mb in
  let '(y, u, v) := b in
  if inner then
    if simple then
      (* for x in (4usize..luma_xlength - 1).step_by(4) { for y in 0..luma_ylength { .. } } *)
      let* hi := usub luma_xlength 1 in
      let* y := for_step (step4_count 4 hi) 4 4 (fun x a =>
                  for_range (Z.to_nat luma_ylength) 0 (fun yy a =>
                    simple_segment edge_limit a ((mby * 16 + yy) * luma_w + (mbx * 16 + x)) 1) a) y in
      Ok (y, u, v)
    else
      let* y :=
        if luma_xlength >? 3 then
          for_step (step4_count 4 (luma_xlength - 3)) 4 4 (fun x a =>
            for_range (Z.to_nat luma_ylength) 0 (fun yy a =>
              subblock_filter hev_threshold interior_limit edge_limit a ((mby * 16 + yy) * luma_w + (mbx * 16 + x)) 1) a) y
        else Ok y in
      let* '(u, v) :=
        if chroma_xlength =? 8 then
          for_range (Z.to_nat chroma_ylength) 0 (fun yy =>
            both (subblock_filter hev_threshold interior_limit edge_limit) ((mby * 8 + yy) * chroma_w + (mbx * 8 + 4)) 1) (u, v)
        else Ok (u, v) in
      Ok (y, u, v)
  else Ok b.

(* filter across top of macroblock *)
Definition lf_top (h : RHdr) (mbx mby : Z) (mb : MacroBlock) (interior_limit hev_threshold edge_limit : Z)
  (luma_ylength luma_xlength chroma_ylength chroma_xlength : Z) (b : planes3) : res planes3 :=
  let luma_w := rh_mbwidth h * 16 in
  let chroma_w := rh_mbwidth h * 8 in
  let simple := rh_filter_type h in
  let '(y, u, v) := b in
  if mby >? 0 then
    if simple then
      if luma_ylength >=? 2 then
        let* y := for_range (Z.to_nat luma_xlength) 0 (fun x a =>
                    simple_segment edge_limit a (mby * 16 * luma_w + (mbx * 16 + x)) luma_w) y in
        Ok (y, u, v)
      else Ok b
    else
      let* y :=
        if luma_ylength >=? 4 then
          for_range (Z.to_nat luma_xlength) 0 (fun x a =>
            macroblock_filter hev_threshold interior_limit edge_limit a (mby * 16 * luma_w + (mbx * 16 + x)) luma_w) y
        else Ok y in
      let* '(u, v) :=
        if chroma_ylength >=? 4 then
          for_range (Z.to_nat chroma_xlength) 0 (fun x =>
            both (macroblock_filter hev_threshold interior_limit edge_limit) (mby * 8 * chroma_w + (mbx * 8 + x)) chroma_w) (u, v)
        else Ok (u, v) in
      Ok (y, u, v)
  else Ok b.

(* filter across horizontal subblock edges within the macroblock *)
Definition lf_inner_h (h : RHdr) (mbx mby : Z) (mb : MacroBlock) (interior_limit hev_threshold edge_limit : Z)
  (luma_ylength luma_xlength chroma_ylength chroma_xlength : Z) (b : planes3) : res planes3 :=
  let luma_w := rh_mbwidth h * 16 in
  let chroma_w := rh_mbwidth h * 8 in
  let simple := rh_filter_type h in
  let inner := (Vp8Parse.mb_luma_mode mb =? vp8_B_PRED) || Vp8Parse.mb_non_zero_coeffs mb in
  let '(y, u, v) := b in
  if inner then
    if simple then
      let* hi := usub luma_ylength 1 in
      let* y := for_step (step4_count 4 hi) 4 4 (fun yy a =>
                  for_range (Z.to_nat luma_xlength) 0 (fun x a =>
                    simple_segment edge_limit a ((mby * 16 + yy) * luma_w + (mbx * 16 + x)) luma_w) a) y in
      Ok (y, u, v)
    else
      let* y :=
        if luma_ylength >? 3 then
          for_step (step4_count 4 (luma_ylength - 3)) 4 4 (fun yy a =>
            for_range (Z.to_nat luma_xlength) 0 (fun x a =>
              subblock_filter hev_threshold interior_limit edge_limit a ((mby * 16 + yy) * luma_w + (mbx * 16 + x)) luma_w) a) y
        else Ok y in
      let* '(u, v) :=
        if chroma_ylength =? 8 then
          for_range (Z.to_nat chroma_xlength) 0 (fun x =>
            both (subblock_filter hev_threshold interior_limit edge_limit) ((mby * 8 + 4) * chroma_w + (mbx * 8 + x)) chroma_w) (u, v)
        else Ok (u, v) in
      Ok (y, u, v)
  else Ok b.


(* fn loop_filter(&mut self, mbx, mby, mb) *)
Definition loop_filter (h : RHdr) (mbx mby : Z) (mb : MacroBlock) (b : planes3) : res planes3 :=
  let luma_w := rh_mbwidth h * 16 in
  let luma_h := rh_mbheight h * 16 in
  let chroma_w := rh_mbwidth h * 8 in
  let chroma_h := rh_mbheight h * 8 in
  let* '(filter_level, interior_limit, hev_threshold) := filter_parameters h mb in
  if filter_level >? 0 then
    (* u8 arithmetic *)
    let mbedge_limit := (filter_level + 2) * 2 + interior_limit in
    let sub_bedge_limit := filter_level * 2 + interior_limit in
    if 255 <? mbedge_limit then Panic POverflow else
    let* ly := usub luma_h (16 * mby) in let luma_ylength := Z.min ly 16 in
    let* lx := usub luma_w (16 * mbx) in let luma_xlength := Z.min lx 16 in
    let* cy := usub chroma_h (8 * mby) in let chroma_ylength := Z.min cy 8 in
    let* cx := usub chroma_w (8 * mbx) in let chroma_xlength := Z.min cx 8 in
    let* b := lf_left h mbx mby mb interior_limit hev_threshold mbedge_limit luma_ylength luma_xlength chroma_ylength chroma_xlength b in
    let* b := lf_inner_v h mbx mby mb interior_limit hev_threshold sub_bedge_limit luma_ylength luma_xlength chroma_ylength chroma_xlength b in
    let* b := lf_top h mbx mby mb interior_limit hev_threshold mbedge_limit luma_ylength luma_xlength chroma_ylength chroma_xlength b in
    lf_inner_h h mbx mby mb interior_limit hev_threshold sub_bedge_limit luma_ylength luma_xlength chroma_ylength chroma_xlength b
  else Ok b.

(* if self.frame.filter_level != 0 { for mby in 0..mbheight { for mbx in 0..mbwidth {
     let mb = self.macroblocks[mby * self.mbwidth as usize + mbx]; self.loop_filter(mbx, mby, &mb); } } } *)
Definition filter_frame (h : RHdr) (mbs : list MacroBlock) (b : planes3) : res planes3 :=
  if rh_filter_level h =? 0 then Ok b else
  for_range (Z.to_nat (rh_mbheight h)) 0 (fun mby b =>
    for_range (Z.to_nat (rh_mbwidth h)) 0 (fun mbx b =>
      match nth_error mbs (Z.to_nat (mby * rh_mbwidth h + mbx)) with
      | None => Panic PIndex
      | Some mb => loop_filter h mbx mby mb b
      end) b) b.

(* ------------------------------------------------------------------------------------------------------------ *)
(* 7. crop_plane and the whole reconstruction side                                                              *)
(* ------------------------------------------------------------------------------------------------------------ *)
(* fn crop_plane(plane: &mut Vec<u8>, stride, width, height): rows moved to the front in place, then truncate *)
Definition crop_plane (plane : arr) (stride width height : Z) : res (list Z) :=
  let* p :=
    if negb (stride =? width) then
      (* for y in 1..height { plane.copy_within(y * stride..y * stride + width, y * width); } *)
      for_range (Z.to_nat (height - 1)) 1 (fun y p =>
        of_option (acopy_within p (Z.to_N (y * stride)) (Z.to_N width) (Z.to_N (y * width))) PSlice) plane
    else Ok plane in
  (* plane.truncate(width * height) *)
  Ok (firstn (Z.to_nat (width * height)) (to_list p)).

(* Frame::chroma_width / chroma_height: (self.width + 1) / 2 in u16 *)
Definition chroma_size (v : Z) : res Z := if 65535 <? v + 1 then Panic POverflow else Ok ((v + 1) / 2).

(* result: the macroblock-aligned planes before the loop filter (observable through a recording hook only) and
   Frame { ybuf, ubuf, vbuf } as decode_frame_ returns them *)
Definition decode_frame_recon (h : RHdr) (inp : list (MacroBlock * list Z))
  : res ((list Z * list Z * list Z) * (list Z * list Z * list Z)) :=
  let* s := reconstruct h inp in
  let unfiltered := (to_list (rs_ybuf s), to_list (rs_ubuf s), to_list (rs_vbuf s)) in
  let* '(y, u, v) := filter_frame h (rs_macroblocks s) (rs_ybuf s, rs_ubuf s, rs_vbuf s) in
  let* cw := chroma_size (rh_width h) in
  let* ch := chroma_size (rh_height h) in
  let* fy := crop_plane y (rh_mbwidth h * 16) (rh_width h) (rh_height h) in
  let* fu := crop_plane u (rh_mbwidth h * 8) cw ch in
  let* fv := crop_plane v (rh_mbwidth h * 8) cw ch in
  Ok (unfiltered, (fy, fu, fv)).

(* only the returned Frame *)
Definition decode_frame_planes (h : RHdr) (inp : list (MacroBlock * list Z)) : res (list Z * list Z * list Z) :=
  let* r := decode_frame_recon h inp in Ok (snd r).

(* ------------------------------------------------------------------------------------------------------------ *)
(* 8. oracle entry points (plain numbers and lists only)                                                        *)
(* ------------------------------------------------------------------------------------------------------------ *)
(* hdr = [mbwidth; mbheight; width; height; filter_type; filter_level; sharpness; segments_enabled;
          delta_values x4; loopfilter_level x4; ref_delta x4; mode_delta x4] *)
Definition vp8r_hdr (n : list Z) : RHdr :=
  let g := fun i => nth i n 0 in
  let seg := fun i => Vp8Parse.mkSeg 0 0 0 0 0 0 (negb (g (8 + i)%nat =? 0)) 0 (g (12 + i)%nat) in
  mkRHdr (g 0%nat) (g 1%nat) (g 2%nat) (g 3%nat) (negb (g 4%nat =? 0)) (g 5%nat) (g 6%nat) (negb (g 7%nat =? 0))
         [seg 0%nat; seg 1%nat; seg 2%nat; seg 3%nat]
         [g 16%nat; g 17%nat; g 18%nat; g 19%nat] [g 20%nat; g 21%nat; g 22%nat; g 23%nat].
(* mb = [luma_mode; chroma_mode; segmentid; coeffs_skipped; non_zero_coeffs], bpred *)
Definition vp8r_mb (n bpred : list Z) : MacroBlock :=
  let g := fun i => nth i n 0 in
  Vp8Parse.mkMB bpred (repeat 0 9) (g 0%nat) (g 1%nat) (g 2%nat) (negb (g 3%nat =? 0)) (negb (g 4%nat =? 0)).

Definition vp8r_frame (hdr : list Z) (mbs : list (list Z * list Z * list Z))
  : res ((list Z * list Z * list Z) * (list Z * list Z * list Z)) :=
  decode_frame_recon (vp8r_hdr hdr) (map (fun m => (vp8r_mb (fst (fst m)) (snd (fst m)), snd m)) mbs).

(* one call of Vp8Decoder::loop_filter on given planes *)
Definition vp8r_loop_filter (hdr : list Z) (mbx mby : Z) (mb bpred : list Z) (y u v : list Z) : res (list Z * list Z * list Z) :=
  let* '(y', u', v') := loop_filter (vp8r_hdr hdr) mbx mby (vp8r_mb mb bpred) (of_list y, of_list u, of_list v) in
  Ok (to_list y', to_list u', to_list v').

(* the filter pass of decode_frame_ on given planes and macroblocks *)
Definition vp8r_filter_frame (hdr : list Z) (mbs : list (list Z * list Z)) (y u v : list Z) : res (list Z * list Z * list Z) :=
  let* '(y', u', v') := filter_frame (vp8r_hdr hdr) (map (fun m => vp8r_mb (fst m) (snd m)) mbs) (of_list y, of_list u, of_list v) in
  Ok (to_list y', to_list u', to_list v').

Definition vp8r_crop (plane : list Z) (stride width height : Z) : res (list Z) :=
  crop_plane (of_list plane) stride width height.

(* one edge function at one position: which = 0 simple_segment, 1 subblock_filter, 2 macroblock_filter *)
Definition vp8r_edge (which hev_threshold interior_limit edge_limit : Z) (pixels : list Z) (point stride : Z) : res (list Z) :=
  let a := of_list pixels in
  let* a' := if which =? 0 then simple_segment edge_limit a point stride
             else if which =? 1 then subblock_filter hev_threshold interior_limit edge_limit a point stride
             else macroblock_filter hev_threshold interior_limit edge_limit a point stride in
  Ok (to_list a').
