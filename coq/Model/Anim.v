(* Hand model of the animation path of the decoder:
     extended.rs :: composite_frame                       (flat RGBA byte canvas, index arithmetic in usize)
     decoder.rs  :: AnimationState, read_frame, reset_animation, read_image (animated branch)
   It models the REPAIRED tree: fix_F12 (disposal), fix_F13 (background byte order), fix_F15 (reset) -- the three spots
   are marked [F12] [F13] [F15].  The blend kernel is the unrepaired one (known finding F14).
   Frame payload decoding (VP8 / VP8L / ALPH+VP8) is abstracted: a frame comes with its decoded bytes
   (RGB when it has no alpha channel, RGBA otherwise); properties C01/C02/C05 speak about that part.
   The byte offset `next_frame_start` of the next ANMF chunk is abstracted to the index of that chunk.
   Arrays are Lib.Arr PositiveMap arrays (0-based); indices are computed in Z with the usize overflow checks of a
   debug build made explicit.  No proofs in this file. *)
From Coq Require Import ZArith NArith List Bool.
From WebP Require Import Lib.Res Lib.Arr Model.AlphaBlend.
Import ListNotations.
Open Scope Z_scope.
Open Scope res_scope.

(* ---------------------------------------------------------------------------------------------------------- *)
(* machine arithmetic and slices                                                                                *)
(* ---------------------------------------------------------------------------------------------------------- *)
(* a usize result (64-bit target) of + or * on non-negative operands *)
Definition usz (v : Z) : res Z := if v <? 18446744073709551616 then Ok v else Panic POverflow.

Definition zlen (a : arr) : Z := Z.of_N (alen a).
Definition zraw (a : arr) (i : Z) : Z := araw a (Z.to_N i).
Definition zset (a : arr) (i v : Z) : arr := aset' a (Z.to_N i) v.

(* `&s[i..][..n]` is in range *)
Definition slice_ok (a : arr) (i n : Z) : bool := (i <=? zlen a) && (n <=? zlen a - i).

Definition get4 (a : arr) (i : Z) : px := (zraw a i, zraw a (i + 1), zraw a (i + 2), zraw a (i + 3)).
Definition set4 (a : arr) (i : Z) (p : px) : arr :=
  let '(r, g, b, al) := p in zset (zset (zset (zset a i r) (i + 1) g) (i + 2) b) (i + 3) al.

(* `for i in i0 .. i0+n { s = body(i, s)? }` *)
Fixpoint for_range {S : Type} (n : nat) (i : Z) (body : Z -> S -> res S) (s : S) : res S :=
  match n with
  | O => Ok s
  | Datatypes.S k =>
      match body i s with
      | Ok s' => for_range k (i + 1) body s'
      | Err e => Err e
      | Panic p => Panic p
      | OutOfFuel => OutOfFuel
      end
  end.

(* dst[di .. di+n] = src[si .. si+n]   (copy_from_slice on slices already known to be in range) *)
Fixpoint copy_bytes (n : nat) (dst : arr) (di : Z) (src : arr) (si : Z) : arr :=
  match n with
  | O => dst
  | S k => copy_bytes k (zset dst di (zraw src si)) (di + 1) src (si + 1)
  end.

(* for (input, output) in src[si..].chunks_exact(3).zip(dst[di..].chunks_exact_mut(4)).take(n)
     { output[..3].copy_from_slice(input); output[3] = 255; } *)
Fixpoint copy_rgb (n : nat) (dst : arr) (di : Z) (src : arr) (si : Z) : arr :=
  match n with
  | O => dst
  | S k => copy_rgb k (set4 dst di (zraw src si, zraw src (si + 1), zraw src (si + 2), 255)) (di + 4) src (si + 3)
  end.

(* ((x + ox) + (y + oy) * canvas_width) * 4 *)
Definition canvas_index (W ox oy x y : Z) : res Z :=
  let* xs := usz (x + ox) in
  let* ys := usz (y + oy) in
  let* r := usz (ys * W) in
  let* s := usz (xs + r) in
  usz (s * 4).

(* (ox + (y + oy) * canvas_width) * 4 *)
Definition canvas_row_index (W ox oy y : Z) : res Z :=
  let* ys := usz (y + oy) in
  let* r := usz (ys * W) in
  let* s := usz (ox + r) in
  usz (s * 4).

(* ---------------------------------------------------------------------------------------------------------- *)
(* extended.rs :: composite_frame                                                                              *)
(* ---------------------------------------------------------------------------------------------------------- *)
(* [F12] repaired disposal: exactly the previous frame's rectangle, 4 bytes per pixel, the full 4-byte colour *)
Definition clear_previous (canvas : arr) (W : Z) (c : px) (pw ph pox poy : Z) : res arr :=
  for_range (Z.to_nat ph) 0 (fun y cv =>
    for_range (Z.to_nat pw) 0 (fun x cv =>
      let* ci := canvas_index W pox poy x y in
      if slice_ok cv ci 4 then Ok (set4 cv ci c) else Panic PSlice) cv) canvas.

Definition blend_rect (canvas : arr) (W : Z) (frame : arr) (fx fy fw width height : Z) : res arr :=
  for_range (Z.to_nat height) 0 (fun y cv =>
    for_range (Z.to_nat width) 0 (fun x cv =>
      let* yw := usz (y * fw) in
      let* s := usz (x + yw) in
      let* fi := usz (s * 4) in
      let* ci := canvas_index W fx fy x y in
      if slice_ok frame fi 4 then
        if slice_ok cv ci 4 then Ok (set4 cv ci (do_alpha_blending (get4 frame fi) (get4 cv ci)))
        else Panic PSlice
      else Panic PSlice) cv) canvas.

Definition copy_rgba_rect (canvas : arr) (W : Z) (frame : arr) (fx fy fw width height : Z) : res arr :=
  for_range (Z.to_nat height) 0 (fun y cv =>
    let* yw := usz (y * fw) in
    let* fi := usz (yw * 4) in
    let* ci := canvas_row_index W fx fy y in
    let* n := usz (width * 4) in
    if slice_ok cv ci n then
      if slice_ok frame fi n then Ok (copy_bytes (Z.to_nat n) cv ci frame fi) else Panic PSlice
    else Panic PSlice) canvas.

Definition copy_rgb_rect (canvas : arr) (W : Z) (frame : arr) (fx fy fw width height : Z) : res arr :=
  for_range (Z.to_nat height) 0 (fun y cv =>
    let* yw := usz (y * fw) in
    let* fi := usz (yw * 3) in
    let* ci := canvas_row_index W fx fy y in
    let* n3 := usz (width * 3) in
    if slice_ok frame fi n3 then
      let* n4 := usz (width * 4) in
      if slice_ok cv ci n4 then Ok (copy_rgb (Z.to_nat width) cv ci frame fi) else Panic PSlice
    else Panic PSlice) canvas.

Definition composite_frame (canvas : arr) (W H : Z) (clear_color : option px) (frame : arr)
    (fx fy fw fh : Z) (frame_has_alpha use_blending : bool) (pw ph pox poy : Z) : res arr :=
  let full := (fx =? 0) && (fy =? 0) && (fw =? W) && (fh =? H) in
  if full && negb use_blending then
    if frame_has_alpha then
      (* canvas.copy_from_slice(frame) *)
      if zlen canvas =? zlen frame then Ok (copy_bytes (Z.to_nat (zlen frame)) canvas 0 frame 0) else Panic PCopyLen
    else
      (* frame.chunks_exact(3).zip(canvas.chunks_exact_mut(4)) *)
      Ok (copy_rgb (Z.to_nat (Z.min (zlen frame / 3) (zlen canvas / 4))) canvas 0 frame 0)
  else
    let* canvas :=
      match clear_color with
      | Some c => clear_previous canvas W c pw ph pox poy
      | None => Ok canvas
      end in
    (* frame_width.min(canvas_width.saturating_sub(frame_offset_x)) *)
    let width := Z.min fw (Z.max 0 (W - fx)) in
    let height := Z.min fh (Z.max 0 (H - fy)) in
    if frame_has_alpha && use_blending then blend_rect canvas W frame fx fy fw width height
    else if frame_has_alpha then copy_rgba_rect canvas W frame fx fy fw width height
    else copy_rgb_rect canvas W frame fx fy fw width height.

(* ---------------------------------------------------------------------------------------------------------- *)
(* decoder.rs :: the animated file as the decoder sees it, and AnimationState                                   *)
(* ---------------------------------------------------------------------------------------------------------- *)
Record mframe := {
  mf_xh : Z; mf_yh : Z;          (* ANMF "Frame X", "Frame Y": 24-bit fields, offset / 2 *)
  mf_wm1 : Z; mf_hm1 : Z;        (* ANMF "Frame Width Minus One", "Frame Height Minus One": 24-bit fields *)
  mf_duration : Z;               (* 24-bit field *)
  mf_flags : Z;                  (* the byte holding reserved:6, blending method:1, disposal method:1 *)
  mf_has_alpha : bool;           (* payload kind: VP8L or ALPH+VP8 -> true (RGBA bytes), VP8 -> false (RGB bytes) *)
  mf_data : list Z               (* the decoded payload *)
}.

Record mfile := {
  m_w : Z; m_h : Z;              (* self.width, self.height (VP8X canvas) *)
  m_alpha : bool;                (* self.has_alpha (VP8X alpha flag) *)
  m_bg_stored : list Z;          (* the first four bytes of the ANIM chunk *)
  m_frames : list mframe         (* the ANMF chunks in file order; num_frames = their number *)
}.

(* [F13] repaired: `cursor.read_exact(&mut info.background_color)?; info.background_color.swap(0, 2);` *)
Definition background_color (f : mfile) : px :=
  (nth 2 (m_bg_stored f) 0, nth 1 (m_bg_stored f) 0, nth 0 (m_bg_stored f) 0, nth 3 (m_bg_stored f) 0).

Record astate := {
  next_frame : Z;
  next_frame_start : Z;          (* abstracted: index of the ANMF chunk at that byte offset *)
  dispose_next_frame : bool;
  previous_frame_width : Z; previous_frame_height : Z;
  previous_frame_x_offset : Z; previous_frame_y_offset : Z;
  acanvas : option arr
}.

(* AnimationState::default() with next_frame_start pointing at the first ANMF chunk (as WebPDecoder::new leaves it) *)
Definition fresh_state : astate :=
  {| next_frame := 0; next_frame_start := 0; dispose_next_frame := true;
     previous_frame_width := 0; previous_frame_height := 0; previous_frame_x_offset := 0; previous_frame_y_offset := 0;
     acanvas := None |}.

Definition num_frames (f : mfile) : Z := Z.of_nat (length (m_frames f)).

(* output_buffer_size(): Some(width * height * bytes_per_pixel) (checked_mul on usize: never None for 24-bit dimensions) *)
Definition output_buffer_size (f : mfile) : Z := m_w f * m_h f * (if m_alpha f then 4 else 3).

(* the abstract payload decoder: a buffer of exactly w*h*bpp bytes, or an error *)
Definition decode_payload (fr : mframe) (w h : Z) : res arr :=
  if Z.of_nat (length (mf_data fr)) =? w * h * (if mf_has_alpha fr then 4 else 3)
  then Ok (of_list (mf_data fr)) else Err EInconsistentImageSizes.

(* vec![0; n] then chunks_exact_mut(4).for_each(|c| c.copy_from_slice(&bg)) *)
Fixpoint fill4 (n : nat) (a : arr) (i : Z) (c : px) : arr :=
  match n with O => a | S k => fill4 k (set4 a i c) (i + 4) c end.
Definition new_canvas (len : Z) (c : px) : arr := fill4 (Z.to_nat (len / 4)) (amake (Z.to_N len)) 0 c.

(* buf.copy_from_slice(canvas) *)
Fixpoint read_bytes (n : nat) (a : arr) (i : Z) : list Z :=
  match n with O => [] | S k => zraw a i :: read_bytes k a (i + 1) end.
(* for (b, c) in buf.chunks_exact_mut(3).zip(canvas.chunks_exact(4)) { b.copy_from_slice(&c[..3]) } *)
Fixpoint read_rgb (n : nat) (a : arr) (i : Z) : list Z :=
  match n with O => [] | S k => zraw a i :: zraw a (i + 1) :: zraw a (i + 2) :: read_rgb k a (i + 4) end.

(* read_frame up to the point where the caller's buffer is written: the result depends on the buffer only through
   its length.  Ok (duration, state after, bytes written over the whole buffer). *)
Definition read_frame_core (f : mfile) (st : astate) (buf_len : Z) : res (Z * astate * list Z) :=
  (* assert!(self.is_animated()) holds by construction; assert_eq!(Some(buf.len()), self.output_buffer_size()) *)
  if negb (buf_len =? output_buffer_size f) then Panic PAssert else
  if next_frame st =? num_frames f then Err ENoMoreFrames else
  match nth_error (m_frames f) (Z.to_nat (next_frame_start st)) with
  | None => Err EChunkHeaderInvalid
  | Some fr =>
    let frame_x := mf_xh fr * 2 in
    let frame_y := mf_yh fr * 2 in
    let frame_width := mf_wm1 fr + 1 in
    let frame_height := mf_hm1 fr + 1 in
    if (16384 <? frame_width) || (16384 <? frame_height) then Err EImageTooLarge else
    if (m_w f <? frame_x + frame_width) || (m_h f <? frame_y + frame_height) then Err EFrameOutsideImage else
    let duration := mf_duration fr in
    let use_alpha_blending := Z.land (mf_flags fr) 2 =? 0 in
    let dispose := negb (Z.land (mf_flags fr) 1 =? 0) in
    let clear_color := if dispose_next_frame st then Some (background_color f) else None in
    let* frame := decode_payload fr frame_width frame_height in
    (* fill starting canvas with clear color; [F11] repaired: the canvas length is computed with
       usize::checked_mul and a product that does not fit in usize is DecodingError::ImageTooLarge *)
    let* canvas0 :=
      match acanvas st with
      | Some c => Ok c
      | None => if m_w f * m_h f * 4 <? 18446744073709551616 then Ok (new_canvas (m_w f * m_h f * 4) (background_color f))
                else Err EImageTooLarge
      end in
    let* canvas :=
      composite_frame canvas0 (m_w f) (m_h f) clear_color frame frame_x frame_y frame_width frame_height
        (mf_has_alpha fr) use_alpha_blending
        (previous_frame_width st) (previous_frame_height st) (previous_frame_x_offset st) (previous_frame_y_offset st) in
    let st' := {| next_frame := next_frame st + 1; next_frame_start := next_frame_start st + 1;
                  dispose_next_frame := dispose;
                  previous_frame_width := frame_width; previous_frame_height := frame_height;
                  previous_frame_x_offset := frame_x; previous_frame_y_offset := frame_y;
                  acanvas := Some canvas |} in
    if m_alpha f then
      (* buf.copy_from_slice(canvas) *)
      if zlen canvas =? buf_len then Ok (duration, st', read_bytes (Z.to_nat (zlen canvas)) canvas 0) else Panic PCopyLen
    else
      (* for (b, c) in buf.chunks_exact_mut(3).zip(canvas.chunks_exact(4)) { b.copy_from_slice(&c[..3]) }
         (buf_len is a multiple of 3 here, so every byte of the buffer is written) *)
      Ok (duration, st', read_rgb (Z.to_nat (Z.min (buf_len / 3) (zlen canvas / 4))) canvas 0)
  end.

(* read_frame: (result, state after, buffer after).  On every early return the state and the buffer are untouched. *)
Definition read_frame (f : mfile) (st : astate) (buf : list Z) : res Z * astate * list Z :=
  match read_frame_core f st (Z.of_nat (length buf)) with
  | Ok (d, st', out) => (Ok d, st', out)
  | Err e => (Err e, st, buf)
  | Panic p => (Panic p, st, buf)
  | OutOfFuel => (OutOfFuel, st, buf)
  end.

(* [F15] repaired: `self.animation = AnimationState { next_frame_start: <first ANMF>, ..Default::default() }` *)
Definition reset_animation (f : mfile) (st : astate) : astate := fresh_state.

(* read_image, animated branch: swap in a default state pointing at the first frame, read_frame, restore *)
Definition read_image (f : mfile) (st : astate) (buf : list Z) : res unit * astate * list Z :=
  if negb (Z.of_nat (length buf) =? output_buffer_size f) then (Err EImageTooLarge, st, buf) else
  let '(r, _, buf') := read_frame f fresh_state buf in
  (match r with Ok _ => Ok tt | Err e => Err e | Panic p => Panic p | OutOfFuel => OutOfFuel end, st, buf').

(* ---------------------------------------------------------------------------------------------------------- *)
(* sequences of calls                                                                                           *)
(* ---------------------------------------------------------------------------------------------------------- *)
(* the three calls; MFill is the caller overwriting its buffer between calls (every byte := v) *)
Inductive mop := MFrame | MReset | MImage | MFill (v : Z).
Inductive mres := RFrame (r : res Z) | RImage (r : res unit) | RReset | RFill.

(* the trace: result of each call and the caller's buffer after it *)
Fixpoint run_ops (f : mfile) (ops : list mop) (st : astate) (buf : list Z) : list (mres * list Z) :=
  match ops with
  | [] => []
  | MFrame :: tl => let '(r, st', buf') := read_frame f st buf in (RFrame r, buf') :: run_ops f tl st' buf'
  | MReset :: tl => (RReset, buf) :: run_ops f tl (reset_animation f st) buf
  | MImage :: tl => let '(r, st', buf') := read_image f st buf in (RImage r, buf') :: run_ops f tl st' buf'
  | MFill v :: tl => (RFill, map (fun _ => v) buf) :: run_ops f tl st (map (fun _ => v) buf)
  end.

(* a fresh decoder reading n frames in a row *)
Fixpoint play_from (f : mfile) (n : nat) (st : astate) (buf : list Z) : list (res Z * list Z) :=
  match n with
  | O => []
  | S k => let '(r, st', buf') := read_frame f st buf in (r, buf') :: play_from f k st' buf'
  end.
Definition play (f : mfile) (buf : list Z) : list (res Z * list Z) :=
  play_from f (length (m_frames f)) fresh_state buf.

(* direct call for the correspondence check of composite_frame: lists in, list out *)
Definition composite_frame_list (canvas : list Z) (W H : Z) (clear_color : option px) (frame : list Z)
    (fx fy fw fh : Z) (frame_has_alpha use_blending : bool) (pw ph pox poy : Z) : res (list Z) :=
  let* c := composite_frame (of_list canvas) W H clear_color (of_list frame) fx fy fw fh frame_has_alpha use_blending
              pw ph pox poy in
  Ok (read_bytes (length canvas) c 0).
