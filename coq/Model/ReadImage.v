(* Hand model of the GLUE of the decoder: src/decoder.rs :: read_image (all branches), the front half of read_frame
   (ANMF header, the consistency checks, the three payload branches VP8 / VP8L / ALPH+VP8), range_reader, and
   src/extended.rs :: read_alpha_chunk.  Everything below the glue is reused, not re-modelled:
     Model.Container   WebPDecoder::new, the chunk table, the accessors, output_buffer_size, the Cursor reader
     Model.Lossless    LosslessDecoder::decode_frame (in place, explicit / implicit dimensions)
     Model.Yuv         Frame::fill_rgb / fill_rgba
     Model.Alpha       get_alpha_predictor + the alpha application loop
     Model.Still       the 4 -> 3 byte copy loop
     Model.Anim        composite_frame and the back half of read_frame (canvas, state update, output conversion)
   The VP8 key-frame decoder (Vp8Decoder::decode_frame) is NOT modelled as a whole yet; it is the parameter
       vp8 : list Z -> res (Z * Z * list Z * list Z * list Z)
   (bytes the limited reader can deliver -> frame.width, frame.height, ybuf, ubuf, vbuf cropped to the display size, or the
   error), instantiated by Spec.VP8.decode in the oracle (the c02 correspondence ties that function to the crate every run).

   Readers.  `range_reader(r, a..b)` = seek(Start(a)) then `r.take(b - a)`; `(&mut self.r).take(n)` at position p: over a
   Cursor both can deliver exactly the bytes [window d p n] (clipped at the end of the file; empty when p is beyond it), and a
   Take over a Cursor exposes all of them at the first fill_buf, i.e. the empty fill_buf schedule of Model.BitReader.

   The caller's buffer.  read_image returns (result, buffer afterwards).  `Some b`: the buffer holds exactly b (on every error
   met before the first write it is the buffer that was passed in); `None`: an error was met while the lossless decoder was
   writing in place -- the contents are then not modelled.

   Modelled WITH the repairs F18 (alpha flag without ALPH: opaque), F10 (ALPH+VP8 frame size check) and df17279 (read_frame steps
   over chunks between two ANMF chunks).  No proofs in this file. *)
From Coq Require Import ZArith List Bool.
From WebP Require Import Lib.Res Spec.Alpha Model.Alpha Model.Yuv Model.Still.
From WebP Require Model.Lossless Model.Anim Model.Container.   (* `Container.x` below is Model.Container.x *)
Import ListNotations.
Open Scope Z_scope.
Open Scope res_scope.


(* ---------------------------------------------------------------------------------------------- *)
(* readers                                                                                          *)
(* ---------------------------------------------------------------------------------------------- *)
(* the bytes a Cursor positioned at p and limited to n bytes can deliver (the clipping keeps `Z.to_nat` small) *)
Definition window (d : list Z) (p n : Z) : list Z :=
  if Container.len d <=? p then [] else Container.slice d p (Z.min n (Container.len d - p)).

(* decoder.rs::range_reader: r.seek(Start(range.start)); r.take(range.end - range.start)   (u64 subtraction) *)
Definition range_reader (d : list Z) (range : Z * Z) : res (list Z) :=
  let* n := Container.sub_u64 (snd range) (fst range) in
  Ok (window d (fst range) n).

(* usize products of the `vec![0; ..]` allocations (64-bit target, checked build) *)
Definition usz (v : Z) : res Z := if v <=? Container.usize_max then Ok v else Panic POverflow.
Definition zeros (n : Z) : list Z := repeat 0 (Z.to_nat n).

(* ---------------------------------------------------------------------------------------------- *)
(* extended.rs::read_alpha_chunk                                                                    *)
(* ---------------------------------------------------------------------------------------------- *)
Record alpha_chunk := { ac_preprocessing : bool; ac_filter : filter; ac_data : list Z }.

(* for (rgba_val, green_val) in data.chunks_exact(4).zip(green.iter_mut()) { *green_val = rgba_val[1]; } *)
Fixpoint extract_green (data green : list Z) : list Z :=
  match data, green with
  | _ :: g :: _ :: _ :: data', _ :: green' => g :: extract_green data' green'
  | _, _ => green
  end.

(* [rd]: what the limited reader can deliver; width, height: the u16 arguments *)
Definition read_alpha_chunk (rd : list Z) (width height : Z) : res alpha_chunk :=
  match rd with
  | [] => Err EIo                                           (* read_u8 at the end of the reader: UnexpectedEof *)
  | info_byte :: rest =>
    let preprocessing := Z.shiftr (Z.land info_byte 48) 4 in
    let filtering := Z.shiftr (Z.land info_byte 12) 2 in
    let compression := Z.land info_byte 3 in
    let* pre := match preprocessing with 0 => Ok false | 1 => Ok true | _ => Err EInvalidAlphaPreprocessing end in
    let* fm := match filtering with
               | 0 => Ok FNone | 1 => Ok FHorizontal | 2 => Ok FVertical | 3 => Ok FGradient
               | _ => Panic PUnreachable
               end in
    let* lossless := match compression with 0 => Ok false | 1 => Ok true | _ => Err EInvalidCompressionMethod end in
    let* n := usz (width * height) in
    let* data :=
      if (lossless : bool) then
        let* n4 := usz (n * 4) in
        (* LosslessDecoder::new(reader).decode_frame(u32::from(width), u32::from(height), true, &mut vec![0; w*h*4]) *)
        let* px := Lossless.decode_frame rest [] width height true (zeros n4) in
        Ok (extract_green px (zeros n))
      else
        (* let mut framedata = vec![0; w*h]; reader.read_exact(&mut framedata)? *)
        if n <=? Container.len rest then Ok (firstn (Z.to_nat n) rest) else Err EIo in
    Ok {| ac_preprocessing := pre; ac_filter := fm; ac_data := data |}
  end.

(* the alpha application loop of read_image / read_frame:
     for y in 0..frame.height { for x in 0..frame.width { .. buf[i*4+3] = predictor.wrapping_add(alpha_chunk.data[i]) } }
   = Model.Alpha.apply_alpha over the first frame.width * frame.height samples; a shorter plane is an index panic *)
Definition alpha_loop (ac : alpha_chunk) (fw fh : Z) (buf : list Z) : res (list Z) :=
  let n := fw * fh in
  if n <=? Container.len (ac_data ac)
  then apply_alpha (ac_filter ac) (Z.to_nat fw) (firstn (Z.to_nat n) (ac_data ac)) buf
  else Panic PIndex.

(* for pixel in buf.chunks_exact_mut(4) { pixel[3] = 255; } *)
Fixpoint set_opaque (buf : list Z) : list Z :=
  match buf with
  | r :: g :: b :: _ :: tl => r :: g :: b :: 255 :: set_opaque tl
  | _ => buf
  end.

(* ---------------------------------------------------------------------------------------------- *)
(* frame payloads decoded into fresh vectors (shared by read_frame's three branches)               *)
(* ---------------------------------------------------------------------------------------------- *)
Section WithVp8.
Variable vp8 : list Z -> res (Z * Z * list Z * list Z * list Z).

(* WebPRiffChunk::VP8 branch: Vp8Decoder::decode_frame, size check, vec![0; w*h*3], fill_rgb *)
Definition payload_vp8 (rd : list Z) (frame_width frame_height : Z) : res (list Z * bool) :=
  let* '(rw, rh, yp, up, vp) := vp8 rd in
  if negb (rw =? frame_width) || negb (rh =? frame_height) then Err EInconsistentImageSizes else
  let* n := usz (frame_width * frame_height * 3) in
  let* rgb := fill_rgb (Z.to_nat rw) yp up vp (zeros n) in
  Ok (rgb, false).

(* WebPRiffChunk::VP8L branch *)
Definition payload_vp8l (rd : list Z) (frame_width frame_height : Z) : res (list Z * bool) :=
  let* n := usz (frame_width * frame_height * 4) in
  let* rgba := Lossless.decode_frame rd [] frame_width frame_height false (zeros n) in
  Ok (rgba, true).

(* WebPRiffChunk::ALPH branch, after the alpha chunk has been read: VP8 frame, size check (fix F10), fill_rgba, alpha loop *)
Definition payload_alph_vp8 (ac : alpha_chunk) (rd : list Z) (frame_width frame_height : Z) : res (list Z * bool) :=
  let* '(rw, rh, yp, up, vp) := vp8 rd in
  if negb (rw =? frame_width) || negb (rh =? frame_height) then Err EInconsistentImageSizes else
  let* n := usz (frame_width * frame_height * 4) in
  let* rgba := fill_rgba (Z.to_nat rw) yp up vp (zeros n) in
  let* rgba := alpha_loop ac rw rh rgba in
  Ok (rgba, true).

(* the head of read_frame (fix df17279: chunks sitting between two ANMF chunks are stepped over):
     let anmf_size = loop { match read_chunk_header(&mut self.r)? {
         (ANMF, size, _) if size >= 32 => break size,
         (ANMF, _, _) => return Err(ChunkHeaderInvalid(b"ANMF")),
         (_, _, size_rounded) => { self.r.seek_relative(size_rounded as i64)?; self.animation.next_frame_start += size_rounded + 8; } } };
   [rp]: position of the reader, [nfs]: animation.next_frame_start (both start at the old next_frame_start; the field is updated
   inside the loop, so the second component -- its value when the loop is left, by `break` or by an error -- is part of the state
   also when read_frame fails).  Ok (anmf_size, reader position behind the ANMF header).  Every iteration consumes at least the
   8 header bytes, so S (length d) iterations always suffice; running out of them is the explicit OutOfFuel. *)
Definition with_nfs {A B} (r : res A) (nfs : Z) (k : A -> res B * Z) : res B * Z :=
  match r with
  | Ok a => k a
  | Err e => (Err e, nfs)
  | Panic q => (Panic q, nfs)
  | OutOfFuel => (OutOfFuel, nfs)
  end.

Fixpoint find_anmf (fuel : nat) (d : list Z) (rp nfs : Z) : res (Z * Z) * Z :=
  match fuel with
  | O => (OutOfFuel, nfs)
  | S fuel' =>
    with_nfs (Container.read_chunk_header d rp) nfs (fun '((chunk, size, size_rounded), p) =>
    match chunk with
    | Container.KANMF => if 32 <=? size then (Ok (size, p), nfs) else (Err EChunkHeaderInvalid, nfs)
    | _ =>
      with_nfs (Container.seek_relative p size_rounded) nfs (fun rp' =>
      with_nfs (let* t := Container.add_u64 size_rounded 8 in Container.add_u64 nfs t) nfs (fun nfs' =>
      find_anmf fuel' d rp' nfs'))
    end)
  end.

(* read_frame from behind the ANMF header down to the `(frame, frame_has_alpha)` tuple.
   Result: the frame as Model.Anim expects it (ANMF fields as stored + decoded bytes + has-alpha flag) and anmf_size. *)
Definition frame_body (dec : Container.decoder) (anmf_size p : Z) : res (Anim.mframe * Z) :=
  let d := Container.d_data dec in
  let* '(fx, p) := Container.read_3_bytes d p in
  let* frame_x := Container.add_u32 fx fx in                                   (* read_3_bytes()? * 2 *)
  let* '(fy, p) := Container.read_3_bytes d p in
  let* frame_y := Container.add_u32 fy fy in
  let* '(fw1, p) := Container.read_3_bytes d p in
  let* frame_width := Container.add_u32 fw1 1 in
  let* '(fh1, p) := Container.read_3_bytes d p in
  let* frame_height := Container.add_u32 fh1 1 in
  if (16384 <? frame_width) || (16384 <? frame_height) then Err EImageTooLarge else
  let* outside :=
    (let* sx := Container.add_u32 frame_x frame_width in
     if Container.d_width dec <? sx then Ok true else
     let* sy := Container.add_u32 frame_y frame_height in
     Ok (Container.d_height dec <? sy)) in
  if (outside : bool) then Err EFrameOutsideImage else
  let* '(duration, p) := Container.read_3_bytes d p in
  let* '(frame_info, p) := Container.read_u8 d p in
  (* Read normal bitstream now *)
  let* '((chunk, chunk_size, chunk_size_rounded), p) := Container.read_chunk_header d p in
  if anmf_size <? chunk_size_rounded + 24 then Err EChunkHeaderInvalid else
  let* '(frame, frame_has_alpha) :=
    match chunk with
    | Container.KVP8 => payload_vp8 (window d p chunk_size) frame_width frame_height       (* (&mut self.r).take(chunk_size) *)
    | Container.KVP8L => payload_vp8l (window d p chunk_size) frame_width frame_height
    | Container.KALPH =>
        if anmf_size <? chunk_size_rounded + 32 then Err EChunkHeaderInvalid else
        let* next_chunk_start := Container.add_u64 p chunk_size_rounded in
        let* ac := read_alpha_chunk (window d p chunk_size) (frame_width mod 65536) (frame_height mod 65536) in
        (* the FourCC of the next chunk is only used in the error value: whatever it is, its payload goes to the VP8 decoder *)
        let* '((_, next_chunk_size, _), p2) := Container.read_chunk_header d next_chunk_start in
        if anmf_size <? chunk_size + next_chunk_size + 32 then Err EChunkHeaderInvalid else
        payload_alph_vp8 ac (window d p2 next_chunk_size) frame_width frame_height
    | _ => Err EChunkHeaderInvalid
    end in
  Ok ({| Anim.mf_xh := fx; Anim.mf_yh := fy; Anim.mf_wm1 := fw1; Anim.mf_hm1 := fh1; Anim.mf_duration := duration;
         Anim.mf_flags := frame_info; Anim.mf_has_alpha := frame_has_alpha; Anim.mf_data := frame |}, anmf_size).

(* seek(Start(next_frame_start)), the loop, the frame: (result, animation.next_frame_start when the frame has been located or the
   call has failed) *)
Definition decode_frame_payload (dec : Container.decoder) (next_frame_start : Z) : res (Anim.mframe * Z) * Z :=
  let d := Container.d_data dec in
  let '(r, nfs) := find_anmf (S (length d)) d next_frame_start next_frame_start in
  (bind r (fun '(anmf_size, p) => frame_body dec anmf_size p), nfs).

(* ---------------------------------------------------------------------------------------------- *)
(* read_frame = decode_frame_payload + Model.Anim.read_frame_core                                   *)
(* ---------------------------------------------------------------------------------------------- *)
(* AnimationState with the byte offset next_frame_start kept concretely; Model.Anim abstracts that offset to the index of
   the ANMF chunk, so the frames decoded so far are kept to give Model.Anim the file "as the decoder has seen it" *)
Record fstate := { fs_start : Z;                    (* animation.next_frame_start (byte offset) *)
                   fs_anim : Anim.astate;           (* the other fields; its next_frame_start = number of frames seen *)
                   fs_seen : list Anim.mframe }.

Definition fresh_fstate (start : Z) : fstate :=
  {| fs_start := start; fs_anim := Anim.fresh_state; fs_seen := [] |}.

Definition background_stored (dec : Container.decoder) : list Z :=
  match Container.d_kind dec with
  | Container.ExtendedKind info => Container.swap02 (Container.e_background_color info)      (* Model.Container keeps the swapped colour (fix F13) *)
  | _ => [0; 0; 0; 0]
  end.

Definition mfile_of (dec : Container.decoder) (frames : list Anim.mframe) : Anim.mfile :=
  {| Anim.m_w := Container.d_width dec; Anim.m_h := Container.d_height dec; Anim.m_alpha := Container.d_has_alpha dec;
     Anim.m_bg_stored := background_stored dec; Anim.m_frames := frames |}.

(* (Ok (duration, state after, bytes written over the whole buffer) | failure, the state the decoder is left in by a failure):
   the only field a failing call can have changed is next_frame_start (stepping over chunks between frames) *)
Definition read_frame_core (dec : Container.decoder) (st : fstate) (buf_len : Z) : res (Z * fstate * list Z) * fstate :=
  if negb (Container.is_animated dec) then (Panic PAssert, st) else                             (* assert!(self.is_animated()) *)
  if negb (match Container.output_buffer_size dec with Some n => buf_len =? n | None => false end)
  then (Panic PAssert, st) else                               (* assert_eq!(Some(buf.len()), self.output_buffer_size()) *)
  if Anim.next_frame (fs_anim st) =? Container.d_num_frames dec then (Err ENoMoreFrames, st) else
  let '(r, nfs) := decode_frame_payload dec (fs_start st) in
  let st1 := {| fs_start := nfs; fs_anim := fs_anim st; fs_seen := fs_seen st |} in
  (let* '(fr, anmf_size) := r in
   let f := mfile_of dec (fs_seen st ++ [fr]) in
   let* '(duration, ast, out) := Anim.read_frame_core f (fs_anim st) buf_len in
   let* t := Container.add_u64 anmf_size 8 in
   let* start := Container.add_u64 nfs t in                                  (* self.animation.next_frame_start += anmf_size + 8 *)
   Ok (duration, {| fs_start := start; fs_anim := ast; fs_seen := fs_seen st ++ [fr] |}, out), st1).

Definition read_frame (dec : Container.decoder) (st : fstate) (buf : list Z) : res Z * fstate * list Z :=
  match read_frame_core dec st (Container.len buf) with
  | (Ok (d, st', out), _) => (Ok d, st', out)
  | (Err e, st1) => (Err e, st1, buf)
  | (Panic p, st1) => (Panic p, st1, buf)
  | (OutOfFuel, st1) => (OutOfFuel, st1, buf)
  end.

(* WebPDecoder::new leaves animation.next_frame_start in the decoder record *)
Definition initial_fstate (dec : Container.decoder) : fstate := fresh_fstate (Container.d_next_frame_start dec).

(* n calls of read_frame in a row on a fresh decoder *)
Fixpoint play_from (dec : Container.decoder) (n : nat) (st : fstate) (buf : list Z) : list (res Z * list Z) :=
  match n with
  | O => []
  | S k => let '(r, st', buf') := read_frame dec st buf in (r, buf') :: play_from dec k st' buf'
  end.
Definition play (dec : Container.decoder) (n : nat) (buf : list Z) : list (res Z * list Z) := play_from dec n (initial_fstate dec) buf.

(* ---------------------------------------------------------------------------------------------- *)
(* read_image                                                                                       *)
(* ---------------------------------------------------------------------------------------------- *)
Definition outcome : Type := res unit * option (list Z).

(* `?` on a step whose failure leaves the caller's buffer as [b] *)
Definition bindb {A} (r : res A) (b : option (list Z)) (f : A -> outcome) : outcome :=
  match r with
  | Ok a => f a
  | Err e => (Err e, b)
  | Panic p => (Panic p, b)
  | OutOfFuel => (OutOfFuel, b)
  end.

(* `else if let Some(range) = self.chunks.get(&VP8L)` *)
Definition read_image_vp8l (dec : Container.decoder) (range : Z * Z) (buf : list Z) : outcome :=
  bindb (range_reader (Container.d_data dec) range) (Some buf) (fun rd =>
  if Container.d_has_alpha dec then
    (* decoder.decode_frame(self.width, self.height, false, buf)?   -- in place in the caller's buffer *)
    bindb (Lossless.decode_frame rd [] (Container.d_width dec) (Container.d_height dec) false buf) None (fun out => (Ok tt, Some out))
  else
    (* let mut data = vec![0; self.width as usize * self.height as usize * 4]; decode; copy 3 of every 4 bytes *)
    bindb (usz (Container.d_width dec * Container.d_height dec * 4)) (Some buf) (fun n =>
    bindb (Lossless.decode_frame rd [] (Container.d_width dec) (Container.d_height dec) false (zeros n)) (Some buf) (fun data =>
    (Ok tt, Some (drop_alpha_into data buf))))).

(* the final `else` branch: 'VP8 ' with or without ALPH *)
Definition read_image_vp8 (dec : Container.decoder) (buf : list Z) : outcome :=
  match Container.lookup Container.KVP8 (Container.d_chunks dec) with
  | None => (Err EChunkMissing, Some buf)                                         (* .ok_or(ChunkMissing)? *)
  | Some range =>
    bindb (range_reader (Container.d_data dec) range) (Some buf) (fun rd =>
    bindb (vp8 rd) (Some buf) (fun '(fw, fh, yp, up, vp) =>
    if negb (fw =? Container.d_width dec) || negb (fh =? Container.d_height dec) then (Err EInconsistentImageSizes, Some buf) else
    if Container.has_alpha dec then
      bindb (fill_rgba (Z.to_nat fw) yp up vp buf) None (fun buf1 =>
      match Container.lookup Container.KALPH (Container.d_chunks dec) with
      | None => (Ok tt, Some (set_opaque buf1))           (* fix F18: the header announces alpha, no ALPH chunk: opaque *)
      | Some arange =>
        bindb (range_reader (Container.d_data dec) arange) (Some buf1) (fun ard =>
        bindb (read_alpha_chunk ard (Container.d_width dec mod 65536) (Container.d_height dec mod 65536)) (Some buf1) (fun ac =>
        bindb (alpha_loop ac fw fh buf1) None (fun buf2 => (Ok tt, Some buf2))))
      end)
    else
      bindb (fill_rgb (Z.to_nat fw) yp up vp buf) None (fun buf1 => (Ok tt, Some buf1))))
  end.

(* the animated branch: a default AnimationState pointing at the first frame, read_frame, the saved state restored *)
Definition read_image_animated (dec : Container.decoder) (buf : list Z) : outcome :=
  bindb (of_option (Container.lookup Container.KANMF (Container.d_chunks dec)) PUnwrap) (Some buf) (fun anmf =>
  bindb (Container.sub_u64 (fst anmf) 8) (Some buf) (fun start =>
  let '(r, _, buf') := read_frame dec (fresh_fstate start) buf in
  (match r with Ok _ => Ok tt | Err e => Err e | Panic p => Panic p | OutOfFuel => OutOfFuel end, Some buf'))).

Definition read_image (dec : Container.decoder) (buf : list Z) : outcome :=
  (* if Some(buf.len()) != self.output_buffer_size() { return Err(ImageTooLarge) } *)
  if negb (match Container.output_buffer_size dec with Some n => Container.len buf =? n | None => false end)
  then (Err EImageTooLarge, Some buf) else
  if Container.is_animated dec then read_image_animated dec buf else
  match Container.lookup Container.KVP8L (Container.d_chunks dec) with
  | Some range => read_image_vp8l dec range buf
  | None => read_image_vp8 dec buf
  end.

(* WebPDecoder::new followed by read_image on a buffer *)
Definition decode_file (file buf : list Z) : res (Container.decoder * outcome) :=
  let* dec := Container.new file in Ok (dec, read_image dec buf).

End WithVp8.

(* ---------------------------------------------------------------------------------------------- *)
(* entry points of the extracted oracle (distinctive names, plain tuples)                           *)
(* ---------------------------------------------------------------------------------------------- *)
From WebP Require Spec.VP8.

(* the oracle's instance of the parameter: the executable VP8 specification.  It has no error classes: a rejected payload
   is reported with the marker EInvalidParameter (no decoding path produces it), printed as `Vp8Decode` *)
Definition rimg_vp8 (data : list Z) : res (Z * Z * list Z * list Z * list Z) :=
  match Spec.VP8.decode data with Some x => Ok x | None => Err EInvalidParameter end.

(* WebPDecoder::new, then read_image on a buffer of [buflen] bytes all equal to [fill];
   (width, height, has_alpha, is_animated, outcome, the buffer that was passed) *)
Definition rimg_still (file : list Z) (buflen fill : Z) : res (Z * Z * bool * bool * outcome * list Z) :=
  let buf := repeat fill (Z.to_nat buflen) in
  let* dec := Container.new file in
  Ok (Container.d_width dec, Container.d_height dec, Container.d_has_alpha dec, Container.is_animated dec, read_image rimg_vp8 dec buf, buf).

(* WebPDecoder::new, then [n] calls of read_frame on a buffer of output_buffer_size() bytes, initially all [fill] *)
Definition rimg_frames (file : list Z) (n fill : Z) : res (Z * Z * bool * bool * list (res Z * list Z)) :=
  let* dec := Container.new file in
  let buflen := match Container.output_buffer_size dec with Some k => k | None => 0 end in
  Ok (Container.d_width dec, Container.d_height dec, Container.d_has_alpha dec, Container.is_animated dec,
      play rimg_vp8 dec (Z.to_nat n) (repeat fill (Z.to_nat buflen))).
