(* Gallina mirror of the PARSING side of the macroblock loop of `Vp8Decoder::decode_frame_` (src/vp8.rs), on top of
   Model.Vp8Parse (read_frame_header, read_macroblock_header, read_residual_data) and Model.ArithDec.

     fn decode_frame_(mut self) -> Result<Frame, DecodingError> {
         self.read_frame_header()?;
         for mby in 0..self.mbheight as usize {
             let p = mby % self.num_partitions as usize;
             self.left = MacroBlock::default();
             for mbx in 0..self.mbwidth as usize {
                 let mut mb = self.read_macroblock_header(mbx)?;
                 let blocks = if !mb.coeffs_skipped {
                     let (blocks, non_zero) = self.read_residual_data(&mb, mbx, p)?;
                     mb.non_zero_coeffs = non_zero;
                     blocks
                 } else {
                     if mb.luma_mode != LumaMode::B { self.left.complexity[0] = 0; self.top[mbx].complexity[0] = 0; }
                     for i in 1usize..9 { self.left.complexity[i] = 0; self.top[mbx].complexity[i] = 0; }
                     [0i32; 384]
                 };
                 self.intra_predict_luma(mbx, mby, &mb, &blocks);      -- not modelled here (Model.Vp8Predict's area)
                 self.intra_predict_chroma(mbx, mby, &mb, &blocks);    -- not modelled here
                 self.macroblocks.push(mb);
             }
             self.left_border = vec![129u8; 1 + 16];                   -- prediction state, not modelled
         }
         ... loop filter, crop: not modelled here ...

   One definition per loop; the trip counts are the nat arguments (no data-dependent loop, hence no fuel).  Every index,
   the `%` by a zero divisor and every `?` are explicit.  What the loop hands to the reconstruction side is returned per
   macroblock, in raster order: the `MacroBlock` pushed to `self.macroblocks` (sub-block modes, luma / chroma mode, segment
   id, coeffs_skipped, non_zero_coeffs: everything prediction and the loop filter read) and the `[i32; 384]` residuals.
   No proofs in this file (the oracle is extracted from it). *)
From Coq Require Import ZArith List Bool.
From WebP Require Import Lib.Res Gen.Kernels Gen.Tables Model.ArithDec Model.Vp8Parse.
Import ListNotations.
Open Scope Z_scope.
Open Scope res_scope.

Definition mb_set_non_zero_coeffs (m : MacroBlock) (x : bool) : MacroBlock :=
  mkMB (mb_bpred m) (mb_complexity m) (mb_luma_mode m) (mb_chroma_mode m) (mb_segmentid m) (mb_coeffs_skipped m) x.

(* `a % b` on usize *)
Definition usize_rem (a b : Z) : res Z := if b =? 0 then Panic PDivZero else Ok (a mod b).

(* for i in i0..i0+n { self.left.complexity[i] = 0; self.top[mbx].complexity[i] = 0; } *)
Fixpoint clear_complexities (n : nat) (i : Z) (v : Vp8) (mbx : Z) : res Vp8 :=
  match n with
  | O => Ok v
  | S k =>
    let* v1 := set_left_complexity v i 0 in
    let* v2 := set_top_complexity v1 mbx i 0 in
    clear_complexities k (i + 1) v2 mbx
  end.

(* the `else` branch: a macroblock whose coefficients are skipped *)
Definition skipped_macroblock (v : Vp8) (mb : MacroBlock) (mbx : Z) : res Vp8 :=
  let* v :=
    if negb (mb_luma_mode mb =? vp8_B_PRED) then
      let* v1 := set_left_complexity v 0 0 in
      set_top_complexity v1 mbx 0 0
    else Ok v in
  clear_complexities 8 1 v mbx.

(* the body of `for mbx`, without prediction: the macroblock as pushed, its residuals, the state *)
Definition parse_macroblock (v : Vp8) (mbx p : Z) : res (MacroBlock * list Z * Vp8) :=
  let* '(mb, v) := read_macroblock_header v mbx in
  if negb (mb_coeffs_skipped mb) then
    let* '(blocks, non_zero, v) := read_residual_data v mb mbx p in
    Ok (mb_set_non_zero_coeffs mb non_zero, blocks, v)
  else
    let* v := skipped_macroblock v mb mbx in
    Ok (mb, repeat 0 384, v).

(* for mbx in mbx..mbx+n; acc = the records so far, latest first *)
Fixpoint parse_mb_row (n : nat) (mbx : Z) (v : Vp8) (p : Z) (acc : list (MacroBlock * list Z))
  : res (list (MacroBlock * list Z) * Vp8) :=
  match n with
  | O => Ok (acc, v)
  | S k =>
    let* '(mb, blocks, v1) := parse_macroblock v mbx p in
    parse_mb_row k (mbx + 1) v1 p ((mb, blocks) :: acc)
  end.

(* for mby in mby..mby+n *)
Fixpoint parse_mb_rows (n : nat) (mby : Z) (v : Vp8) (acc : list (MacroBlock * list Z))
  : res (list (MacroBlock * list Z) * Vp8) :=
  match n with
  | O => Ok (acc, v)
  | S k =>
    let* p := usize_rem mby (v_num_partitions v) in
    let v := set_left v MacroBlock_default in
    let* '(acc1, v1) := parse_mb_row (Z.to_nat (v_mbwidth v)) 0 v p acc in
    parse_mb_rows k (mby + 1) v1 acc1
  end.

(* the two nested loops from the state read_frame_header leaves: records in raster order, final state *)
Definition parse_frame_loop (v : Vp8) : res (list (MacroBlock * list Z) * Vp8) :=
  let* '(acc, v1) := parse_mb_rows (Z.to_nat (v_mbheight v)) 0 v [] in
  Ok (rev_append acc [], v1).

(* Vp8Decoder::decode_frame(r) up to the end of parsing: new, read_frame_header, the macroblock loop *)
Definition parse_frame (payload : list Z) : res (list (MacroBlock * list Z) * Vp8) :=
  let* v0 := Vp8_new payload in
  let* v := read_frame_header v0 in
  parse_frame_loop v.

(* ------------------------------------------------------------------------------------------------------------ *)
(* oracle entry point (ocaml/o_vp8frame.ml): the same loops, keeping the records made before a failure and, per   *)
(* macroblock, the parsing state the real decoder is in at that point (hook verif_parse::record_macroblock)       *)
(* ------------------------------------------------------------------------------------------------------------ *)
(* one record: [macroblock (30 numbers); residuals (384); registers of b; registers of partition p; top[mbx]; left] *)
Definition vp8f_record (mb : MacroBlock) (blocks : list Z) (v : Vp8) (mbx p : Z) : list (list Z) :=
  [ dump_mb mb; blocks; dump_dec (v_b v); dump_dec (nth (Z.to_nat p) (v_partitions v) ArithDec.new);
    dump_mb (nth (Z.to_nat mbx) (v_top v) MacroBlock_default); dump_mb (v_left v) ].

Fixpoint trace_mb_row (n : nat) (mbx : Z) (v : Vp8) (p : Z) (acc : list (list (list Z))) : list (list (list Z)) * res Vp8 :=
  match n with
  | O => (acc, Ok v)
  | S k =>
    match parse_macroblock v mbx p with
    | Ok (mb, blocks, v1) => trace_mb_row k (mbx + 1) v1 p (vp8f_record mb blocks v1 mbx p :: acc)
    | Err e => (acc, Err e)
    | Panic q => (acc, Panic q)
    | OutOfFuel => (acc, OutOfFuel)
    end
  end.

Fixpoint trace_mb_rows (n : nat) (mby : Z) (v : Vp8) (acc : list (list (list Z))) : list (list (list Z)) * res Vp8 :=
  match n with
  | O => (acc, Ok v)
  | S k =>
    match usize_rem mby (v_num_partitions v) with
    | Ok p =>
      let v := set_left v MacroBlock_default in
      match trace_mb_row (Z.to_nat (v_mbwidth v)) 0 v p acc with
      | (acc1, Ok v1) => trace_mb_rows k (mby + 1) v1 acc1
      | r => r
      end
    | Err e => (acc, Err e)
    | Panic q => (acc, Panic q)
    | OutOfFuel => (acc, OutOfFuel)
    end
  end.

Definition vp8f_status {A} (r : res A) : Z :=
  match r with
  | Ok _ => 0
  | Err e => vp8p_err_code e
  | Panic _ => 100
  | OutOfFuel => 101
  end.

(* (status, [mbwidth; mbheight; num_partitions; width; height] after the header ([] if the header failed), records in raster order) *)
Definition vp8f_run (payload : list Z) : Z * list Z * list (list (list Z)) :=
  match (let* v0 := Vp8_new payload in read_frame_header v0) with
  | Ok v =>
    let '(acc, r) := trace_mb_rows (Z.to_nat (v_mbheight v)) 0 v [] in
    (vp8f_status r, [v_mbwidth v; v_mbheight v; v_num_partitions v; fi_width (v_frame v); fi_height (v_frame v)],
     rev_append acc [])
  | r => (vp8f_status r, [], [])
  end.
