(* I/O-faithful re-statement of the container layer of image-webp (property C10).

   Model/Container.v models src/decoder.rs (WebPDecoder::new -> read_data, read_chunk_header, read_fourcc, read_chunk,
   the metadata accessors) and src/extended.rs (read_extended_header, read_3_bytes) over a pure cursor.  This file
   states the SAME functions, in the same order of operations, over an abstract `R: BufRead + Seek`:

     rstate = { r_data; r_pos; r_calls; r_sched; r_fail_at }
       r_data     the bytes behind the reader (never modified)
       r_pos      the reader's position (u64; may be beyond the end after a seek)
       r_calls    number of calls of R's REQUIRED methods made so far (read / fill_buf / seek)
       r_sched    r_sched k = how many bytes the k-th call may expose (clamped to >= 1: the Read / BufRead contract
                  forbids a 0-byte answer while data remains)
       r_fail_at  Some k: the call with index k fails; the fault is transient -- later calls work again
       r_fail_eof the kind of that failure: false = a kind that is neither UnexpectedEof nor Interrupted
                  (io::ErrorKind::Other in the harness, [XFault]); true = UnexpectedEof ([XEof]).  Property C10 is
                  about the first; the second is there to show that the restriction is necessary
                  (Proofs/ContainerIO_examples.v: eof_kind_fault_swallowed)

   How the crate reaches the reader (std 1.9x `library/std/src/io/{mod,impls}.rs`, byteorder-lite 0.1 `io.rs`), and
   therefore which required-method calls are counted:
     r.read_exact(buf)                 std default `default_read_exact`: `while !buf.is_empty() { match r.read(buf) {
                                       Ok(0) => break, Ok(n) => buf = &mut buf[n..], Err(Interrupted) => {}, Err(e) =>
                                       return Err(e) } }`, then UnexpectedEof when the buffer is not full.
                                       => one call per `read`, including the final 0-byte one; NO call when buf is empty
                                       (`&mut R` forwards read_exact to R, which keeps the default)
     read_u8 / read_u16 / read_u24 / read_u32::<LittleEndian>   byteorder-lite: read_exact into [0; 1|2|3|4]
     r.seek(SeekFrom::Start(p))        one call
     r.stream_position()               std default = `self.seek(SeekFrom::Current(0))`: ONE CALL
     r.seek_relative(off)              std default = `self.seek(SeekFrom::Current(off))?; Ok(())`: one call
     Cursor::new(chunk) (ANIM payload) an in-memory cursor over an owned Vec: no call on R
   `fill_buf`, `take` and `read_to_end` are not used by the container layer (they belong to the bit readers).

   Error kinds: [XEof] = io::Error of kind UnexpectedEof (std's read_exact on short data), [XFault] = the injected
   failure, [XInvalidSeek] = InvalidInput of a seek to a negative / overflowing position, [XDec e] = any other
   DecodingError variant.  decoder.rs' chunk scan treats `IoError(e) if e.kind() == UnexpectedEof` coming out of
   read_chunk_header as end of file; that special case is mirrored in [scan_body].

   The decoder record is decoder (same fields); the reader state is threaded beside it.
   Modelled WITH fixes F1 and F13, like Model/Container.v.  No proofs in this file. *)
From Coq Require Import ZArith List Bool.
From WebP Require Import Lib.Res Model.Container.
Import ListNotations.
Open Scope Z_scope.

(* Types, constants and pure helpers (chunk_kind, chunk_map, lookup, or_insert, add_u64, decoder, ...) are those of
   Model.Container; the reader functions defined below shadow their pure namesakes, which are written
   Model.Container.x where they are meant. *)

(* ---------------------------------------------------------------------------------------------- *)
(* results, state, monad                                                                            *)
(* ---------------------------------------------------------------------------------------------- *)
Inductive xerr := XEof | XFault | XInvalidSeek | XDec (e : err).

Inductive ires (A : Type) := IOk (a : A) | IErr (e : xerr) | IPanic (p : panic) | IOutOfFuel.
Arguments IOk {A} a. Arguments IErr {A} e. Arguments IPanic {A} p. Arguments IOutOfFuel {A}.

Record rstate := {
  r_data : list Z;
  r_pos : Z;
  r_calls : Z;
  r_sched : Z -> Z;
  r_fail_at : option Z;
  r_fail_eof : bool
}.

Definition init_kind (eof : bool) (sched : Z -> Z) (fail_at : option Z) (d : list Z) : rstate :=
  {| r_data := d; r_pos := 0; r_calls := 0; r_sched := sched; r_fail_at := fail_at; r_fail_eof := eof |}.
Definition init := init_kind false.

(* the error the failing call returns *)
Definition fault_err (eof : bool) : xerr := if eof then XEof else XFault.

Definition M (A : Type) : Type := rstate -> ires A * rstate.

Definition ret {A} (a : A) : M A := fun s => (IOk a, s).
Definition fail {A} (e : xerr) : M A := fun s => (IErr e, s).

(* continue with the outcome of [m], whatever it is (a Rust `match` on a Result) *)
Definition handle {A B} (m : M A) (h : ires A -> M B) : M B := fun s => let '(r, s') := m s in h r s'.

(* the `?` operator *)
Definition bind {A B} (m : M A) (f : A -> M B) : M B :=
  handle m (fun r => match r with
                     | IOk a => f a
                     | IErr e => fun s => (IErr e, s)
                     | IPanic p => fun s => (IPanic p, s)
                     | IOutOfFuel => fun s => (IOutOfFuel, s)
                     end).

Declare Scope io_scope.
Notation "'let!' x ':=' r 'in' f" := (bind r (fun x => f)) (at level 200, x pattern, r at level 100, f at level 200) : io_scope.
Notation "'let!' ' p ':=' r 'in' f" := (bind r (fun p => f)) (at level 200, p pattern, r at level 100, f at level 200) : io_scope.
Open Scope io_scope.

(* a computation that does not touch the reader; an IoError can only come from the reader, so [Err EIo] has no image *)
Definition of_res {A} (r : res A) : ires A :=
  match r with Ok a => IOk a | Err e => IErr (XDec e) | Panic p => IPanic p | OutOfFuel => IOutOfFuel end.
Definition lift {A} (r : res A) : M A := fun s => (of_res r, s).

(* a computation over an in-memory std::io::Cursor (pure model: Model.Container over the payload): its only I/O
   error is UnexpectedEof *)
Definition of_res_cursor {A} (r : res A) : ires A :=
  match r with Ok a => IOk a | Err EIo => IErr XEof | Err e => IErr (XDec e) | Panic p => IPanic p | OutOfFuel => IOutOfFuel end.
Definition lift_cursor {A} (r : res A) : M A := fun s => (of_res_cursor r, s).

(* `self.r` as a value (used once, to fill the decoder record) *)
Definition get_data : M (list Z) := fun s => (IOk (r_data s), s).

(* ---------------------------------------------------------------------------------------------- *)
(* the reader's required methods                                                                    *)
(* ---------------------------------------------------------------------------------------------- *)
(* firstn / skipn with a Z count (no conversion of a u64 to nat) *)
Fixpoint takez (n : Z) (l : list Z) : list Z :=
  match l with
  | [] => []
  | x :: t => if n <=? 0 then [] else x :: takez (n - 1) t
  end.
Fixpoint dropz (n : Z) (l : list Z) : list Z :=
  match l with
  | [] => []
  | x :: t => if n <=? 0 then l else dropz (n - 1) t
  end.

Definition is_fail (fail_at : option Z) (c : Z) : bool :=
  match fail_at with Some k => k =? c | None => false end.

Definition window (sched : Z -> Z) (c : Z) : Z := Z.max 1 (sched c).

Definition set_pos_calls (s : rstate) (p c : Z) : rstate :=
  {| r_data := r_data s; r_pos := p; r_calls := c; r_sched := r_sched s; r_fail_at := r_fail_at s;
     r_fail_eof := r_fail_eof s |}.

(* what is left between the position and the end of the data *)
Definition remaining (s : rstate) : list Z := dropz (r_pos s) (r_data s).

(* List.rev, tail-recursive and linear (the standard library's rev is quadratic) *)
Definition rev_tr (l : list Z) : list Z := rev_append l [].

(* One `R::read(buf)` with `buf.len() = want > 0`: counted, may be the failing call, otherwise delivers
   min(window, want, remaining) bytes -- 0 bytes exactly when nothing remains. *)
Definition read_call (want : Z) : M (list Z) := fun s =>
  let c := r_calls s in
  if is_fail (r_fail_at s) c then (IErr (fault_err (r_fail_eof s)), set_pos_calls s (r_pos s) (c + 1))
  else let got := takez (Z.min (window (r_sched s) c) want) (remaining s) in
       (IOk got, set_pos_calls s (r_pos s + len got) (c + 1)).

(* std::io::default_read_exact, with the not-yet-delivered part of the data [rem], the call counter and the number
   of bytes consumed threaded locally (so that one read_exact costs O(position + length), whatever the schedule).
   Every iteration is one [read_call] (see Proofs/ContainerIO_prims.v: read_exact_unfold).
   racc = bytes delivered so far, reversed.  Fuel: every successful call consumes at least one byte of [rem]. *)
Fixpoint read_loop (fuel : nat) (sched : Z -> Z) (fail_at : option Z) (fk : xerr) (rem : list Z) (want calls : Z)
  (racc : list Z) (nread : Z) : ires (list Z) * Z * Z :=
  if want <=? 0 then (IOk (rev_tr racc), calls, nread) else
  match fuel with
  | O => (IOutOfFuel, calls, nread)
  | S fuel' =>
      if is_fail fail_at calls then (IErr fk, calls + 1, nread) else
      let got := takez (Z.min (window sched calls) want) rem in
      match got with
      | [] => (IErr XEof, calls + 1, nread)                       (* Ok(0) => break; buffer not full *)
      | _ :: _ =>
          let n := len got in
          read_loop fuel' sched fail_at fk (dropz n rem) (want - n) (calls + 1) (rev_append got racc) (nread + n)
      end
  end.

Definition read_exact (n : Z) : M (list Z) := fun s =>
  let rem := remaining s in
  let '(r, calls, nread) :=
    read_loop (S (length rem)) (r_sched s) (r_fail_at s) (fault_err (r_fail_eof s)) rem n (r_calls s) [] 0 in
  (r, set_pos_calls s (r_pos s + nread) calls).

(* `R::seek`: counted, may be the failing call; InvalidInput when the target is negative or exceeds u64 *)
Definition seek_to (target : rstate -> Z) : M Z := fun s =>
  let c := r_calls s in
  if is_fail (r_fail_at s) c then (IErr (fault_err (r_fail_eof s)), set_pos_calls s (r_pos s) (c + 1))
  else let np := target s in
       if (np <? 0) || (u64_max <? np) then (IErr XInvalidSeek, set_pos_calls s (r_pos s) (c + 1))
       else (IOk np, set_pos_calls s np (c + 1)).

Definition seek_start (p : Z) : M Z := seek_to (fun _ => p).                   (* seek(SeekFrom::Start(p)) *)
Definition seek_current (off : Z) : M Z := seek_to (fun s => r_pos s + off).   (* seek(SeekFrom::Current(off)) *)
Definition stream_position : M Z := seek_current 0.
Definition seek_relative (off : Z) : M unit := let! _ := seek_current off in ret tt.

(* ---------------------------------------------------------------------------------------------- *)
(* byteorder-lite readers, extended.rs::read_3_bytes                                                *)
(* ---------------------------------------------------------------------------------------------- *)
Definition read_u8 : M Z := let! b := read_exact 1 in ret (nth_byte b 0).
Definition read_u16_le : M Z := let! b := read_exact 2 in ret (nth_byte b 0 + 256 * nth_byte b 1).
Definition read_u24_le : M Z :=
  let! b := read_exact 3 in ret (nth_byte b 0 + 256 * nth_byte b 1 + 65536 * nth_byte b 2).
Definition read_u32_le : M Z :=
  let! b := read_exact 4 in
  ret (nth_byte b 0 + 256 * nth_byte b 1 + 65536 * nth_byte b 2 + 16777216 * nth_byte b 3).
Definition read_3_bytes : M Z :=
  let! b := read_exact 3 in
  ret (Z.lor (Z.lor (Z.shiftl (nth_byte b 2) 16) (Z.shiftl (nth_byte b 1) 8)) (nth_byte b 0)).

(* decoder.rs::read_fourcc, read_chunk_header *)
Definition read_fourcc : M chunk_kind := let! b := read_exact 4 in ret (from_fourcc b).

Definition read_chunk_header : M (chunk_kind * Z * Z) :=
  let! chunk := read_fourcc in
  let! chunk_size := read_u32_le in
  let chunk_size_rounded := Z.min (chunk_size + Z.land chunk_size 1) u32_max in
  ret (chunk, chunk_size, chunk_size_rounded).

(* extended.rs::read_extended_header *)
Definition read_extended_header : M extended_info :=
  let! chunk_flags := read_u8 in
  let icc_profile := negb (Z.land chunk_flags 32 =? 0) in
  let alpha := negb (Z.land chunk_flags 16 =? 0) in
  let exif_metadata := negb (Z.land chunk_flags 8 =? 0) in
  let xmp_metadata := negb (Z.land chunk_flags 4 =? 0) in
  let animation := negb (Z.land chunk_flags 2 =? 0) in
  let! _reserved := read_3_bytes in
  let! w1 := read_3_bytes in
  let! canvas_width := lift (add_u32 w1 1) in
  let! h1 := read_3_bytes in
  let! canvas_height := lift (add_u32 h1 1) in
  if u32_max <? canvas_width * canvas_height then fail (XDec EImageTooLarge) else
  ret {| e_alpha := alpha; e_canvas_width := canvas_width; e_canvas_height := canvas_height;
         e_icc_profile := icc_profile; e_exif_metadata := exif_metadata; e_xmp_metadata := xmp_metadata;
         e_animation := animation; e_background_color := [0; 0; 0; 0] |}.

(* ---------------------------------------------------------------------------------------------- *)
(* WebPDecoder                                                                                      *)
(* ---------------------------------------------------------------------------------------------- *)
(* read_chunk(chunk, max_size): size test, then seek(Start(range.start)), vec![0; size], read_exact *)
Definition read_chunk_in (chunks : chunk_map) (chunk : chunk_kind) (max_size : Z) : M (option (list Z)) :=
  match lookup chunk chunks with
  | Some (rstart, rend) =>
      let! sz := lift (sub_u64 rend rstart) in
      if max_size <? sz then fail (XDec EMemoryLimitExceeded) else
      let! _ := seek_start rstart in
      let! data := read_exact sz in
      ret (Some data)
  | None => ret None
  end.

(* locals / fields updated by the chunk scan of the VP8X branch (the reader position lives in the reader) *)
Record scan_state := {
  s_position : Z;
  s_chunks : chunk_map;
  s_num_frames : Z;
  s_loop_duration : Z;
  s_is_lossy : bool
}.
Inductive step := Continue (st : scan_state) | Break.

(* body of `while position < max_position` *)
Definition scan_body (st : scan_state) : M step :=
  handle read_chunk_header (fun r =>
    match r with
    | IOk (chunk, chunk_size, chunk_size_rounded) =>
        let! range_start := lift (add_u64 (s_position st) 8) in
        let! range_end := lift (add_u64 range_start chunk_size) in
        let! t := lift (add_u64 8 chunk_size_rounded) in
        let! position := lift (add_u64 (s_position st) t) in
        let chunks := if negb (is_unknown chunk) then or_insert chunk (range_start, range_end) (s_chunks st)
                      else s_chunks st in
        if kind_eqb chunk KANMF then
          let! num_frames := lift (add_u32 (s_num_frames st) 1) in
          if chunk_size <? 24 then fail (XDec EInvalidChunkSize) else
          let! _ := seek_relative 12 in
          let! v := read_u32_le in
          let duration := Z.land v 16777215 in
          let loop_duration := (s_loop_duration st + duration) mod 18446744073709551616 in
          if negb (s_is_lossy st) then
            let! '(subchunk, _, _) := read_chunk_header in
            let is_lossy := match subchunk with KVP8 | KALPH => true | _ => s_is_lossy st end in
            let! off := lift (sub_i64 chunk_size_rounded 24) in
            let! _ := seek_relative off in
            ret (Continue {| s_position := position; s_chunks := chunks; s_num_frames := num_frames;
                             s_loop_duration := loop_duration; s_is_lossy := is_lossy |})
          else
            let! off := lift (sub_i64 chunk_size_rounded 16) in
            let! _ := seek_relative off in
            ret (Continue {| s_position := position; s_chunks := chunks; s_num_frames := num_frames;
                             s_loop_duration := loop_duration; s_is_lossy := s_is_lossy st |})
        else
          let! _ := seek_relative chunk_size_rounded in
          ret (Continue {| s_position := position; s_chunks := chunks; s_num_frames := s_num_frames st;
                           s_loop_duration := s_loop_duration st; s_is_lossy := s_is_lossy st |})
    | IErr XEof => ret Break              (* Err(IoError(e)) if e.kind() == UnexpectedEof => break *)
    | IErr e => fail e                    (* Err(e) => return Err(e) *)
    | IPanic p => fun s => (IPanic p, s)
    | IOutOfFuel => fun s => (IOutOfFuel, s)
    end).

Fixpoint scan (fuel : nat) (max_position : Z) (st : scan_state) : M scan_state :=
  match fuel with
  | O => fun s => (IOutOfFuel, s)
  | S fuel' =>
      if s_position st <? max_position then
        let! stp := scan_body st in
        match stp with
        | Continue st' => scan fuel' max_position st'
        | Break => ret st
        end
      else ret st
  end.

(* `for _ in 0..2` registering the sub-chunks of the first frame *)
Fixpoint first_frame_loop (n : nat) (range_end position : Z) (chunks : chunk_map) : M chunk_map :=
  match n with
  | O => ret chunks
  | S n' =>
      let! '(subchunk, subchunk_size, subchunk_size_rounded) := read_chunk_header in
      let! sub_start := lift (add_u64 position 8) in
      let! sub_end := lift (add_u64 sub_start subchunk_size) in
      let chunks := or_insert subchunk (sub_start, sub_end) chunks in
      let! t := lift (add_u64 8 subchunk_size_rounded) in
      let! position := lift (add_u64 position t) in
      let! e := lift (add_u64 position 8) in
      if range_end <? e then ret chunks else first_frame_loop n' range_end position chunks
  end.

(* the ANIM payload, read through Cursor::new(chunk) *)
Definition parse_anim (info : extended_info) (chunks : chunk_map) (chunk : list Z)
  : res (extended_info * LoopCount * Z) :=
  Res.bind (Model.Container.read_exact chunk 0 4) (fun '(bg, cp) =>
  Res.bind (Model.Container.read_u16_le chunk cp) (fun '(n, _) =>
  Res.bind (if n =? 0 then Ok Forever else (if n =? 0 then Panic PUnwrap else Ok (Times n))) (fun loop_count =>
  Res.bind (of_option (lookup KANMF chunks) PUnwrap) (fun anmf =>
  Res.bind (sub_u64 (fst anmf) 8) (fun nfs =>
  Ok ({| e_alpha := e_alpha info; e_canvas_width := e_canvas_width info;
         e_canvas_height := e_canvas_height info; e_icc_profile := e_icc_profile info;
         e_exif_metadata := e_exif_metadata info; e_xmp_metadata := e_xmp_metadata info;
         e_animation := e_animation info;
         e_background_color := swap02 bg |}, loop_count, nfs)))))).

(* WebPDecoder::new = initial field values + read_data *)
Definition new : M decoder :=
  let! d := get_data in
  let! '(riff, riff_size, _) := read_chunk_header in
  if negb (kind_eqb riff KRIFF) then fail (XDec EChunkHeaderInvalid) else
  let! webp := read_fourcc in
  if negb (kind_eqb webp KWEBP) then fail (XDec EWebpSignatureInvalid) else
  let! '(chunk, chunk_size, chunk_size_rounded) := read_chunk_header in
  let! start := stream_position in
  match chunk with
  | KVP8 =>
      let! tag := read_u24_le in
      let keyframe := Z.land tag 1 =? 0 in
      if negb keyframe then fail (XDec EUnsupportedFeature) else
      let! magic := read_exact 3 in
      if negb (bytes_eqb magic [157; 1; 42]) then fail (XDec EVp8MagicInvalid) else
      let! w := read_u16_le in
      let! h := read_u16_le in
      let width := Z.land w 16383 in
      let height := Z.land h 16383 in
      if (width =? 0) || (height =? 0) then fail (XDec EInconsistentImageSizes) else
      let! range_end := lift (add_u64 start chunk_size) in
      ret (mk_decoder d width height Lossy 0 true false 0 (Times 1) 0 [(KVP8, (start, range_end))])
  | KVP8L =>
      let! signature := read_u8 in
      if negb (signature =? 47) then fail (XDec ELosslessSignatureInvalid) else
      let! header := read_u32_le in
      let version := Z.shiftr header 29 in
      if negb (version =? 0) then fail (XDec EVersionNumberInvalid) else
      let! width := lift (add_u32 (Z.land header 16383) 1) in                        (* fix F1 *)
      let! height := lift (add_u32 (Z.land (Z.shiftr header 14) 16383) 1) in
      let! range_end := lift (add_u64 start chunk_size) in
      let has_alpha := negb (Z.land (Z.shiftr header 28) 1 =? 0) in
      ret (mk_decoder d width height Lossless 0 false has_alpha 0 (Times 1) 0 [(KVP8L, (start, range_end))])
  | KVP8X =>
      let! info := read_extended_header in
      let width := e_canvas_width info in
      let height := e_canvas_height info in
      let! position := lift (add_u64 start chunk_size_rounded) in
      let! max_position := lift (add_u64 position (Z.max (riff_size - 12) 0)) in
      let! _ := seek_start position in
      let! st := scan (S (length d)) max_position
                   {| s_position := position; s_chunks := []; s_num_frames := 0; s_loop_duration := 0;
                      s_is_lossy := false |} in
      let chunks := s_chunks st in
      let is_lossy := s_is_lossy st || contains_key KVP8 chunks in
      if e_animation info && (negb (contains_key KANIM chunks) || negb (contains_key KANMF chunks))
         || e_icc_profile info && negb (contains_key KICCP chunks)
         || e_exif_metadata info && negb (contains_key KEXIF chunks)
         || e_xmp_metadata info && negb (contains_key KXMP chunks)
         || negb (e_animation info) && Bool.eqb (contains_key KVP8 chunks) (contains_key KVP8L chunks)
      then fail (XDec EChunkMissing) else
      (* Decode ANIM chunk *)
      let! '(info, loop_count, next_frame_start) :=
        if e_animation info then
          handle (read_chunk_in chunks KANIM 6) (fun r =>
            match r with
            | IOk (Some chunk) => lift_cursor (parse_anim info chunks chunk)
            | IOk None => fail (XDec EChunkMissing)
            | IErr (XDec EMemoryLimitExceeded) => fail (XDec EInvalidChunkSize)
            | IErr e => fail e
            | IPanic pk => fun s => (IPanic pk, s)
            | IOutOfFuel => fun s => (IOutOfFuel, s)
            end)
        else ret (info, Times 1, 0) in
      (* sub-chunks of the first frame *)
      let! chunks :=
        match lookup KANMF chunks with
        | Some (rstart, rend) =>
            let! position := lift (add_u64 rstart 16) in
            let! _ := seek_start position in
            first_frame_loop 2 rend position chunks
        | None => ret chunks
        end in
      ret (mk_decoder d width height (ExtendedKind info) next_frame_start is_lossy (e_alpha info)
             (s_num_frames st) loop_count (s_loop_duration st) chunks)
  | _ => fail (XDec EChunkHeaderInvalid)
  end.

(* ---------------------------------------------------------------------------------------------- *)
(* accessors that touch the reader                                                                  *)
(* ---------------------------------------------------------------------------------------------- *)
Definition read_chunk (dec : decoder) (chunk : chunk_kind) (max_size : Z) : M (option (list Z)) :=
  read_chunk_in (d_chunks dec) chunk max_size.
Definition icc_profile (dec : decoder) := read_chunk dec KICCP (d_memory_limit dec).
Definition exif_metadata (dec : decoder) := read_chunk dec KEXIF (d_memory_limit dec).
Definition xmp_metadata (dec : decoder) := read_chunk dec KXMP (d_memory_limit dec).

(* ---------------------------------------------------------------------------------------------- *)
(* the ANMF header part of read_frame (everything before the frame payload is decoded)              *)
(* ---------------------------------------------------------------------------------------------- *)
Record frame_header := {
  fh_anmf_size : Z; fh_x : Z; fh_y : Z; fh_width : Z; fh_height : Z; fh_duration : Z;
  fh_use_alpha_blending : bool; fh_dispose : bool;
  fh_chunk : chunk_kind; fh_chunk_size : Z; fh_chunk_size_rounded : Z;
  fh_next_frame_start : Z       (* animation.next_frame_start as the loop over skipped chunks left it *)
}.

Definition mul_u32 (a b : Z) : res Z := if a * b <=? u32_max then Ok (a * b) else Panic POverflow.

(* `let anmf_size = loop { match read_chunk_header(&mut self.r)? { (ANMF, size, _) if size >= 32 => break size,
       (ANMF, _, _) => return Err(ChunkHeaderInvalid of b"ANMF"),
       (_, _, size_rounded) => { self.r.seek_relative(size_rounded as i64)?;
                                 self.animation.next_frame_start += size_rounded + 8; } } }`
   Chunks that sit between two ANMF chunks are stepped over: one read_chunk_header (two read_exact) and one
   seek_relative per skipped chunk.  Returns (anmf_size, next_frame_start).  Every iteration reads 8 more bytes of the
   file from a strictly larger position or ends in an error, so a fuel of S (length data) is never exhausted. *)
Fixpoint skip_to_anmf (fuel : nat) (next_frame_start : Z) : M (Z * Z) :=
  match fuel with
  | O => fun s => (IOutOfFuel, s)
  | S fuel' =>
      let! '(k, size, size_rounded) := read_chunk_header in
      if kind_eqb k KANMF then
        if 32 <=? size then ret (size, next_frame_start) else fail (XDec EChunkHeaderInvalid)
      else
        let! _ := seek_relative size_rounded in
        let! t := lift (add_u64 size_rounded 8) in
        let! nfs := lift (add_u64 next_frame_start t) in
        skip_to_anmf fuel' nfs
  end.

(* read_frame from `self.r.seek(Start(next_frame_start))` up to the `match chunk` that selects the payload decoder.
   [width], [height] = canvas size (self.width / self.height).  The update of next_frame_start made by the skipping
   loop is a side effect on the decoder in Rust (it also survives a later error of the same call); here it is
   returned in the header record. *)
Definition read_frame_header (width height next_frame_start : Z) : M frame_header :=
  let! _ := seek_start next_frame_start in
  let! d := get_data in
  let! '(anmf_size, next_frame_start) := skip_to_anmf (S (length d)) next_frame_start in
  let! x := read_3_bytes in
  let! frame_x := lift (mul_u32 x 2) in
  let! y := read_3_bytes in
  let! frame_y := lift (mul_u32 y 2) in
  let! w1 := read_3_bytes in
  let! frame_width := lift (add_u32 w1 1) in
  let! h1 := read_3_bytes in
  let! frame_height := lift (add_u32 h1 1) in
  if (16384 <? frame_width) || (16384 <? frame_height) then fail (XDec EImageTooLarge) else
  let! xe := lift (add_u32 frame_x frame_width) in
  if width <? xe then fail (XDec EFrameOutsideImage) else
  let! ye := lift (add_u32 frame_y frame_height) in
  if height <? ye then fail (XDec EFrameOutsideImage) else
  let! duration := read_3_bytes in
  let! frame_info := read_u8 in
  let use_alpha_blending := Z.land frame_info 2 =? 0 in
  let dispose := negb (Z.land frame_info 1 =? 0) in
  let! '(chunk, chunk_size, chunk_size_rounded) := read_chunk_header in
  let! t := lift (add_u64 chunk_size_rounded 24) in
  if anmf_size <? t then fail (XDec EChunkHeaderInvalid) else
  ret {| fh_anmf_size := anmf_size; fh_x := frame_x; fh_y := frame_y; fh_width := frame_width;
         fh_height := frame_height; fh_duration := duration; fh_use_alpha_blending := use_alpha_blending;
         fh_dispose := dispose; fh_chunk := chunk; fh_chunk_size := chunk_size;
         fh_chunk_size_rounded := chunk_size_rounded; fh_next_frame_start := next_frame_start |}.

(* ---------------------------------------------------------------------------------------------- *)
(* schedules of the correspondence harness, flat entry point of the oracle                          *)
(* ---------------------------------------------------------------------------------------------- *)
Definition sched_whole : Z -> Z := fun _ => 4611686018427387904.            (* everything that remains *)
Definition sched_const (k : Z) : Z -> Z := fun _ => k.
(* 1 + the top 4 bits of a 32-bit multiplicative hash of (call index + seed): 1..16 *)
Definition sched_hash (seed : Z) : Z -> Z := fun c => 1 + (((c + seed) * 2654435761) mod 4294967296) / 268435456.
(* an explicit list, repeated cyclically *)
Definition sched_list (l : list Z) : Z -> Z :=
  fun c => match l with [] => 1 | _ => nth (Z.to_nat (c mod len l)) l 1 end.

(* new, then icc_profile, exif_metadata, xmp_metadata on the same reader (the memory limit, when given, is set
   before the getters); the call counter is reported after each step *)
Definition cio_eval_kind (eof : bool) (sched : Z -> Z) (fail_at : option Z) (limit : option Z) (d : list Z) :=
  let '(r, s1) := new (init_kind eof sched fail_at d) in
  match r with
  | IOk dec =>
      let dec' := match limit with Some l => set_memory_limit dec l | None => dec end in
      let '(ri, s2) := icc_profile dec' s1 in
      let '(re, s3) := exif_metadata dec' s2 in
      let '(rx, s4) := xmp_metadata dec' s3 in
      (r, r_calls s1, Some (ri, r_calls s2, re, r_calls s3, rx, r_calls s4))
  | _ => (r, r_calls s1, None)
  end.
Definition cio_eval := cio_eval_kind false.

(* read_frame's header part for the first frame of a freshly created decoder *)
Definition cio_frame_eval (sched : Z -> Z) (fail_at : option Z) (d : list Z) :=
  let '(r, s1) := new (init sched fail_at d) in
  match r with
  | IOk dec =>
      let '(rf, s2) := read_frame_header (d_width dec) (d_height dec) (d_next_frame_start dec) s1 in
      (r_calls s1, Some (rf, r_calls s2))
  | _ => (r_calls s1, None)
  end.

(* read_frame's header part for successive frames.  The payload decoder is not modelled, so the value of the call
   counter at the start of each read_frame is an input ([starts], what the implementation's reader showed); the
   position does not matter (absolute seek first).  After a good header the next frame starts at
   next_frame_start + anmf_size + 8 (`self.animation.next_frame_start += anmf_size + 8`, reached only when the
   payload was decoded); the list stops at the first header that is not Ok. *)
Fixpoint frames_loop (w h nfs : Z) (starts : list Z) (s : rstate) : list (ires frame_header * Z) :=
  match starts with
  | [] => []
  | c :: rest =>
      let '(rf, s') := read_frame_header w h nfs (set_pos_calls s (r_pos s) c) in
      (rf, r_calls s') ::
        match rf with
        | IOk fh => frames_loop w h (fh_next_frame_start fh + fh_anmf_size fh + 8) rest s'
        | _ => []
        end
  end.

Definition cio_frames_eval (sched : Z -> Z) (fail_at : option Z) (d : list Z) (starts : list Z) :=
  let '(r, s1) := new (init sched fail_at d) in
  match r with
  | IOk dec => (r_calls s1, Some (frames_loop (d_width dec) (d_height dec) (d_next_frame_start dec) starts s1))
  | _ => (r_calls s1, None)
  end.
