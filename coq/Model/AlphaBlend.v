(* Hand model of alpha_blending.rs::do_alpha_blending: the [u8;4] <-> u32 little-endian wrapper around the
   translated kernel Gen.Kernels.blend_pixel_nonpremult.  No proofs here. *)
From Coq Require Import ZArith List.
From WebP Require Import Gen.Kernels.
Import ListNotations.
Open Scope Z_scope.

Definition from_le_bytes4 (b0 b1 b2 b3 : Z) : Z := b0 + b1 * 2 ^ 8 + b2 * 2 ^ 16 + b3 * 2 ^ 24.
Definition to_le_byte (w k : Z) : Z := (w / 2 ^ (8 * k)) mod 256.

(* pixels are (r, g, b, a) *)
Definition px := (Z * Z * Z * Z)%type.
Definition px_r (p : px) := let '(r, _, _, _) := p in r.
Definition px_g (p : px) := let '(_, g, _, _) := p in g.
Definition px_b (p : px) := let '(_, _, b, _) := p in b.
Definition px_a (p : px) := let '(_, _, _, a) := p in a.

Definition do_alpha_blending (buffer canvas : px) : px :=
  let '(r, g, b, a) := buffer in
  let '(r', g', b', a') := canvas in
  let w := blend_pixel_nonpremult (from_le_bytes4 r g b a) (from_le_bytes4 r' g' b' a') in
  (to_le_byte w 0, to_le_byte w 1, to_le_byte w 2, to_le_byte w 3).

(* debug-build panic freedom of the same call *)
Definition do_alpha_blending_ok (buffer canvas : px) : bool :=
  let '(r, g, b, a) := buffer in
  let '(r', g', b', a') := canvas in
  blend_pixel_nonpremult_ok (from_le_bytes4 r g b a) (from_le_bytes4 r' g' b' a').
