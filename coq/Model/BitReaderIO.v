(* lossless.rs :: BitReader<R: BufRead> over a reader whose fill_buf can FAIL (property C10, second half).

   Model/BitReader.v models the reader R as (remaining bytes, schedule of window sizes) and never fails.  Here the same
   state is extended with
     calls   : the number of `fill_buf` calls made so far (the failing one included), and
     fail_at : the index (0-based, among the fill_buf calls) of ONE injected failure, or None.
   The fill_buf call whose index equals fail_at returns Err(io::Error{kind: Other}); `?` turns it into
   DecodingError::IoError, written `Err EIoFault` here (Lib/Res has one payload-free constructor EIo for that variant).
   `BufRead::consume` cannot fail and is not counted.

   How lossless.rs::BitReader::fill calls fill_buf (std::io::BufRead semantics: fill_buf returns the empty slice exactly
   at end of data; our windows are min (max 1 s_k) remaining bytes, so "empty" = "no byte left"):
       let mut buf = self.reader.fill_buf()?;                       call #1 of this fill; on failure nothing has changed
       if buf.len() >= 8 { ... }                                    fast path: no further call
       else { while !buf.is_empty() && self.nbits < 56 {
                  self.buffer |= u64::from(buf[0]) << self.nbits; self.nbits += 8; self.reader.consume(1);
                  buf = self.reader.fill_buf()?; } }                one more call per byte taken; when THIS call fails the
                                                                    byte is already in the buffer, counted in nbits and
                                                                    consumed from the reader
   so a fault-free slow-path fill makes 1 + (bytes taken) calls; the last of them is the one that sees an empty buffer, or a
   non-empty one with nbits >= 56.  Every call, failing or not, uses up one schedule entry.

   All operations have the shape  state -> result * state'  (Rust: &mut self; the state after an error is what the Rust
   code leaves behind).  No proofs here. *)
From Coq Require Import ZArith List Bool.
From WebP Require Import Lib.Res.
From WebP Require Model.BitReader.
Import ListNotations.
Open Scope Z_scope.

(* DecodingError::IoError(_) produced by the injected failure *)
Definition EIoFault : err := EIo.

Record iot := mkio { br : BitReader.t;        (* data, sched, buffer, nbits *)
                     calls : Z;               (* fill_buf calls made so far *)
                     fail_at : option Z }.    (* index of the failing fill_buf call *)

Definition init_io (d s : list Z) (fa : option Z) : iot := mkio (BitReader.init d s) 0 fa.

(* does the fill_buf call number c fail? *)
Definition hits (fa : option Z) (c : Z) : bool := match fa with Some k => c =? k | None => false end.

Definition M (A : Type) : Type := iot -> res A * iot.
Definition retM {A} (x : res A) : M A := fun r => (x, r).
Definition bindM {A B} (m : M A) (f : A -> M B) : M B := fun r =>
  match m r with
  | (Ok a, r') => f a r'
  | (Err e, r') => (Err e, r')
  | (Panic p, r') => (Panic p, r')
  | (OutOfFuel, r') => (OutOfFuel, r')
  end.

(* the byte-at-a-time loop; c = index of the NEXT fill_buf call.  Each iteration: take the byte, consume(1), fill_buf()? *)
Fixpoint fill_slow_io (fa : option Z) (d s : list Z) (buf nb c : Z) : res unit * iot :=
  match d with
  | [] => (Ok tt, mkio (BitReader.mk d s buf nb) c fa)
  | b :: tl =>
    if nb <? 56 then
      let buf' := Z.lor buf (Z.shiftl b nb) in
      let nb' := nb + 8 in
      if hits fa c then (Err EIoFault, mkio (BitReader.mk tl (List.tl s) buf' nb') (c + 1) fa)
      else fill_slow_io fa tl (List.tl s) buf' nb' (c + 1)
    else (Ok tt, mkio (BitReader.mk d s buf nb) c fa)
  end.

(* BitReader::fill *)
Definition fill_io : M unit := fun r =>
  let b := br r in
  if 64 <=? BitReader.nbits b then (Panic PAssert, r) (* debug_assert!(self.nbits < 64) *) else
  let s' := List.tl (BitReader.sched b) in
  let c := calls r in
  if hits (fail_at r) c                                  (* let mut buf = self.reader.fill_buf()?; *)
  then (Err EIoFault, mkio (BitReader.mk (BitReader.data b) s' (BitReader.buffer b) (BitReader.nbits b)) (c + 1) (fail_at r))
  else if BitReader.window_ge8 (BitReader.data b) (BitReader.sched b) then
    let lookahead := BitReader.le_bytes 8 (BitReader.data b) in
    (Ok tt, mkio (BitReader.mk (skipn (Z.to_nat ((63 - BitReader.nbits b) / 8)) (BitReader.data b)) s'
                               (Z.lor (BitReader.buffer b) (Z.land (Z.shiftl lookahead (BitReader.nbits b)) (Z.ones 64)))
                               (Z.lor (BitReader.nbits b) 56))
                 (c + 1) (fail_at r))
  else fill_slow_io (fail_at r) (BitReader.data b) s' (BitReader.buffer b) (BitReader.nbits b) (c + 1).

(* BitReader::peek (no I/O) *)
Definition peek_io (num : Z) : M Z := fun r => (BitReader.peek (br r) num, r).

(* BitReader::consume (no I/O) *)
Definition consume_io (num : Z) : M unit := fun r =>
  match BitReader.consume (br r) num with
  | Ok b' => (Ok tt, mkio b' (calls r) (fail_at r))
  | Err e => (Err e, r)
  | Panic p => (Panic p, r)
  | OutOfFuel => (OutOfFuel, r)
  end.

(* BitReader::read_bits::<T>(num), tbits = 8 * size_of::<T>() *)
Definition read_bits_io (tbits num : Z) : M Z :=
  if (tbits <? num) || (32 <? num) then retM (Panic PAssert) else
  bindM (fun r => if BitReader.nbits (br r) <? num then fill_io r else (Ok tt, r)) (fun _ =>
  bindM (peek_io num) (fun v =>
  let value := v mod 2 ^ 32 in
  bindM (consume_io num) (fun _ =>
  if value <? 2 ^ tbits then retM (Ok value) else retM (Panic PAssert)))).

(* ---------- scripts ---------- *)
Definition step_io (o : BitReader.brop) : M (list Z) :=
  match o with
  | BitReader.OFill => bindM fill_io (fun _ => retM (Ok []))
  | BitReader.OReadBits tb n => bindM (read_bits_io tb n) (fun v => retM (Ok [v]))
  | BitReader.OConsume n => bindM (consume_io n) (fun _ => retM (Ok []))
  | BitReader.OTake n => bindM (peek_io n) (fun v => bindM (consume_io n) (fun _ => retM (Ok [v])))
  end.

(* values delivered so far (most recent first), the outcome, and the state the reader is left in *)
Fixpoint run_io_from (r : iot) (ops : list BitReader.brop) (acc : list Z) : list Z * res unit * iot :=
  match ops with
  | [] => (acc, Ok tt, r)
  | o :: tl => match step_io o r with
               | (Ok vs, r') => run_io_from r' tl (vs ++ acc)
               | (Err e, r') => (acc, Err e, r')
               | (Panic p, r') => (acc, Panic p, r')
               | (OutOfFuel, r') => (acc, OutOfFuel, r')
               end
  end.

(* (values in delivery order, outcome = first failure or BitReader.observe of the final state, number of fill_buf calls made) *)
Definition run_io (d s : list Z) (fa : option Z) (ops : list BitReader.brop) : list Z * res (Z * list Z * Z) * Z :=
  let '(vs, out, r) := run_io_from (init_io d s fa) ops [] in
  (rev vs, rmap (fun _ => BitReader.observe (br r)) out, calls r).

(* extraction entry point (oracle case kind `brio`): also what the reader is left with when the call fails:
   (values, outcome, calls, (buffer, nbits, bytes left)) *)
Definition o_brio (d s : list Z) (fa : option Z) (ops : list BitReader.brop) : list Z * res unit * Z * (Z * Z * Z) :=
  let '(vs, out, r) := run_io_from (init_io d s fa) ops [] in
  (rev vs, out, calls r, (BitReader.buffer (br r), BitReader.nbits (br r), Z.of_nat (length (BitReader.data (br r))))).
