(* Model of std::collections::BinaryHeap<Item> exactly as alloc/collections/binary_heap/mod.rs (Rust 1.95) implements
   the operations encoder.rs::build_huffman_tree uses:
     BinaryHeap::from_iter  = collect into a Vec, then `rebuild` (sift_down(n) for n = len/2-1 .. 0)
     pop                    = Vec::pop, swap with data[0], sift_down_to_bottom(0) (to the bottom, then sift_up)
     peek_mut + assignment  = overwrite data[0]; on drop sift_down(0) when len > 1
   The `Hole` of std moves elements instead of swapping them; moving the hole element along and swapping pairwise
   produces the same vector, so the model swaps.  `get_unchecked` accesses are inside the bounds by std's own safety
   argument and are modelled as total `nth`.

   Item(u32, u16) is encoder.rs's local struct whose Ord compares *only* the frequency, reversed:
       a.cmp(b) = b.0.cmp(a.0)        hence   a <= b  <->  b.0 <= a.0,   a >= b  <->  a.0 <= b.0,   a < b  <->  b.0 < a.0.
   No proofs here. *)
From Coq Require Import ZArith List Bool.
From WebP Require Import Lib.Res.
Import ListNotations.
Open Scope Z_scope.
Open Scope res_scope.

Definition item := (Z * Z)%type.                       (* Item(frequency, node id) *)
Definition item_le (a b : item) : bool := fst b <=? fst a.
Definition item_ge (a b : item) : bool := fst a <=? fst b.
Definition item_lt (a b : item) : bool := fst b <? fst a.

Definition zlen {A} (l : list A) : Z := Z.of_nat (length l).

Fixpoint upd {A} (l : list A) (k : nat) (v : A) : list A :=
  match l, k with
  | [], _ => []
  | _ :: t, O => v :: t
  | x :: t, S k' => x :: upd t k' v
  end.

Definition hget (h : list item) (i : Z) : item := nth (Z.to_nat i) h (0, 0).
Definition hswap (h : list item) (i j : Z) : list item :=
  upd (upd h (Z.to_nat i) (hget h j)) (Z.to_nat j) (hget h i).

(* sift_down_range(pos, end): `end.saturating_sub(2)` is Z.max 0 (end - 2) *)
Fixpoint sift_down_range (fuel : nat) (h : list item) (pos end_ : Z) : res (list item) :=
  match fuel with
  | O => OutOfFuel
  | S fuel =>
    let child := 2 * pos + 1 in
    if child <=? Z.max 0 (end_ - 2) then
      let child := if item_le (hget h child) (hget h (child + 1)) then child + 1 else child in
      if item_ge (hget h pos) (hget h child) then Ok h
      else sift_down_range fuel (hswap h pos child) child end_
    else if (child =? end_ - 1) && item_lt (hget h pos) (hget h child) then Ok (hswap h pos child)
    else Ok h
  end.

Definition sift_down (h : list item) (pos : Z) : res (list item) :=
  sift_down_range (S (length h)) h pos (zlen h).

Fixpoint sift_up (fuel : nat) (h : list item) (start pos : Z) : res (list item) :=
  match fuel with
  | O => OutOfFuel
  | S fuel =>
    if start <? pos then
      let parent := (pos - 1) / 2 in
      if item_le (hget h pos) (hget h parent) then Ok h
      else sift_up fuel (hswap h pos parent) start parent
    else Ok h
  end.

(* the descent of sift_down_to_bottom: returns the vector and the final hole position *)
Fixpoint sift_bottom_loop (fuel : nat) (h : list item) (pos end_ : Z) : res (list item * Z) :=
  match fuel with
  | O => OutOfFuel
  | S fuel =>
    let child := 2 * pos + 1 in
    if child <=? Z.max 0 (end_ - 2) then
      let child := if item_le (hget h child) (hget h (child + 1)) then child + 1 else child in
      sift_bottom_loop fuel (hswap h pos child) child end_
    else if child =? end_ - 1 then Ok (hswap h pos child, child)
    else Ok (h, pos)
  end.

Definition sift_down_to_bottom (h : list item) (pos : Z) : res (list item) :=
  let* '(h', p) := sift_bottom_loop (S (length h)) h pos (zlen h) in
  sift_up (S (length h)) h' pos p.

(* BinaryHeap::pop: None on an empty heap *)
Definition heap_pop (h : list item) : res (option (item * list item)) :=
  match rev h with
  | [] => Ok None
  | last :: rinit =>
    match rev rinit with
    | [] => Ok (Some (last, []))
    | top :: tl => let* h' := sift_down_to_bottom (last :: tl) 0 in Ok (Some (top, h'))
    end
  end.

(* BinaryHeap::from(vec) = rebuild *)
Fixpoint rebuild_loop (n : nat) (h : list item) : res (list item) :=
  match n with
  | O => Ok h
  | S n' => let* h' := sift_down h (Z.of_nat n') in rebuild_loop n' h'
  end.
Definition heap_from_vec (v : list item) : res (list item) := rebuild_loop (Nat.div2 (length v)) v.

(* `*heap.peek_mut().unwrap() = x` followed by the drop of the PeekMut; the heap is non-empty *)
Definition heap_replace_top (h : list item) (x : item) : res (list item) :=
  match h with
  | [] => Panic PUnwrap
  | _ :: tl => let h2 := x :: tl in if 1 <? zlen h2 then sift_down h2 0 else Ok h2
  end.
