(* Gallina mirror of src/vp8_arithmetic_decoder.rs (ArithmeticDecoder, State, FastDecoder) and of TreeNode /
   tree_nodes_from in src/vp8.rs.  One definition per Rust function, same control flow, same integer widths:
     value : u64 (`<<` drops the bits shifted out: mod 2^64), range : u32, bit_count : i32, chunk_index : usize,
     final_bytes_remaining : i8.  Every checked arithmetic operation of a debug build, every slice index and every
     debug_assert! is an explicit `Panic`.  `prepare_branch` / `value_from_branch` come from Gen.Kernels (translated
     from vp8.rs by tools/rs2v.py on every run), FINAL_BYTES_REMAINING_EOF and the tree arrays from Gen.Tables.
   One factoring: the Rust text after the refill is identical in `cold_read_bit` and `fast_read_bit` (split, bigsplit,
   checked_sub, leading_zeros shift); it is written once here as `read_bit_tail` and used by both.  `fast_read_flag`'s
   variant (range / 2) is `read_flag_tail`.
   `BitResult<T>` carries just the value (`or_accumulate` returns it); the accumulator carries nothing.
   No proofs in this file (the oracle is extracted from it). *)
From Coq Require Import ZArith List Bool.
From WebP Require Import Lib.Res Gen.Kernels Gen.Tables Spec.RfcBoolDec.
Import ListNotations.
Open Scope Z_scope.
Open Scope res_scope.

(* ---- machine arithmetic ---- *)
Definition u32_max : Z := 4294967295.
Definition i32_min : Z := -2147483648.
Definition i32_max : Z := 2147483647.
Definition u64_mod : Z := 18446744073709551616.

Definition u32_add (a b : Z) : res Z := if a + b <=? u32_max then Ok (a + b) else Panic POverflow.
Definition u32_sub (a b : Z) : res Z := if b <=? a then Ok (a - b) else Panic POverflow.
Definition u32_mul (a b : Z) : res Z := if a * b <=? u32_max then Ok (a * b) else Panic POverflow.
Definition i32_add (a b : Z) : res Z := if (i32_min <=? a + b) && (a + b <=? i32_max) then Ok (a + b) else Panic POverflow.
Definition i32_sub (a b : Z) : res Z := if (i32_min <=? a - b) && (a - b <=? i32_max) then Ok (a - b) else Panic POverflow.
Definition i8_sub (a b : Z) : res Z := if (-128 <=? a - b) && (a - b <=? 127) then Ok (a - b) else Panic POverflow.
Definition u8_add (a b : Z) : res Z := if a + b <=? 255 then Ok (a + b) else Panic POverflow.
Definition usize_add (a b : Z) : res Z := if a + b <? u64_mod then Ok (a + b) else Panic POverflow.
Definition usize_sub (a b : Z) : res Z := if b <=? a then Ok (a - b) else Panic POverflow.
(* `x << s`: the shift amount must be in 0..width-1 (else "attempt to shift left with overflow"); bits shifted out are lost *)
Definition u64_shl (x s : Z) : res Z := if (0 <=? s) && (s <? 64) then Ok ((x * 2 ^ s) mod u64_mod) else Panic PShift.
Definition u32_shl (x s : Z) : res Z := if (0 <=? s) && (s <? 32) then Ok ((x * 2 ^ s) mod 2 ^ 32) else Panic PShift.
Definition u8_shl (x s : Z) : res Z := if (0 <=? s) && (s <? 8) then Ok ((x * 2 ^ s) mod 256) else Panic PShift.
Definition u64_checked_sub (a b : Z) : option Z := if b <=? a then Some (a - b) else None.
Definition u32_leading_zeros (x : Z) : Z := if x <=? 0 then 32 else 31 - Z.log2 x.
Definition u32_saturating_sub (a b : Z) : Z := Z.max (a - b) 0.
(* u32::from_be_bytes *)
Definition be32 (c : list Z) : Z :=
  match c with [b0; b1; b2; b3] => ((b0 * 256 + b1) * 256 + b2) * 256 + b3 | _ => 0 end.
Definition i32_neg (a : Z) : res Z := if a =? i32_min then Panic POverflow else Ok (- a).

(* ---- vp8.rs: TreeNode, tree_nodes_from ---- *)
Record TreeNode := mkNode { left : Z; right : Z; prob : Z; index : Z }.
Definition UNINIT : TreeNode := mkNode 0 0 0 0.

Definition prepare_branch_checked (t : Z) : res Z := if prepare_branch_ok t then Ok (prepare_branch t) else Panic POverflow.

(* the `while i < M` loop; nodes[i].index = i as u8 *)
Fixpoint tree_nodes_loop (tree : list Z) (probs : list Z) (i : Z) : res (list TreeNode) :=
  match probs with
  | [] => Ok []
  | p :: tl =>
    let* a := of_option (nth_error tree (Z.to_nat (2 * i))) PIndex in
    let* b := of_option (nth_error tree (Z.to_nat (2 * i + 1))) PIndex in
    let* l := prepare_branch_checked a in
    let* r := prepare_branch_checked b in
    let* rest := tree_nodes_loop tree tl (i + 1) in
    Ok (mkNode l r p (wrapU 8 i) :: rest)
  end.
Definition tree_nodes_from (tree probs : list Z) : res (list TreeNode) :=
  if negb (Z.of_nat (length tree) =? 2 * Z.of_nat (length probs)) then Panic PAssert (* panic!("invalid tree with probs") *)
  else tree_nodes_loop tree probs 0.

(* ---- vp8_arithmetic_decoder.rs ---- *)
Record State := mkState { chunk_index : Z; value : Z; range : Z; bit_count : Z }.
Record Dec := mkDec { chunks : list (list Z);          (* Box<[[u8; 4]]> *)
                      state : State;
                      final_bytes : list Z;            (* [u8; 3] *)
                      final_bytes_remaining : Z }.     (* i8 *)
Definition FINAL_BYTES_REMAINING_EOF : Z := vp8_arithmetic_decoder_FINAL_BYTES_REMAINING_EOF.
Definition set_state (d : Dec) (s : State) : Dec := mkDec (chunks d) s (final_bytes d) (final_bytes_remaining d).
Definition initial_state : State := mkState 0 0 255 (-8).

Definition new : Dec := mkDec [] initial_state [0; 0; 0] FINAL_BYTES_REMAINING_EOF.

(* Vec::pop *)
Definition pop {A} (l : list A) : option (list A * A) :=
  match rev l with [] => None | x :: r => Some (rev r, x) end.

Definition init (buf : list (list Z)) (len : Z) : res Dec :=
  if len =? 4 * Z.of_nat (length buf) then Ok (mkDec buf initial_state [0; 0; 0] 0)
  else match pop buf with
       | None => Err ENotEnoughInitData
       | Some (buf1, last_chunk) =>
         let len_rounded_down := 4 * Z.of_nat (length buf1) in
         let* num_bytes_popped := usize_sub len len_rounded_down in
         if negb (num_bytes_popped <=? 3) then Panic PAssert else
         (* final_bytes[..n].copy_from_slice(&last_chunk[..n]) *)
         if negb (num_bytes_popped <=? Z.of_nat (length last_chunk)) then Panic PSlice else
         if negb (forallb (fun b => b =? 0) (skipn (Z.to_nat num_bytes_popped) last_chunk)) then Panic PAssert else
         Ok (mkDec buf1 initial_state
                   (firstn (Z.to_nat num_bytes_popped) last_chunk ++ repeat 0 (3 - Z.to_nat num_bytes_popped))
                   num_bytes_popped)
       end.

Definition is_past_eof (d : Dec) : bool := final_bytes_remaining d =? FINAL_BYTES_REMAINING_EOF.

(* check(acc, v): Err(BitStreamError) iff is_past_eof *)
Definition check {A} (d : Dec) (v : A) : res A := if is_past_eof d then Err EBitStreamError else Ok v.

(* [u8; 3]::rotate_left(1) *)
Definition rotate_left1 (l : list Z) : list Z := match l with [] => [] | x :: tl => tl ++ [x] end.

Definition load_from_final_bytes (d : Dec) : res Dec :=
  let s := state d in
  if 1 <=? final_bytes_remaining d then
    let* rem := i8_sub (final_bytes_remaining d) 1 in
    let* byte := of_option (nth_error (final_bytes d) 0) PIndex in
    let fb := rotate_left1 (final_bytes d) in
    let* v := u64_shl (value s) 8 in
    let* bc := i32_add (bit_count s) 8 in
    Ok (mkDec (chunks d) (mkState (chunk_index s) (Z.lor v byte) (range s) bc) fb rem)
  else if final_bytes_remaining d =? 0 then
    (* libwebp tolerates reading one byte past the end *)
    let* rem := i8_sub (final_bytes_remaining d) 1 in
    let* v := u64_shl (value s) 8 in
    let* bc := i32_add (bit_count s) 8 in
    Ok (mkDec (chunks d) (mkState (chunk_index s) v (range s) bc) (final_bytes d) rem)
  else
    Ok (mkDec (chunks d) s (final_bytes d) FINAL_BYTES_REMAINING_EOF).

(* the text shared by cold_read_bit and fast_read_bit from `debug_assert!(bit_count >= 0)` on;
   returns (retval, value, range, bit_count) *)
Definition read_bit_tail (value range bit_count probability : Z) : res (bool * Z * Z * Z) :=
  if negb (0 <=? bit_count) then Panic PAssert else
  let* rm1 := u32_sub range 1 in
  let* prod := u32_mul rm1 probability in
  let* split := u32_add 1 (Z.shiftr prod 8) in
  let* bigsplit := u64_shl split bit_count in
  let* '(retval, range1, value1) :=
     match u64_checked_sub value bigsplit with
     | Some new_value => let* r := u32_sub range split in Ok (true, r, new_value)
     | None => Ok (false, split, value)
     end in
  if negb (0 <? range1) then Panic PAssert else
  let shift := u32_saturating_sub (u32_leading_zeros range1) 24 in
  let* range2 := u32_shl range1 shift in
  let* bit_count2 := i32_sub bit_count shift in
  if negb (128 <=? range2) then Panic PAssert else
  Ok (retval, value1, range2, bit_count2).

(* fast_read_flag's variant: half_range = range / 2; split = range - half_range *)
Definition read_flag_tail (value range bit_count : Z) : res (bool * Z * Z * Z) :=
  if negb (0 <=? bit_count) then Panic PAssert else
  let half_range := range / 2 in
  let* split := u32_sub range half_range in
  let* bigsplit := u64_shl split bit_count in
  let '(retval, range1, value1) :=
     match u64_checked_sub value bigsplit with
     | Some new_value => (true, half_range, new_value)
     | None => (false, split, value)
     end in
  if negb (0 <? range1) then Panic PAssert else
  let shift := u32_saturating_sub (u32_leading_zeros range1) 24 in
  let* range2 := u32_shl range1 shift in
  let* bit_count2 := i32_sub bit_count shift in
  if negb (128 <=? range2) then Panic PAssert else
  Ok (retval, value1, range2, bit_count2).

(* value <<= 32; value |= u64::from(v); bit_count += 32; chunk_index += 1 *)
Definition load_chunk (s : State) (chunk : list Z) : res State :=
  let v := be32 chunk in
  let* ci := usize_add (chunk_index s) 1 in
  let* val := u64_shl (value s) 32 in
  let* bc := i32_add (bit_count s) 32 in
  Ok (mkState ci (Z.lor val v) (range s) bc).

(* result of the refill step of cold_read_bit: go on, or the early `return BitResult::err()` *)
Inductive refill := Go (d : Dec) | Stop (d : Dec).

Definition cold_read_bit (d : Dec) (probability : Z) : res (bool * Dec) :=
  let* r :=
    if bit_count (state d) <? 0 then
      match nth_error (chunks d) (Z.to_nat (chunk_index (state d))) with
      | Some chunk => let* s1 := load_chunk (state d) chunk in Ok (Go (set_state d s1))
      | None => let* d1 := load_from_final_bytes d in
                if is_past_eof d1 then Ok (Stop d1) else Ok (Go d1)
      end
    else Ok (Go d) in
  match r with
  | Stop d1 => Ok (false, d1)
  | Go d1 =>
    let s := state d1 in
    let* '(retval, v, r, bc) := read_bit_tail (value s) (range s) (bit_count s) probability in
    Ok (retval, set_state d1 (mkState (chunk_index s) v r bc))
  end.

Definition cold_read_bool (d : Dec) (probability : Z) : res (bool * Dec) := cold_read_bit d probability.
Definition cold_read_flag (d : Dec) : res (bool * Dec) := cold_read_bit d 128.

Definition b2z (b : bool) : Z := if b then 1 else 0.

(* for _ in 0..n { let b = flag; v = (v << 1) + u8::from(b) }   (v : u8) *)
Fixpoint cold_read_literal_loop (n : nat) (v : Z) (d : Dec) : res (Z * Dec) :=
  match n with
  | O => Ok (v, d)
  | S k =>
    let* '(b, d1) := cold_read_flag d in
    let* v2 := u8_shl v 1 in
    let* v3 := u8_add v2 (b2z b) in
    cold_read_literal_loop k v3 d1
  end.
Definition cold_read_literal (d : Dec) (n : Z) : res (Z * Dec) := cold_read_literal_loop (Z.to_nat n) 0 d.

Definition cold_read_optional_signed_value (d : Dec) (n : Z) : res (Z * Dec) :=
  let* '(flag, d1) := cold_read_flag d in
  if negb flag then Ok (0, d1) else
  let* '(magnitude, d2) := cold_read_literal d1 n in
  let* '(sign, d3) := cold_read_flag d2 in
  let* value := (if sign then i32_neg magnitude else Ok magnitude) in
  Ok (value, d3).

(* loop { node = tree[index]; b = bit(node.prob); t = if b {right} else {left};
          if t < tree.len() { index = t } else { return value_from_branch(t) } }
   `loop` has no bound in Rust: fuel, OutOfFuel when it runs out (only a cyclic tree can do that) *)
Fixpoint cold_read_with_tree_loop (fuel : nat) (d : Dec) (tree : list TreeNode) (index : Z) : res (Z * Dec) :=
  match fuel with
  | O => OutOfFuel
  | S f =>
    let* node := of_option (nth_error tree (Z.to_nat index)) PIndex in
    let* '(b, d1) := cold_read_bit d (prob node) in
    let t := if b then right node else left node in
    if t <? Z.of_nat (length tree) then cold_read_with_tree_loop f d1 tree t
    else Ok (value_from_branch t, d1)
  end.
Definition cold_read_with_tree (d : Dec) (tree : list TreeNode) (start : Z) : res (Z * Dec) :=
  cold_read_with_tree_loop (S (length tree)) d tree start.

(* ---- FastDecoder: works on a copy of the state (`uncommitted_state`) ---- *)
Definition commit_if_valid {A} (chunks : list (list Z)) (uncommitted : State) (v : A) : option (A * State) :=
  if chunk_index uncommitted <=? Z.of_nat (length chunks) then Some (v, uncommitted) else None.

(* chunks.get(chunk_index).copied().unwrap_or_default() *)
Definition fast_load (chunks : list (list Z)) (s : State) : res State :=
  if bit_count s <? 0 then
    let chunk := match nth_error chunks (Z.to_nat (chunk_index s)) with Some c => c | None => [0; 0; 0; 0] end in
    load_chunk s chunk
  else Ok s.

Definition fast_read_bit (chunks : list (list Z)) (u : State) (probability : Z) : res (bool * State) :=
  let* s := fast_load chunks u in
  let* '(retval, v, r, bc) := read_bit_tail (value s) (range s) (bit_count s) probability in
  Ok (retval, mkState (chunk_index s) v r bc).

Definition fast_read_flag (chunks : list (list Z)) (u : State) : res (bool * State) :=
  let* s := fast_load chunks u in
  let* '(retval, v, r, bc) := read_flag_tail (value s) (range s) (bit_count s) in
  Ok (retval, mkState (chunk_index s) v r bc).

Fixpoint fast_read_literal_loop (chunks : list (list Z)) (n : nat) (v : Z) (u : State) : res (Z * State) :=
  match n with
  | O => Ok (v, u)
  | S k =>
    let* '(b, u1) := fast_read_flag chunks u in
    let* v2 := u8_shl v 1 in
    let* v3 := u8_add v2 (b2z b) in
    fast_read_literal_loop chunks k v3 u1
  end.
Definition fast_read_literal (chunks : list (list Z)) (u : State) (n : Z) : res (Z * State) :=
  fast_read_literal_loop chunks (Z.to_nat n) 0 u.

(* FastDecoder::read_optional_signed_value without the final commit *)
Definition fast_read_optional_signed_value (chunks : list (list Z)) (u : State) (n : Z) : res (Z * State) :=
  let* '(flag, u1) := fast_read_flag chunks u in
  if negb flag then Ok (0, u1) else
  let* '(magnitude, u2) := fast_read_literal chunks u1 n in
  let* '(sign, u3) := fast_read_flag chunks u2 in
  let* value := (if sign then i32_neg magnitude else Ok magnitude) in
  Ok (value, u3).

(* loop { b = bit(node.prob); i = if b {right} else {left};
          match tree.get(i) { None => return value_from_branch(i), Some(n) => node = n } } *)
Fixpoint fast_read_with_tree_loop (fuel : nat) (chunks : list (list Z)) (u : State) (tree : list TreeNode) (node : TreeNode)
  : res (Z * State) :=
  match fuel with
  | O => OutOfFuel
  | S f =>
    let* '(b, u1) := fast_read_bit chunks u (prob node) in
    let i := if b then right node else left node in
    match nth_error tree (Z.to_nat i) with
    | None => Ok (value_from_branch i, u1)
    | Some next_node => fast_read_with_tree_loop f chunks u1 tree next_node
    end
  end.
Definition fast_read_with_tree (chunks : list (list Z)) (u : State) (tree : list TreeNode) (node : TreeNode) : res (Z * State) :=
  fast_read_with_tree_loop (S (length tree)) chunks u tree node.

(* ---- the five public reads: fast attempt on a copy, commit if no chunk was invented, else the cold path ---- *)
Definition read_bool (d : Dec) (probability : Z) : res (bool * Dec) :=
  let* '(b, u) := fast_read_bit (chunks d) (state d) probability in
  match commit_if_valid (chunks d) u b with
  | Some (b, u) => Ok (b, set_state d u)
  | None => cold_read_bool d probability
  end.

Definition read_flag (d : Dec) : res (bool * Dec) :=
  let* '(b, u) := fast_read_flag (chunks d) (state d) in
  match commit_if_valid (chunks d) u b with
  | Some (b, u) => Ok (b, set_state d u)
  | None => cold_read_flag d
  end.

Definition read_literal (d : Dec) (n : Z) : res (Z * Dec) :=
  let* '(v, u) := fast_read_literal (chunks d) (state d) n in
  match commit_if_valid (chunks d) u v with
  | Some (v, u) => Ok (v, set_state d u)
  | None => cold_read_literal d n
  end.

Definition read_optional_signed_value (d : Dec) (n : Z) : res (Z * Dec) :=
  let* '(v, u) := fast_read_optional_signed_value (chunks d) (state d) n in
  match commit_if_valid (chunks d) u v with
  | Some (v, u) => Ok (v, set_state d u)
  | None => cold_read_optional_signed_value d n
  end.

Definition read_with_tree_with_first_node (d : Dec) (tree : list TreeNode) (first_node : TreeNode) : res (Z * Dec) :=
  let* '(v, u) := fast_read_with_tree (chunks d) (state d) tree first_node in
  match commit_if_valid (chunks d) u v with
  | Some (v, u) => Ok (v, set_state d u)
  | None => cold_read_with_tree d tree (index first_node)
  end.

Definition read_with_tree (d : Dec) (tree : list TreeNode) : res (Z * Dec) :=
  let* first_node := of_option (nth_error tree 0) PIndex in
  read_with_tree_with_first_node d tree first_node.

(* ---- request scripts (the hook verif::arith_script) ---- *)
(* vp8.rs prepares the buffer for `init`: vec![[0; 4]; (size + 3) / 4], bytes copied to the front *)
Fixpoint chunks_of (data : list Z) : list (list Z) :=
  match data with
  | [] => []
  | [a] => [[a; 0; 0; 0]]
  | [a; b] => [[a; b; 0; 0]]
  | [a; b; c] => [[a; b; c; 0]]
  | a :: b :: c :: e :: tl => [a; b; c; e] :: chunks_of tl
  end.

Definition step (trees : list tree_desc) (d : Dec) (o : op) : res (Z * Dec) :=
  match o with
  | OB p => let* '(b, d1) := read_bool d p in Ok (b2z b, d1)
  | OF => let* '(b, d1) := read_flag d in Ok (b2z b, d1)
  | OL n => read_literal d n
  | OS n => read_optional_signed_value d n
  | OT k =>
    let '(t, p, start) := nth k trees ([], [], 0) in
    let* nodes := tree_nodes_from t p in
    (* tree[skip as usize] with skip = start / 2 *)
    let* first_node := of_option (nth_error nodes (Z.to_nat (start / 2))) PIndex in
    read_with_tree_with_first_node d nodes first_node
  end.

Fixpoint run_from (trees : list tree_desc) (d : Dec) (ops : list op) : res (list Z * Dec) :=
  match ops with
  | [] => Ok ([], d)
  | o :: tl =>
    let* '(v, d1) := step trees d o in
    let* '(vs, d2) := run_from trees d1 tl in
    Ok (v :: vs, d2)
  end.

(* values returned, and whether the final `check` fails (is_past_eof) *)
Definition run (trees : list tree_desc) (data : list Z) (ops : list op) : res (list Z * bool) :=
  let* d := init (chunks_of data) (Z.of_nat (length data)) in
  let* '(vs, d1) := run_from trees d ops in
  Ok (vs, is_past_eof d1).

(* ---- the trees of the crate (RFC tree arrays and probability tables from Gen.Tables) ----
   0: segment id, default probabilities 255 (SEGMENT_TREE_NODE_DEFAULTS); 1: KEYFRAME_YMODE_NODES; 2: KEYFRAME_UV_MODE_NODES;
   3 + 10*i + j: KEYFRAME_BPRED_MODE_NODES[i][j]; 103 ..: DCT_TOKEN_TREE with rows of COEFF_PROBS, entered at the root (start 0)
   and past the first branch (start 2, `tree[skip as usize]` after a DCT_0 token).
   COEFF_PROBS has a type-alias type that tools/rs2v.py does not pick up yet; the four rows used are copied by hand from vp8.rs
   (COEFF_PROBS[0][1][0], [0][2][0], [1][0][0], [1][2][2]); the correspondence check runs them against COEFF_PROB_NODES. *)
Definition coeff_prob_rows : list (list Z) :=
  [ [253; 136; 254; 255; 228; 219; 128; 128; 128; 128; 128];
    [1; 98; 248; 255; 236; 226; 255; 255; 128; 128; 128];
    [198; 35; 237; 223; 193; 187; 162; 160; 145; 155; 62];
    [23; 91; 163; 242; 170; 187; 247; 210; 255; 255; 128] ].

Definition vp8_trees : list tree_desc :=
  [ (vp8_SEGMENT_ID_TREE, [255; 255; 255], 0);
    (vp8_KEYFRAME_YMODE_TREE, vp8_KEYFRAME_YMODE_PROBS, 0);
    (vp8_KEYFRAME_UV_MODE_TREE, vp8_KEYFRAME_UV_MODE_PROBS, 0) ]
  ++ map (fun p => (vp8_KEYFRAME_BPRED_MODE_TREE, p, 0)) (concat vp8_KEYFRAME_BPRED_MODE_PROBS)
  ++ map (fun p => (vp8_DCT_TOKEN_TREE, p, 0)) coeff_prob_rows
  ++ map (fun p => (vp8_DCT_TOKEN_TREE, p, 2)) coeff_prob_rows
  (* 111..114: stress trees -- the token tree with every probability 255 (root, skip) and 1 (root, skip): a frame header can
     set such probabilities, and only they make a single request consume more than 32 bits *)
  ++ [ (vp8_DCT_TOKEN_TREE, repeat 255 11, 0); (vp8_DCT_TOKEN_TREE, repeat 255 11, 2);
       (vp8_DCT_TOKEN_TREE, repeat 1 11, 0); (vp8_DCT_TOKEN_TREE, repeat 1 11, 2) ].

(* entry points of the oracle (distinct names: the extraction is one flat OCaml file) *)
Definition c15_model_run (data : list Z) (ops : list op) : res (list Z * bool) := run vp8_trees data ops.
Definition c15_spec_run (data : list Z) (ops : list op) : list Z := RfcBoolDec.run vp8_trees data ops.
Definition c15_spec_exhausted (data : list Z) (ops : list op) : bool := RfcBoolDec.exhausted vp8_trees data ops.
Definition c15_spec_needed_upto (data : list Z) (ops : list op) (k : nat) : Z := RfcBoolDec.bytes_needed_upto vp8_trees data ops k.
