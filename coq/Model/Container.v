(* Model of the container layer of image-webp: src/decoder.rs (WebPDecoder::new -> read_data, read_chunk_header,
   read_fourcc, read_chunk, the accessors, output_buffer_size, set_memory_limit) and
   src/extended.rs::read_extended_header / read_3_bytes.  One definition per Rust function, same order of
   operations, same integer widths.  Checked arithmetic (debug build) that overflows, `unwrap` on None and
   out-of-range conversions are explicit [Panic]s; the chunk scan carries fuel ([OutOfFuel]).

   Reader: `std::io::Cursor<impl AsRef<[u8]>>` over the byte list [d] (never modified) with a u64 position that is
   threaded explicitly:
     read_exact   fails with UnexpectedEof when fewer than n bytes remain (the only error it has on a cursor);
     seek(Start)  always succeeds, also beyond the end;
     seek_relative(off) = seek(Current(off)) fails (InvalidInput) when pos + off is negative or exceeds u64.
   Both I/O failures are [Err EIo]; the scan loop tests `e.kind() == UnexpectedEof` on the result of
   read_chunk_header only, whose sole failure on a cursor is UnexpectedEof, so the two kinds never need telling apart.
   After `new` every public operation starts with an absolute seek, so the position left behind is unobservable
   and the decoder record does not keep it.

   The chunk HashMap is an association list; `entry(k).or_insert(v)` keeps the first binding; the one
   `insert` (simple formats) happens on an empty map.

   Modelled WITH fix F1 (VP8L width/height) and fix F13 (ANIM background byte order; not observable through any
   accessor) -- see the marks below.  No proofs in this file. *)
From Coq Require Import ZArith List Bool.
From WebP Require Import Lib.Res.
Import ListNotations.
Open Scope Z_scope.
Open Scope res_scope.

Definition len {A} (l : list A) : Z := Z.of_nat (length l).

Definition u16_max : Z := 65535.
Definition u32_max : Z := 4294967295.
Definition u64_max : Z := 18446744073709551615.
Definition i64_min : Z := -9223372036854775808.
Definition i64_max : Z := 9223372036854775807.
Definition usize_max : Z := u64_max.          (* 64-bit target *)

(* `+`, `-` with overflow checks (debug build) *)
Definition add_u32 (a b : Z) : res Z := if a + b <=? u32_max then Ok (a + b) else Panic POverflow.
Definition add_u64 (a b : Z) : res Z := if a + b <=? u64_max then Ok (a + b) else Panic POverflow.
Definition sub_u64 (a b : Z) : res Z := if b <=? a then Ok (a - b) else Panic POverflow.
Definition sub_i64 (a b : Z) : res Z :=
  if (i64_min <=? a - b) && (a - b <=? i64_max) then Ok (a - b) else Panic POverflow.

(* ---------------------------------------------------------------------------------------------- *)
(* the reader                                                                                       *)
(* ---------------------------------------------------------------------------------------------- *)
Definition slice (d : list Z) (p n : Z) : list Z := firstn (Z.to_nat n) (skipn (Z.to_nat p) d).

(* Read::read_exact on a Cursor at position p: (bytes, new position) *)
Definition read_exact (d : list Z) (p n : Z) : res (list Z * Z) :=
  if n =? 0 then Ok ([], p)
  else if p + n <=? len d then Ok (slice d p n, p + n) else Err EIo.

Definition seek_relative (p off : Z) : res Z :=          (* pos.checked_add_signed(off) *)
  if (0 <=? p + off) && (p + off <=? u64_max) then Ok (p + off) else Err EIo.

Definition nth_byte (l : list Z) (i : nat) : Z := nth i l 0.

Definition read_u8 (d : list Z) (p : Z) : res (Z * Z) :=
  let* '(b, p') := read_exact d p 1 in Ok (nth_byte b 0, p').
Definition read_u16_le (d : list Z) (p : Z) : res (Z * Z) :=          (* u16::from_le_bytes *)
  let* '(b, p') := read_exact d p 2 in Ok (nth_byte b 0 + 256 * nth_byte b 1, p').
Definition read_u24_le (d : list Z) (p : Z) : res (Z * Z) :=          (* byteorder read_u24::<LittleEndian> *)
  let* '(b, p') := read_exact d p 3 in Ok (nth_byte b 0 + 256 * nth_byte b 1 + 65536 * nth_byte b 2, p').
Definition read_u32_le (d : list Z) (p : Z) : res (Z * Z) :=          (* u32::from_le_bytes *)
  let* '(b, p') := read_exact d p 4 in
  Ok (nth_byte b 0 + 256 * nth_byte b 1 + 65536 * nth_byte b 2 + 16777216 * nth_byte b 3, p').

(* extended.rs::read_3_bytes: (b[2] << 16) | (b[1] << 8) | b[0] in u32 *)
Definition read_3_bytes (d : list Z) (p : Z) : res (Z * Z) :=
  let* '(b, p') := read_exact d p 3 in
  Ok (Z.lor (Z.lor (Z.shiftl (nth_byte b 2) 16) (Z.shiftl (nth_byte b 1) 8)) (nth_byte b 0), p').

(* ---------------------------------------------------------------------------------------------- *)
(* WebPRiffChunk                                                                                    *)
(* ---------------------------------------------------------------------------------------------- *)
Inductive chunk_kind :=
  | KRIFF | KWEBP | KVP8 | KVP8L | KVP8X | KANIM | KANMF | KALPH | KICCP | KEXIF | KXMP
  | KUnknown (fourcc : list Z).

Fixpoint bytes_eqb (a b : list Z) : bool :=
  match a, b with
  | [], [] => true
  | x :: a', y :: b' => (x =? y) && bytes_eqb a' b'
  | _, _ => false
  end.

Definition from_fourcc (c : list Z) : chunk_kind :=
  if bytes_eqb c [82; 73; 70; 70] then KRIFF            (* b"RIFF" *)
  else if bytes_eqb c [87; 69; 66; 80] then KWEBP       (* b"WEBP" *)
  else if bytes_eqb c [86; 80; 56; 32] then KVP8        (* b"VP8 " *)
  else if bytes_eqb c [86; 80; 56; 76] then KVP8L       (* b"VP8L" *)
  else if bytes_eqb c [86; 80; 56; 88] then KVP8X       (* b"VP8X" *)
  else if bytes_eqb c [65; 78; 73; 77] then KANIM       (* b"ANIM" *)
  else if bytes_eqb c [65; 78; 77; 70] then KANMF       (* b"ANMF" *)
  else if bytes_eqb c [65; 76; 80; 72] then KALPH       (* b"ALPH" *)
  else if bytes_eqb c [73; 67; 67; 80] then KICCP       (* b"ICCP" *)
  else if bytes_eqb c [69; 88; 73; 70] then KEXIF       (* b"EXIF" *)
  else if bytes_eqb c [88; 77; 80; 32] then KXMP        (* b"XMP " *)
  else KUnknown c.

Definition is_unknown (k : chunk_kind) : bool := match k with KUnknown _ => true | _ => false end.

Definition kind_eqb (a b : chunk_kind) : bool :=        (* derived PartialEq *)
  match a, b with
  | KRIFF, KRIFF | KWEBP, KWEBP | KVP8, KVP8 | KVP8L, KVP8L | KVP8X, KVP8X | KANIM, KANIM | KANMF, KANMF
  | KALPH, KALPH | KICCP, KICCP | KEXIF, KEXIF | KXMP, KXMP => true
  | KUnknown x, KUnknown y => bytes_eqb x y
  | _, _ => false
  end.

(* HashMap<WebPRiffChunk, Range<u64>> *)
Definition chunk_map := list (chunk_kind * (Z * Z)).
Fixpoint lookup (k : chunk_kind) (m : chunk_map) : option (Z * Z) :=
  match m with
  | [] => None
  | (k', r) :: m' => if kind_eqb k k' then Some r else lookup k m'
  end.
Definition contains_key (k : chunk_kind) (m : chunk_map) : bool :=
  match lookup k m with Some _ => true | None => false end.
(* entry(k).or_insert(r) *)
Definition or_insert (k : chunk_kind) (r : Z * Z) (m : chunk_map) : chunk_map :=
  if contains_key k m then m else m ++ [(k, r)].

(* read_fourcc, read_chunk_header *)
Definition read_fourcc (d : list Z) (p : Z) : res (chunk_kind * Z) :=
  let* '(b, p') := read_exact d p 4 in Ok (from_fourcc b, p').

Definition read_chunk_header (d : list Z) (p : Z) : res ((chunk_kind * Z * Z) * Z) :=
  let* '(chunk, p1) := read_fourcc d p in
  let* '(chunk_size, p2) := read_u32_le d p1 in
  (* chunk_size.saturating_add(chunk_size & 1) *)
  let chunk_size_rounded := Z.min (chunk_size + Z.land chunk_size 1) u32_max in
  Ok ((chunk, chunk_size, chunk_size_rounded), p2).

(* ---------------------------------------------------------------------------------------------- *)
(* extended.rs::read_extended_header                                                                *)
(* ---------------------------------------------------------------------------------------------- *)
Record extended_info := {
  e_alpha : bool; e_canvas_width : Z; e_canvas_height : Z;
  e_icc_profile : bool; e_exif_metadata : bool; e_xmp_metadata : bool; e_animation : bool;
  e_background_color : list Z
}.

Definition read_extended_header (d : list Z) (p : Z) : res (extended_info * Z) :=
  let* '(chunk_flags, p) := read_u8 d p in
  let icc_profile := negb (Z.land chunk_flags 32 =? 0) in
  let alpha := negb (Z.land chunk_flags 16 =? 0) in
  let exif_metadata := negb (Z.land chunk_flags 8 =? 0) in
  let xmp_metadata := negb (Z.land chunk_flags 4 =? 0) in
  let animation := negb (Z.land chunk_flags 2 =? 0) in
  let* '(_reserved, p) := read_3_bytes d p in
  let* '(w1, p) := read_3_bytes d p in
  let* canvas_width := add_u32 w1 1 in
  let* '(h1, p) := read_3_bytes d p in
  let* canvas_height := add_u32 h1 1 in
  (* u32::checked_mul(..).is_none() *)
  if u32_max <? canvas_width * canvas_height then Err EImageTooLarge else
  Ok ({| e_alpha := alpha; e_canvas_width := canvas_width; e_canvas_height := canvas_height;
         e_icc_profile := icc_profile; e_exif_metadata := exif_metadata; e_xmp_metadata := xmp_metadata;
         e_animation := animation; e_background_color := [0; 0; 0; 0] |}, p).

(* ---------------------------------------------------------------------------------------------- *)
(* WebPDecoder                                                                                      *)
(* ---------------------------------------------------------------------------------------------- *)
Inductive image_kind := Lossy | Lossless | ExtendedKind (info : extended_info).
Inductive LoopCount := Forever | Times (n : Z).

Record decoder := {
  d_data : list Z;                 (* r *)
  d_memory_limit : Z;
  d_width : Z; d_height : Z;
  d_kind : image_kind;
  d_next_frame_start : Z;          (* animation.next_frame_start, the only AnimationState field new() writes *)
  d_is_lossy : bool; d_has_alpha : bool;
  d_num_frames : Z; d_loop_count : LoopCount; d_loop_duration : Z;
  d_chunks : chunk_map
}.

(* read_chunk(chunk, max_size): the size test comes BEFORE the seek and the allocation *)
Definition read_chunk_in (d : list Z) (chunks : chunk_map) (chunk : chunk_kind) (max_size : Z)
  : res (option (list Z)) :=
  match lookup chunk chunks with
  | Some (rstart, rend) =>
      let* sz := sub_u64 rend rstart in
      if max_size <? sz then Err EMemoryLimitExceeded else
      (* seek(Start(range.start)); vec![0; size]; read_exact *)
      let* '(data, _) := read_exact d rstart sz in
      Ok (Some data)
  | None => Ok None
  end.

(* state of the chunk scan of the VP8X branch: the reader position and the locals / fields the loop updates *)
Record scan_state := {
  s_rpos : Z;               (* position of the reader *)
  s_position : Z;           (* `position` *)
  s_chunks : chunk_map;
  s_num_frames : Z;
  s_loop_duration : Z;
  s_is_lossy : bool
}.
Inductive step := Continue (st : scan_state) | Break.

(* body of `while position < max_position` *)
Definition scan_body (d : list Z) (st : scan_state) : res step :=
  match read_chunk_header d (s_rpos st) with
  | Ok ((chunk, chunk_size, chunk_size_rounded), rp) =>
      let* range_start := add_u64 (s_position st) 8 in
      let* range_end := add_u64 range_start chunk_size in
      let* t := add_u64 8 chunk_size_rounded in
      let* position := add_u64 (s_position st) t in
      let chunks := if negb (is_unknown chunk) then or_insert chunk (range_start, range_end) (s_chunks st)
                    else s_chunks st in
      if kind_eqb chunk KANMF then
        let* num_frames := add_u32 (s_num_frames st) 1 in
        if chunk_size <? 24 then Err EInvalidChunkSize else
        let* rp := seek_relative rp 12 in
        let* '(v, rp) := read_u32_le d rp in
        let duration := Z.land v 16777215 in
        let loop_duration := (s_loop_duration st + duration) mod 18446744073709551616 in   (* wrapping_add *)
        if negb (s_is_lossy st) then
          let* '((subchunk, _, _), rp) := read_chunk_header d rp in
          let is_lossy := match subchunk with KVP8 | KALPH => true | _ => s_is_lossy st end in
          let* off := sub_i64 chunk_size_rounded 24 in
          let* rp := seek_relative rp off in
          Ok (Continue {| s_rpos := rp; s_position := position; s_chunks := chunks; s_num_frames := num_frames;
                          s_loop_duration := loop_duration; s_is_lossy := is_lossy |})
        else
          let* off := sub_i64 chunk_size_rounded 16 in
          let* rp := seek_relative rp off in
          Ok (Continue {| s_rpos := rp; s_position := position; s_chunks := chunks; s_num_frames := num_frames;
                          s_loop_duration := loop_duration; s_is_lossy := s_is_lossy st |})
      else
        let* rp := seek_relative rp chunk_size_rounded in
        Ok (Continue {| s_rpos := rp; s_position := position; s_chunks := chunks; s_num_frames := s_num_frames st;
                        s_loop_duration := s_loop_duration st; s_is_lossy := s_is_lossy st |})
  | Err EIo => Ok Break                       (* IoError of kind UnexpectedEof: end of the scan *)
  | Err e => Err e
  | Panic p => Panic p
  | OutOfFuel => OutOfFuel
  end.

Fixpoint scan (fuel : nat) (d : list Z) (max_position : Z) (st : scan_state) : res scan_state :=
  match fuel with
  | O => OutOfFuel
  | S fuel' =>
      if s_position st <? max_position then
        match scan_body d st with
        | Ok (Continue st') => scan fuel' d max_position st'
        | Ok Break => Ok st
        | Err e => Err e
        | Panic p => Panic p
        | OutOfFuel => OutOfFuel
        end
      else Ok st
  end.

(* `for _ in 0..2` registering the sub-chunks of the first frame.  As in the source, the reader is NOT moved to
   `position` between the two iterations: the second header is read right after the first one. *)
Fixpoint first_frame_loop (n : nat) (d : list Z) (range_end : Z) (rp position : Z) (chunks : chunk_map)
  : res chunk_map :=
  match n with
  | O => Ok chunks
  | S n' =>
      let* '((subchunk, subchunk_size, subchunk_size_rounded), rp) := read_chunk_header d rp in
      let* sub_start := add_u64 position 8 in
      let* sub_end := add_u64 sub_start subchunk_size in
      let chunks := or_insert subchunk (sub_start, sub_end) chunks in
      let* t := add_u64 8 subchunk_size_rounded in
      let* position := add_u64 position t in
      let* e := add_u64 position 8 in
      if range_end <? e then Ok chunks else first_frame_loop n' d range_end rp position chunks
  end.

Definition mk_decoder (d : list Z) (w h : Z) (k : image_kind) (nfs : Z) (lossy alpha : bool) (nf : Z)
  (lc : LoopCount) (ld : Z) (m : chunk_map) : decoder :=
  {| d_data := d; d_memory_limit := usize_max; d_width := w; d_height := h; d_kind := k;
     d_next_frame_start := nfs; d_is_lossy := lossy; d_has_alpha := alpha; d_num_frames := nf;
     d_loop_count := lc; d_loop_duration := ld; d_chunks := m |}.

(* `[u8; 4]::swap(0, 2)` *)
Definition swap02 (l : list Z) : list Z := match l with [b; g; r; a] => [r; g; b; a] | _ => l end.

(* WebPDecoder::new = initial field values + read_data *)
Definition new (d : list Z) : res decoder :=
  let* '((riff, riff_size, _), p) := read_chunk_header d 0 in
  if negb (kind_eqb riff KRIFF) then Err EChunkHeaderInvalid else
  let* '(webp, p) := read_fourcc d p in
  if negb (kind_eqb webp KWEBP) then Err EWebpSignatureInvalid else
  let* '((chunk, chunk_size, chunk_size_rounded), p) := read_chunk_header d p in
  let start := p in                                             (* stream_position() *)
  match chunk with
  | KVP8 =>
      let* '(tag, p) := read_u24_le d p in
      let keyframe := Z.land tag 1 =? 0 in
      if negb keyframe then Err EUnsupportedFeature else
      let* '(magic, p) := read_exact d p 3 in
      if negb (bytes_eqb magic [157; 1; 42]) then Err EVp8MagicInvalid else
      let* '(w, p) := read_u16_le d p in
      let* '(h, p) := read_u16_le d p in
      let width := Z.land w 16383 in
      let height := Z.land h 16383 in
      if (width =? 0) || (height =? 0) then Err EInconsistentImageSizes else
      let* range_end := add_u64 start chunk_size in
      Ok (mk_decoder d width height Lossy 0 true false 0 (Times 1) 0 [(KVP8, (start, range_end))])
  | KVP8L =>
      let* '(signature, p) := read_u8 d p in
      if negb (signature =? 47) then Err ELosslessSignatureInvalid else
      let* '(header, p) := read_u32_le d p in
      let version := Z.shiftr header 29 in
      if negb (version =? 0) then Err EVersionNumberInvalid else
      (* FIX F1: the pinned tree has `(1 + header) & 0x3FFF` and `(1 + (header >> 14)) & 0x3FFF`, which wrap
         16384 to 0; modelled here is the repaired `(header & 0x3FFF) + 1`, `((header >> 14) & 0x3FFF) + 1` *)
      let* width := add_u32 (Z.land header 16383) 1 in
      let* height := add_u32 (Z.land (Z.shiftr header 14) 16383) 1 in
      let* range_end := add_u64 start chunk_size in
      let has_alpha := negb (Z.land (Z.shiftr header 28) 1 =? 0) in
      Ok (mk_decoder d width height Lossless 0 false has_alpha 0 (Times 1) 0 [(KVP8L, (start, range_end))])
  | KVP8X =>
      let* '(info, p) := read_extended_header d p in
      let width := e_canvas_width info in
      let height := e_canvas_height info in
      let* position := add_u64 start chunk_size_rounded in
      let* max_position := add_u64 position (Z.max (riff_size - 12) 0) in      (* riff_size.saturating_sub(12) *)
      let rp := position in                                                    (* seek(Start(position)) *)
      let* st := scan (S (length d)) d max_position
                   {| s_rpos := rp; s_position := position; s_chunks := []; s_num_frames := 0;
                      s_loop_duration := 0; s_is_lossy := false |} in
      let chunks := s_chunks st in
      let is_lossy := s_is_lossy st || contains_key KVP8 chunks in
      if e_animation info && (negb (contains_key KANIM chunks) || negb (contains_key KANMF chunks))
         || e_icc_profile info && negb (contains_key KICCP chunks)
         || e_exif_metadata info && negb (contains_key KEXIF chunks)
         || e_xmp_metadata info && negb (contains_key KXMP chunks)
         || negb (e_animation info) && Bool.eqb (contains_key KVP8 chunks) (contains_key KVP8L chunks)
      then Err EChunkMissing else
      (* Decode ANIM chunk *)
      let* '(info, loop_count, next_frame_start) :=
        if e_animation info then
          match read_chunk_in d chunks KANIM 6 with
          | Ok (Some chunk) =>
              (* Cursor::new(chunk) *)
              let* '(bg, cp) := read_exact chunk 0 4 in
              let* '(n, _) := read_u16_le chunk cp in
              let* loop_count :=
                if n =? 0 then Ok Forever
                else (if n =? 0 then Panic PUnwrap else Ok (Times n)) in      (* NonZeroU16::new(n).unwrap() *)
              let* anmf := of_option (lookup KANMF chunks) PUnwrap in
              let* nfs := sub_u64 (fst anmf) 8 in
              Ok ({| e_alpha := e_alpha info; e_canvas_width := e_canvas_width info;
                     e_canvas_height := e_canvas_height info; e_icc_profile := e_icc_profile info;
                     e_exif_metadata := e_exif_metadata info; e_xmp_metadata := e_xmp_metadata info;
                     e_animation := e_animation info;
                     (* FIX F13: the container stores [Blue, Green, Red, Alpha]: info.background_color.swap(0, 2) *)
                     e_background_color := swap02 bg |}, loop_count, nfs)
          | Ok None => Err EChunkMissing
          | Err EMemoryLimitExceeded => Err EInvalidChunkSize
          | Err e => Err e
          | Panic pk => Panic pk
          | OutOfFuel => OutOfFuel
          end
        else Ok (info, Times 1, 0) in
      (* sub-chunks of the first frame *)
      let* chunks :=
        match lookup KANMF chunks with
        | Some (rstart, rend) =>
            let* position := add_u64 rstart 16 in
            first_frame_loop 2 d rend position position chunks              (* seek(Start(position)) *)
        | None => Ok chunks
        end in
      Ok (mk_decoder d width height (ExtendedKind info) next_frame_start is_lossy (e_alpha info)
            (s_num_frames st) loop_count (s_loop_duration st) chunks)
  | _ => Err EChunkHeaderInvalid
  end.

(* ---------------------------------------------------------------------------------------------- *)
(* accessors                                                                                        *)
(* ---------------------------------------------------------------------------------------------- *)
Definition set_memory_limit (dec : decoder) (limit : Z) : decoder :=
  {| d_data := d_data dec; d_memory_limit := limit; d_width := d_width dec; d_height := d_height dec;
     d_kind := d_kind dec; d_next_frame_start := d_next_frame_start dec; d_is_lossy := d_is_lossy dec;
     d_has_alpha := d_has_alpha dec; d_num_frames := d_num_frames dec; d_loop_count := d_loop_count dec;
     d_loop_duration := d_loop_duration dec; d_chunks := d_chunks dec |}.

Definition dimensions (dec : decoder) : Z * Z := (d_width dec, d_height dec).
Definition has_alpha (dec : decoder) : bool := d_has_alpha dec.
Definition is_animated (dec : decoder) : bool :=
  match d_kind dec with Lossy | Lossless => false | ExtendedKind info => e_animation info end.
Definition is_lossy (dec : decoder) : bool := d_is_lossy dec.
Definition num_frames (dec : decoder) : Z := d_num_frames dec.
Definition loop_count (dec : decoder) : LoopCount := d_loop_count dec.
Definition loop_duration (dec : decoder) : Z := d_loop_duration dec.

Definition read_chunk (dec : decoder) (chunk : chunk_kind) (max_size : Z) : res (option (list Z)) :=
  read_chunk_in (d_data dec) (d_chunks dec) chunk max_size.
Definition icc_profile (dec : decoder) := read_chunk dec KICCP (d_memory_limit dec).
Definition exif_metadata (dec : decoder) := read_chunk dec KEXIF (d_memory_limit dec).
Definition xmp_metadata (dec : decoder) := read_chunk dec KXMP (d_memory_limit dec).

(* (width as usize).checked_mul(height as usize)?.checked_mul(bytes_per_pixel) *)
Definition output_buffer_size (dec : decoder) : option Z :=
  let bytes_per_pixel := if has_alpha dec then 4 else 3 in
  let a := d_width dec * d_height dec in
  if usize_max <? a then None else
  if usize_max <? a * bytes_per_pixel then None else Some (a * bytes_per_pixel).

(* flat view used by the oracle (one distinctive entry point): new, then every accessor; the memory limit, when
   given, is set before the three metadata getters are called *)
Definition loop_count_value (lc : LoopCount) : Z := match lc with Forever => 0 | Times n => n end.
Definition container_eval (limit : option Z) (bytes : list Z) :=
  let* dec := new bytes in
  let dec' := match limit with Some l => set_memory_limit dec l | None => dec end in
  Ok (dimensions dec, has_alpha dec, is_animated dec, is_lossy dec, num_frames dec,
      loop_count_value (loop_count dec), loop_duration dec,
      icc_profile dec', exif_metadata dec', xmp_metadata dec', output_buffer_size dec').
