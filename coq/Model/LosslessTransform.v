(* Hand Model of lossless_transform.rs: the inverse transforms of VP8L on a flat RGBA byte array
   (`&mut [u8]`, 4 bytes per pixel in the order R,G,B,A), in place, with the loop structure and the slice
   arithmetic of the Rust code.  The scalar kernels (average2, clamp_add_subtract_full/half,
   color_transform_delta, subsample_size) are the ones generated from the source (Gen.Kernels).
   Reads through the `old` half of a `split_at_mut` are reads of the same array at indices below
   `range.start`, which the loop never writes, so one array suffices.  No proofs here. *)
From Coq Require Import ZArith NArith List Bool.
From WebP Require Import Lib.Res Lib.Arr Gen.Kernels Model.LosslessLib.
Import ListNotations.
Open Scope Z_scope.
Open Scope res_scope.

Definition map4 (f : Z -> Z) (p : px4) : px4 := let '(a, b, c, d) := p in (f a, f b, f c, f d).
Definition zip4 (f : Z -> Z -> Z) (p q : px4) : px4 :=
  let '(a, b, c, d) := p in let '(a', b', c', d') := q in (f a a', f b b', f c c', f d d').
Definition add4 (p q : px4) : px4 := zip4 wadd8 p q.
Definition zero4 : px4 := (0, 0, 0, 0).

(* subsample_size with its `try_into().unwrap()` and overflow checks *)
Definition subsample (size bits : Z) : res Z :=
  if subsample_size_ok size bits then Ok (subsample_size size bits) else Panic PUnwrap.

(* ---------- byte-wise predictors: for i in range { image_data[i] = image_data[i].wrapping_add(pred i) } ---------- *)
Definition byte_loop (pred : arr -> Z -> res Z) (img : arr) (rstart rend : Z) : res arr :=
  for_range rstart rend (fun i img =>
    let* p := pred img i in
    let* c := zget img i in
    zset img i (wadd8 c p)) img.

(* apply_predictor_transform_0 : for i in ((range.start + 3)..range.end).step_by(4) *)
Definition pred0 (img : arr) (rstart rend width : Z) : res arr :=
  for_loop (Z.to_nat (step_count (rstart + 3) rend 4)) (rstart + 3) 4 (fun i img =>
    let* c := zget img i in zset img i (wadd8 c 255)) img.

(* image_data[i - width * 4 + d] with the usize subtraction(s) checked in evaluation order *)
Definition up (img : arr) (i width : Z) : res Z := let* j := usub i (width * 4) in zget img j.
Definition up_right (img : arr) (i width : Z) : res Z := let* j := usub i (width * 4) in zget img (j + 4).
Definition up_left (img : arr) (i width : Z) : res Z := let* j := usub i (width * 4) in let* k := usub j 4 in zget img k.

Definition pred2 (img : arr) (rstart rend width : Z) : res arr := byte_loop (fun img i => up img i width) img rstart rend.
Definition pred3 (img : arr) (rstart rend width : Z) : res arr := byte_loop (fun img i => up_right img i width) img rstart rend.
Definition pred4 (img : arr) (rstart rend width : Z) : res arr := byte_loop (fun img i => up_left img i width) img rstart rend.
Definition pred8 (img : arr) (rstart rend width : Z) : res arr :=
  byte_loop (fun img i => let* a := up_left img i width in let* b := up img i width in Ok (average2 a b)) img rstart rend.
Definition pred9 (img : arr) (rstart rend width : Z) : res arr :=
  byte_loop (fun img i => let* a := up img i width in let* b := up_right img i width in Ok (average2 a b)) img rstart rend.

(* ---------- pixel-wise predictors carrying `prev` ---------- *)
(* n pixels starting at byte `pos`; f cur prev tl t tr = the new pixel; only the neighbours the Rust function
   zips in are read (tl, t, tr at byte offsets  -4w-4, -4w, -4w+4  from the current pixel) *)
Fixpoint prev_loop (n : nat) (f : px4 -> px4 -> px4 -> px4 -> px4 -> res px4) (utl ut utr : bool)
         (w4 pos : Z) (prev : px4) (img : arr) : res (px4 * arr) :=
  match n with
  | O => Ok (prev, img)
  | S n' =>
    let* cur := get4 img pos in
    let* tl := (if utl then get4 img (pos - w4 - 4) else Ok zero4) in
    let* t := (if ut then get4 img (pos - w4) else Ok zero4) in
    let* tr := (if utr then get4 img (pos - w4 + 4) else Ok zero4) in
    let* nw := f cur prev tl t tr in
    let* img' := set4 img pos nw in
    prev_loop n' f utl ut utr w4 (pos + 4) nw img'
  end.

(* let (old, current) = image_data[..range.end].split_at_mut(range.start); *)
Definition split_checks (img : arr) (rstart rend : Z) : res unit :=
  if zlen img <? rend then Panic PSlice else                (* image_data[..range.end] *)
  if rend <? rstart then Panic PSlice else Ok tt.           (* split_at_mut: mid > len *)
(* let mut prev: [u8; 4] = old[range.start - 4..][..4].try_into().unwrap();   (old.len() = range.start) *)
Definition prev_of (img : arr) (rstart : Z) : res px4 :=
  let* s := usub rstart 4 in get4 img s.
(* &old[range.start - width * 4 + d ..]  with old.len() = range.start : number of 4-byte chunks it holds *)
Definition chunks_from (rstart off : Z) : res Z :=      (* off = the start of the slice *)
  if rstart <? off then Panic PSlice else Ok ((rstart - off) / 4).

Definition cur_chunks (rstart rend : Z) : Z := (rend - rstart) / 4.

(* apply_predictor_transform_1 *)
Definition pred1 (img : arr) (rstart rend width : Z) : res arr :=
  let* s := usub rstart 4 in
  let* prev := slice4 img s in                              (* image_data[range.start - 4..][..4] *)
  if rend <? rstart then Panic PSlice else                  (* image_data[range] *)
  if zlen img <? rend then Panic PSlice else
  let* '(_, img') := prev_loop (Z.to_nat (cur_chunks rstart rend))
                        (fun cur prev _ _ _ => Ok (add4 cur prev)) false false false (width * 4) rstart prev img in
  Ok img'.

(* apply_predictor_transform_5 *)
Definition pred5 (img : arr) (rstart rend width : Z) : res arr :=
  let* _ := split_checks img rstart rend in
  let* prev := prev_of img rstart in
  let* t0 := usub rstart (width * 4) in
  let* ntr := chunks_from rstart (t0 + 4) in
  let* nt := chunks_from rstart t0 in
  let n := Z.min (Z.min (cur_chunks rstart rend) ntr) nt in
  let* '(_, img') := prev_loop (Z.to_nat n)
     (fun cur prev _ t tr => Ok (add4 cur (zip4 average2 (zip4 average2 prev tr) t))) false true true (width * 4) rstart prev img in
  Ok img'.

(* apply_predictor_transform_6 *)
Definition pred6 (img : arr) (rstart rend width : Z) : res arr :=
  let* _ := split_checks img rstart rend in
  let* prev := prev_of img rstart in
  let* t0 := usub rstart (width * 4) in
  let* tl0 := usub t0 4 in
  let* ntl := chunks_from rstart tl0 in
  let n := Z.min (cur_chunks rstart rend) ntl in
  let* '(_, img') := prev_loop (Z.to_nat n)
     (fun cur prev tl _ _ => Ok (add4 cur (zip4 average2 prev tl))) true false false (width * 4) rstart prev img in
  Ok img'.

(* apply_predictor_transform_7: chunks of 64 bytes (16 pixels), then the remainder *)
Definition pred7 (img : arr) (rstart rend width : Z) : res arr :=
  let* _ := split_checks img rstart rend in
  let* prev := prev_of img rstart in
  let* t0 := usub rstart (width * 4) in
  let len := rend - rstart in
  if rstart - t0 <? len then Panic PSlice else               (* &old[range.start - width*4..][..(range.end - range.start)] *)
  let f := (fun cur prev (_ t _ : px4) => Ok (add4 cur (zip4 average2 prev t))) in
  let n64 := len / 64 in
  let* '(prev1, img1) := prev_loop (Z.to_nat (16 * n64)) f false true false (width * 4) rstart prev img in
  let* '(_, img2) := prev_loop (Z.to_nat ((len - 64 * n64) / 4)) f false true false (width * 4) (rstart + 64 * n64) prev1 img1 in
  Ok img2.

(* apply_predictor_transform_10 *)
Definition pred10 (img : arr) (rstart rend width : Z) : res arr :=
  let* _ := split_checks img rstart rend in
  let* prev := prev_of img rstart in
  let* t0 := usub rstart (width * 4) in
  let* tl0 := usub t0 4 in
  let* ntl := chunks_from rstart tl0 in
  let* nt := chunks_from rstart t0 in
  let* ntr := chunks_from rstart (t0 + 4) in
  let n := Z.min (Z.min (Z.min (cur_chunks rstart rend) ntl) nt) ntr in
  let* '(_, img') := prev_loop (Z.to_nat n)
     (fun cur prev tl t tr => Ok (add4 cur (zip4 average2 (zip4 average2 prev tl) (zip4 average2 t tr))))
     true true true (width * 4) rstart prev img in
  Ok img'.

(* apply_predictor_transform_11 (select): i16 arithmetic; carries l and tl *)
Definition sum4 (p : px4) : Z := let '(a, b, c, d) := p in a + b + c + d.
Fixpoint select_loop (n : nat) (w4 pos : Z) (l tl : px4) (img : arr) : res arr :=
  match n with
  | O => Ok img
  | S n' =>
    let* cur := get4 img pos in
    let* t := get4 img (pos - w4) in
    let predict := zip4 Z.sub (zip4 Z.add l t) tl in           (* l[i] + t[i] - tl[i], within i16 for bytes *)
    let predict_left := sum4 (zip4 (fun p x => Z.abs (p - x)) predict l) in
    let predict_top := sum4 (zip4 (fun p x => Z.abs (p - x)) predict t) in
    if (32767 <? predict_left) || (32767 <? predict_top) then Panic POverflow else
    let nw := if predict_left <? predict_top then add4 cur (map4 (fun x => x mod 256) l)
              else add4 cur (map4 (fun x => x mod 256) t) in
    let* img' := set4 img pos nw in
    select_loop n' w4 (pos + 4) nw t img'
  end.
Definition pred11 (img : arr) (rstart rend width : Z) : res arr :=
  let* _ := split_checks img rstart rend in
  let* t0 := usub rstart (width * 4) in
  let* nt := chunks_from rstart t0 in
  let* l0 := usub rstart 4 in
  let* l := get4 img l0 in
  let* tl0 := usub t0 4 in
  let* tl := get4 img tl0 in
  let n := Z.min (cur_chunks rstart rend) nt in
  select_loop (Z.to_nat n) (width * 4) rstart l tl img.

Definition zip4r3 (f : Z -> Z -> Z -> res Z) (p q r : px4) : res px4 :=
  let '(a, b, c, d) := p in let '(a', b', c', d') := q in let '(a'', b'', c'', d'') := r in
  let* x0 := f a a' a'' in let* x1 := f b b' b'' in let* x2 := f c c' c'' in let* x3 := f d d' d'' in Ok (x0, x1, x2, x3).

(* apply_predictor_transform_12 *)
Definition casf (a b c : Z) : res Z :=
  if clamp_add_subtract_full_ok a b c then Ok (clamp_add_subtract_full a b c) else Panic POverflow.
Definition pred12 (img : arr) (rstart rend width : Z) : res arr :=
  let* _ := split_checks img rstart rend in
  let* prev := prev_of img rstart in
  let* t0 := usub rstart (width * 4) in
  let* tl0 := usub t0 4 in
  let* ntl := chunks_from rstart tl0 in
  let* nt := chunks_from rstart t0 in
  let n := Z.min (Z.min (cur_chunks rstart rend) ntl) nt in
  let* '(_, img') := prev_loop (Z.to_nat n)
     (fun cur prev tl t _ => let* p := zip4r3 casf prev t tl in Ok (add4 cur p)) true true false (width * 4) rstart prev img in
  Ok img'.

(* apply_predictor_transform_13 *)
Definition cash (prev t tl : Z) : res Z :=
  let a := Z.quot (prev + t) 2 in                                 (* (i16::from(prev) + i16::from(t)) / 2 *)
  if clamp_add_subtract_half_ok a tl then Ok (clamp_add_subtract_half a tl) else Panic POverflow.
Definition pred13 (img : arr) (rstart rend width : Z) : res arr :=
  let* _ := split_checks img rstart rend in
  let* prev := prev_of img rstart in
  let* t0 := usub rstart (width * 4) in
  let* tl0 := usub t0 4 in
  let len := rend - rstart in
  if rstart - tl0 <? len then Panic PSlice else                    (* &old[start - 4w - 4..][..len] *)
  if rstart - t0 <? len then Panic PSlice else                     (* &old[start - 4w..][..len] *)
  let* '(_, img') := prev_loop (Z.to_nat (cur_chunks rstart rend))
     (fun cur prev tl t _ => let* p := zip4r3 cash prev t tl in Ok (add4 cur p)) true true false (width * 4) rstart prev img in
  Ok img'.

Definition pred_k (k : Z) (img : arr) (rstart rend width : Z) : res arr :=
  match k with
  | 0 => pred0 img rstart rend width | 1 => pred1 img rstart rend width | 2 => pred2 img rstart rend width
  | 3 => pred3 img rstart rend width | 4 => pred4 img rstart rend width | 5 => pred5 img rstart rend width
  | 6 => pred6 img rstart rend width | 7 => pred7 img rstart rend width | 8 => pred8 img rstart rend width
  | 9 => pred9 img rstart rend width | 10 => pred10 img rstart rend width | 11 => pred11 img rstart rend width
  | 12 => pred12 img rstart rend width | 13 => pred13 img rstart rend width
  | _ => Ok img
  end.

(* apply_predictor_transform *)
Definition apply_predictor_transform (img : arr) (width height size_bits : Z) (predictor_data : arr) : res arr :=
  let* block_xsize := subsample width size_bits in
  (* top and left borders *)
  let* a := zget img 3 in
  let* img := zset img 3 (wadd8 a 255) in
  let* img := pred1 img 4 (width * 4) width in
  let* img := for_range 1 height (fun y img =>
                for_range 0 4 (fun i img =>
                  let* c := zget img (y * width * 4 + i) in
                  let* u := zget img ((y - 1) * width * 4 + i) in
                  zset img (y * width * 4 + i) (wadd8 c u)) img) img in
  for_range 1 height (fun y img =>
    for_range 0 block_xsize (fun block_x img =>
      let block_index := Z.shiftr y size_bits * block_xsize + block_x in
      let* predictor := zget predictor_data (block_index * 4 + 1) in
      let start_index := (y * width + Z.max (Z.shiftl block_x size_bits) 1) * 4 in
      let end_index := (y * width + Z.min (Z.shiftl (block_x + 1) size_bits) width) * 4 in
      pred_k predictor img start_index end_index width) img) img.

(* apply_color_transform *)
Definition ctd (t c : Z) : Z := color_transform_delta (wrapS 8 t) (wrapS 8 c).   (* `as i8` on both arguments *)
Definition color_pixel (img : arr) (pos r2b g2b g2r : Z) : res arr :=
  let* red := zget img pos in
  let* green := zget img (pos + 1) in
  let* blue := zget img (pos + 2) in
  let temp_red := red + ctd g2r green in
  let temp_blue := blue + ctd g2b green in
  let temp_blue2 := temp_blue + ctd r2b temp_red in
  if (2 ^ 32 <=? temp_red) || (2 ^ 32 <=? temp_blue2) then Panic POverflow else
  let* img := zset img pos (Z.land temp_red 255) in
  zset img (pos + 2) (Z.land temp_blue2 255).

Definition apply_color_transform (img : arr) (width size_bits : Z) (transform_data : arr) : res arr :=
  let* block_xsize := subsample width size_bits in
  let row_bytes := width * 4 in
  if row_bytes =? 0 then Panic PAssert else                       (* chunks_exact_mut(0): chunk size must be non-zero *)
  let rows := zlen img / row_bytes in
  let block_bytes := Z.shiftl 4 size_bits in
  let nblocks := (row_bytes + block_bytes - 1) / block_bytes in   (* row.chunks_mut(4 << size_bits) *)
  for_range 0 rows (fun y img =>
    for_range 0 nblocks (fun block_x img =>
      let block_index := Z.shiftr y size_bits * block_xsize + block_x in
      let* red_to_blue := zget transform_data (block_index * 4) in
      let* green_to_blue := zget transform_data (block_index * 4 + 1) in
      let* green_to_red := zget transform_data (block_index * 4 + 2) in
      let bstart := y * row_bytes + block_x * block_bytes in
      let blen := Z.min block_bytes (row_bytes - block_x * block_bytes) in
      for_loop (Z.to_nat (blen / 4)) bstart 4 (fun pos img =>
        color_pixel img pos red_to_blue green_to_blue green_to_red) img) img) img.

(* apply_subtract_green_transform *)
Definition apply_subtract_green_transform (img : arr) : res arr :=
  for_loop (Z.to_nat (zlen img / 4)) 0 4 (fun pos img =>
    let* r := zget img pos in let* g := zget img (pos + 1) in let* b := zget img (pos + 2) in
    let* img := zset img pos (wadd8 r g) in
    zset img (pos + 2) (wadd8 b g)) img.

(* apply_color_indexing_transform *)
(* one entry of the expanded table for index byte i: (1 << width_bits) pixels *)
Fixpoint index_entry (n : nat) (j i bits_per_entry mask table_size : Z) (table_data : arr) (acc : list Z) : res (list Z) :=
  match n with
  | O => Ok acc
  | S n' =>
    let k := Z.land (Z.shiftr i (j * bits_per_entry)) mask in
    let* px := (if k <? table_size then zslice table_data (k * 4) 4 else Ok [0; 0; 0; 0]) in
    index_entry n' (j + 1) i bits_per_entry mask table_size table_data (acc ++ px)
  end.
Fixpoint index_table (n : nat) (i per bits_per_entry mask table_size : Z) (table_data : arr) (acc : list (list Z)) : res (list (list Z)) :=
  match n with
  | O => Ok (rev acc)
  | S n' =>
    let* e := index_entry (Z.to_nat per) 0 i bits_per_entry mask table_size table_data [] in
    index_table n' (i + 1) per bits_per_entry mask table_size table_data (e :: acc)
  end.

Definition apply_color_indexing_transform (img : arr) (width height table_size : Z) (table_data : arr) : res arr :=
  if 16 <? table_size then
    (* table = table_data.chunks_exact(4) resized to 256 entries (zero filled) *)
    let nent := Z.min (zlen table_data / 4) 256 in
    for_loop (Z.to_nat (zlen img / 4)) 0 4 (fun pos img =>
      let* g := zget img (pos + 1) in
      let* px := (if g <? nent then zslice table_data (g * 4) 4 else Ok [0; 0; 0; 0]) in
      zwrite img pos px) img
  else
    let width_bits := if table_size <=? 2 then 3 else if table_size <=? 4 then 2 else 1 in
    let per := Z.shiftl 1 width_bits in
    let bits_per_entry := 8 / per in
    let mask := Z.shiftl 1 bits_per_entry - 1 in
    let* tbl := index_table 256 0 per bits_per_entry mask table_size table_data [] in
    let table := of_list (concat tbl) in                          (* 256 entries of entry_size bytes *)
    let entry_size := Z.shiftl 4 width_bits in
    let index_image_width := (width + per - 1) / per in             (* width.div_ceil(1 << width_bits) *)
    let* m := usub index_image_width 1 in
    let* final_entry_size := usub (width * 4) (entry_size * m) in
    for_range_rev 0 height (fun y img =>
      for_range_rev 0 index_image_width (fun x img =>
        let input_index := y * index_image_width * 4 + x * 4 + 1 in
        let output_index := y * width * 4 + x * entry_size in
        let* table_index := zget img input_index in
        let n := if x =? index_image_width - 1 then final_entry_size else entry_size in
        if entry_size <? n then Panic PSlice else                   (* table[table_index][..final_entry_size] *)
        let* src := zslice table (table_index * entry_size) n in
        if zlen img <? output_index then Panic PSlice else
        zwrite img output_index src) img) img.
