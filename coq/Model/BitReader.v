(* Hand Model of lossless.rs :: BitReader<R: BufRead>  (the LSB-first bit reservoir of the VP8L decoder).

   The reader R is modelled as the list of its remaining bytes plus a *schedule*: the k-th call of
   `fill_buf` exposes a window of `min (max 1 s_k) remaining` bytes, where s_k is the k-th schedule entry;
   when the schedule is used up every further call exposes the whole remainder (so the empty schedule
   is a `Cursor` over the whole payload).  Every `fill_buf` call consumes one schedule entry, whether or
   not bytes are `consume`d afterwards; this covers every legal BufRead behaviour on a given run.
   I/O errors are not modelled here (Lib/IO, property C10 `fault_surfaces`).

   u64 / u8 arithmetic is explicit; debug-build panics (debug_assert!, shift amount >= 64) are `Panic`.
   No proofs here. *)
From Coq Require Import ZArith List Bool.
From WebP Require Import Lib.Res.
Import ListNotations.
Open Scope Z_scope.
Open Scope res_scope.

Record t := mk { data : list Z;      (* bytes the reader has not handed out yet *)
                 sched : list Z;     (* window sizes of the coming fill_buf calls *)
                 buffer : Z;         (* u64 *)
                 nbits : Z }.        (* u8 *)

(* BitReader::new *)
Definition init (d : list Z) (s : list Z) : t := mk d s 0 0.

(* u64::from_le_bytes of the first n bytes *)
Fixpoint le_bytes (n : nat) (l : list Z) : Z :=
  match n, l with
  | S n', b :: tl => b + 256 * le_bytes n' tl
  | _, _ => 0
  end.

(* does the window of this fill_buf call hold at least 8 bytes? *)
Definition has8 (l : list Z) : bool := match l with _ :: _ :: _ :: _ :: _ :: _ :: _ :: _ :: _ => true | _ => false end.
Definition window_ge8 (d s : list Z) : bool :=
  has8 d && match s with [] => true | k :: _ => 8 <=? k end.

(* the byte-at-a-time path:
     while !buf.is_empty() && self.nbits < 56 {
         self.buffer |= u64::from(buf[0]) << self.nbits; self.nbits += 8;
         self.reader.consume(1); buf = self.reader.fill_buf()?; }
   (a window is non-empty exactly when bytes remain; each iteration ends with one more fill_buf call) *)
Fixpoint fill_slow (d s : list Z) (buf nb : Z) : t :=
  match d with
  | [] => mk d s buf nb
  | b :: tl => if nb <? 56 then fill_slow tl (List.tl s) (Z.lor buf (Z.shiftl b nb)) (nb + 8)
               else mk d s buf nb
  end.

(* BitReader::fill *)
Definition fill (r : t) : res t :=
  if 64 <=? nbits r then Panic PAssert (* debug_assert!(self.nbits < 64) *) else
  let s' := List.tl (sched r) in                      (* let mut buf = self.reader.fill_buf()?; *)
  if window_ge8 (data r) (sched r) then               (* if buf.len() >= 8 *)
    let lookahead := le_bytes 8 (data r) in
    Ok (mk (skipn (Z.to_nat ((63 - nbits r) / 8)) (data r)) s'
           (Z.lor (buffer r) (Z.land (Z.shiftl lookahead (nbits r)) (Z.ones 64)))   (* u64 `<<` drops the high bits *)
           (Z.lor (nbits r) 56))
  else Ok (fill_slow (data r) s' (buffer r) (nbits r)).

(* BitReader::peek : self.buffer & ((1 << num) - 1) *)
Definition peek (r : t) (num : Z) : res Z :=
  if (num <? 0) || (64 <=? num) then Panic PShift else Ok (Z.land (buffer r) (Z.ones num)).

(* BitReader::peek_full *)
Definition peek_full (r : t) : Z := buffer r.

(* BitReader::consume *)
Definition consume (r : t) (num : Z) : res t :=
  if nbits r <? num then Err EBitStreamError else
  if (num <? 0) || (64 <=? num) then Panic PShift else
  Ok (mk (data r) (sched r) (Z.shiftr (buffer r) num) (nbits r - num)).

(* BitReader::read_bits::<T>(num), tbits = 8 * size_of::<T>() *)
Definition read_bits (r : t) (tbits num : Z) : res (Z * t) :=
  if (tbits <? num) || (32 <? num) then Panic PAssert else
  let* r1 := (if nbits r <? num then fill r else Ok r) in
  let* v := peek r1 num in
  let value := v mod 2 ^ 32 in                         (* as u32 *)
  let* r2 := consume r1 num in
  if value <? 2 ^ tbits then Ok (value, r2) else Panic PAssert. (* try_into failed: debug_assert!(false) *)

(* ---------- scripts (property C10, `fill_schedule_independent`) ---------- *)
Inductive brop :=
  | OFill
  | OReadBits (tbits num : Z)
  | OConsume (num : Z)
  | OTake (num : Z).     (* let v = peek(num); consume(num)?; v   -- as in get_copy_distance *)

(* what a caller can see of a reader state without looking above `nbits`:
   the bit count, the bytes not yet taken from the reader, and the valid bits *)
Definition observe (r : t) : Z * list Z * Z := (nbits r, data r, (buffer r) mod 2 ^ (nbits r)).

Definition step (r : t) (o : brop) : res (list Z * t) :=
  match o with
  | OFill => let* r' := fill r in Ok ([], r')
  | OReadBits tb n => let* '(v, r') := read_bits r tb n in Ok ([v], r')
  | OConsume n => let* r' := consume r n in Ok ([], r')
  | OTake n => let* v := peek r n in let* r' := consume r n in Ok ([v], r')
  end.

(* values delivered so far (most recent first) and the outcome: the final state or the first failure *)
Fixpoint run_from (r : t) (ops : list brop) (acc : list Z) : list Z * res t :=
  match ops with
  | [] => (acc, Ok r)
  | o :: tl => match step r o with
               | Ok (vs, r') => run_from r' tl (vs ++ acc)
               | Err e => (acc, Err e)
               | Panic p => (acc, Panic p)
               | OutOfFuel => (acc, OutOfFuel)
               end
  end.

Definition run (d s : list Z) (ops : list brop) : list Z * res (Z * list Z * Z) :=
  let '(vs, r) := run_from (init d s) ops [] in (rev vs, rmap observe r).
