(* Entry points of the lossless Model for the extracted oracle (uniquely named, simple argument types).
   Only composition of Model functions; no proofs. *)
From Coq Require Import ZArith NArith List Bool.
From WebP Require Import Lib.Res Lib.Arr Model.LosslessLib Model.BitReader Model.Huffman Model.LosslessTransform Model.Lossless.
Import ListNotations.
Open Scope Z_scope.
Open Scope res_scope.

Definition o_vp8l (data sched : list Z) (w h : Z) (implicit : bool) (buf : list Z) : res (list Z) :=
  Lossless.decode_frame data sched w h implicit buf.

(* BitReader script: values read, then the outcome with the full final state (buffer, nbits, bytes left) *)
Definition o_bitreader (d s : list Z) (ops : list BitReader.brop) : list Z * res (Z * Z * Z) :=
  let '(vs, r) := BitReader.run_from (BitReader.init d s) ops [] in
  (rev vs, rmap (fun r => (BitReader.buffer r, BitReader.nbits r, Z.of_nat (length (BitReader.data r)))) r).

(* n times: fill; peek_symbol; read_symbol.  Per step three numbers: peeked length (-1 = None), peeked symbol, symbol read *)
Fixpoint huff_steps (n : nat) (t : tree) (br : BitReader.t) (acc : list Z) : list Z * res unit :=
  match n with
  | O => (rev acc, Ok tt)
  | S n' =>
    match (let* br1 := BitReader.fill br in
           let* pk := peek_symbol t br1 in
           let* '(sym, br2) := read_symbol t br1 in
           Ok (pk, sym, br2)) with
    | Ok (pk, sym, br2) =>
      let '(pb, ps) := match pk with Some (b, s) => (b, s) | None => (-1, -1) end in
      huff_steps n' t br2 (sym :: ps :: pb :: acc)
    | Err e => (rev acc, Err e)
    | Panic p => (rev acc, Panic p)
    | OutOfFuel => (rev acc, OutOfFuel)
    end
  end.

Definition o_huff (lens bits : list Z) (count : Z) : res (list Z * res unit) :=
  let* t := build_implicit lens in
  Ok (huff_steps (Z.to_nat count) t (BitReader.init bits []) []).

Definition o_huff2 (zero one : Z) (bits : list Z) (count : Z) : list Z * res unit :=
  huff_steps (Z.to_nat count) (build_two_node zero one) (BitReader.init bits []) [].

Definition o_tr_predictor (w h size_bits : Z) (pdata img : list Z) : res (list Z) :=
  rmap zto_list (apply_predictor_transform (of_list img) w h size_bits (of_list pdata)).
Definition o_tr_predk (k rstart rend w : Z) (img : list Z) : res (list Z) :=
  rmap zto_list (pred_k k (of_list img) rstart rend w).
Definition o_tr_color (w size_bits : Z) (tdata img : list Z) : res (list Z) :=
  rmap zto_list (apply_color_transform (of_list img) w size_bits (of_list tdata)).
Definition o_tr_green (img : list Z) : res (list Z) :=
  rmap zto_list (apply_subtract_green_transform (of_list img)).
Definition o_tr_index (w h table_size : Z) (table img : list Z) : res (list Z) :=
  rmap zto_list (apply_color_indexing_transform (of_list img) w h table_size (of_list table)).
