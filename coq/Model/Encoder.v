(* Hand model of /repo/src/encoder.rs (the lossless VP8L encoder and the RIFF container writer), function by function.
   Conventions: every value, index and size is a Z; u8/u16/u32/u64/usize operations that a debug build checks return
   `Panic` when they would overflow; `as` casts are explicit `wrapU`; loops are structural or fuelled (`OutOfFuel`).
   Writers: a `sink` records the arguments of the successful `write` calls (std's `write_all` on a sink that accepts
   everything issues exactly one `write` per non-empty buffer and none for an empty one) and can be told to fail at
   the k-th call.  Functions that write are in the state+result monad `M state`.
   The two places where std leaves the result order unspecified are parameters / exact models:
     * BinaryHeap: modelled exactly (Model/EncoderHeap.v);
     * `sort_unstable_by_key`: the parameter `sorter` (any function returning a permutation of its input sorted by the
       key); `stable_sorter` is the instance used by the oracle when the case does not supply the order itself.
   No proofs here. *)
From Coq Require Import ZArith List Bool.
From WebP Require Import Lib.Res Lib.Arr Gen.Kernels Gen.Tables Model.EncoderHeap.
Import ListNotations.
Open Scope Z_scope.
Open Scope res_scope.

(* ------------------------------------------------------------------------------------------------ *)
(* small helpers                                                                                     *)
(* ------------------------------------------------------------------------------------------------ *)
Definition lget {A} (l : list A) (i : Z) : res A :=
  if i <? 0 then Panic PIndex else of_option (nth_error l (Z.to_nat i)) PIndex.
Definition lset {A} (l : list A) (i : Z) (v : A) : res (list A) :=
  if (0 <=? i) && (i <? zlen l) then Ok (upd l (Z.to_nat i) v) else Panic PIndex.
Definition zeros (n : nat) : list Z := repeat 0 n.

Definition u8_max := 255.
Definition u16_max := 65535.
Definition u32_max := 4294967295.
Definition i32_max := 2147483647.
Definition two64 := 18446744073709551616.
Definition two32 := 4294967296.

(* checked x + y / x - y on an unsigned type with maximum m *)
Definition cadd (m x y : Z) : res Z := if m <? x + y then Panic POverflow else Ok (x + y).
Definition csub (x y : Z) : res Z := if x - y <? 0 then Panic POverflow else Ok (x - y).

(* state + result monad *)
Definition M (S A : Type) := S -> S * res A.
Definition ret {S A} (a : A) : M S A := fun s => (s, Ok a).
Definition lift {S A} (r : res A) : M S A := fun s => (s, r).
Definition mbind {S A B} (m : M S A) (f : A -> M S B) : M S B :=
  fun s => match m s with
           | (s', Ok a) => f a s'
           | (s', Err e) => (s', Err e)
           | (s', Panic p) => (s', Panic p)
           | (s', OutOfFuel) => (s', OutOfFuel)
           end.
Notation "'let+' x ':=' m 'in' f" := (mbind m (fun x => f)) (at level 200, x pattern, m at level 100, f at level 200) : res_scope.
Notation "'let+' ' p ':=' m 'in' f" := (mbind m (fun p => f)) (at level 200, p pattern, m at level 100, f at level 200) : res_scope.
Notation "m ';;' f" := (mbind m (fun _ => f)) (at level 61, right associativity) : res_scope.

(* ------------------------------------------------------------------------------------------------ *)
(* sinks (io::Write)                                                                                  *)
(* ------------------------------------------------------------------------------------------------ *)
Record sink := { s_out : list (list Z);    (* buffers accepted so far, most recent first *)
                 s_calls : Z;              (* number of `write` calls made *)
                 s_fault : Z }.            (* index of the `write` call that fails; negative = never *)
Definition new_sink (fault : Z) : sink := {| s_out := []; s_calls := 0; s_fault := fault |}.
Definition sink_bytes (s : sink) : list Z := concat (rev (s_out s)).

(* Write::write_all(buf): no call at all for an empty buffer *)
Definition sink_write_all (bytes : list Z) : M sink unit := fun s =>
  match bytes with
  | [] => (s, Ok tt)
  | _ => if s_calls s =? s_fault s
         then ({| s_out := s_out s; s_calls := s_calls s + 1; s_fault := s_fault s |}, Err EIo)
         else ({| s_out := bytes :: s_out s; s_calls := s_calls s + 1; s_fault := s_fault s |}, Ok tt)
  end.

Fixpoint le_bytes (n : nat) (x : Z) : list Z :=
  match n with O => [] | S n' => x mod 256 :: le_bytes n' (x / 256) end.

(* ------------------------------------------------------------------------------------------------ *)
(* BitWriter                                                                                          *)
(* ------------------------------------------------------------------------------------------------ *)
Record bitwriter := { bw_sink : sink; bw_buffer : Z; bw_nbits : Z }.
Definition new_bitwriter (s : sink) : bitwriter := {| bw_sink := s; bw_buffer := 0; bw_nbits := 0 |}.

(* fn write_bits(&mut self, bits: u64, nbits: u8) *)
Definition write_bits (bits nbits : Z) : M bitwriter unit := fun w =>
  if 64 <? nbits then (w, Panic PAssert)                                (* debug_assert!(nbits <= 64) *)
  else if 64 <=? bw_nbits w then (w, Panic PShift)                       (* bits << self.nbits, u64 *)
  else
    let buffer := Z.lor (bw_buffer w) ((bits * 2 ^ bw_nbits w) mod two64) in
    let nb := bw_nbits w + nbits in
    if u8_max <? nb then ({| bw_sink := bw_sink w; bw_buffer := buffer; bw_nbits := bw_nbits w |}, Panic POverflow)
    else if 64 <=? nb then
      match sink_write_all (le_bytes 8 buffer) (bw_sink w) with
      | (s', Ok _) =>
        let nb' := nb - 64 in
        if nbits <? nb' then ({| bw_sink := s'; bw_buffer := buffer; bw_nbits := nb' |}, Panic POverflow)   (* nbits - self.nbits, u8 *)
        else
          let sh := nbits - nb' in
          let buffer' := if sh <? 64 then Z.shiftr bits sh else 0 in    (* checked_shr(..).unwrap_or(0) *)
          let w' := {| bw_sink := s'; bw_buffer := buffer'; bw_nbits := nb' |} in
          if nb' <? 64 then (w', Ok tt) else (w', Panic PAssert)          (* debug_assert!(self.nbits < 64) *)
      | (s', Err e) => ({| bw_sink := s'; bw_buffer := buffer; bw_nbits := nb |}, Err e)
      | (s', Panic p) => ({| bw_sink := s'; bw_buffer := buffer; bw_nbits := nb |}, Panic p)
      | (s', OutOfFuel) => ({| bw_sink := s'; bw_buffer := buffer; bw_nbits := nb |}, OutOfFuel)
      end
    else ({| bw_sink := bw_sink w; bw_buffer := buffer; bw_nbits := nb |}, Ok tt).

(* fn flush(&mut self).  The final `.write_all(..).unwrap()` panics when the sink fails at that call.  Inside the
   crate the BitWriter's sink is always the `Vec<u8>` that WebPEncoder::encode buffers the frame in, which never
   fails, so the panic is unreachable through the public API; it is modelled as written. *)
Definition flush : M bitwriter unit :=
  let+ _ := (fun w => if bw_nbits w mod 8 =? 0 then (w, Ok tt) else write_bits 0 (8 - bw_nbits w mod 8) w) in
  fun w =>
    if 0 <? bw_nbits w then
      match sink_write_all (firstn (Z.to_nat (bw_nbits w / 8)) (le_bytes 8 (bw_buffer w))) (bw_sink w) with
      | (s', Ok _) => ({| bw_sink := s'; bw_buffer := 0; bw_nbits := 0 |}, Ok tt)
      | (s', Err e) => ({| bw_sink := s'; bw_buffer := bw_buffer w; bw_nbits := bw_nbits w |},
                        Panic PUnwrap)
      | (s', Panic p) => ({| bw_sink := s'; bw_buffer := bw_buffer w; bw_nbits := bw_nbits w |}, Panic p)
      | (s', OutOfFuel) => ({| bw_sink := s'; bw_buffer := bw_buffer w; bw_nbits := bw_nbits w |}, OutOfFuel)
      end
    else (w, Ok tt).

(* fn write_single_entry_huffman_tree(w, symbol: u8) *)
Definition write_single_entry_huffman_tree (symbol : Z) : M bitwriter unit :=
  write_bits 1 2 ;;
  if symbol <=? 1 then write_bits 0 1 ;; write_bits symbol 1
  else write_bits 1 1 ;; write_bits symbol 8.

(* ------------------------------------------------------------------------------------------------ *)
(* build_huffman_tree                                                                                 *)
(* ------------------------------------------------------------------------------------------------ *)
Fixpoint enumerate_from {A} (i : Z) (l : list A) : list (Z * A) :=
  match l with [] => [] | x :: tl => (i, x) :: enumerate_from (i + 1) tl end.
Definition enumerate {A} (l : list A) : list (Z * A) := enumerate_from 0 l.

Definition used (freqs : list Z) : Z := zlen (filter (fun f => 0 <? f) freqs).

(* the items collected into the heap: (frequency, index) for the used symbols, in index order *)
Definition heap_items (freqs : list Z) : list item :=
  map (fun p => (snd p, wrapU 16 (fst p))) (filter (fun p => 0 <? snd p) (enumerate freqs)).

(* while nodes.len() > 1 { pop; peek_mut; push internal node; replace root } *)
Fixpoint huff_loop (fuel : nat) (n : Z) (h : list item) (ins : list (Z * Z)) : res (list item * list (Z * Z)) :=
  match fuel with
  | O => OutOfFuel
  | S fuel =>
    if 1 <? zlen h then
      let* o := heap_pop h in
      match o with
      | None => Panic PUnwrap
      | Some ((f1, i1), h1) =>
        match h1 with
        | [] => Panic PUnwrap
        | (f0, i0) :: _ =>
          let ins' := ins ++ [(i1, i0)] in
          let* f := cadd u32_max f1 f0 in
          let* id := cadd u16_max (wrapU 16 (zlen ins')) (wrapU 16 n) in
          let* id := csub id 1 in
          let* h2 := heap_replace_top h1 (f, id) in
          huff_loop fuel n h2 ins'
        end
      end
    else Ok (h, ins)
  end.

(* while let Some((node, depth)) = stack.pop(): the head of the list is the top of the stack; depth is an i32 *)
Fixpoint walk (fuel : nat) (n : Z) (ins : list (Z * Z)) (stack : list (Z * Z)) (lengths : list Z) : res (list Z) :=
  match fuel with
  | O => OutOfFuel
  | S fuel =>
    match stack with
    | [] => Ok lengths
    | (node, depth) :: st =>
      if node <? n then
        let* l' := lset lengths node (wrapU 8 depth) in            (* lengths[node] = depth as u8 *)
        walk fuel n ins st l'
      else
        let* '(lchild, rchild) := lget ins (node - n) in
        let* d1 := cadd i32_max depth 1 in
        walk fuel n ins ((rchild, d1) :: (lchild, d1) :: st) lengths
    end
  end.

(* the tree phase: heap, internal nodes, depth walk.  Result: lengths[] before limiting *)
Definition tree_lengths (freqs : list Z) : res (list Z) :=
  let n := zlen freqs in
  let* h0 := heap_from_vec (heap_items freqs) in
  let* '(h, ins) := huff_loop (S (length freqs)) n h0 [] in
  let* o := heap_pop h in
  match o with
  | None => Panic PUnwrap
  | Some ((_, root), _) => walk (S (2 * length freqs)) n ins [(root, 0)] (zeros (length freqs))
  end.

(* for &length in lengths { counts[length.min(limit) as usize] += 1 } *)
Fixpoint count_lengths (lengths : list Z) (limit : Z) (counts : list Z) : res (list Z) :=
  match lengths with
  | [] => Ok counts
  | l :: tl =>
    let i := Z.min l limit in
    let* c := lget counts i in
    let* c' := cadd u32_max c 1 in
    let* counts' := lset counts i c' in
    count_lengths tl limit counts'
  end.

(* for (i, count) in counts.iter().enumerate().skip(1).take(limit) { total += count << (limit - i) } *)
Fixpoint total_loop (cs : list Z) (i limit total : Z) : res Z :=
  match cs with
  | [] => Ok total
  | c :: tl =>
    let* sh := csub limit i in
    if 32 <=? sh then Panic PShift else
    let* t := cadd u32_max total ((c * 2 ^ sh) mod two32) in
    total_loop tl (i + 1) limit t
  end.

(* let mut i = start; while counts[i] == 0 { i -= 1 }  -- the decrement of 0 is the usize / u8 underflow panic *)
Fixpoint find_nonzero (counts : list Z) (k : nat) : res Z :=
  let* c := lget counts (Z.of_nat k) in
  if c =? 0 then match k with O => Panic POverflow | S k' => find_nonzero counts k' end
  else Ok (Z.of_nat k).

Fixpoint limit_loop (fuel : nat) (counts : list Z) (total limit : Z) : res (list Z) :=
  match fuel with
  | O => OutOfFuel
  | S fuel =>
    if 32 <=? limit then Panic PShift else
    if 2 ^ limit <? total then
      let* i0 := csub limit 1 in
      let* i := find_nonzero counts (Z.to_nat i0) in
      let* ci := lget counts i in
      let* ci' := csub ci 1 in
      let* counts := lset counts i ci' in
      let* cl := lget counts limit in
      let* cl' := csub cl 1 in
      let* counts := lset counts limit cl' in
      let* c1 := lget counts (i + 1) in
      let* c1' := cadd u32_max c1 2 in
      let* counts := lset counts (i + 1) c1' in
      let* total' := csub total 1 in
      limit_loop fuel counts total' limit
    else Ok counts
  end.

(* for &(i, frequency) in &indexes { if frequency > 0 { while counts[len] == 0 { len -= 1 } lengths[i] = len; counts[len] -= 1 } } *)
Fixpoint reassign (idx : list (Z * Z)) (counts : list Z) (len : Z) (lengths : list Z) : res (list Z) :=
  match idx with
  | [] => Ok lengths
  | (i, f) :: tl =>
    if 0 <? f then
      let* len' := find_nonzero counts (Z.to_nat len) in
      let* lengths' := lset lengths i len' in
      let* c := lget counts len' in
      let* c' := csub c 1 in
      let* counts' := lset counts len' c' in
      reassign tl counts' len' lengths'
    else reassign tl counts len lengths
  end.

(* the limiting phase; `sorter` is sort_unstable_by_key(|&(_, frequency)| frequency) *)
Definition limit_lengths (sorter : list (Z * Z) -> list (Z * Z)) (freqs lengths : list Z) (limit : Z) : res (list Z) :=
  let max_length := fold_left Z.max lengths 0 in
  if limit <? max_length then
    let* counts := count_lengths lengths limit (zeros 16) in
    let* total := total_loop (firstn (Z.to_nat limit) (skipn 1 counts)) 1 limit 0 in
    let* counts := limit_loop (S (length freqs)) counts total limit in
    reassign (sorter (enumerate freqs)) counts limit lengths
  else Ok lengths.

(* u16::reverse_bits *)
Fixpoint revbits (n : nat) (x acc : Z) : Z :=
  match n with O => acc | S n' => revbits n' (x / 2) (2 * acc + x mod 2) end.
Definition reverse_bits16 (x : Z) : Z := revbits 16 x 0.

(* one pass `for (i, &length) in lengths.iter().enumerate() { if length == len { codes[i] = ..; code += 1 } }` *)
Fixpoint assign_pass (len : Z) (lengths codes : list Z) (code : Z) : res (list Z * Z) :=
  match lengths, codes with
  | l :: lt, c :: ct =>
    if l =? len then
      let* sh := csub 16 len in
      if 16 <=? sh then Panic PShift else
      let v := Z.shiftr (reverse_bits16 (wrapU 16 code)) sh in
      let* code1 := cadd u32_max code 1 in
      let* '(ct', code') := assign_pass len lt ct code1 in
      Ok (v :: ct', code')
    else
      let* '(ct', code') := assign_pass len lt ct code in
      Ok (c :: ct', code')
  | [], _ => Ok (codes, code)
  | _ :: _, [] => Panic PIndex
  end.

(* for len in 1..=length_limit { pass; code <<= 1 } *)
Fixpoint assign_loop (k : nat) (len : Z) (lengths codes : list Z) (code : Z) : res (list Z * Z) :=
  match k with
  | O => Ok (codes, code)
  | S k' =>
    let* '(codes', code') := assign_pass len lengths codes code in
    assign_loop k' (len + 1) lengths codes' ((code' * 2) mod two32)
  end.

Definition assign_codes (lengths : list Z) (limit : Z) : res (list Z) :=
  let* '(codes, code) := assign_loop (Z.to_nat limit) 1 lengths (zeros (length lengths)) 0 in
  if 32 <=? limit then Panic PShift else
  if code =? (2 * 2 ^ limit) mod two32 then Ok codes else Panic PAssert.      (* assert_eq!(code, 2 << length_limit) *)

(* fn build_huffman_tree(frequencies, lengths, codes, length_limit) -> bool; `lengths` and `codes` are pure outputs
   (both are `fill(0)`ed before use) of the same length as `frequencies` (the two assert_eq! at the top hold for
   every caller in the crate and for the hook, which allocates them itself). *)
Definition build_huffman_tree (sorter : list (Z * Z) -> list (Z * Z)) (freqs : list Z) (limit : Z)
  : res (bool * list Z * list Z) :=
  if used freqs <=? 1 then Ok (false, zeros (length freqs), zeros (length freqs))
  else
    let* lens0 := tree_lengths freqs in
    let* lens := limit_lengths sorter freqs lens0 limit in
    let* codes := assign_codes lens limit in
    Ok (true, lens, codes).

(* a stable sort by key (insertion sort): the oracle's default instance of `sorter`.  For slices of at most 20
   elements std's sort_unstable is itself this insertion sort. *)
Fixpoint insert_by_key (x : Z * Z) (l : list (Z * Z)) : list (Z * Z) :=
  match l with
  | [] => [x]
  | y :: tl => if snd x <? snd y then x :: l else y :: insert_by_key x tl
  end.
Definition stable_sorter (l : list (Z * Z)) : list (Z * Z) := fold_left (fun acc x => insert_by_key x acc) l [].

(* a sorter that replays an externally supplied order of the indices (the order the real sort produced) *)
Definition replay_sorter (order : list Z) (l : list (Z * Z)) : list (Z * Z) :=
  map (fun i => (i, nth (Z.to_nat i) (map snd l) 0)) order.

(* is `order` a permutation of 0..n-1 along which freqs is non-decreasing? (validity of a replayed order) *)
Fixpoint sorted_by (freqs : list Z) (order : list Z) : bool :=
  match order with
  | [] => true
  | i :: tl => match tl with
               | [] => true
               | j :: _ => (nth (Z.to_nat i) freqs 0 <=? nth (Z.to_nat j) freqs 0) && sorted_by freqs tl
               end
  end.
Definition is_perm_of_range (n : nat) (order : list Z) : bool :=
  (length order =? n)%nat &&
  forallb (fun k => (count_occ Z.eq_dec order (Z.of_nat k) =? 1)%nat) (seq 0 n).
Definition valid_order (freqs order : list Z) : bool := is_perm_of_range (length freqs) order && sorted_by freqs order.

(* ------------------------------------------------------------------------------------------------ *)
(* write_huffman_tree                                                                                 *)
(* ------------------------------------------------------------------------------------------------ *)
Fixpoint position_pos (l : list Z) (i : Z) : option Z :=
  match l with [] => None | f :: tl => if 0 <? f then Some i else position_pos tl (i + 1) end.

Fixpoint count_code_lengths (lengths : list Z) (clf : list Z) : res (list Z) :=
  match lengths with
  | [] => Ok clf
  | l :: tl => let* c := lget clf l in let* c' := cadd u32_max c 1 in let* clf' := lset clf l c' in count_code_lengths tl clf'
  end.

Fixpoint write_code_length_lengths (order : list Z) (clf cll : list Z) (single : bool) : M bitwriter unit :=
  match order with
  | [] => ret tt
  | i :: tl =>
    (if 15 <? i then write_bits 0 3
     else let+ f := lift (lget clf i) in
          if f =? 0 then write_bits 0 3
          else if single then write_bits 1 3
          else let+ l := lift (lget cll i) in write_bits l 3) ;;
    write_code_length_lengths tl clf cll single
  end.

Fixpoint write_lengths (lengths clc cll : list Z) : M bitwriter unit :=
  match lengths with
  | [] => ret tt
  | len :: tl =>
    let+ c := lift (lget clc len) in
    let+ l := lift (lget cll len) in
    write_bits c l ;; write_lengths tl clc cll
  end.

(* fn write_huffman_tree(w, frequencies, lengths, codes); returns the filled lengths and codes *)
Definition write_huffman_tree (sorter : list (Z * Z) -> list (Z * Z)) (freqs : list Z) : M bitwriter (list Z * list Z) :=
  let+ '(ok, lengths, codes) := lift (build_huffman_tree sorter freqs 15) in
  if negb ok then
    let symbol := match position_pos freqs 0 with Some i => i | None => 0 end in
    write_single_entry_huffman_tree (wrapU 8 symbol) ;; ret (lengths, codes)
  else
    let+ clf := lift (count_code_lengths lengths (zeros 16)) in
    let+ '(ok2, cll, clc) := lift (build_huffman_tree sorter clf 7) in
    let single := negb ok2 in
    write_bits 0 1 ;;
    write_bits (19 - 4) 4 ;;
    write_code_length_lengths encoder_CODE_LENGTH_ORDER clf cll single ;;
    (if zlen lengths =? 256 then write_bits 1 1 ;; write_bits 3 3 ;; write_bits 254 8
     else if zlen lengths =? 280 then write_bits 0 1
     else lift (Panic PUnreachable)) ;;
    (if single then ret tt else write_lengths lengths clc cll) ;;
    ret (lengths, codes).

(* ------------------------------------------------------------------------------------------------ *)
(* runs                                                                                               *)
(* ------------------------------------------------------------------------------------------------ *)
Definition pixel := (Z * Z * Z * Z)%type.
Definition pixel_eqb (p q : pixel) : bool :=
  let '(a, b, c, d) := p in let '(a', b', c', d') := q in (a =? a') && (b =? b') && (c =? c') && (d =? d').

(* while run_length < 4096 && it.peek() == Some(&pixel) { run_length += 1; it.next(); } *)
Fixpoint take_run (px : pixel) (rest : list pixel) (run : Z) : Z * list pixel :=
  match rest with
  | [] => (run, [])
  | q :: tl => if (run <? 4096) && pixel_eqb q px then take_run px tl (run + 1) else (run, rest)
  end.

Definition ainc (a : arr) (i : Z) : res arr :=
  if i <? 0 then Panic PIndex else
  match aget a (Z.to_N i) with
  | None => Panic PIndex
  | Some c => if u32_max <? c + 1 then Panic POverflow else
              match aset a (Z.to_N i) (c + 1) with Some a' => Ok a' | None => Panic PIndex end
  end.
Definition aread (a : arr) (i : Z) : res Z :=
  if i <? 0 then Panic PIndex else of_option (aget a (Z.to_N i)) PIndex.

(* the bookkeeping half of count_run, after the run has been measured *)
Definition count_run_update (run : Z) (f1 : arr) : res arr :=
  if 0 <? run then
    if run <=? 4 then ainc f1 (256 + run - 1)
    else
      let len := wrapU 16 run in
      if length_to_symbol_ok len then ainc f1 (256 + fst (length_to_symbol len)) else Panic POverflow
  else Ok f1.

(* the emitting half of write_run *)
Definition write_run_emit (run : Z) (codes1 lengths1 : arr) : M bitwriter unit :=
  if 0 <? run then
    if run <=? 4 then
      let symbol := 256 + run - 1 in
      let+ c := lift (aread codes1 symbol) in
      let+ l := lift (aread lengths1 symbol) in
      write_bits c l
    else
      let len := wrapU 16 run in
      if length_to_symbol_ok len then
        let '(symbol, extra_bits) := length_to_symbol len in
        let+ c := lift (aread codes1 (256 + symbol)) in
        let+ l := lift (aread lengths1 (256 + symbol)) in
        write_bits c l ;;
        (if 64 <=? extra_bits then lift (Panic PShift)
         else write_bits (Z.land (run - 1) (2 ^ extra_bits - 1)) extra_bits)
      else lift (Panic POverflow)
  else ret tt.

(* ------------------------------------------------------------------------------------------------ *)
(* encode_frame                                                                                       *)
(* ------------------------------------------------------------------------------------------------ *)
Inductive color := L8 | La8 | Rgb8 | Rgba8.
Definition is_color (c : color) : bool := match c with Rgb8 | Rgba8 => true | _ => false end.
Definition is_alpha (c : color) : bool := match c with La8 | Rgba8 => true | _ => false end.
Definition bytes_per_pixel (c : color) : Z := match c with L8 => 1 | La8 => 2 | Rgb8 => 3 | Rgba8 => 4 end.

Definition sub8 (a b : Z) : Z := (a - b) mod 256.            (* u8::wrapping_sub *)

(* expand to RGBA (chunks_exact drops an incomplete tail) *)
Fixpoint expand (c : color) (data : list Z) : list Z :=
  match c with
  | L8 => match data with p :: tl => p :: p :: p :: 255 :: expand c tl | _ => [] end
  | La8 => match data with p0 :: p1 :: tl => p0 :: p0 :: p0 :: p1 :: expand c tl | _ => [] end
  | Rgb8 => match data with p0 :: p1 :: p2 :: tl => p0 :: p1 :: p2 :: 255 :: expand c tl | _ => [] end
  | Rgba8 => data
  end.

(* for pixel in pixels.chunks_exact_mut(4) { pixel[0] -= pixel[1]; pixel[2] -= pixel[1] } (wrapping) *)
Fixpoint subtract_green (px : list Z) : list Z :=
  match px with
  | r :: g :: b :: a :: tl => sub8 r g :: g :: sub8 b g :: a :: subtract_green tl
  | _ => px
  end.

(* in-place predictor transform on the flat RGBA buffer.  Loop counters are carried twice: a `nat` for the structural
   recursion and the same number as an `N` for indexing (converting on every step would cost O(n) each time). *)
Definition asub (a : arr) (i j : N) : res arr :=           (* a[i] = a[i].wrapping_sub(a[j]) *)
  match aget a i, aget a j with
  | Some x, Some y => match aset a i (sub8 x y) with Some a' => Ok a' | None => Panic PIndex end
  | _, _ => Panic PIndex
  end.
(* for (c, p) in current.iter_mut().zip(prev): c becomes c.wrapping_sub(p); `k` elements remain, `cur`/`prev` are the
   flat indices of the next pair *)
Fixpoint pred_row (k : nat) (a : arr) (cur prev : N) : res arr :=
  match k with
  | O => Ok a
  | S k' => let* a' := asub a cur prev in pred_row k' a' (N.succ cur) (N.succ prev)
  end.
(* for y in (1..height).rev(): `k` rows remain, `y` is the current row (counts down to 1) *)
Fixpoint pred_rows (k : nat) (y : N) (a : arr) (row_bytes : N) : res arr :=
  match k with
  | O => Ok a
  | S k' =>
    (* pixels[(y-1)*row_bytes..][..row_bytes*2].split_at_mut(row_bytes) *)
    if ((y - 1) * row_bytes + 2 * row_bytes <=? alen a)%N then
      let* a' := pred_row (N.to_nat row_bytes) a (y * row_bytes)%N ((y - 1) * row_bytes)%N in
      pred_rows k' (y - 1)%N a' row_bytes
    else Panic PSlice
  end.
(* for i in (4..row_bytes).rev() { pixels[i] -= pixels[i - 4] }: `k` iterations remain, `i` counts down *)
Fixpoint pred_first_row (k : nat) (i : N) (a : arr) : res arr :=
  match k with
  | O => Ok a
  | S k' => let* a' := asub a i (i - 4)%N in pred_first_row k' (i - 1)%N a'
  end.
Fixpoint arr_to_list_aux (a : arr) (k : nat) (i : N) (acc : list Z) : list Z :=
  match k with O => acc | S k' => arr_to_list_aux a k' (i - 1)%N (araw a (i - 1)%N :: acc) end.
Definition arr_to_list (a : arr) : list Z := arr_to_list_aux a (N.to_nat (alen a)) (alen a) [].
Definition predictor_transform (pixels : list Z) (width height : Z) : res (list Z) :=
  let a := of_list pixels in
  let row_bytes := Z.to_N (width * 4) in
  let* a := pred_rows (Z.to_nat (height - 1)) (Z.to_N (height - 1)) a row_bytes in
  let* a := pred_first_row (N.to_nat (row_bytes - 4)) (row_bytes - 1)%N a in
  match aget a 3%N with
  | Some x => match aset a 3%N (sub8 x 255) with Some a' => Ok (arr_to_list a') | None => Panic PIndex end
  | None => Panic PIndex
  end.

Fixpoint to_pixels (l : list Z) : list pixel :=
  match l with r :: g :: b :: a :: tl => (r, g, b, a) :: to_pixels tl | _ => [] end.

(* frequency counting: `while let Some(pixel) = it.next() { ...; count_run(pixel, &mut it, &mut frequencies1) }` *)
Fixpoint count_loop (fuel : nat) (ct : color) (pixels : list pixel) (f0 f1 f2 f3 : arr) : res (arr * arr * arr * arr) :=
  match fuel with
  | O => OutOfFuel
  | S fuel =>
    match pixels with
    | [] => Ok (f0, f1, f2, f3)
    | p :: rest =>
      let '(r, g, b, a) := p in
      let* f0 := if is_color ct then ainc f0 r else Ok f0 in
      let* f1 := ainc f1 g in
      let* f2 := if is_color ct then ainc f2 b else Ok f2 in
      let* f3 := if is_alpha ct then ainc f3 a else Ok f3 in
      let '(run, rest') := take_run p rest 0 in
      let* f1 := count_run_update run f1 in
      count_loop fuel ct rest' f0 f1 f2 f3
    end
  end.

Definition seed1 (b : bool) (n : N) : arr := if b then aset' (amake n) 0%N 1 else amake n.

(* pixel emission *)
Fixpoint write_loop (fuel : nat) (ct : color) (pixels : list pixel) (c0 l0 c1 l1 c2 l2 c3 l3 : arr) : M bitwriter unit :=
  match fuel with
  | O => lift OutOfFuel
  | S fuel =>
    match pixels with
    | [] => ret tt
    | p :: rest =>
      let '(r, g, b, a) := p in
      let+ len1 := lift (aread l1 g) in
      let+ code1 := lift (aread c1 g) in
      (match ct with
       | L8 => write_bits code1 len1
       | La8 =>
         let+ len3 := lift (aread l3 a) in
         let+ code3 := lift (aread c3 a) in
         let+ n := lift (cadd u8_max len1 len3) in
         if 64 <=? len1 then lift (Panic PShift) else
         write_bits (Z.lor code1 ((code3 * 2 ^ len1) mod two64)) n
       | Rgb8 =>
         let+ len0 := lift (aread l0 r) in
         let+ len2 := lift (aread l2 b) in
         let+ code0 := lift (aread c0 r) in
         let+ code2 := lift (aread c2 b) in
         let+ n10 := lift (cadd u8_max len1 len0) in
         if (64 <=? len1) || (64 <=? n10) then lift (Panic PShift) else
         let+ n := lift (cadd u8_max n10 len2) in
         write_bits (Z.lor (Z.lor code1 ((code0 * 2 ^ len1) mod two64)) ((code2 * 2 ^ n10) mod two64)) n
       | Rgba8 =>
         let+ len0 := lift (aread l0 r) in
         let+ len2 := lift (aread l2 b) in
         let+ len3 := lift (aread l3 a) in
         let+ code0 := lift (aread c0 r) in
         let+ code2 := lift (aread c2 b) in
         let+ code3 := lift (aread c3 a) in
         let+ n10 := lift (cadd u8_max len1 len0) in
         let+ n102 := lift (cadd u8_max n10 len2) in
         if (64 <=? len1) || (64 <=? n10) || (64 <=? n102) then lift (Panic PShift) else
         let+ n := lift (cadd u8_max n102 len3) in
         write_bits (Z.lor (Z.lor (Z.lor code1 ((code0 * 2 ^ len1) mod two64)) ((code2 * 2 ^ n10) mod two64))
                           ((code3 * 2 ^ n102) mod two64)) n
       end) ;;
      let '(run, rest') := take_run p rest 0 in
      write_run_emit run c1 l1 ;;
      write_loop fuel ct rest' c0 l0 c1 l1 c2 l2 c3 l3
    end
  end.

Fixpoint repeat_m (k : nat) (m : M bitwriter unit) : M bitwriter unit :=
  match k with O => ret tt | S k' => m ;; repeat_m k' m end.

(* fn encode_frame(writer, data, width, height, color, params); the state is the BitWriter around `writer` *)
Definition encode_frame (sorter : list (Z * Z) -> list (Z * Z))
           (data : list Z) (width height : Z) (ct : color) (use_predictor : bool) : M bitwriter unit :=
  let bpp := bytes_per_pixel ct in
  (* assert_eq!((u64::from(width) * u64::from(height)).saturating_mul(bytes_per_pixel), data.len() as u64) *)
  if negb (Z.min (width * height * bpp) (two64 - 1) =? zlen data) then lift (Panic PAssert) else
  if (width =? 0) || (16384 <? width) || (height =? 0) || (16384 <? height) then lift (Err EInvalidDimensions) else
  write_bits 47 8 ;;
  write_bits (width - 1) 14 ;;
  write_bits (height - 1) 14 ;;
  write_bits (if is_alpha ct then 1 else 0) 1 ;;
  write_bits 0 3 ;;
  write_bits 5 3 ;;                                           (* subtract green: 0b101 *)
  (if use_predictor then
     write_bits 57 6 ;;                                       (* 0b111001 *)
     write_bits 0 1 ;;
     write_single_entry_huffman_tree 2 ;;
     repeat_m 4 (write_single_entry_huffman_tree 0)
   else ret tt) ;;
  write_bits 0 1 ;;
  write_bits 0 1 ;;
  write_bits 0 1 ;;
  let pixels := subtract_green (expand ct data) in
  let+ pixels := lift (if use_predictor then predictor_transform pixels width height else Ok pixels) in
  let pxs := to_pixels pixels in
  let gray := negb (is_color ct) in
  let f0 := seed1 gray 256 in
  let f1 := amake 280 in
  let f2 := seed1 gray 256 in
  let f3 := seed1 (negb (is_alpha ct)) 256 in
  let+ '(f0, f1, f2, f3) := lift (count_loop (S (length pxs)) ct pxs f0 f1 f2 f3) in
  let+ '(lengths1, codes1) := write_huffman_tree sorter (arr_to_list f1) in
  let+ '(lengths0, codes0, lengths2, codes2) :=
    (if is_color ct then
       let+ '(l0, c0) := write_huffman_tree sorter (arr_to_list f0) in
       let+ '(l2, c2) := write_huffman_tree sorter (arr_to_list f2) in
       ret (l0, c0, l2, c2)
     else
       write_single_entry_huffman_tree 0 ;;
       write_single_entry_huffman_tree 0 ;;
       ret (zeros 256, zeros 256, zeros 256, zeros 256)) in
  let+ '(lengths3, codes3) :=
    (if is_alpha ct then write_huffman_tree sorter (arr_to_list f3)
     else if use_predictor then write_single_entry_huffman_tree 0 ;; ret (zeros 256, zeros 256)
     else write_single_entry_huffman_tree 255 ;; ret (zeros 256, zeros 256)) in
  write_single_entry_huffman_tree 1 ;;
  write_loop (S (length pxs)) ct pxs (of_list codes0) (of_list lengths0) (of_list codes1) (of_list lengths1)
             (of_list codes2) (of_list lengths2) (of_list codes3) (of_list lengths3) ;;
  flush.

(* run encode_frame on a fresh BitWriter over a sink failing at `fault` *)
Definition run_encode_frame sorter (fault : Z) data width height ct use_predictor : sink * res unit :=
  let '(w, r) := encode_frame sorter data width height ct use_predictor (new_bitwriter (new_sink fault)) in
  (bw_sink w, r).

(* ------------------------------------------------------------------------------------------------ *)
(* container                                                                                          *)
(* ------------------------------------------------------------------------------------------------ *)
Definition chunk_size_checked (inner_bytes : Z) : res Z :=
  if chunk_size_ok inner_bytes then Ok (chunk_size inner_bytes) else Panic POverflow.

Definition ascii (s : list Z) := s.
Definition fourcc_RIFF := [82; 73; 70; 70].
Definition fourcc_WEBP := [87; 69; 66; 80].
Definition fourcc_VP8L := [86; 80; 56; 76].
Definition fourcc_VP8X := [86; 80; 56; 88].
Definition fourcc_ICCP := [73; 67; 67; 80].
Definition fourcc_EXIF := [69; 88; 73; 70].
Definition fourcc_XMP := [88; 77; 80; 32].

(* fn write_chunk(w, name, data) *)
Definition write_chunk (name data : list Z) : M sink unit :=
  sink_write_all name ;;
  sink_write_all (le_bytes 4 (wrapU 32 (zlen data))) ;;
  sink_write_all data ;;
  if Z.rem (zlen data) 2 =? 1 then sink_write_all [0] else ret tt.

Definition is_empty (l : list Z) : bool := match l with [] => true | _ => false end.

(* WebPEncoder::encode.  The frame is encoded into a Vec (a sink that never fails) first. *)
Definition encode (sorter : list (Z * Z) -> list (Z * Z)) (data : list Z) (width height : Z) (ct : color)
           (use_predictor : bool) (icc exif xmp : list Z) : M sink unit :=
  match run_encode_frame sorter (-1) data width height ct use_predictor with
  | (_, Err e) => lift (Err e)
  | (_, Panic p) => lift (Panic p)
  | (_, OutOfFuel) => lift OutOfFuel
  | (fs, Ok _) =>
    let frame := sink_bytes fs in
    if is_empty icc && is_empty exif && is_empty xmp then
      sink_write_all fourcc_RIFF ;;
      let+ cs := lift (chunk_size_checked (zlen frame)) in
      let+ sz := lift (cadd u32_max cs 4) in
      sink_write_all (le_bytes 4 sz) ;;
      sink_write_all fourcc_WEBP ;;
      write_chunk fourcc_VP8L frame
    else
      let+ cs := lift (chunk_size_checked (zlen frame)) in
      let+ total := lift (cadd u32_max 22 cs) in
      let+ total := (if is_empty icc then ret total
                     else let+ c := lift (chunk_size_checked (zlen icc)) in lift (cadd u32_max total c)) in
      let+ total := (if is_empty exif then ret total
                     else let+ c := lift (chunk_size_checked (zlen exif)) in lift (cadd u32_max total c)) in
      let+ total := (if is_empty xmp then ret total
                     else let+ c := lift (chunk_size_checked (zlen xmp)) in lift (cadd u32_max total c)) in
      let flags := (if is_empty xmp then 0 else 4) + (if is_empty exif then 0 else 8)
                   + (if is_alpha ct then 16 else 0) + (if is_empty icc then 0 else 32) in
      sink_write_all fourcc_RIFF ;;
      sink_write_all (le_bytes 4 total) ;;
      sink_write_all fourcc_WEBP ;;
      let+ w1 := lift (csub width 1) in
      let+ h1 := lift (csub height 1) in
      let vp8x := [flags] ++ [0; 0; 0] ++ firstn 3 (le_bytes 4 w1) ++ firstn 3 (le_bytes 4 h1) in
      write_chunk fourcc_VP8X vp8x ;;
      (if is_empty icc then ret tt else write_chunk fourcc_ICCP icc) ;;
      write_chunk fourcc_VP8L frame ;;
      (if is_empty exif then ret tt else write_chunk fourcc_EXIF exif) ;;
      (if is_empty xmp then ret tt else write_chunk fourcc_XMP xmp)
  end.

Definition run_encode sorter (fault : Z) data width height ct use_predictor icc exif xmp : sink * res unit :=
  encode sorter data width height ct use_predictor icc exif xmp (new_sink fault).
