(* The GLUE of the decoder over the FILE reader: src/decoder.rs :: read_image (non-animated files) with every call of the
   required methods of `R: BufRead + Seek` counted and one injected failure (property C10).

   Model/ReadImage.v states read_image over in-memory windows (no I/O); Model/ContainerIO.v states the container layer over
   the reader state rstate = {r_data; r_pos; r_calls; r_sched; r_fail_at; r_fail_eof}.  This file states read_image over
   that SAME reader state (its monad M, its primitives read_exact / seek_start), so `WebPDecoder::new` followed by
   `read_image` is one run of one reader with one call counter.

   How the payload decoders reach the reader (std `library/std/src/io/mod.rs`, checked in the rust-src of the toolchain):
     range_reader(&mut self.r, a..b)   r.seek(SeekFrom::Start(a))?  -- ONE call -- then (&mut R).take(b - a): no call.
                                       `b - a` is a u64 subtraction evaluated after the seek.
     Take<&mut R> :: read(buf)         `if self.limit == 0 { return Ok(0) }` -- NO call on R once the limit is used up --
                                       else ONE R::read(&mut buf[..min(len, limit)]); limit -= n
     Take<&mut R> :: read_exact(buf)   not overridden: std default_read_exact over Take::read
                                       (`while !buf.is_empty() { match self.read(buf) { Ok(0) => break, Ok(n) => advance,
                                       Err(e) => return Err(e) } }`, then UnexpectedEof when the buffer is not full).
                                       With lim = the limit: when buf.len() <= lim this is exactly R's read_exact (every
                                       request is <= the limit left); otherwise the calls are those of a read_exact of lim
                                       bytes, then Take::read answers Ok(0) without a call: UnexpectedEof.  [take_read_exact]
     read_u8 / read_u16 / read_u24     byteorder-lite: read_exact of 1 / 2 / 3 bytes
     Take<&mut R> :: read_to_end(vec)  not overridden: std default_read_to_end(self, vec, None) with vec = Vec::new():
                                       a 32-byte probe read through Take::read (no call when the limit is 0; `Ok(0)` = done;
                                       else the Vec holds the n bytes, capacity max(8, n)); then `loop`: when len == capacity
                                       try_reserve(32) (RawVec::grow_amortized: capacity := max(2 * capacity, len + 32, 8)),
                                       one Take::read_buf of min(capacity - len, max_read_size) bytes -- NO call when the
                                       limit is 0, else ONE R::read of min(that, limit) bytes (R::read_buf is the default
                                       default_read_buf -> R::read on the initialised cursor) -- 0 bytes = done;
                                       max_read_size starts at 8192 and doubles after a completely filled request that was
                                       >= max_read_size (the cursor is always fully initialised here).      [take_read_to_end]
     Take<&mut R> :: fill_buf()        `if self.limit == 0 { return Ok(&[]) }` -- NO call -- else ONE R::fill_buf(), clipped to
                                       the limit;  consume(n): no call.
   src/vp8.rs performs all its reads in read_frame_header (tag, magic, sizes, first partition) and init_partitions (partition
   sizes, the sized partitions, read_to_end for the last one), interleaved with header parsing (a header error met before
   init_partitions means the later reads are never made); the macroblock loop does no I/O.  [vp8_read_frame_header_io] is
   the text of Model.Vp8Parse.read_frame_header with each read replaced by the corresponding reader operation; the field
   v_r of the decoder state is kept as a ghost copy of what the limited reader can still deliver, so that the state is
   literally the one of the pure model.
   The lossless decoder (VP8L chunk, lossless ALPH) is Model.LosslessIO (the whole decoder over a reader whose fill_buf
   fails once).  Its reader state cannot be instantiated with the file reader, so [ll_take_decode] is an adapter: it runs
   LosslessIO on the bytes the limited reader can deliver, with the window list induced by the file reader's schedule from
   the current call index on, and maps call indices k_file = k0 + k_bitreader.  The BitReader calls fill_buf also when the
   limit is used up; those calls never reach the file reader (see above), they are the calls that see no data when the
   whole chunk is inside the file, and once the data is used up it stays so: they form a suffix of the BitReader's calls.
   m = the number of BitReader calls that reach the file reader is found by bisection (a LosslessIO run with the fault at
   call j stops in exactly the state call j sees).

   Result of read_image_io: (result, the caller's buffer when the call succeeded, reader state with the call counter).
   Modelled with the same repairs as Model/ReadImage.v.  No proofs in this file. *)
From Coq Require Import ZArith List Bool.
From WebP Require Import Lib.Res Model.Container Model.ContainerIO.
From WebP Require Gen.Kernels Lib.Arr Model.LosslessLib Model.BitReader Model.BitReaderIO Model.Lossless Model.LosslessIO Model.ArithDec Model.Vp8Parse
  Model.Vp8Frame Model.Vp8Recon Model.Vp8Decode Model.Yuv Model.Alpha Model.Still Model.ReadImage Spec.Alpha.
Import ListNotations.
Open Scope Z_scope.
Open Scope io_scope.


(* ---------------------------------------------------------------------------------------------- *)
(* Take<&mut R>                                                                                     *)
(* ---------------------------------------------------------------------------------------------- *)
(* what a Take with limit [lim] over the reader can still deliver (never a call; used for ghost state only) *)
Definition ghost (lim : Z) : M (list Z) := fun s => (IOk (takez lim (remaining s)), s).

(* Take::read_exact of n bytes with the limit at lim; on success the limit has decreased by the number of bytes read
   (`self.limit -= n as u64` in Take::read), written `lim - len bytes` by the callers *)
Definition take_read_exact (lim n : Z) : M (list Z) :=
  if n <=? lim then read_exact n else let! _ := read_exact lim in fail XEof.

(* the `loop` of default_read_to_end: lim = Take's limit, vlen / cap = the Vec's length and capacity, maxrd = max_read_size,
   racc = the Vec's contents reversed.  Fuel: every iteration that continues has read at least one byte. *)
Fixpoint rte_loop (fuel : nat) (lim vlen cap maxrd : Z) (racc : list Z) : M (list Z) :=
  match fuel with
  | O => fun s => (IOutOfFuel, s)
  | S fuel' =>
      let cap := if vlen =? cap then Z.max (Z.max (2 * cap) (vlen + 32)) 8 else cap in
      let buf_len := Z.min (cap - vlen) maxrd in
      if lim <=? 0 then ret (rev_tr racc) else                    (* Take::read_buf: limit == 0 => Ok(()) without a call *)
      let! got := read_call (Z.min buf_len lim) in
      match got with
      | [] => ret (rev_tr racc)                                   (* bytes_read == 0 *)
      | _ :: _ =>
          let n := len got in
          let maxrd := if (maxrd <=? buf_len) && (n =? buf_len) then 2 * maxrd else maxrd in
          rte_loop fuel' (lim - n) (vlen + n) cap maxrd (rev_append got racc)
      end
  end.

(* Take::read_to_end(&mut Vec::new()) *)
Definition take_read_to_end (lim : Z) : M (list Z) :=
  if lim <=? 0 then ret [] else                                   (* small_probe_read: Take::read answers Ok(0), no call *)
  let! got := read_call (Z.min 32 lim) in
  match got with
  | [] => ret []
  | _ :: _ =>
      let n := len got in
      fun s => rte_loop (S (length (remaining s))) (lim - n) n (Z.max 8 n) 8192 (rev_append got []) s
  end.

(* decoder.rs::range_reader: the limit of the Take it returns *)
Definition range_reader_io (range : Z * Z) : M Z :=
  let! _ := seek_start (fst range) in
  lift (sub_u64 (snd range) (fst range)).

(* ---------------------------------------------------------------------------------------------- *)
(* Vp8Decoder over Take<&mut R>                                                                     *)
(* ---------------------------------------------------------------------------------------------- *)
Fixpoint init_sized_partitions_io (k : nat) (i : Z) (sizes : list Z) (lim : Z) (parts : list ArithDec.Dec)
  : M (Z * list ArithDec.Dec) :=
  match k with
  | O => ret (lim, parts)
  | S m =>
      let size := Vp8Parse.le24 (firstn 3 sizes) in
      let! bytes := take_read_exact lim size in
      let lim := lim - len bytes in
      let! d := lift (ArithDec.init (ArithDec.chunks_of bytes) size) in
      let! parts1 := lift (Vp8Parse.set_idx parts i d) in
      init_sized_partitions_io m (i + 1) (skipn 3 sizes) lim parts1
  end.

Definition init_partitions_io (lim : Z) (v : Vp8Parse.Vp8) (n : Z) : M Vp8Parse.Vp8 :=
  let! '(lim, parts) :=
    (if 1 <? n then
       let! sizes := take_read_exact lim (3 * n - 3) in
       init_sized_partitions_io (Z.to_nat (n - 1)) 0 sizes (lim - len sizes) (Vp8Parse.v_partitions v)
     else ret (lim, Vp8Parse.v_partitions v)) in
  let! r := take_read_to_end lim in
  let size := Z.of_nat (length r) in
  let! d := lift (ArithDec.init (ArithDec.chunks_of r) size) in
  let! idxn := lift (ArithDec.usize_sub n 1) in
  let! parts1 := lift (Vp8Parse.set_idx parts idxn d) in
  ret (Vp8Parse.set_partitions (Vp8Parse.set_r v []) parts1).

(* Model.Vp8Parse.read_frame_header, reads through the Take; [lim] = the Take's limit when the function is entered *)
Definition vp8_read_frame_header_io (lim : Z) (v : Vp8Parse.Vp8) : M Vp8Parse.Vp8 :=
  let! t := take_read_exact lim 3 in
  let lim := lim - len t in
  let! r := ghost lim in
  let tag := Vp8Parse.le24 t in
  let keyframe := Z.land tag 1 =? 0 in
  let f := Vp8Parse.mkFI (Vp8Parse.fi_width (Vp8Parse.v_frame v)) (Vp8Parse.fi_height (Vp8Parse.v_frame v)) keyframe (Z.land (Z.shiftr tag 1) 7)
                   (negb (Z.land (Z.shiftr tag 4) 1 =? 0)) (Vp8Parse.fi_pixel_type (Vp8Parse.v_frame v)) (Vp8Parse.fi_filter_type (Vp8Parse.v_frame v))
                   (Vp8Parse.fi_filter_level (Vp8Parse.v_frame v)) (Vp8Parse.fi_sharpness_level (Vp8Parse.v_frame v)) in
  let v := Vp8Parse.set_frame (Vp8Parse.set_r v r) f in
  let first_partition_size := Z.shiftr tag 5 in
  let! '(v, lim) :=
    (if keyframe then
       let! magic := take_read_exact lim 3 in
       let lim := lim - len magic in
       if negb (match magic with [a; b; c] => (a =? 157) && (b =? 1) && (c =? 42) | _ => false end)
       then fail (XDec EVp8MagicInvalid) else
       let! wb := take_read_exact lim 2 in
       let lim := lim - len wb in
       let! hb := take_read_exact lim 2 in
       let lim := lim - len hb in
       let! r := ghost lim in
       let w := match wb with [a; b] => a + 256 * b | _ => 0 end in
       let h := match hb with [a; b] => a + 256 * b | _ => 0 end in
       let width := Z.land w 16383 in
       let height := Z.land h 16383 in
       let v := Vp8Parse.set_frame (Vp8Parse.set_r v r) (Vp8Parse.fi_set_size (Vp8Parse.v_frame v) width height) in
       let top := Vp8Parse.init_top_macroblocks width in
       let v := Vp8Parse.set_left (Vp8Parse.set_top v top) (match top with m :: _ => m | [] => Vp8Parse.MacroBlock_default end) in
       ret (Vp8Parse.set_mbsize v ((width + 15) / 16) ((height + 15) / 16), lim)
     else ret (v, lim)) in
  let size := first_partition_size in
  let! bytes := take_read_exact lim size in
  let lim := lim - len bytes in
  let! r := ghost lim in
  let v := Vp8Parse.set_r v r in
  let! d := lift (ArithDec.init (ArithDec.chunks_of bytes) size) in
  let! '(v, d) := lift
    (if keyframe then
       Res.bind (ArithDec.read_literal d 1) (fun '(color_space, d) =>
       Res.bind (ArithDec.read_literal d 1) (fun '(pixel_type, d) =>
       let v := Vp8Parse.set_frame v (Vp8Parse.fi_set_pixel_type (Vp8Parse.v_frame v) pixel_type) in
       if negb (color_space =? 0) then Err EColorSpaceInvalid else Ok (v, d)))
     else Ok (v, d)) in
  let! '(segments_enabled, d) := lift (ArithDec.read_flag d) in
  let v := Vp8Parse.set_b (Vp8Parse.set_segments_enabled v segments_enabled) d in
  let! v := lift (if segments_enabled then Vp8Parse.read_segment_updates v else Ok v) in
  let! '(filter_type, d) := lift (ArithDec.read_flag (Vp8Parse.v_b v)) in
  let! '(filter_level, d) := lift (ArithDec.read_literal d 6) in
  let! '(sharpness_level, d) := lift (ArithDec.read_literal d 3) in
  let v := Vp8Parse.set_frame v (Vp8Parse.fi_set_filter (Vp8Parse.v_frame v) filter_type filter_level sharpness_level) in
  let! '(lf_adjust_enable, d) := lift (ArithDec.read_flag d) in
  let v := Vp8Parse.set_b v d in
  let! v := lift (if lf_adjust_enable then Vp8Parse.read_loop_filter_adjustments v else Ok v) in
  let! '(lg, d) := lift (ArithDec.read_literal (Vp8Parse.v_b v) 2) in
  let num_partitions := 2 ^ lg in
  let v := Vp8Parse.set_b v d in
  let! _ := lift (ArithDec.check d tt) in
  let v := Vp8Parse.set_num_partitions v (Kernels.wrapU 8 num_partitions) in
  let! v := init_partitions_io lim v num_partitions in
  (* no read below this line *)
  lift
    (Res.bind (Vp8Parse.read_quantization_indices v) (fun v =>
     if negb keyframe then Err EUnsupportedFeature else
     Res.bind (ArithDec.read_literal (Vp8Parse.v_b v) 1) (fun '(_, d) =>
     let v := Vp8Parse.set_b v d in
     Res.bind (Vp8Parse.update_token_probabilities v) (fun v =>
     Res.bind (ArithDec.read_literal (Vp8Parse.v_b v) 1) (fun '(mb_no_skip_coeff, d) =>
     Res.bind (if mb_no_skip_coeff =? 1 then Res.bind (ArithDec.read_literal d 8) (fun '(x, d) => Ok (Some x, d)) else Ok (None, d))
       (fun '(psf, d) =>
     let v := Vp8Parse.set_b (Vp8Parse.set_prob_skip_false v psf) d in
     Res.bind (ArithDec.check d tt) (fun _ => Ok v))))))).

(* Vp8Decoder::decode_frame(reader) with reader = a Take of limit lim: new, read_frame_header (all the I/O), then the
   macroblock loop, the filter pass and the crop on the state (Model.Vp8Frame.parse_frame_loop, Model.Vp8Recon) *)
Definition vp8_decode_frame_io (lim : Z) : M (Z * Z * list Z * list Z * list Z) :=
  let! r0 := ghost lim in
  let! v0 := lift (Vp8Parse.Vp8_new r0) in
  let! v := vp8_read_frame_header_io lim v0 in
  lift (Res.bind (Vp8Frame.parse_frame_loop v) (fun '(recs, v1) =>
        let h := Vp8Decode.recon_header v1 in
        Res.bind (Vp8Recon.decode_frame_planes h recs) (fun '(y, u, vv) =>
        Ok (Vp8Recon.rh_width h, Vp8Recon.rh_height h, y, u, vv)))).

(* ---------------------------------------------------------------------------------------------- *)
(* LosslessDecoder over Take<&mut R>: the adapter around Model.LosslessIO                            *)
(* ---------------------------------------------------------------------------------------------- *)
(* the windows of the file reader's calls c, c + 1, ..., c + n - 1 *)
Fixpoint sched_from (n : nat) (sched : Z -> Z) (c : Z) : list Z :=
  match n with
  | O => []
  | S m => window sched c :: sched_from m sched (c + 1)
  end.

Definition ll_run (d sl : list Z) (fa : option Z) (w h : Z) (implicit : bool) (buf : list Z) : res Arr.arr * BitReaderIO.iot :=
  LosslessIO.decode_frame_arr_io d sl fa w h implicit (Arr.of_list buf).

(* a window list long enough that the fault-free run never uses it up (then every call has seen its true window; a run with
   a fault makes no more calls than the fault-free one) *)
Fixpoint find_sched (fuel : nat) (n : Z) (d : list Z) (sched : Z -> Z) (k0 w h : Z) (implicit : bool) (buf : list Z)
  : option (list Z) :=
  match fuel with
  | O => None
  | S fuel' =>
      let sl := sched_from (Z.to_nat n) sched k0 in
      if BitReaderIO.calls (snd (ll_run d sl None w h implicit buf)) <=? n then Some sl
      else find_sched fuel' (2 * n) d sched k0 w h implicit buf
  end.

Definition is_nil {A} (l : list A) : bool := match l with [] => true | _ => false end.

(* does the BitReader's fill_buf call number j see at least one byte? *)
Definition call_sees_data (d sl : list Z) (w h : Z) (implicit : bool) (buf : list Z) (j : Z) : bool :=
  negb (is_nil (BitReader.data (BitReaderIO.br (snd (ll_run d sl (Some j) w h implicit buf))))).

(* least j in [lo, hi] with sees j = false, for a predicate that is true on a prefix and false from there on (hi stands for
   "false") *)
Fixpoint first_blind (fuel : nat) (lo hi : Z) (sees : Z -> bool) : Z :=
  match fuel with
  | O => lo
  | S fuel' =>
      if hi <=? lo then lo else
      let mid := (lo + hi) / 2 in
      if sees mid then first_blind fuel' (mid + 1) hi sees else first_blind fuel' lo mid sees
  end.

(* LosslessDecoder::new(take).decode_frame(w, h, implicit, buf) with take = a Take of limit lim over the file reader *)
Definition ll_take_decode (lim w h : Z) (implicit : bool) (buf : list Z) : M (list Z) := fun s =>
  let k0 := r_calls s in
  let rem := remaining s in
  let d := takez lim rem in
  let whole_chunk := lim <=? len rem in          (* the limit reaches 0 exactly when the chunk's bytes are used up *)
  match find_sched 64 (2 * len d + 64) d (r_sched s) k0 w h implicit buf with
  | None => (IOutOfFuel, s)
  | Some sl =>
      let '(out0, r0) := ll_run d sl None w h implicit buf in
      let t := BitReaderIO.calls r0 in
      (* the BitReader calls that reach the file reader *)
      let m := if whole_chunk && is_nil (BitReader.data (BitReaderIO.br r0))
               then Z.max 0 (Z.min t (first_blind 64 0 t (call_sees_data d sl w h implicit buf)))
               else Z.max 0 t in
      let fa := match r_fail_at s with
                | Some k => if (k0 <=? k) && (k <? k0 + m) then Some (k - k0) else None
                | None => None
                end in
      match fa with
      | Some j =>
          let '(out, r) := ll_run d sl (Some j) w h implicit buf in
          (match out with
           | Ok a => IOk (LosslessLib.zto_list a)
           | Err EIo => IErr (fault_err (r_fail_eof s))       (* `?` on the io::Error of fill_buf *)
           | Err e => IErr (XDec e)
           | Panic p => IPanic p
           | OutOfFuel => IOutOfFuel
           end,
           set_pos_calls s (r_pos s + (len d - len (BitReader.data (BitReaderIO.br r)))) (k0 + Z.min (BitReaderIO.calls r) m))
      | None =>
          (of_res (rmap LosslessLib.zto_list out0),
           set_pos_calls s (r_pos s + (len d - len (BitReader.data (BitReaderIO.br r0)))) (k0 + m))
      end
  end.

(* ---------------------------------------------------------------------------------------------- *)
(* extended.rs::read_alpha_chunk over a Take of limit lim                                           *)
(* ---------------------------------------------------------------------------------------------- *)
Definition read_alpha_chunk_io (lim width height : Z) : M ReadImage.alpha_chunk :=
  let! b := take_read_exact lim 1 in                         (* read_u8 *)
  let lim := lim - len b in
  let info_byte := nth_byte b 0 in
  let preprocessing := Z.shiftr (Z.land info_byte 48) 4 in
  let filtering := Z.shiftr (Z.land info_byte 12) 2 in
  let compression := Z.land info_byte 3 in
  let! pre := lift (match preprocessing with 0 => Ok false | 1 => Ok true | _ => Err EInvalidAlphaPreprocessing end) in
  let! fm := lift (match filtering with
                   | 0 => Ok Spec.Alpha.FNone | 1 => Ok Spec.Alpha.FHorizontal | 2 => Ok Spec.Alpha.FVertical
                   | 3 => Ok Spec.Alpha.FGradient
                   | _ => Panic PUnreachable
                   end) in
  let! lossless := lift (match compression with 0 => Ok false | 1 => Ok true | _ => Err EInvalidCompressionMethod end) in
  let! n := lift (ReadImage.usz (width * height)) in
  let! data :=
    (if (lossless : bool) then
       let! n4 := lift (ReadImage.usz (n * 4)) in
       let! px := ll_take_decode lim width height true (ReadImage.zeros n4) in
       ret (ReadImage.extract_green px (ReadImage.zeros n))
     else take_read_exact lim n) in
  ret {| ReadImage.ac_preprocessing := pre; ReadImage.ac_filter := fm; ReadImage.ac_data := data |}.

(* ---------------------------------------------------------------------------------------------- *)
(* read_image (non-animated)                                                                        *)
(* ---------------------------------------------------------------------------------------------- *)
Definition read_image_vp8l_m (dec : decoder) (range : Z * Z) (buf : list Z) : M (list Z) :=
  let! lim := range_reader_io range in
  if d_has_alpha dec then
    ll_take_decode lim (d_width dec) (d_height dec) false buf
  else
    let! n := lift (ReadImage.usz (d_width dec * d_height dec * 4)) in
    let! data := ll_take_decode lim (d_width dec) (d_height dec) false (ReadImage.zeros n) in
    ret (Still.drop_alpha_into data buf).

Definition read_image_vp8_m (dec : decoder) (buf : list Z) : M (list Z) :=
  match lookup KVP8 (d_chunks dec) with
  | None => fail (XDec EChunkMissing)
  | Some range =>
      let! lim := range_reader_io range in
      let! '(fw, fh, yp, up, vp) := vp8_decode_frame_io lim in
      if negb (fw =? d_width dec) || negb (fh =? d_height dec) then fail (XDec EInconsistentImageSizes) else
      if has_alpha dec then
        let! buf1 := lift (Yuv.fill_rgba (Z.to_nat fw) yp up vp buf) in
        match lookup KALPH (d_chunks dec) with
        | None => ret (ReadImage.set_opaque buf1)
        | Some arange =>
            let! alim := range_reader_io arange in
            let! ac := read_alpha_chunk_io alim (d_width dec mod 65536) (d_height dec mod 65536) in
            lift (ReadImage.alpha_loop ac fw fh buf1)
        end
      else lift (Yuv.fill_rgb (Z.to_nat fw) yp up vp buf)
  end.

(* the final contents of the caller's buffer; the animated branch (read_frame) is not modelled over the file reader *)
Definition read_image_m (dec : decoder) (buf : list Z) : M (list Z) :=
  if negb (match output_buffer_size dec with Some n => len buf =? n | None => false end)
  then fail (XDec EImageTooLarge) else
  if is_animated dec then (fun s => (IOutOfFuel, s)) else
  match lookup KVP8L (d_chunks dec) with
  | Some range => read_image_vp8l_m dec range buf
  | None => read_image_vp8_m dec buf
  end.

Definition read_image_io (dec : decoder) (buf : list Z) (s : rstate) : ires unit * option (list Z) * rstate :=
  let '(r, s') := read_image_m dec buf s in
  match r with
  | IOk b => (IOk tt, Some b, s')
  | IErr e => (IErr e, None, s')
  | IPanic p => (IPanic p, None, s')
  | IOutOfFuel => (IOutOfFuel, None, s')
  end.

(* ---------------------------------------------------------------------------------------------- *)
(* entry point of the oracle (case word `rio`)                                                      *)
(* ---------------------------------------------------------------------------------------------- *)
(* WebPDecoder::new, then read_image on a buffer of output_buffer_size() bytes all equal to [fill], on ONE reader;
   [fail_at] counts the calls from the start of `new`.  (calls after new, what read_image returned + calls after it) *)
Definition rio_eval (sched : Z -> Z) (fail_at : option Z) (d : list Z) (fill : Z)
  : ires decoder * Z * option (ires unit * option (list Z) * Z) :=
  let '(r, s1) := new (init sched fail_at d) in
  match r with
  | IOk dec =>
      let buflen := match output_buffer_size dec with Some k => k | None => 0 end in
      let '(ri, ob, s2) := read_image_io dec (repeat fill (Z.to_nat buflen)) s1 in
      (r, r_calls s1, Some (ri, ob, r_calls s2))
  | _ => (r, r_calls s1, None)
  end.
