(* Model/Vp8Decode.v -- the top of the VP8 key-frame decoder: `Vp8Decoder::decode_frame` = `Vp8Decoder::new` +
   `decode_frame_` (src/vp8.rs), as the composition of the two halves that are modelled separately:

     pub fn decode_frame(r: R) -> Result<Frame, DecodingError> { let decoder = Self::new(r); decoder.decode_frame_() }

     fn decode_frame_(mut self) -> Result<Frame, DecodingError> {
         self.read_frame_header()?;
         for mby .. { for mbx .. {                                       -- Model.Vp8Frame.parse_frame: new, header, and the
             read_macroblock_header / read_residual_data | skipped          PARSING side of the loop; hands on, per macroblock
             self.intra_predict_luma(..); self.intra_predict_chroma(..);    in raster order, the MacroBlock pushed to
             self.macroblocks.push(mb); } .. }                              self.macroblocks and the [i32; 384] residuals
         if self.frame.filter_level != 0 { .. self.loop_filter(mbx, mby, &mb) .. }
         crop_plane(ybuf ..); crop_plane(ubuf ..); crop_plane(vbuf ..);  -- Model.Vp8Recon.decode_frame_planes: prediction into
         Ok(self.frame)                                                     the planes per macroblock, filter pass, crop
     }

   The two halves interleave per macroblock in the Rust text; they touch disjoint state (parsing: the readers `b`,
   `partitions`, the contexts `top`, `left`; reconstruction: `frame.{y,u,v}buf`, `top_border`, `left_border`,
   `macroblocks`) and the only data flowing from the first to the second are `mb`, `blocks` and header fields that the
   loop never writes, so "all parsing, then all reconstruction" is the same computation EXCEPT for the order in which
   a failure is noticed: a parsing error in macroblock k is returned after macroblocks < k have been reconstructed.
   Reconstruction never fails with `Err`; what could differ is a *panic* of the reconstruction of an earlier
   macroblock masking a later parsing error.  The composition below returns the parsing failure in that case.  (For
   streams the reference decodes no failure occurs at all: Proofs/VP8_decode_main.v.)

   What `decode_frame_` reads of the decoder state for the reconstruction (cf. the recording hook
   `verif_recon::header_copy` in the repository): mbwidth, mbheight, frame.width, frame.height, frame.filter_type,
   frame.filter_level, frame.sharpness_level, segments_enabled, segment[i].delta_values / .loopfilter_level,
   ref_delta, mode_delta (frame.keyframe is true whenever the loop is reached: read_frame_header rejects inter
   frames) = Model.Vp8Recon.rhdr_of_vp8 of the decoder state.  The state used is the one AFTER the loop, as in the
   Rust text for the filter pass and the crop (the loop does not write these fields).

   Result: `Frame { width, height, ybuf, ubuf, vbuf, .. }` as the tuple (width, height, Y, U, V) -- what
   `Frame::fill_rgb` / `fill_rgba` and the callers in src/decoder.rs read.  No proofs in this file. *)
From Coq Require Import ZArith List Bool.
From WebP Require Import Lib.Res Model.Vp8Parse Model.Vp8Frame Model.Vp8Recon.
Import ListNotations.
Open Scope Z_scope.
Open Scope res_scope.

(* the conversion decoder state -> the fields the reconstruction reads *)
Definition recon_header (v : Vp8) : RHdr := rhdr_of_vp8 v.

(* Vp8Decoder::decode_frame(Cursor::new(payload)) *)
Definition decode_frame (payload : list Z) : res (Z * Z * list Z * list Z * list Z) :=
  let* '(recs, v) := parse_frame payload in
  let h := recon_header v in
  let* '(y, u, vv) := decode_frame_planes h recs in
  Ok (rh_width h, rh_height h, y, u, vv).

(* ------------------------------------------------------------------------------------------------------------ *)
(* oracle entry point (ocaml/o_vp8decode.ml): status word + the Frame                                            *)
(* ------------------------------------------------------------------------------------------------------------ *)
(* (status, [width; height], Y, U, V): status 0 = Ok, an error code of Model.Vp8Parse.vp8p_err_code, 100 = panic,
   101 = out of fuel; the lists are empty unless status = 0 *)
Definition vp8d_run (payload : list Z) : Z * list Z * list Z * list Z * list Z :=
  match decode_frame payload with
  | Ok (w, h, y, u, v) => (0, [w; h], y, u, v)
  | r => (vp8f_status r, [], [], [], [])
  end.
